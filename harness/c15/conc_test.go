package c15

// Concurrent uploads: k clients PUT distinct VALID chunks to one writable chunk handler with
// write verification on. The handler's backing store is a LocalStore behind a gate that parks
// every StoreChunk call — i.e. a chunk that has been received and verified, but not written —
// until the next upload has been received and verified too (hand-over-hand), so that "verified"
// and "written" of one request are separated by the complete reception of another request.
// Oracle (back door, after all clients are done): every object in the store directory hashes to
// the ID it is stored under, and every 200 answer means that exactly the uploaded chunk is there.
//
// The hand-over is deterministic; which memory a handler reuses between requests is not the
// harness' business, but runtime-local caches (sync.Pool and the like) hand an object back to
// the next taker on the same P, so part of the cases run with GOMAXPROCS=1.

import (
	"fmt"
	"net/http"
	"os"
	"path/filepath"
	"runtime"
	"sort"
	"strings"
	"sync"
	"testing"
	"time"

	"github.com/folbricht/desync"
	"pgregory.net/rapid"

	"verifharness/internal/gen"
	"verifharness/internal/hx"
)

// ConcCase is the concurrent-upload history of a Case (Server chunk, Writable, verification on).
type ConcCase struct {
	Workers [][]ConcChunk `json:"workers"` // per client: the chunks it uploads one after the other
	Procs   int           `json:"procs"`   // GOMAXPROCS during the case; 0 = unchanged
	Gate    string        `json:"gate"`    // handover: a verified chunk is written when the next one has been verified | none
}

type ConcChunk struct {
	Seed uint64 `json:"seed"`
	Len  int    `json:"len"`
}

func init() {
	spec.Required = append(spec.Required,
		"concurrent-put:uncompressed:verify", "concurrent-put:compressed:verify", "concurrent-put:overlapped",
		"concurrent-put:via:direct", "concurrent-put:via:server", "concurrent-put:procs:1", "concurrent-put:procs:unchanged")
	spec.Rule += "; plus concurrent-upload histories: 2..8 clients each PUT 1..5 distinct valid chunks (64 B .. 256 KiB generated, 1 MiB in the enumerated grid and in thorough) to one verifying writable chunk handler " +
		"(compressed | uncompressed, direct | http.Server, GOMAXPROCS 1 | unchanged) whose store writes a verified chunk only after the next upload has been received and verified; " +
		"afterwards every stored object must hash to its name and every 200 must be backed by exactly the uploaded chunk"
	spec.Assumptions = append(spec.Assumptions,
		"concurrent uploads: the backing store is a LocalStore behind a gate that delays StoreChunk (a store may be slow); the gate releases the oldest parked call whenever a newer one arrives or no other client can arrive any more")
}

// ---------------------------------------------------------------- generator

// drawConc: 1/128 of the cases (quick) are concurrent-upload histories, 1/64 in thorough.
func drawConc(t *rapid.T) bool {
	all := true
	for i := 0; i < hx.Pick(7, 6); i++ {
		if !rapid.Bool().Draw(t, "conc") {
			all = false
		}
	}
	return all
}

// 1 MiB uploads are part of the enumerated grid in both tiers; the generated histories of the
// quick tier stay below that (the cost of a case is its bytes: about 20 ms per MiB)
var concSizes = []int{64, 700, 4096, 4096, 20000, 20000, 70000, 70000, 262144}

func genConcCase(t *rapid.T) Case {
	c := Case{Server: "chunk", Writable: true, Wire: "plain", StoreSkipVerify: true}
	c.Via = rapid.SampledFrom([]string{"direct", "server"}).Draw(t, "via")
	c.Compressed = rapid.Bool().Draw(t, "compressed")
	c.StoreUncompressed = !c.Compressed
	if rapid.IntRange(0, 3).Draw(t, "storefmt") == 0 {
		c.StoreUncompressed = c.Compressed
	}
	if rapid.IntRange(0, 3).Draw(t, "authset") == 0 {
		c.Auth = rapid.SampledFrom(authValues).Draw(t, "auth")
	}
	cc := &ConcCase{Gate: "handover"}
	if rapid.IntRange(0, 5).Draw(t, "gate") == 0 {
		cc.Gate = "none"
	}
	if rapid.Bool().Draw(t, "oneproc") {
		cc.Procs = 1
	}
	c.Seed = rapid.Uint64().Draw(t, "seed")
	k := rapid.IntRange(2, 8).Draw(t, "clients")
	budget := hx.Pick(600000, 3<<20) // bytes per case
	n := 0
	for w := 0; w < k; w++ {
		var ws []ConcChunk
		m := rapid.IntRange(1, 5).Draw(t, "uploads")
		for j := 0; j < m; j++ {
			l := rapid.SampledFrom(concSizes).Draw(t, "len")
			if hx.Thorough() && l == 262144 && rapid.Bool().Draw(t, "huge") {
				l = 1 << 20
			}
			if l > budget {
				l = 700
			}
			budget -= l
			n++
			ws = append(ws, ConcChunk{Seed: c.Seed + uint64(n), Len: l}) // distinct seeds: distinct contents
		}
		cc.Workers = append(cc.Workers, ws)
	}
	c.Conc = cc
	return c
}

// ---------------------------------------------------------------- the gated store

type gateStore struct {
	inner    desync.WriteStore
	handover bool
	mu       sync.Mutex
	parked   []chan struct{}
	active   int // clients that have not finished their list yet
	overlaps int // calls released because a later upload had been verified in the meantime
}

// eval (mu held): a newer arrival releases the older call; and when every client still at work is
// parked here, nobody else can arrive, so the oldest goes on.
func (g *gateStore) eval() {
	for len(g.parked) > 1 {
		close(g.parked[0])
		g.parked = g.parked[1:]
		g.overlaps++
	}
	if len(g.parked) > 0 && len(g.parked) >= g.active {
		close(g.parked[0])
		g.parked = g.parked[1:]
	}
}

func (g *gateStore) clientDone() {
	g.mu.Lock()
	g.active--
	g.eval()
	g.mu.Unlock()
}

func (g *gateStore) StoreChunk(c *desync.Chunk) error {
	if g.handover {
		ch := make(chan struct{})
		g.mu.Lock()
		g.parked = append(g.parked, ch)
		g.eval()
		g.mu.Unlock()
		<-ch
	}
	return g.inner.StoreChunk(c) // reads the chunk's bytes only now
}
func (g *gateStore) GetChunk(id desync.ChunkID) (*desync.Chunk, error) { return g.inner.GetChunk(id) }
func (g *gateStore) HasChunk(id desync.ChunkID) (bool, error)          { return g.inner.HasChunk(id) }
func (g *gateStore) Close() error                                      { return nil }
func (g *gateStore) String() string                                    { return g.inner.String() }

// ---------------------------------------------------------------- running

func concHandler(c Case, s desync.WriteStore) http.Handler {
	var conv desync.Converters
	if c.Compressed {
		conv = desync.Converters{desync.Compressor{}}
	}
	return desync.NewHTTPHandler(s, c.Writable, c.SkipVerifyWrite, conv, c.Auth)
}

func runConc(c Case) hx.Outcome { return runConcWith(c, concHandler) }

type concObs struct {
	Statuses [][]int  `json:"statuses"`
	Overlaps int      `json:"overlaps"`
	Files    int      `json:"files"`
	Bad      []string `json:"bad,omitempty"`
}

func runConcWith(c Case, mk func(Case, desync.WriteStore) http.Handler) (o hx.Outcome) {
	cc := c.Conc
	c.Server, c.Writable, c.SkipVerifyWrite = "chunk", true, false // what a concurrent-upload case is about
	dir := hx.Scratch("c15conc")
	defer os.RemoveAll(dir)
	served := filepath.Join(dir, "served")
	if err := os.MkdirAll(served, 0o755); err != nil {
		panic(err)
	}
	ls, err := desync.NewLocalStore(served, desync.StoreOptions{Uncompressed: c.StoreUncompressed, SkipVerify: true})
	if err != nil {
		panic(err)
	}
	gs := &gateStore{inner: ls, handover: cc.Gate != "none", active: len(cc.Workers)}
	h := mk(c, gs)

	if devNull != nil {
		old := os.Stderr
		os.Stderr = devNull
		defer func() { os.Stderr = old }()
	}
	if cc.Procs > 0 {
		old := runtime.GOMAXPROCS(cc.Procs)
		defer runtime.GOMAXPROCS(old)
	}
	var drv driver = directDriver{h}
	if c.Via == "server" {
		drv = newServerDriver(h)
	}
	stopped := false
	defer func() {
		if !stopped {
			drv.stop()
		}
	}()

	// the uploads, prepared before the clients start
	type upload struct {
		hex   string
		plain []byte
		body  []byte
		req   Req
	}
	var hdr []string
	if c.Auth != "" {
		hdr = []string{c.Auth}
	}
	ups := make([][]upload, len(cc.Workers))
	expected := map[string][]byte{}
	total := 0
	for w, list := range cc.Workers {
		for _, ch := range list {
			plain := gen.RandBytes(ch.Len, ch.Seed)
			hexid := chunkHex(plain)
			expected[hexid] = plain
			ups[w] = append(ups[w], upload{hex: hexid, plain: plain, body: encode(plain, c.Compressed),
				req: Req{Method: "PUT", Path: "/" + relChunk(hexid, ext(c.Compressed)), PClass: "well", Auth: hdr, HClass: "right", Body: "valid"}})
			total++
		}
	}

	statuses := make([][]int, len(ups))
	var wg sync.WaitGroup
	for w := range ups {
		statuses[w] = make([]int, len(ups[w]))
		wg.Add(1)
		go func(w int) {
			defer wg.Done()
			defer gs.clientDone()
			for j, u := range ups[w] {
				statuses[w][j] = drv.do(u.req, u.body, true).Status
			}
		}(w)
	}
	fin := make(chan struct{})
	go func() { wg.Wait(); close(fin) }()
	select {
	case <-fin:
	case <-time.After(5 * time.Minute): // a defect of the gate, not of the code under test
		fmt.Printf("SELFTEST-FAILURE: C15 concurrent uploads: %d clients did not finish within 5 minutes (parked %d, active %d)\n", len(ups), len(gs.parked), gs.active)
		os.Exit(3)
	}
	drv.stop()
	stopped = true

	// ---- back door
	sig := func(x string) string { return "C15:chunk:" + x }
	what := fmt.Sprintf("%d clients, %d uploads, server %s, store %s, via %s, GOMAXPROCS %d, gate %s", len(ups), total,
		map[bool]string{true: "compressed", false: "uncompressed"}[c.Compressed], map[bool]string{true: "uncompressed", false: "compressed"}[c.StoreUncompressed], c.Via, cc.Procs, cc.Gate)
	se := ext(!c.StoreUncompressed)
	stored := map[string][]byte{}
	obs := concObs{Statuses: statuses, Overlaps: gs.overlaps}
	var rels []string
	filepath.Walk(served, func(p string, info os.FileInfo, err error) error {
		if err == nil && !info.IsDir() {
			rel, _ := filepath.Rel(served, p)
			rels = append(rels, rel)
		}
		return nil
	})
	sort.Strings(rels)
	for _, rel := range rels {
		obs.Files++
		id, ok := parseChunkPath("/"+rel, se)
		if !ok {
			o.Fail(sig("other-name-modified"), "%s: the store holds %q, which is not the name of a chunk", what, rel)
			continue
		}
		raw, err := os.ReadFile(filepath.Join(served, rel))
		if err != nil {
			panic(err)
		}
		plain, ok := decode(raw, !c.StoreUncompressed)
		if !ok {
			obs.Bad = append(obs.Bad, id)
			o.Fail(sig("concurrent-put:stored-mismatch"), "%s: the object stored under %s (%d bytes) does not decode, although write verification is on", what, id, len(raw))
			continue
		}
		stored[id] = plain
		if sum := chunkHex(plain); sum != id {
			obs.Bad = append(obs.Bad, id)
			from := "nothing that was uploaded"
			if want, ok := expected[id]; ok {
				from = fmt.Sprintf("the upload of that ID had %d bytes, first difference at offset %d", len(want), firstDiff(want, plain))
			}
			o.Fail(sig("concurrent-put:stored-mismatch"), "%s: the object stored under %s (%d bytes) hashes to %s although write verification is on (%s)", what, id, len(plain), sum, from)
		}
		if _, ok := expected[id]; !ok {
			o.Fail(sig("other-name-modified"), "%s: the store holds %s, which nobody uploaded", what, id)
		}
	}
	all200 := true
	for w := range ups {
		for j, u := range ups[w] {
			if statuses[w][j] != 200 {
				all200 = false
				o.Class("concurrent-put:valid-upload-refused")
				continue
			}
			got, ok := stored[u.hex]
			switch {
			case !ok:
				o.Fail(sig("concurrent-put:ok-not-stored"), "%s: client %d upload %d of chunk %s (%d bytes) was answered 200 but the store has no such object", what, w, j, u.hex, len(u.plain))
			case string(got) != string(u.plain):
				o.Fail(sig("concurrent-put:ok-not-stored"), "%s: client %d upload %d of chunk %s was answered 200 but the stored object differs from the upload (%d vs %d bytes, first difference at offset %d)",
					what, w, j, u.hex, len(got), len(u.plain), firstDiff(u.plain, got))
			}
		}
	}

	// ---- evidence
	fmtc := func(b bool, y, n string) string {
		if b {
			return y
		}
		return n
	}
	o.Class("concurrent-put:"+fmtc(c.Compressed, "compressed", "uncompressed")+":verify", "concurrent-put:via:"+c.Via,
		"concurrent-put:procs:"+fmtc(cc.Procs == 1, "1", "unchanged"), "concurrent-put:gate:"+cc.Gate,
		fmt.Sprintf("concurrent-put:clients:%d", len(ups)))
	if gs.overlaps > 0 {
		o.Class("concurrent-put:overlapped")
	}
	var lens []string
	for _, list := range cc.Workers {
		var l []string
		for _, ch := range list {
			l = append(l, fmt.Sprint(ch.Len))
		}
		lens = append(lens, strings.Join(l, ","))
	}
	finishOutcome(&o, c, []string{"concurrent PUT lengths per client: " + strings.Join(lens, " | ")}, gs.overlaps > 0 && all200, obs)
	return o
}

func firstDiff(a, b []byte) int {
	n := len(a)
	if len(b) < n {
		n = len(b)
	}
	for i := 0; i < n; i++ {
		if a[i] != b[i] {
			return i
		}
	}
	return n
}

// ---------------------------------------------------------------- enumerated part

// concGrid: {compressed, uncompressed} x {direct, server} x GOMAXPROCS {1, unchanged} x three
// shapes of history, each built so that a later upload is never larger than an earlier one of
// another client (what a reused receive buffer would need to be overwritten in place).
func concGrid() []Case {
	shapes := [][][]int{
		{{70000, 20000}, {4096, 700}},
		{{1 << 20}, {262144}, {70000}},
		{{262144, 4096}, {262144, 700}, {70000, 64}, {70000, 64}, {20000, 700}, {20000}, {4096}, {4096}},
	}
	var out []Case
	n := uint64(0)
	for _, comp := range []bool{false, true} {
		for _, via := range []string{"direct", "server"} {
			for _, procs := range []int{1, 0} {
				for _, sh := range shapes {
					c := Case{Server: "chunk", Via: via, Writable: true, Wire: "plain", Compressed: comp, StoreUncompressed: !comp, StoreSkipVerify: true, Seed: 7000 + n*100}
					cc := &ConcCase{Procs: procs, Gate: "handover"}
					for _, w := range sh {
						var ws []ConcChunk
						for _, l := range w {
							n++
							ws = append(ws, ConcChunk{Seed: 7000 + n, Len: l})
						}
						cc.Workers = append(cc.Workers, ws)
					}
					c.Conc = cc
					out = append(out, c)
				}
			}
		}
	}
	return out
}

func TestEnumConc(t *testing.T) {
	n := 0
	for i, c := range concGrid() {
		if i%hx.Shards() != hx.Shard() {
			continue
		}
		n++
		if !hx.Case(t, spec, c) {
			return
		}
	}
	hx.AddNote("concurrent_upload_grid_cases", n)
}

// ---------------------------------------------------------------- self-test

// TestSelfConc: handlers with the defects this part is about must be reported, the real handler
// on a deterministic history must not, and the gate must let every history finish.
func TestSelfConc(t *testing.T) {
	if hx.Shard() != 0 {
		t.Skip()
	}
	fail := func(format string, a ...any) {
		fmt.Printf("SELFTEST-FAILURE: "+format+"\n", a...)
		t.Fatalf(format, a...)
	}
	base := func(via string, comp bool, procs int) Case {
		return Case{Server: "chunk", Via: via, Writable: true, Wire: "plain", Compressed: comp, StoreUncompressed: !comp, StoreSkipVerify: true,
			Conc: &ConcCase{Procs: procs, Gate: "handover", Workers: [][]ConcChunk{{{1, 70000}, {2, 700}}, {{3, 20000}, {4, 4096}}, {{5, 4096}}}}}
	}
	// a handler that receives every upload into one shared buffer and hands the store a chunk
	// that aliases it: verified, then overwritten by the next upload before it is written
	var mu sync.Mutex
	shared := make([]byte, 0, 1<<20)
	aliasing := func(c Case, s desync.WriteStore) http.Handler {
		return http.HandlerFunc(func(w http.ResponseWriter, r *http.Request) {
			id, _ := desync.ChunkIDFromString(strings.TrimSuffix(filepath.Base(r.URL.Path), cacnk))
			mu.Lock()
			buf := shared[:0]
			tmp := make([]byte, 32<<10)
			for {
				n, err := r.Body.Read(tmp)
				buf = append(buf, tmp[:n]...)
				if err != nil {
					break
				}
			}
			var conv desync.Converters
			if c.Compressed {
				conv = desync.Converters{desync.Compressor{}}
			}
			chunk, err := desync.NewChunkFromStorage(id, buf, conv, false)
			mu.Unlock()
			if err != nil {
				http.Error(w, err.Error(), 400)
				return
			}
			if err := s.StoreChunk(chunk); err != nil {
				http.Error(w, err.Error(), 500)
			}
		})
	}
	lying := func(c Case, s desync.WriteStore) http.Handler {
		return http.HandlerFunc(func(w http.ResponseWriter, r *http.Request) { w.WriteHeader(200) })
	}
	for _, via := range []string{"direct", "server"} {
		for _, procs := range []int{1, 0} {
			for _, comp := range []bool{false, true} {
				c := base(via, comp, procs)
				name := fmt.Sprintf("via %s, procs %d, compressed %v", via, procs, comp)
				if o := runConcWith(c, concHandler); o.Nontrivial == false && len(o.Violations) == 0 {
					fail("concurrent uploads, %s: the history did not overlap (observed %+v)", name, o.Observed)
				}
				if !comp { // (a verified compressed upload keeps its own decompressed copy)
					if o := runConcWith(c, aliasing); !hasSig(o, "C15:chunk:concurrent-put:stored-mismatch") {
						fail("concurrent uploads, %s: aliasing handler not reported (got %v)", name, o.Violations)
					}
				}
				o := runConcWith(c, lying)
				if !hasSig(o, "C15:chunk:concurrent-put:ok-not-stored") {
					fail("concurrent uploads, %s: 200 without storing not reported (got %v)", name, o.Violations)
				}
			}
		}
	}
	// the gate: one client, and no gate at all, finish too
	c := base("direct", false, 0)
	c.Conc.Workers = c.Conc.Workers[:1]
	if o := runConcWith(c, concHandler); len(o.Violations) > 0 {
		fail("concurrent uploads, one client: %v", o.Violations)
	}
	c = base("server", false, 0)
	c.Conc.Gate = "none"
	if o := runConcWith(c, concHandler); o.Nontrivial {
		fail("concurrent uploads without gate counted as overlapped")
	}
}

func hasSig(o hx.Outcome, sig string) bool {
	for _, v := range o.Violations {
		if v.Sig == sig {
			return true
		}
	}
	return false
}
