package c15

// Request grammar and the rapid generator. Everything a request consists of is stored
// literally in the Case (paths, header values), so a replay does not depend on this file.

import (
	"fmt"
	"strings"

	"pgregory.net/rapid"
)

// pv is one path produced by the grammar together with the name of its class.
type pv struct{ Class, Path string }

func pct(b byte) string { return fmt.Sprintf("%%%02x", b) }

// chunkPaths lists the path variants aimed at chunk h (lower-case hex) on a server using
// extension e; other is the ID of a different chunk that exists in the store.
func chunkPaths(h, other, e string) []pv {
	h4 := h[:4]
	H := strings.ToUpper(h)
	well := "/" + h4 + "/" + h + e
	ps := []pv{
		{"well", well},
		{"wrong-prefix", "/zzzz/" + h + e},
		{"wrong-prefix", "/0000/" + h + e},
		{"wrong-prefix", "/" + other[:4] + "/" + h + e},
		{"wrong-prefix", "/" + h[1:5] + "/" + h + e},
		{"no-prefix", "/" + h + e},
		{"extra-dir", "/x/" + h4 + "/" + h + e},
		{"extra-dir", "/" + h4 + "/" + h4 + "/" + h + e},
		{"wrong-suffix", "/" + h4 + "/" + h + ".caibx"},
		{"wrong-suffix", "/" + h4 + "/" + h + cacnk + cacnk},
		{"wrong-suffix", "/" + h4 + "/" + h + ".CACNK"},
		{"wrong-suffix", "/" + h4 + "/" + h + "."},
		{"wrong-suffix", "/" + h4 + "/" + h + e + ".tmp"},
		{"upper-hex", "/" + H[:4] + "/" + H + e},
		{"mixed-case", "/" + h4 + "/" + H + e},
		{"mixed-case", "/" + H[:4] + "/" + h + e},
		{"short-id", "/" + h4 + "/" + h[:63] + e},
		{"short-id", "/" + h4 + "/" + h[:62] + e},
		{"long-id", "/" + h4 + "/" + h + "0" + e},
		{"long-id", "/" + h4 + "/" + h + "00" + e},
		{"nonhex", "/" + h4 + "/" + h[:63] + "g" + e},
		{"nonhex", "/" + h4 + "/" + h[:32] + "-" + h[33:] + e},
		{"tiny", "/a"},
		{"tiny", "/abc" + e},
		{"tiny", "/ab/ab" + e},
		{"tiny", "/" + h4 + "/" + h4 + e},
		{"tiny", "/" + h4},
		{"tiny", "/" + h4 + "/"},
		{"dotdot", "/" + h4 + "/../" + h4 + "/" + h + e},
		{"dotdot", "/../" + h4 + "/" + h + e},
		{"dotdot", "/../../" + h4 + "/" + h + e},
		{"dotdot", "/../sentinel/" + h4 + "/" + h + e},
		{"dotdot", "/" + h4 + "/../../" + h4 + "/" + h + e},
		{"dotdot", well + "/.."},
		{"dotdot", well + "/../" + h + e},
		{"dotdot", "/" + h4 + "/./" + h + e},
		{"dotdot", "/./" + h4 + "/" + h + e},
		{"dotdot", "/.."},
		{"dotdot", "/../.."},
		{"encoded", "/%2e%2e/" + h4 + "/" + h + e},
		{"encoded", "/%2e%2e/%2e%2e/" + h4 + "/" + h + e},
		{"encoded", "/" + h4 + "%2f" + h + e},
		{"encoded", "/" + h4 + "%2F" + h + e},
		{"encoded", "/%2e%2e%2f%2e%2e%2f" + h4 + "/" + h + e},
		{"encoded", "/" + h4 + "/%2e%2e/%2e%2e/" + h4 + "/" + h + e},
		{"encoded", well + "%2f.."},
		{"encoded", well + "%00"},
		{"encoded", "/%zz"},
		{"encoded-benign", "/" + h4 + "/" + pct(h[0]) + h[1:] + e},
		{"double-slash", "//" + h4 + "/" + h + e},
		{"double-slash", "/" + h4 + "//" + h + e},
		{"trailing-slash", well + "/"},
		{"empty", ""},
		{"root", "/"},
		{"long", "/" + h4 + "/" + h + strings.Repeat("a", 10000) + e},
		{"long", "/" + strings.Repeat("../", 3400) + h4 + "/" + h + e},
		{"long", "/" + strings.Repeat(h4+"/", 2000) + h + e},
		{"no-slash", h4 + "/" + h + e},
		{"no-slash", "../" + h4 + "/" + h + e},
		{"query", well + "?a=b"},
		{"query", well + "?/../../x"},
		{"query", well + "#frag"},
		{"abs-uri", "http://c15.test" + well},
		{"star", "*"},
		{"backslash", "/" + h4 + "\\" + h + e},
		{"backslash", "/..\\..\\" + h4 + "/" + h + e},
		{"space", well + " "},
		{"space", " " + well},
		{"space", "/" + h4 + "/ " + h + e},
		{"ctl", "/" + h4 + "/" + h + "\x01" + e},
		{"ctl", "/" + h4 + "/\x7f" + h[1:] + e},
		{"ctl", well + "\t"},
		{"ctl", well + "\n"},
	}
	if e == "" {
		ps = append(ps, pv{"wrong-suffix", "/" + h4 + "/" + h + cacnk})
	} else {
		ps = append(ps, pv{"wrong-suffix", "/" + h4 + "/" + h}, pv{"wrong-suffix", "/" + h4 + "/" + h + ".cacn"})
	}
	return ps
}

// indexPaths lists the path variants aimed at the index called name.
func indexPaths(name string) []pv {
	return []pv{
		{"well", "/" + name},
		{"subdir", "/sub/" + name},
		{"subdir", "/x/y/" + name},
		{"subdir", "/sub/inner.caibx"},
		{"subdir", "/sub/deep.caibx"},
		{"subdir", "/sentinel/victim.caibx"},
		{"dotdot", "/../" + name},
		{"dotdot", "/../victim.caibx"},
		{"dotdot", "/../sentinel/victim.caibx"},
		{"dotdot", "/a/../../victim.caibx"},
		{"dotdot", "/sub/../../victim.caibx"},
		{"dotdot", "/a/../../" + name},
		{"dotdot", "/sub/../" + name},
		{"dotdot", "/../../../../../../../../../../etc/passwd"},
		{"dots", "/.."},
		{"dots", "/."},
		{"dots", ".."},
		{"dots", "."},
		{"dots", "/../"},
		{"dots", "/sub/.."},
		{"dots", "/..."},
		{"root", "/"},
		{"root", "///"},
		{"empty", ""},
		{"encoded", "/%2e%2e/victim.caibx"},
		{"encoded", "/..%2fvictim.caibx"},
		{"encoded", "/%2e%2e%2fvictim.caibx"},
		{"encoded", "/%2e%2e%2f%2e%2e%2fvictim.caibx"},
		{"encoded", "/sub%2finner.caibx"},
		{"encoded", "/sub%2fdeep.caibx"},
		{"encoded", "/%2e%2e"},
		{"encoded", "/%2e"},
		{"encoded", "/" + name + "%00"},
		{"encoded", "/%zz"},
		{"encoded-benign", "/" + pct(name[0]) + name[1:]},
		{"double-slash", "//" + name},
		{"double-slash", "/sub//" + name},
		{"trailing-slash", "/" + name + "/"},
		{"trailing-slash", "/" + name + "//"},
		{"trailing-slash", "/sub/"},
		{"ctl", "/c\x01tl.caibx"},
		{"ctl", "/\x7f.caibx"},
		{"ctl", "/a\tb.caibx"},
		{"ctl", "/a\nb.caibx"},
		{"ctl", "/" + name + "\x1b[2J"},
		{"long", "/" + strings.Repeat("a", 10000)},
		{"long", "/" + strings.Repeat("../", 3400) + name},
		{"long", "/" + strings.Repeat("a", 255)},
		{"long", "/" + strings.Repeat("a", 256)},
		{"no-slash", name},
		{"no-slash", "../victim.caibx"},
		{"no-slash", "sub/" + name},
		{"dir-name", "/sub"},
		{"dir-name", "/sentinel"},
		{"backslash", "/..\\victim.caibx"},
		{"backslash", "/sub\\inner.caibx"},
		{"query", "/" + name + "?x=/../victim.caibx"},
		{"query", "/" + name + "#frag"},
		{"abs-uri", "http://c15.test/" + name},
		{"star", "*"},
		{"space", "/a b.caibx"},
		{"space", "/" + name + " "},
		{"odd-name", "/.hidden"},
		{"odd-name", "/-rf"},
		{"odd-name", "/~"},
		{"odd-name", "/ü.caibx"},
	}
}

func swapCase(s string) string {
	b := []byte(s)
	for i, ch := range b {
		switch {
		case ch >= 'a' && ch <= 'z':
			b[i] = ch - 32
		case ch >= 'A' && ch <= 'Z':
			b[i] = ch + 32
		}
	}
	return string(b)
}

// hv is one variant of the Authorization header(s) of a request.
type hv struct {
	Class string
	Vals  []string
	Name  string // field name as written ("" = Authorization)
}

// headerVariants lists the header variants for a server whose configured value is auth
// ("" = authorization not configured: the variants are then arbitrary values).
func headerVariants(auth string) []hv {
	a := auth
	if a == "" {
		a = "Bearer abcabcabc"
	}
	vs := []hv{
		{"absent", nil, ""},
		{"right", []string{a}, ""},
		{"wrong", []string{"Bearer wrong"}, ""},
		{"wrong", []string{""}, ""},
		{"wrong-longer", []string{a + "x"}, ""},
		{"wrong-longer", []string{a + a}, ""},
		{"wrong-shorter", []string{a[:len(a)-1]}, ""},
		{"wrong-shorter", []string{a[:1]}, ""},
		{"case", []string{swapCase(a)}, ""},
		{"case", []string{strings.ToUpper(a)}, ""},
		{"case", []string{strings.ToLower(a)}, ""},
		{"whitespace", []string{" " + a}, ""},
		{"whitespace", []string{a + " "}, ""},
		{"whitespace", []string{"\t" + a + "\t"}, ""},
		{"whitespace", []string{"  " + a + "  "}, ""},
		{"inner-whitespace", []string{strings.Replace(a, " ", "  ", 1) + ""}, ""},
		{"inner-whitespace", []string{strings.Replace(a, " ", "", 1)}, ""},
		{"two", []string{"Bearer wrong", a}, ""},
		{"two", []string{a, "Bearer wrong"}, ""},
		{"two", []string{a, a}, ""},
		{"two", []string{"", a}, ""},
		{"list", []string{a + ", " + a}, ""},
		{"list", []string{"Bearer wrong, " + a}, ""},
		{"name-case", []string{a}, "authorization"},
		{"name-case", []string{a}, "AUTHORIZATION"},
		{"other-field", []string{a}, "X-Authorization"},
		{"other-field", []string{a}, "Proxy-Authorization"},
	}
	return vs
}

var methods = []string{"GET", "HEAD", "PUT", "POST", "DELETE", "PATCH", "OPTIONS"}

var authValues = []string{"Bearer abcabcabc", "Basic dXNlcjpwYXNzd29yZAo=", "x", "tok en  two", "Bearer a/b+c=="}

func genReq(t *rapid.T, c Case) Req {
	var r Req
	r.Method = rapid.SampledFrom([]string{"GET", "GET", "GET", "GET", "HEAD", "HEAD", "PUT", "PUT", "PUT", "PUT", "PUT",
		"POST", "DELETE", "PATCH", "OPTIONS", "get", "put"}).Draw(t, "method")

	// ---- path
	var ps []pv
	if c.Server == "chunk" {
		u := chunkUniverse(c.Seed)
		key := rapid.SampledFrom([]string{"P", "P", "R", "Q", "Q", "V", "N", "N", "O", "E", "Z", "X", "X"}).Draw(t, "target")
		other := "P"
		if key == "P" {
			other = "R"
		}
		r.Target = key
		ps = chunkPaths(u[key].Hex, u[other].Hex, ext(c.Compressed))
	} else {
		name := rapid.SampledFrom([]string{"present.caibx", "present.caibx", "inner.caibx", "garbage.caibx", "victim.caibx",
			"new.caibx", "new.caibx", "deep.caibx"}).Draw(t, "target")
		r.Target = name
		ps = indexPaths(name)
	}
	p := ps[0]
	if rapid.IntRange(0, 99).Draw(t, "hostilepath") >= 45 {
		p = ps[rapid.IntRange(1, len(ps)-1).Draw(t, "pathvariant")]
	}
	r.Path, r.PClass = p.Path, p.Class

	// ---- header
	hs := headerVariants(c.Auth)
	h := hs[0]
	roll := rapid.IntRange(0, 99).Draw(t, "hdr")
	switch {
	case c.Auth == "" && roll < 70:
		h = hs[0] // absent
	case c.Auth != "" && roll < 40:
		h = hs[1] // right
	default:
		h = hs[rapid.IntRange(0, len(hs)-1).Draw(t, "hdrvariant")]
	}
	r.Auth, r.HClass, r.HName = h.Vals, h.Class, h.Name

	// ---- body
	upload := strings.EqualFold(r.Method, "PUT") || r.Method == "POST" || r.Method == "PATCH"
	kinds := []string{"none", "none", "none", "none", "none", "none", "valid", "garbage"}
	if upload {
		kinds = []string{"valid", "valid", "valid", "valid", "other", "other", "garbage", "garbage", "wrongmode", "empty", "none",
			"truncated", "trailing", "flip", "other-truncated", "other-trailing", "other-trailing", "other-flip"}
	}
	r.Body = rapid.SampledFrom(kinds).Draw(t, "body")
	if strings.HasPrefix(r.Body, "other") {
		if c.Server == "chunk" {
			r.BodyObj = rapid.SampledFrom([]string{"P", "R", "Q", "N", "E"}).Draw(t, "bodyobj")
			if r.BodyObj == r.Target {
				r.Body = strings.TrimPrefix(strings.TrimPrefix(r.Body, "other"), "-")
				if r.Body == "" {
					r.Body = "valid"
				}
				r.BodyObj = ""
			}
		} else if r.Body != "other" {
			r.Body = strings.TrimPrefix(r.Body, "other-")
		}
	}
	switch r.Body {
	case "garbage", "trailing", "other-trailing":
		r.BodySeed = rapid.Uint64().Draw(t, "bodyseed")
		r.BodyLen = rapid.SampledFrom([]int{1, 7, 32, 100, 1000, 70000}).Draw(t, "bodylen")
	case "flip", "other-flip":
		r.BodySeed = rapid.Uint64().Draw(t, "bodyseed")
	}
	if c.Server == "index" && (r.Body == "valid" || r.Body == "truncated" || r.Body == "trailing" || r.Body == "flip") {
		if r.BodySeed == 0 {
			r.BodySeed = rapid.Uint64().Draw(t, "bodyseed")
		}
	}
	return r
}

func genCase(t *rapid.T) Case {
	if drawCLI(t) { // a small share of the cases runs against the real CLI process (clicase_test.go)
		return genCLICase(t)
	}
	if drawConc(t) { // and a small share are concurrent-upload histories (conc_test.go)
		return genConcCase(t)
	}
	var c Case
	c.Server = rapid.SampledFrom([]string{"chunk", "chunk", "chunk", "index", "index"}).Draw(t, "server")
	c.Via = rapid.SampledFrom([]string{"direct", "direct", "server"}).Draw(t, "via")
	c.Writable = rapid.Bool().Draw(t, "writable")
	if c.Server == "chunk" {
		c.SkipVerifyWrite = rapid.Bool().Draw(t, "skipverifywrite")
		c.Compressed = rapid.Bool().Draw(t, "compressed")
		c.StoreUncompressed = !c.Compressed
		if rapid.IntRange(0, 3).Draw(t, "storefmt") == 0 {
			c.StoreUncompressed = c.Compressed
		}
		c.StoreSkipVerify = rapid.IntRange(0, 2).Draw(t, "storeskipverify") > 0 // the CLI default is true
		c.Wire = rapid.SampledFrom([]string{"plain", "plain", "cli"}).Draw(t, "wire")
		if rapid.IntRange(0, 3).Draw(t, "digest") == 3 {
			c.Digest = "sha256"
		}
	} else {
		c.Wire = "plain"
	}
	if rapid.IntRange(0, 9).Draw(t, "authset") < 6 {
		c.Auth = rapid.SampledFrom(authValues).Draw(t, "auth")
	}
	c.Seed = uint64(rapid.IntRange(0, 15).Draw(t, "seed")) // 16 universes: worlds are cached per seed
	defer setDigest(c.Digest)()                            // chunk IDs in the generated paths are those of the configured digest
	n := rapid.IntRange(1, 6).Draw(t, "nreq")
	for i := 0; i < n; i++ {
		c.Reqs = append(c.Reqs, genReq(t, c))
	}
	return c
}
