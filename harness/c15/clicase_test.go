package c15

// CLI part: the same request grammar and the same oracle clauses (judge), but the requests go
// over real TCP to a `desync chunk-server` / `desync index-server` process started from the
// freshly built binary, so that the command's own option / environment / config plumbing
// (--authorization, DESYNC_HTTP_AUTH, -w, --skip-verify-write, -u, store options from the
// config file, --log) is inside the checked path.
//
// What cannot be observed inside a foreign process — whether net/http hands the request to the
// handler at all, and with which path and Authorization values — is taken from a shadow: an
// in-process http.Server + ServeMux("/") with a handler that does nothing, fed the same bytes.
// No store-call record exists for a CLI case; effects are judged from the snapshots alone.

import (
	"bytes"
	"encoding/json"
	"fmt"
	"net/http"
	"os"
	"path/filepath"
	"runtime"
	"strconv"
	"strings"
	"syscall"
	"testing"

	"pgregory.net/rapid"

	"verifharness/internal/hx"
)

// CLICase says how the configuration of the Case is handed to the command.
type CLICase struct {
	AuthVia   string `json:"auth_via"`             // flag | env | both (flag = Case.Auth wins over env = OtherAuth) | none
	OtherAuth string `json:"other_auth,omitempty"` // both: the value of DESYNC_HTTP_AUTH
	CfgVia    string `json:"cfg_via,omitempty"`    // where the store options of the served directory come from: "" (defaults) | flag (--config) | home ($HOME/.config/desync/config.json)
	Long      bool   `json:"long_flags"`           // --store/--writeable/--uncompressed/--listen/--authorization=v instead of -s/-w/-u/-l/--authorization v
	Log       string `json:"log,omitempty"`        // "" | file | stderr: request logging wrapper around the handler
}

func init() {
	if os.Getenv("VERIF_DESYNC_BIN") == "" {
		return
	}
	spec.Required = append(spec.Required,
		"via:cli", "cli:chunk-server", "cli:index-server",
		"cli:auth:flag", "cli:auth:env", "cli:auth:both", "cli:auth:none",
		"cli:writable", "cli:readonly", "cli:verify-write-on", "cli:verify-write-off", "cli:compressed", "cli:uncompressed",
		"cli:cfg:flag", "cli:cfg:home", "cli:flags:long", "cli:flags:short", "cli:digest:sha256", "cli:digest:sha512-256",
		"cli:digest:sha256:uncompressed:verify-write", "cli:digest:sha256:put:named-by-other-digest:refused",
		"cli:refused-without-right-value:flag", "cli:refused-without-right-value:env", "cli:refused-without-right-value:both",
		"cli:out:auth-refused", "cli:out:get-200", "cli:out:put-stored", "cli:out:readonly-put-refused",
		"cli:out:bad-upload-refused", "cli:out:unverified-upload-stored", "cli:out:bad-path-refused", "cli:out:unreached",
	)
	spec.Rule += "; with $VERIF_DESYNC_BIN: additionally cases served by a real `desync chunk-server|index-server` process " +
		"(authorization by --authorization | DESYNC_HTTP_AUTH | both | none, -w, --skip-verify-write, -u, store options by --config or $HOME config, --log), " +
		"10..30 requests of the same grammar per process over loopback TCP, same clauses; plus an enumerated grid of such configurations"
	spec.Assumptions = append(spec.Assumptions,
		"CLI cases: whether and how a request reaches the handler (URL.Path, Authorization values) is read off an in-process net/http server + ServeMux given the same bytes (the CLI binary is built with the same toolchain); store calls are not observable, effects are judged from the snapshots; a request without any response is judged by its effects only",
		"CLI cases: a server process that does not start, stop or answer within its time limit makes the run inconclusive, never a verdict")
}

// ---------------------------------------------------------------- generator

// drawCLI decides, from unbiased single-bit draws, whether the next case is a CLI case:
// 1/256 of the cases in the quick tier (about 40 server starts per 10 000 cases), 1/128 in thorough.
func drawCLI(t *rapid.T) bool {
	all := true
	for i := 0; i < hx.Pick(8, 7); i++ {
		if !rapid.Bool().Draw(t, "cli") {
			all = false
		}
	}
	return all && cliEnabled()
}

func genCLICase(t *rapid.T) Case {
	var c Case
	cl := &CLICase{}
	c.CLI, c.Via, c.Wire = cl, "cli", "cli"
	c.Server = rapid.SampledFrom([]string{"chunk", "index", "chunk"}).Draw(t, "server")
	c.Writable = rapid.Bool().Draw(t, "writable")
	if c.Server == "chunk" {
		c.SkipVerifyWrite = rapid.Bool().Draw(t, "skipverifywrite")
		c.Compressed = rapid.Bool().Draw(t, "compressed")
		c.StoreUncompressed = !c.Compressed
		if rapid.IntRange(0, 3).Draw(t, "storefmt") == 0 {
			c.StoreUncompressed = c.Compressed
		}
		c.StoreSkipVerify = rapid.IntRange(0, 2).Draw(t, "storeskipverify") > 0
		if c.StoreUncompressed {
			cl.CfgVia = rapid.SampledFrom([]string{"flag", "home"}).Draw(t, "cfgvia")
		} else {
			cl.CfgVia = rapid.SampledFrom([]string{"", "flag", "home"}).Draw(t, "cfgvia")
		}
	}
	if c.Server == "chunk" && rapid.IntRange(0, 2).Draw(t, "digest") == 2 {
		c.Digest = "sha256"
	}
	defer setDigest(c.Digest)() // chunk IDs in the generated paths are those of the configured digest
	cl.AuthVia = rapid.SampledFrom([]string{"env", "flag", "both", "none", "env"}).Draw(t, "authvia")
	if cl.AuthVia != "none" {
		c.Auth = rapid.SampledFrom(authValues).Draw(t, "auth")
	}
	if cl.AuthVia == "both" {
		cl.OtherAuth = rapid.SampledFrom(authValues).Filter(func(s string) bool { return s != c.Auth }).Draw(t, "otherauth")
	}
	cl.Long = rapid.Bool().Draw(t, "longflags")
	cl.Log = rapid.SampledFrom([]string{"", "file", "stderr"}).Draw(t, "log")
	c.Seed = uint64(rapid.IntRange(0, 15).Draw(t, "seed"))
	n := rapid.IntRange(10, 30).Draw(t, "nreq")
	for i := 0; i < n; i++ {
		r := genReq(t, c)
		// the value that lost against the flag is a wrong value like any other
		if cl.AuthVia == "both" && r.HClass == "wrong" && rapid.Bool().Draw(t, "sendenvvalue") {
			r.Auth, r.HClass = []string{cl.OtherAuth}, "env-value"
		}
		c.Reqs = append(c.Reqs, r)
	}
	return c
}

// ---------------------------------------------------------------- launching

// cliLaunchFor translates the case into command line, environment and config file.
func cliLaunchFor(c Case, w *world) cliLaunch {
	cl := c.CLI
	dir := filepath.Join(w.root, "cli") // next to outer/, not inside the snapshotted tree
	os.RemoveAll(dir)
	home := filepath.Join(dir, "home")
	for _, d := range []string{home, filepath.Join(dir, "tmp")} {
		if err := os.MkdirAll(d, 0o755); err != nil {
			panic(err)
		}
	}
	served := filepath.Join(w.outer, "served")
	l := cliLaunch{
		Dir:  filepath.Join(w.outer, "sentinel"), // a write relative to the working directory would land in the snapshot
		Env:  []string{"HOME=" + home, "TMPDIR=" + filepath.Join(dir, "tmp"), "PATH=/usr/bin:/bin", "NO_PROXY=*", "no_proxy=*"},
		Err:  filepath.Join(dir, "output.txt"),
		Long: cl.Long,
	}
	pick := func(short, long string) string {
		if cl.Long {
			return long
		}
		return short
	}
	if c.Server == "chunk" && cl.CfgVia != "" {
		cfg, _ := json.Marshal(map[string]any{"store-options": map[string]any{served: map[string]any{"uncompressed": c.StoreUncompressed}}})
		p := filepath.Join(dir, "desync-config.json")
		if cl.CfgVia == "home" {
			p = filepath.Join(home, ".config", "desync", "config.json")
		} else {
			l.Args = append(l.Args, "--config", p)
		}
		mustWrite("/", p, cfg)
	}
	if c.Digest == "sha256" && !cl.Long { // a flag of the root command: before or after the sub-command
		l.Args = append(l.Args, "--digest", "sha256")
	}
	if c.Server == "index" {
		l.Args = append(l.Args, "index-server")
	} else {
		l.Args = append(l.Args, "chunk-server")
	}
	if c.Digest == "sha256" && cl.Long {
		l.Args = append(l.Args, "--digest=sha256")
	}
	l.Args = append(l.Args, pick("-s", "--store"), served)
	if c.Writable {
		l.Args = append(l.Args, pick("-w", "--writeable"))
	}
	if c.Server == "chunk" {
		switch {
		case !c.SkipVerifyWrite:
			l.Args = append(l.Args, "--skip-verify-write=false")
		case cl.Long:
			l.Args = append(l.Args, "--skip-verify-write") // the default, spelled out
		}
		if !c.Compressed {
			l.Args = append(l.Args, pick("-u", "--uncompressed"))
		}
		if !c.StoreSkipVerify {
			l.Args = append(l.Args, "--skip-verify-read=false")
		}
	}
	switch cl.Log {
	case "file":
		l.Args = append(l.Args, "--log", filepath.Join(dir, "requests.log"))
	case "stderr":
		l.Args = append(l.Args, "--log", "-")
	}
	flagAuth := func() {
		if cl.Long {
			l.Args = append(l.Args, "--authorization="+c.Auth)
		} else {
			l.Args = append(l.Args, "--authorization", c.Auth)
		}
	}
	switch cl.AuthVia {
	case "flag":
		flagAuth()
	case "env":
		l.Env = append(l.Env, "DESYNC_HTTP_AUTH="+c.Auth)
	case "both":
		flagAuth()
		l.Env = append(l.Env, "DESYNC_HTTP_AUTH="+cl.OtherAuth)
	}
	if cliSabotage != nil {
		cliSabotage(&l)
	}
	return l
}

// ---------------------------------------------------------------- running a CLI case

// judgePhase: the tree must not change while the server starts and while it shuts down.
func judgePhase(o *hx.Outcome, c Case, phase string, a, b snap) {
	changes := diffSnap(a, b)
	if len(changes) == 0 {
		return
	}
	var outside, inside []change
	for _, ch := range changes {
		if underServed(ch.Path) {
			inside = append(inside, ch)
		} else {
			outside = append(outside, ch)
		}
	}
	if len(outside) > 0 {
		o.Fail(sigFor(c, "outside-modified"), "during %s of the server: changes outside the served directory:%s", phase, fmtChanges(outside))
	}
	if len(inside) > 0 {
		if !c.Writable {
			o.Fail(sigFor(c, "readonly-modified"), "during %s of the read-only server the tree changed:%s", phase, fmtChanges(inside))
		} else {
			o.Fail(sigFor(c, "other-name-modified"), "during %s of the server, with no request in flight, the served directory changed:%s", phase, fmtChanges(inside))
		}
	}
}

type cliObs struct {
	Args     []string `json:"args"`
	Env      []string `json:"env"`
	Exit     int      `json:"exit"`
	Signaled bool     `json:"signaled,omitempty"`
	Output   string   `json:"output,omitempty"`
	Reqs     []reqObs `json:"reqs"`
}

var nullHandler = http.HandlerFunc(func(http.ResponseWriter, *http.Request) {})

func runCLI(c Case) (o hx.Outcome) {
	if !cliEnabled() {
		cliInfra("the case needs the desync binary but $VERIF_DESYNC_BIN is not set")
	}
	if c.Server != "index" {
		c.Server = "chunk"
	}
	c.Via = "cli"
	runtime.LockOSThread() // Pdeathsig of the child is bound to the starting thread
	defer runtime.UnlockOSThread()

	w := acquireWorld(c)
	finished := false
	defer func() { w.release(c, finished) }() // runs after the server is gone
	l := cliLaunchFor(c, w)

	shadowTap := &tap{h: nullHandler}
	shadow := newServerDriver(shadowTap)
	defer shadow.stop()

	s0 := takeSnap(w.outer)
	srv := startCLI(l)
	defer srv.kill() // no-op after a regular stop; the safety net when run panics
	before := takeSnap(w.outer)
	judgePhase(&o, c, "start-up", s0, before)

	obsAll := cliObs{Args: l.Args, Env: l.Env[2:]}
	var descReqs []string
	nontrivial, refused, reachedN := false, false, 0
	for i, r := range c.Reqs {
		body, hasBody := buildBody(c, r)
		// what net/http makes of these bytes before any handler runs
		shadowTap.take()
		shadow.do(r, body, hasBody)
		s := shadowTap.take()
		s.Status, s.Body = 0, nil
		if s.Reached {
			reachedN++
		}
		resp, timedOut := wireDo("tcp", srv.addr, r, body, hasBody)
		if srv.hasExited() {
			cliInfra("desync %v exited on its own (%v) around request #%d %s %q:\n%s", l.Args, srv.werr, i, r.Method, short(r.Path), cliTail(srv.output(), 2000))
		}
		if timedOut || strings.HasPrefix(resp.Err, "dial:") {
			out := cliTail(srv.output(), 1500)
			srv.kill()
			cliInfra("request #%d %s %q to desync %v: %s (timeout=%v)\n%s", i, r.Method, short(r.Path), l.Args, resp.Err, timedOut, out)
		}
		after := takeSnap(w.outer)
		mark := len(o.Classes)
		obs, vi := judge(&o, c, i, r, body, hasBody, resp, s, nil, before, after)
		for _, cls := range o.Classes[mark:] {
			if strings.HasPrefix(cls, "digest:") {
				o.Class("cli:" + cls)
			}
			if strings.HasPrefix(cls, "out:") {
				o.Class("cli:" + cls)
				if cls == "out:auth-refused" {
					refused = true
				}
			}
		}
		if s.Reached && resp.Status == 0 {
			o.Class("cli:out:reached-no-response")
		}
		obsAll.Reqs = append(obsAll.Reqs, obs)
		if len(descReqs) < 8 {
			descReqs = append(descReqs, fmt.Sprintf("%s %s hdr=%s body=%s → %d", r.Method, r.PClass, r.HClass, r.Body, obs.Status))
		}
		if vi.hostile && vi.reached {
			nontrivial = true
		}
		before = after
	}

	exit, signaled, ok := srv.stop()
	out := srv.output()
	if !ok {
		cliInfra("desync %v did not exit within %s after SIGTERM:\n%s", l.Args, cliStopTimeout, cliTail(out, 1500))
	}
	obsAll.Exit, obsAll.Signaled, obsAll.Output = exit, signaled, cliTail(out, 600)
	judgePhase(&o, c, "shutdown", before, takeSnap(w.outer))

	// the request log, where enabled, has one line per request that got to the handler: a
	// cross-check of the shadow (a mismatch is a defect of the harness' model, not a verdict)
	if c.CLI.Log != "" && cliSabotage == nil {
		logged := out
		if c.CLI.Log == "file" {
			b, _ := os.ReadFile(filepath.Join(w.root, "cli", "requests.log"))
			logged = string(b)
		}
		if n := strings.Count(logged, ", Request: "); n != reachedN {
			cliInfra("desync %v logged %d requests, the shadow front end handed %d to its handler\n%s", l.Args, n, reachedN, cliTail(logged, 1500))
		}
	}

	cl := c.CLI
	o.Class("cli:"+c.Server+"-server", "cli:auth:"+cl.AuthVia, "cli:log:"+map[string]string{"": "off", "file": "file", "stderr": "stderr"}[cl.Log])
	flag := func(b bool, yes, no string) {
		if b {
			o.Class(yes)
		} else {
			o.Class(no)
		}
	}
	flag(c.Writable, "cli:writable", "cli:readonly")
	flag(cl.Long, "cli:flags:long", "cli:flags:short")
	if c.Server == "chunk" {
		flag(c.SkipVerifyWrite, "cli:verify-write-off", "cli:verify-write-on")
		flag(c.Compressed, "cli:compressed", "cli:uncompressed")
		flag(c.StoreUncompressed, "cli:store-uncompressed", "cli:store-compressed")
		flag(c.StoreSkipVerify, "cli:verify-read-off", "cli:verify-read-on")
		o.Class("cli:digest:" + digestName(c.Digest))
		if c.Writable && !c.SkipVerifyWrite {
			o.Class("cli:digest:" + digestName(c.Digest) + ":" + map[bool]string{true: "compressed", false: "uncompressed"}[c.Compressed] + ":verify-write")
		}
		o.Class("cli:cfg:" + map[string]string{"": "none", "flag": "flag", "home": "home"}[cl.CfgVia])
	}
	if refused {
		o.Class("cli:refused-without-right-value:" + cl.AuthVia)
	}
	if signaled || exit != 0 {
		o.Class("cli:exit:nonzero")
	} else {
		o.Class("cli:exit:0")
	}
	finishOutcome(&o, c, descReqs, nontrivial, obsAll)
	finished = true
	return o
}

// ---------------------------------------------------------------- enumerated part

// cliConfigs is the grid {chunk-server, index-server} x {flag, env, both, none} x {writable,
// read-only} (x {verify-write on/off} x {-u or not} for the chunk server).
func cliConfigs() []Case {
	var out []Case
	n := 0
	for _, via := range []string{"env", "flag", "both", "none"} {
		for _, w := range []bool{false, true} {
			mk := func(server string) Case {
				n++
				c := Case{Server: server, Via: "cli", Wire: "cli", Writable: w, StoreSkipVerify: true, Seed: uint64(2000 + n)}
				c.CLI = &CLICase{AuthVia: via, Long: n%2 == 0, Log: []string{"", "file", "stderr"}[n%3]}
				if via != "none" {
					c.Auth = authValues[n%len(authValues)]
				}
				if via == "both" {
					c.CLI.OtherAuth = authValues[(n+1)%len(authValues)]
				}
				return c
			}
			out = append(out, mk("index"))
			for _, sv := range []bool{false, true} {
				for _, comp := range []bool{false, true} {
					c := mk("chunk")
					c.SkipVerifyWrite, c.Compressed, c.StoreUncompressed = sv, comp, !comp
					if (n%3 == 0) != (!sv && !comp && w) { // a third of them, and in any case not all verifying uncompressed writable ones
						c.Digest = "sha256"
					}
					c.StoreSkipVerify = n%4 != 0
					if c.StoreUncompressed {
						c.CLI.CfgVia = []string{"flag", "home"}[n%2]
					} else {
						c.CLI.CfgVia = []string{"", "flag", "home"}[n%3]
					}
					out = append(out, c)
				}
			}
		}
	}
	return out
}

// TestEnumCLI: every CLI configuration of the grid x every header variant x {GET, HEAD, PUT} on
// well-formed paths, x every path of the grammar (right header; PUT and GET, in the quick tier
// PUT for the writable and GET for the read-only servers), x every upload body kind. One server process per configuration; the grid is dealt out to the shards.
func TestEnumCLI(t *testing.T) {
	if !cliEnabled() {
		t.Skip("VERIF_DESYNC_BIN not set")
	}
	t.Cleanup(dropWorlds)
	nreq, nsrv := 0, 0
	for ci, c := range cliConfigs() {
		if ci%hx.Shards() != hx.Shard() {
			continue
		}
		restore := setDigest(c.Digest)
		defer restore()
		u := chunkUniverse(c.Seed)
		paths := func(target string) []pv {
			if c.Server == "index" {
				return indexPaths(target)
			}
			return chunkPaths(u[target].Hex, u["R"].Hex, ext(c.Compressed))
		}
		readTarget, writeTarget := "P", "N"
		if c.Server == "index" {
			readTarget, writeTarget = "present.caibx", "new.caibx"
		}
		hvs := headerVariants(c.Auth)
		if c.CLI.AuthVia == "both" {
			hvs = append(hvs, hv{"env-value", []string{c.CLI.OtherAuth}, ""})
		}
		for _, h := range hvs {
			for _, mt := range [][2]string{{"GET", readTarget}, {"HEAD", readTarget}, {"PUT", writeTarget}} {
				c.Reqs = append(c.Reqs, Req{Method: mt[0], Path: paths(mt[1])[0].Path, PClass: "well", Target: mt[1], Auth: h.Vals, HClass: h.Class, HName: h.Name, Body: "valid", BodySeed: 78})
			}
		}
		right, rc := rightHeader(c.Auth)
		for _, mt := range [][2]string{{"GET", readTarget}, {"PUT", writeTarget}} {
			// quick tier: the path grammar goes with PUT to the writable servers and with GET to the
			// read-only ones (the library part enumerates both for every configuration)
			if !hx.Thorough() && (mt[0] == "PUT") != c.Writable {
				continue
			}
			for _, p := range paths(mt[1]) {
				c.Reqs = append(c.Reqs, Req{Method: mt[0], Path: p.Path, PClass: p.Class, Target: mt[1], Auth: right, HClass: rc, Body: "valid", BodySeed: 77})
			}
		}
		for _, kind := range []string{"valid", "garbage", "wrongmode", "empty", "none", "truncated", "trailing", "flip", "other"} {
			r := Req{Method: "PUT", Path: paths(writeTarget)[0].Path, PClass: "well", Target: writeTarget, Auth: right, HClass: rc, Body: kind, BodySeed: 79, BodyLen: 100}
			if kind == "other" && c.Server == "chunk" {
				r.BodyObj = "P"
			}
			c.Reqs = append(c.Reqs, r)
		}
		if c.Server == "chunk" {
			c.Reqs = append(c.Reqs, Req{Method: "PUT", Path: paths("X")[0].Path, PClass: "well", Target: "X", Auth: right, HClass: rc, Body: "valid"},
				Req{Method: "GET", Path: paths("X")[0].Path, PClass: "well", Target: "X", Auth: right, HClass: rc, Body: "none"})
		}
		nreq += len(c.Reqs)
		nsrv++
		if !hx.Case(t, spec, c) {
			return
		}
	}
	hx.AddNote("cli_enumerated_requests", nreq)
	hx.AddNote("cli_enumerated_server_processes", nsrv)
	hx.Exhaustive("CLI: every configuration (chunk-server|index-server x authorization by flag|environment|both|none x writable x verify-write x -u) x every header variant x {GET, HEAD, PUT} + every path of the grammar (quick: PUT when writable, GET when read-only; thorough: both) + every upload body kind")
}

// ---------------------------------------------------------------- self-test of the CLI part

// TestSelfCLI: the CLI oracle must notice a server that was started differently from what the
// case says, must stay silent on a clean run, and must leave no process or listener behind.
func TestSelfCLI(t *testing.T) {
	if !cliEnabled() || hx.Shard() != 0 {
		t.Skip()
	}
	t.Cleanup(dropWorlds)
	defer func() { cliSabotage = nil }()
	fail := func(format string, a ...any) {
		cliKillAll()
		fmt.Printf("SELFTEST-FAILURE: "+format+"\n", a...)
		t.Fatalf(format, a...)
	}
	drop := func(l *cliLaunch, what string) {
		var args []string
		for i := 0; i < len(l.Args); i++ {
			if l.Args[i] == what {
				if what == "--authorization" {
					i++
				}
				continue
			}
			args = append(args, l.Args[i])
		}
		l.Args = args
	}
	u := chunkUniverse(7)
	well := func(k string, comp bool) string { return chunkPaths(u[k].Hex, u["R"].Hex, ext(comp))[0].Path }
	chunk := Case{Server: "chunk", Via: "cli", Wire: "cli", Writable: true, Compressed: true, StoreSkipVerify: true, Seed: 7, CLI: &CLICase{AuthVia: "none"}}
	index := Case{Server: "index", Via: "cli", Wire: "cli", Writable: true, Seed: 7, CLI: &CLICase{AuthVia: "none"}}
	type probe struct {
		name     string
		c        Case
		sabotage func(*cliLaunch)
		want     string
	}
	var probes []probe

	c := chunk
	c.Reqs = []Req{{Method: "GET", Path: well("P", true), Target: "P"}, {Method: "PUT", Path: well("N", true), Target: "N", Body: "valid"},
		{Method: "GET", Path: well("N", true), Target: "N"}, {Method: "GET", Path: "/../" + well("Q", true)[1:], Target: "Q"}}
	probes = append(probes, probe{"clean chunk-server", c, nil, ""})
	c = index
	c.CLI = &CLICase{AuthVia: "env", Log: "file"}
	c.Auth = "Bearer abcabcabc"
	ok := []string{c.Auth}
	c.Reqs = []Req{{Method: "GET", Path: "/present.caibx", Auth: ok}, {Method: "PUT", Path: "/new.caibx", Body: "valid", BodySeed: 3, Auth: ok},
		{Method: "GET", Path: "/new.caibx"}, {Method: "GET", Path: "/%2e%2e/victim.caibx", Auth: ok}, {Method: "GET", Path: "/%zz", Auth: ok}}
	probes = append(probes, probe{"clean index-server, env auth", c, nil, ""})

	// the environment variable is not handed to the server: it runs unprotected
	c.Reqs = []Req{{Method: "GET", Path: "/present.caibx"}, {Method: "GET", Path: "/present.caibx", Auth: []string{"Bearer wrong"}}}
	probes = append(probes, probe{"env auth lost, index", c, func(l *cliLaunch) { l.Env = l.Env[:len(l.Env)-1] }, "C15:cli-index:auth-ignored"})
	c = chunk
	c.CLI = &CLICase{AuthVia: "env"}
	c.Auth = "tok en  two"
	c.Reqs = []Req{{Method: "HEAD", Path: well("P", true), Target: "P"}, {Method: "PUT", Path: well("N", true), Target: "N", Body: "valid", Auth: []string{"tok en two"}}}
	probes = append(probes, probe{"env auth lost, chunk", c, func(l *cliLaunch) { l.Env = l.Env[:len(l.Env)-1] }, "C15:cli-chunk:auth-ignored"})
	// the flag is dropped
	c.CLI = &CLICase{AuthVia: "flag"}
	probes = append(probes, probe{"flag auth lost, chunk", c, func(l *cliLaunch) { drop(l, "--authorization") }, "C15:cli-chunk:auth-ignored"})
	// environment wins over the flag
	c.CLI = &CLICase{AuthVia: "both", OtherAuth: "x"}
	c.Reqs = []Req{{Method: "GET", Path: well("P", true), Target: "P", Auth: []string{"x"}}}
	probes = append(probes, probe{"env beats flag", c, func(l *cliLaunch) { drop(l, "--authorization") }, "C15:cli-chunk:auth-ignored"})
	// -w although the case is read-only
	c = chunk
	c.Writable = false
	c.Reqs = []Req{{Method: "PUT", Path: well("N", true), Target: "N", Body: "valid"}}
	probes = append(probes, probe{"read-only lost, chunk", c, func(l *cliLaunch) { l.Args = append(l.Args, "-w") }, "C15:cli-chunk:readonly-modified"})
	c = index
	c.Writable = false
	c.Reqs = []Req{{Method: "PUT", Path: "/new.caibx", Body: "valid", BodySeed: 3}}
	probes = append(probes, probe{"read-only lost, index", c, func(l *cliLaunch) { l.Args = append(l.Args, "-w") }, "C15:cli-index:readonly-modified"})
	// write verification off although the case has it on
	c = chunk
	c.Compressed, c.StoreUncompressed = false, true
	c.CLI = &CLICase{AuthVia: "none", CfgVia: "home"}
	c.Reqs = []Req{{Method: "PUT", Path: well("N", false), Target: "N", Body: "garbage", BodyLen: 50, BodySeed: 1}}
	probes = append(probes, probe{"verify-write lost", c, func(l *cliLaunch) { drop(l, "--skip-verify-write=false") }, "C15:cli-chunk:bad-upload-stored"})
	// -u dropped: the server speaks .cacnk, the case expects plain chunks
	c.Reqs = []Req{{Method: "GET", Path: well("P", true), Target: "P"}}
	probes = append(probes, probe{"-u lost", c, func(l *cliLaunch) { drop(l, "-u") }, "C15:cli-chunk:get-wrong-object"})

	for _, p := range probes {
		if p.want == "" {
			// an unsabotaged run is an ordinary case of the property: a complaint about it is a
			// finding in the code under test (with replay file), not a failure of the oracle
			if !hx.Case(t, spec, p.c) {
				return
			}
			continue
		}
		cliSabotage = p.sabotage
		o := run(p.c)
		cliSabotage = nil
		if p.want == "" {
			continue
		}
		hit := false
		for _, v := range o.Violations {
			if v.Sig == p.want {
				hit = true
			}
		}
		if !hit {
			fail("CLI %s: oracle did not report %s (got %v)", p.name, p.want, o.Violations)
		}
	}

	// nothing is left behind: no unreaped child, no process of ours alive, no listener
	cliLiveMu.Lock()
	live, started := len(cliLive), append([]int(nil), cliStarted...)
	cliLiveMu.Unlock()
	if live != 0 {
		fail("CLI: %d server processes not reaped after their cases", live)
	}
	if len(started) < len(probes) {
		fail("CLI: %d probes but only %d server processes were started", len(probes), len(started))
	}
	for _, pid := range started {
		// a reaped child's pid either does not exist or belongs to somebody who is not our child
		var ws syscall.WaitStatus
		if wp, err := syscall.Wait4(pid, &ws, syscall.WNOHANG, nil); err == nil && wp == 0 {
			fail("CLI: child %d is still running", pid)
		}
		// pids are recycled quickly on a busy machine, so a live process group with this number
		// proves nothing by itself: only a member that runs OUR server binary counts
		if err := syscall.Kill(-pid, 0); err == nil {
			if m := ownGroupMember(pid); m != 0 {
				fail("CLI: process group %d still has a member running the server binary (pid %d)", pid, m)
			}
		}
	}
}

// ownGroupMember returns the pid of a process in process group pgid whose executable is the
// desync binary of this run (0 if there is none).
func ownGroupMember(pgid int) int {
	bin := os.Getenv("VERIF_DESYNC_BIN")
	ents, _ := os.ReadDir("/proc")
	for _, e := range ents {
		p, err := strconv.Atoi(e.Name())
		if err != nil {
			continue
		}
		st, err := os.ReadFile("/proc/" + e.Name() + "/stat")
		if err != nil {
			continue
		}
		// pid (comm) state ppid pgrp ...; comm may hold blanks, so cut behind the last ')'
		i := bytes.LastIndexByte(st, ')')
		if i < 0 {
			continue
		}
		f := strings.Fields(string(st[i+1:]))
		if len(f) < 3 {
			continue
		}
		if g, _ := strconv.Atoi(f[2]); g != pgid {
			continue
		}
		if exe, err := os.Readlink("/proc/" + e.Name() + "/exe"); err == nil && bin != "" && exe == bin {
			return p
		}
	}
	return 0
}
