package c15

// The world of one case: a scratch tree
//
//	outer/served/...     the directory handed to the server (chunk store or index store)
//	outer/sentinel/...   a directory next to it
//	outer/<files>        objects placed where a path escape ("..") would land
//
// populated deterministically from the case seed, plus byte-exact snapshots of it.

import (
	"bytes"
	"crypto/sha256"
	"crypto/sha512"
	"encoding/hex"
	"fmt"
	"os"
	"path/filepath"
	"sort"
	"strings"
	"syscall"

	"github.com/folbricht/desync"
	"github.com/klauspost/compress/zstd"

	"verifharness/internal/gen"
	"verifharness/internal/hx"
	"verifharness/internal/ref"
)

const (
	cacnk = ".cacnk"
	zeros = "0000000000000000000000000000000000000000000000000000000000000000"
)

// the harness' own zstd (not desync's instance)
var (
	zEnc, _ = zstd.NewWriter(nil, zstd.WithEncoderConcurrency(1))
	zDec, _ = zstd.NewReader(nil, zstd.WithDecoderConcurrency(1)) // same limits as desync's decoder: what it can decode, the oracle can
)

func compress(b []byte) []byte { return zEnc.EncodeAll(b, nil) }

func decompress(b []byte) ([]byte, bool) {
	if len(b) == 0 {
		return nil, false
	}
	out, err := zDec.DecodeAll(b, nil)
	if err != nil {
		return nil, false
	}
	if out == nil {
		out = []byte{}
	}
	return out, true
}

// encode puts plain chunk data into transport/storage form.
func encode(plain []byte, compressed bool) []byte {
	if compressed {
		return compress(plain)
	}
	return append([]byte{}, plain...)
}

// decode is the inverse of encode; ok=false when b is not a valid encoding.
func decode(b []byte, compressed bool) ([]byte, bool) {
	if compressed {
		return decompress(b)
	}
	return b, true
}

// curDigest is the digest algorithm the server of the running (or being generated) case is
// configured with: "" = SHA512/256, "sha256". Set through setDigest only.
var curDigest string

// setDigest configures harness and (in-process) desync for the digest of a case and returns the
// function that puts both back.
func setDigest(d string) func() {
	oldCur, oldD := curDigest, desync.Digest
	curDigest = d
	if d == "sha256" {
		desync.Digest = desync.SHA256{}
	} else {
		desync.Digest = desync.SHA512256{}
	}
	return func() { curDigest, desync.Digest = oldCur, oldD }
}

func hexBy(plain []byte, digest string) string {
	if digest == "sha256" {
		s := sha256.Sum256(plain)
		return hex.EncodeToString(s[:])
	}
	s := sha512.Sum512_256(plain)
	return hex.EncodeToString(s[:])
}

func otherDigest(d string) string {
	if d == "sha256" {
		return ""
	}
	return "sha256"
}

// chunkHex is the ID of a chunk under the configured digest (the harness' own crypto calls).
func chunkHex(plain []byte) string { return hexBy(plain, curDigest) }

func ext(compressed bool) string {
	if compressed {
		return cacnk
	}
	return ""
}

// ---------------------------------------------------------------- chunk universe

// chunkObj is one chunk the generator can aim a request at.
type chunkObj struct {
	Key   string
	Plain []byte // nil for Z (no content hashes to the all-zero ID)
	Hex   string // lower-case chunk ID
	Where string // store | store-invalid | store-otherfmt | outside | nowhere
}

var chunkKeys = []string{"P", "R", "Q", "V", "N", "O", "E", "Z", "X"}

func chunkUniverse(seed uint64) map[string]*chunkObj {
	u := map[string]*chunkObj{}
	add := func(key string, plain []byte, where string) {
		u[key] = &chunkObj{Key: key, Plain: plain, Hex: chunkHex(plain), Where: where}
	}
	add("P", gen.RandBytes(200, seed^0x11), "store")
	add("R", bytes.Repeat(gen.RandBytes(16, seed^0x22), 20), "store") // compressible
	add("Q", gen.RandBytes(150, seed^0x33), "outside")                // only outside the served directory
	add("V", gen.RandBytes(120, seed^0x44), "store-invalid")          // file present, content of another chunk
	add("N", gen.RandBytes(90, seed^0x55), "nowhere")
	add("O", gen.RandBytes(110, seed^0x66), "store-otherfmt") // present only under the other extension
	add("E", []byte{}, "nowhere")                             // the empty chunk
	u["Z"] = &chunkObj{Key: "Z", Hex: zeros, Where: "nowhere"}
	// X: named by the digest the server is NOT configured with; its own bytes are a bad upload
	xp := gen.RandBytes(130, seed^0x7a)
	u["X"] = &chunkObj{Key: "X", Plain: xp, Hex: hexBy(xp, otherDigest(curDigest)), Where: "nowhere"}
	return u
}

func relChunk(hexid, e string) string { return hexid[:4] + "/" + hexid + e }

// ---------------------------------------------------------------- index universe

var indexNames = []string{"present.caibx", "inner.caibx", "garbage.caibx", "victim.caibx", "new.caibx", "deep.caibx"}

// makeIndex builds a canonical caibx image with the harness' own encoder.
func makeIndex(seed uint64) []byte {
	r := gen.RandBytes(8+3*40, seed)
	n := 1 + int(r[0])%3
	f := ref.IndexFile{Flags: ref.FlagSHA512256 | ref.FlagExcludeNoDump, Min: 16, Avg: 64, Max: 256}
	var end uint64
	for i := 0; i < n; i++ {
		end += 1 + uint64(r[1+i])
		it := ref.IndexItem{End: end}
		copy(it.ID[:], r[8+40*i:])
		f.Items = append(f.Items, it)
	}
	return ref.EncodeIndex(f)
}

// ---------------------------------------------------------------- tree

func mustWrite(root, rel string, b []byte) {
	p := filepath.Join(root, rel)
	if err := os.MkdirAll(filepath.Dir(p), 0o755); err != nil {
		panic(err)
	}
	if err := os.WriteFile(p, b, 0o644); err != nil {
		panic(err)
	}
}

// buildWorld creates outer/ below root and returns the path of outer.
func buildWorld(root string, c Case) string {
	outer := filepath.Join(root, "outer")
	for _, d := range []string{"served", "sentinel"} {
		if err := os.MkdirAll(filepath.Join(outer, d), 0o755); err != nil {
			panic(err)
		}
	}
	mustWrite(outer, "sentinel/keep.txt", gen.RandBytes(48, c.Seed^0x77))
	mustWrite(outer, "victim.caibx", makeIndex(c.Seed^0xd1))
	mustWrite(outer, "sentinel/victim.caibx", makeIndex(c.Seed^0xd2))
	if c.Server == "index" {
		mustWrite(outer, "served/present.caibx", makeIndex(c.Seed^0xa1))
		mustWrite(outer, "served/inner.caibx", makeIndex(c.Seed^0xb1))
		mustWrite(outer, "served/sub/inner.caibx", makeIndex(c.Seed^0xc1))
		mustWrite(outer, "served/sub/deep.caibx", makeIndex(c.Seed^0xe1))
		mustWrite(outer, "served/garbage.caibx", gen.RandBytes(100, c.Seed^0x99))
		return outer
	}
	u := chunkUniverse(c.Seed)
	sc := !c.StoreUncompressed // store holds compressed files
	se := ext(sc)
	mustWrite(outer, "served/junk.txt", gen.RandBytes(40, c.Seed^0x88))
	mustWrite(outer, "served/"+relChunk(u["P"].Hex, se), encode(u["P"].Plain, sc))
	mustWrite(outer, "served/"+relChunk(u["R"].Hex, se), encode(u["R"].Plain, sc))
	mustWrite(outer, "served/"+relChunk(u["V"].Hex, se), encode(gen.RandBytes(120, c.Seed^0x45), sc))
	mustWrite(outer, "served/"+relChunk(u["O"].Hex, ext(!sc)), encode(u["O"].Plain, !sc))
	// the same chunk where "/../<prefix>/<id>" and "/../sentinel/<prefix>/<id>" would land
	for _, e := range []string{"", cacnk} {
		mustWrite(outer, relChunk(u["Q"].Hex, e), encode(u["Q"].Plain, e == cacnk))
		mustWrite(outer, "sentinel/"+relChunk(u["Q"].Hex, e), encode(u["Q"].Plain, e == cacnk))
	}
	return outer
}

// ---------------------------------------------------------------- world cache
//
// Creating and deleting ~25 files costs 8 ms on this filesystem, twenty times what the
// requests of a case cost. A world depends only on (server kind, store format, seed), so a
// process keeps the worlds it has built, and after a case puts back exactly what the case
// changed (checked by a byte-exact comparison with the pristine snapshot; a world that
// cannot be repaired is thrown away). A case therefore always starts from the same bytes.

type world struct {
	root, outer string
	pristine    snap
}

var worlds = map[string]*world{}

func worldKey(c Case) string {
	return fmt.Sprintf("%s/%v/%d/%s", c.Server, c.Server == "chunk" && c.StoreUncompressed, c.Seed, c.Digest)
}

func acquireWorld(c Case) *world {
	k := worldKey(c)
	if w := worlds[k]; w != nil {
		delete(worlds, k) // owned by the running case until released
		return w
	}
	if len(worlds) >= 160 {
		dropWorlds()
	}
	root := hx.Scratch("c15w")
	outer := buildWorld(root, c)
	return &world{root: root, outer: outer, pristine: takeSnap(outer)}
}

func contentChanges(a, b snap) []change {
	var out []change
	for _, ch := range diffSnap(a, b) {
		if ch.What != "dir-mtime" && ch.What != "touched" {
			out = append(out, ch)
		}
	}
	return out
}

// release repairs the world and puts it back into the cache, or deletes it.
func (w *world) release(c Case, ok bool) {
	if ok {
		ch := contentChanges(w.pristine, takeSnap(w.outer))
		for i := len(ch) - 1; i >= 0; i-- { // children before parents
			if ch[i].What == "appeared" {
				os.RemoveAll(filepath.Join(w.outer, ch[i].Path))
			}
		}
		for _, x := range ch {
			if x.What == "appeared" {
				continue
			}
			p := filepath.Join(w.outer, x.Path)
			e := w.pristine[x.Path]
			os.RemoveAll(p)
			switch e.Kind {
			case 'd':
				os.MkdirAll(p, 0o755)
			case 'f':
				mustWrite(w.outer, x.Path, e.Data)
			}
			os.Chmod(p, e.Mode.Perm())
		}
		if len(ch) == 0 || len(contentChanges(w.pristine, takeSnap(w.outer))) == 0 {
			worlds[worldKey(c)] = w
			return
		}
	}
	os.RemoveAll(w.root)
}

func dropWorlds() {
	for k, w := range worlds {
		os.RemoveAll(w.root)
		delete(worlds, k)
	}
}

// ---------------------------------------------------------------- snapshots

type fent struct {
	Kind  byte // f d l o
	Mode  os.FileMode
	Size  int64
	Mtime int64
	Ino   uint64
	Data  []byte // file content / link target
}

type snap map[string]fent

func takeSnap(outer string) snap {
	s := snap{}
	err := filepath.Walk(outer, func(p string, info os.FileInfo, err error) error {
		if err != nil {
			return err
		}
		rel, _ := filepath.Rel(outer, p)
		e := fent{Mode: info.Mode(), Size: info.Size(), Mtime: info.ModTime().UnixNano()}
		if st, ok := info.Sys().(*syscall.Stat_t); ok {
			e.Ino = st.Ino
		}
		switch {
		case info.Mode().IsRegular():
			e.Kind = 'f'
			b, err := os.ReadFile(p)
			if err != nil {
				return err
			}
			e.Data = b
		case info.IsDir():
			e.Kind = 'd'
			e.Size = 0
		case info.Mode()&os.ModeSymlink != 0:
			e.Kind = 'l'
			t, _ := os.Readlink(p)
			e.Data = []byte(t)
		default:
			e.Kind = 'o'
		}
		s[rel] = e
		return nil
	})
	if err != nil {
		panic(fmt.Sprintf("snapshot of %s: %v", outer, err))
	}
	return s
}

// change is one difference between two snapshots.
type change struct {
	Path string `json:"path"`
	What string `json:"what"` // appeared | removed | content | meta | dir-mtime | touched
}

func diffSnap(a, b snap) []change {
	var out []change
	for p, x := range a {
		y, ok := b[p]
		switch {
		case !ok:
			out = append(out, change{p, "removed"})
		case x.Kind != y.Kind || x.Mode != y.Mode:
			out = append(out, change{p, "meta"})
		case !bytes.Equal(x.Data, y.Data) || x.Size != y.Size:
			out = append(out, change{p, "content"})
		case x.Kind == 'd' && x.Mtime != y.Mtime:
			out = append(out, change{p, "dir-mtime"})
		case x.Mtime != y.Mtime || x.Ino != y.Ino:
			out = append(out, change{p, "touched"}) // rewritten with identical bytes
		}
	}
	for p := range b {
		if _, ok := a[p]; !ok {
			out = append(out, change{p, "appeared"})
		}
	}
	sort.Slice(out, func(i, j int) bool { return out[i].Path < out[j].Path })
	return out
}

func underServed(rel string) bool { return rel == "served" || strings.HasPrefix(rel, "served/") }

func fmtChanges(cs []change) string {
	var sb strings.Builder
	for i, c := range cs {
		if i == 6 {
			fmt.Fprintf(&sb, " … (%d in all)", len(cs))
			break
		}
		p := c.Path
		if len(p) > 120 {
			p = p[:60] + "…" + p[len(p)-40:]
		}
		fmt.Fprintf(&sb, " %s:%q", c.What, p)
	}
	return sb.String()
}
