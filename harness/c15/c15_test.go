// C15 — HTTP servers enforce authorization, read-only mode and path confinement.
//
// A case is one server configuration plus a short sequence of requests. The served
// directory and everything next to it is snapshotted before and after every request, the
// store is wrapped in a call recorder, and the four clauses of the statement are judged per
// request (see judge). Files: world_test.go (scratch tree, snapshots), gen_test.go (request
// grammar, generator), drive_test.go (direct / real-server drivers, recorders),
// clicase_test.go + cli_test.go (the same requests and clauses against a real
// `desync chunk-server|index-server` process; only with $VERIF_DESYNC_BIN), conc_test.go
// (concurrent valid uploads against a store that writes late).
package c15

import (
	"bytes"
	"encoding/json"
	"fmt"
	"net/http"
	"os"
	"path/filepath"
	"runtime"
	"sort"
	"strings"
	"testing"
	"time"

	"github.com/folbricht/desync"

	"verifharness/internal/gen"
	"verifharness/internal/hx"
	"verifharness/internal/ref"
)

type Case struct {
	Server            string `json:"server"` // chunk | index
	Via               string `json:"via"`    // direct | server
	Writable          bool   `json:"writable"`
	SkipVerifyWrite   bool   `json:"skip_verify_write"`  // chunk server: --skip-verify-write
	Compressed        bool   `json:"compressed"`         // chunk server serves/accepts .cacnk (no -u)
	StoreUncompressed bool   `json:"store_uncompressed"` // format of the local store behind the chunk server
	StoreSkipVerify   bool   `json:"store_skip_verify"`  // --skip-verify-read
	Wire              string `json:"wire"`               // plain: handler on the local store; cli: read-only servers get DedupQueue(StoreRouter(store)) like cmd/desync
	Auth              string `json:"auth"`               // "" = not configured
	Digest            string `json:"digest,omitempty"`   // "" = SHA512/256; "sha256" = desync.Digest / --digest sha256
	Seed              uint64 `json:"seed"`               // content of the scratch tree
	Reqs              []Req  `json:"reqs"`
	// CLI != nil: the case is served by a real `desync chunk-server|index-server` process
	// (Via "cli"; see cli_test.go). The fields above then describe how that process is configured.
	CLI *CLICase `json:"cli,omitempty"`
	// Conc != nil: instead of Reqs, several clients upload valid chunks concurrently (conc_test.go).
	Conc *ConcCase `json:"conc,omitempty"`
}

type Req struct {
	Method   string   `json:"method"`
	Path     string   `json:"path"`            // literal: URL.Path (direct) or request target on the wire (server)
	PClass   string   `json:"pclass"`          // grammar class (label only)
	Target   string   `json:"target"`          // object the path was derived from (label; selects the "valid" body)
	Auth     []string `json:"auth"`            // Authorization field values, verbatim, in order
	HClass   string   `json:"hclass"`          // header variant (label only)
	HName    string   `json:"hname,omitempty"` // field name as written; "" = Authorization
	Body     string   `json:"body"`            // none empty valid other wrongmode garbage truncated trailing flip
	BodyObj  string   `json:"body_obj,omitempty"`
	BodySeed uint64   `json:"body_seed,omitempty"`
	BodyLen  int      `json:"body_len,omitempty"`
}

// ---------------------------------------------------------------- request bodies

func buildBody(c Case, r Req) (body []byte, hasBody bool) {
	var valid []byte
	kind := r.Body
	if c.Server == "chunk" {
		u := chunkUniverse(c.Seed)
		obj := u[r.Target]
		if obj == nil {
			obj = u["P"]
		}
		// other-truncated / other-trailing / other-flip: the damaged transfer form of ANOTHER object (a body
		// whose leading part is a well-formed frame of something else), whatever the target
		if strings.HasPrefix(kind, "other-") {
			kind = kind[len("other-"):]
			if o := u[r.BodyObj]; o != nil && o.Plain != nil {
				obj = o
			} else {
				obj = u["R"]
			}
		}
		switch kind {
		case "other":
			if o := u[r.BodyObj]; o != nil && o.Plain != nil {
				return encode(o.Plain, c.Compressed), true
			}
			return encode(u["R"].Plain, c.Compressed), true
		case "wrongmode":
			if obj.Plain == nil {
				return gen.RandBytes(32, c.Seed^0xfa), true
			}
			return encode(obj.Plain, !c.Compressed), true
		}
		if obj.Plain == nil {
			valid = gen.RandBytes(32, c.Seed^0xfb) // nothing hashes to the all-zero ID
		} else {
			valid = encode(obj.Plain, c.Compressed)
		}
	} else {
		switch r.Body {
		case "other":
			return makeIndex(c.Seed ^ 0xa1), true // the image of present.caibx
		case "wrongmode":
			return compress(makeIndex(r.BodySeed)), true
		}
		valid = makeIndex(r.BodySeed)
		kind = strings.TrimPrefix(kind, "other-")
	}
	switch kind {
	case "valid":
		return valid, true
	case "garbage":
		return gen.RandBytes(r.BodyLen, r.BodySeed), true
	case "empty":
		return []byte{}, true
	case "truncated":
		return valid[:len(valid)/2], true
	case "trailing":
		return append(append([]byte{}, valid...), gen.RandBytes(r.BodyLen, r.BodySeed)...), true
	case "flip":
		b := append([]byte{}, valid...)
		if len(b) > 0 {
			bit := r.BodySeed % uint64(len(b)*8)
			b[bit/8] ^= 1 << (bit % 8)
		}
		return b, true
	}
	return nil, false
}

// ---------------------------------------------------------------- the oracle's reading of a path

func isHex(s string) bool {
	for i := 0; i < len(s); i++ {
		ch := s[i]
		if !(ch >= '0' && ch <= '9' || ch >= 'a' && ch <= 'f' || ch >= 'A' && ch <= 'F') {
			return false
		}
	}
	return true
}

// parseChunkPath: the path names a chunk iff it is exactly "/" + id[0:4] + "/" + id + ext
// with id 64 hex digits. Returns the lower-case ID.
func parseChunkPath(p, e string) (string, bool) {
	if len(p) != 1+4+1+64+len(e) || p[0] != '/' || p[5] != '/' || p[70:] != e {
		return "", false
	}
	pre, id := p[1:5], p[6:70]
	if pre != id[:4] || !isHex(id) {
		return "", false
	}
	return strings.ToLower(id), true
}

// indexBaseName: the last non-empty path segment, provided it can be the name of a file.
func indexBaseName(p string) (string, bool) {
	p = strings.TrimRight(p, "/")
	if i := strings.LastIndexByte(p, '/'); i >= 0 {
		p = p[i+1:]
	}
	if p == "" || p == "." || p == ".." || strings.IndexByte(p, 0) >= 0 {
		return "", false
	}
	return p, true
}

func contains(vs []string, v string) bool {
	for _, x := range vs {
		if x == v {
			return true
		}
	}
	return false
}

func formsOf(b []byte) [][]byte {
	f := [][]byte{b}
	if d, ok := decompress(b); ok {
		f = append(f, d)
	}
	return f
}

// layers lists b and what is under each layer of compression.
func layers(b []byte) [][]byte {
	out := [][]byte{b}
	for i := 0; i < 4; i++ {
		d, ok := decompress(b)
		if !ok {
			break
		}
		out = append(out, d)
		b = d
	}
	return out
}

// leaks names a file of the tree whose bytes, raw or decompressed, occur in the response
// body although the object the request names (allowedRel, "" = none) does not contain them.
// (An unverified upload can legitimately contain anything, under any number of compression
// layers; serving it back is not a leak.)
func leaks(body []byte, compressedBody bool, s snap, allowedRel string) string {
	if len(body) < 16 {
		return ""
	}
	bforms := [][]byte{body}
	if compressedBody { // only a server that sends compressed chunks is read through the decompressor
		bforms = formsOf(body)
	}
	var allowed [][]byte
	if a, ok := s[allowedRel]; ok && a.Kind == 'f' && allowedRel != "" {
		allowed = layers(a.Data)
	}
	rels := make([]string, 0, len(s))
	for rel, e := range s {
		if e.Kind == 'f' && rel != allowedRel && len(e.Data) >= 16 {
			rels = append(rels, rel)
		}
	}
	sort.Strings(rels)
files:
	for _, rel := range rels {
		sforms := formsOf(s[rel].Data)
		for _, sf := range sforms { // content that the named object holds too, in whatever encoding, is not foreign
			for _, af := range allowed {
				if len(sf) >= 16 && bytes.Contains(af, sf) {
					continue files
				}
			}
		}
		for _, sf := range sforms {
			if len(sf) < 16 {
				continue
			}
			for _, bf := range bforms {
				if bytes.Contains(bf, sf) {
					return rel
				}
			}
		}
	}
	return ""
}

func short(s string) string {
	if len(s) > 100 {
		return fmt.Sprintf("%s…%s(%d bytes)", s[:50], s[len(s)-30:], len(s))
	}
	return s
}

// ---------------------------------------------------------------- judging one request

type reqObs struct {
	Req      string   `json:"req"`
	Status   int      `json:"status"`
	Reached  bool     `json:"reached"`
	SeenPath string   `json:"seen_path,omitempty"`
	SeenAuth []string `json:"seen_auth,omitempty"`
	Calls    []string `json:"store_calls,omitempty"`
	Changes  []change `json:"changes,omitempty"`
	Err      string   `json:"err,omitempty"`
}

type verdictInfo struct {
	hostile bool
	reached bool
}

func judge(o *hx.Outcome, c Case, i int, r Req, body []byte, hasBody bool, resp response, s seen, calls []string, before, after snap) (obs reqObs, vi verdictInfo) {
	sig := func(x string) string { return sigFor(c, x) }
	status, rbody := resp.Status, resp.Body
	if status == 0 && s.Reached {
		status, rbody = s.Status, s.Body // the wire response was lost; the handler's own answer is known
	}
	changes := diffSnap(before, after)
	what := fmt.Sprintf("req#%d %s %q [%s] auth=%q(%s) body=%s via %s → %d", i, r.Method, short(r.Path), r.PClass, r.Auth, r.HClass, r.Body, c.Via, status)
	obs = reqObs{Req: fmt.Sprintf("%s %s", r.Method, short(r.Path)), Status: status, Reached: s.Reached, SeenPath: short(s.Path),
		SeenAuth: s.Auth, Calls: calls, Changes: changes, Err: resp.Err}
	if len(obs.Changes) > 8 {
		obs.Changes = obs.Changes[:8]
	}
	isPut := strings.EqualFold(r.Method, "PUT")

	// what the request names, judged from the path the handler was given
	named, allowedRel, id := false, "", ""
	if s.Reached {
		if c.Server == "chunk" {
			if h, ok := parseChunkPath(s.Path, ext(c.Compressed)); ok {
				named, id, allowedRel = true, h, "served/"+relChunk(h, ext(!c.StoreUncompressed))
			}
		} else if n, ok := indexBaseName(s.Path); ok {
			named, allowedRel = true, "served/"+n
		}
	}
	authorised := c.Auth == "" || (s.Reached && contains(s.Auth, c.Auth))

	if s.Panic != "" {
		o.Fail(sig("handler-panic"), "%s: handler panicked: %s", what, s.Panic)
	}

	// (0) the request never got to the handler (net/http answered): nothing may have happened
	if !s.Reached && (len(calls) > 0 || len(changes) > 0) {
		o.Fail(sig("unreached-effect"), "%s: handler not reached, yet store calls %v / changes%s", what, calls, fmtChanges(changes))
	}

	// (1) authorization configured and the handler was not given exactly that value
	if c.Auth != "" && s.Reached && !contains(s.Auth, c.Auth) {
		var bad []string
		if status != 0 && status < 400 { // 0: no response arrived (CLI cases only; judged by effects alone)
			bad = append(bad, fmt.Sprintf("status %d", status))
		}
		if len(calls) > 0 {
			bad = append(bad, fmt.Sprintf("store calls %v", calls))
		}
		if len(changes) > 0 {
			bad = append(bad, "tree changed:"+fmtChanges(changes))
		}
		if rel := leaks(rbody, c.Server == "chunk" && c.Compressed, before, ""); rel != "" {
			bad = append(bad, fmt.Sprintf("response carries the bytes of %q", rel))
		}
		if len(bad) > 0 {
			o.Fail(sig("auth-ignored"), "%s: server expects %q, handler received %q, but: %s", what, c.Auth, s.Auth, strings.Join(bad, "; "))
		}
	}

	// (2) not writable: nothing changes, whatever the request
	if !c.Writable && len(changes) > 0 {
		o.Fail(sig("readonly-modified"), "%s: server is read-only but the tree changed:%s", what, fmtChanges(changes))
	}

	// (3) upload that does not hash to the ID while write verification is on
	badUpload := false
	if c.Server == "chunk" && isPut && named && s.Reached {
		match := false
		if hasBody {
			if d, ok := decode(body, c.Compressed); ok && chunkHex(d) == id {
				match = true
			}
		}
		badUpload = !match
		if badUpload && !c.SkipVerifyWrite && authorised {
			if status != 0 && status < 400 {
				o.Fail(sig("bad-upload-accepted"), "%s: body (%d bytes) does not decode to chunk %s, verification is on, but status %d", what, len(body), id, status)
			}
			if len(changes) > 0 {
				o.Fail(sig("bad-upload-stored"), "%s: body (%d bytes) does not decode to chunk %s, verification is on, but the tree changed:%s", what, len(body), id, fmtChanges(changes))
			}
		}
	}

	// (4a/4b) confinement of effects
	var outside, foreign []change
	stored := false
	for _, ch := range changes {
		switch {
		case !underServed(ch.Path):
			outside = append(outside, ch)
		case named && ch.Path == allowedRel:
			stored = true
		case named && strings.HasPrefix(allowedRel, ch.Path+"/") && (ch.What == "dir-mtime" || (ch.What == "appeared" && after[ch.Path].Kind == 'd')):
			// a directory on the way to the named object
		default:
			foreign = append(foreign, ch)
		}
	}
	if len(outside) > 0 {
		o.Fail(sig("outside-modified"), "%s: changes outside the served directory:%s", what, fmtChanges(outside))
	}
	if len(foreign) > 0 {
		o.Fail(sig("other-name-modified"), "%s: changes inside the served directory under a name other than %q:%s", what, allowedRel, fmtChanges(foreign))
	}

	// (4c) a 200 GET body is the stored object of exactly the requested name
	if r.Method == "GET" && status == 200 && s.Reached {
		obj, ok := before[allowedRel]
		switch {
		case !named:
			o.Fail(sig("get-wrong-object"), "%s: 200 (%d bytes) for a path that names no object (handler saw %q)", what, len(rbody), short(s.Path))
		case !ok || obj.Kind != 'f':
			o.Fail(sig("get-wrong-object"), "%s: 200 (%d bytes) although %q does not exist", what, len(rbody), allowedRel)
		case c.Server == "index":
			if !bytes.Equal(rbody, obj.Data) {
				o.Fail(sig("get-wrong-object"), "%s: 200 body (%d bytes) differs from %q (%d bytes)", what, len(rbody), allowedRel, len(obj.Data))
			}
		default:
			same := c.Compressed == !c.StoreUncompressed && bytes.Equal(rbody, obj.Data)
			if !same {
				a, ok1 := decode(rbody, c.Compressed)
				b, ok2 := decode(obj.Data, !c.StoreUncompressed)
				if !ok1 || !ok2 || !bytes.Equal(a, b) {
					o.Fail(sig("get-wrong-object"), "%s: 200 body (%d bytes, decodes=%v) is not the content of %q (%d bytes, decodes=%v)", what, len(rbody), ok1, allowedRel, len(obj.Data), ok2)
				}
			}
		}
	}

	// (4d) no response carries bytes of another stored object or of a file outside
	if s.Reached && authorised {
		if rel := leaks(rbody, c.Server == "chunk" && c.Compressed, before, allowedRel); rel != "" {
			o.Fail(sig("foreign-bytes-served"), "%s: response (%d bytes) carries the bytes of %q; the request names %q", what, len(rbody), rel, allowedRel)
		}
	}

	// ---- evidence
	pathHostile := true
	if c.Server == "chunk" {
		_, ok := parseChunkPath(r.Path, ext(c.Compressed))
		pathHostile = !ok || r.Path != strings.ToLower(r.Path)
	} else if n, ok := indexBaseName(r.Path); ok && r.Path == "/"+n {
		pathHostile = false
	}
	hdrHostile := c.Auth != "" && !(len(r.Auth) == 1 && r.Auth[0] == c.Auth && (r.HName == "" || r.HName == "Authorization"))
	bodyHostile := false
	if isPut {
		if c.Server == "chunk" {
			bodyHostile = badUpload
		} else if _, err := ref.ParseIndex(body); err != nil {
			bodyHostile = true
		}
	}
	vi = verdictInfo{hostile: pathHostile || hdrHostile || bodyHostile, reached: s.Reached}

	o.Class("method:"+strings.ToUpper(r.Method), "path:"+r.PClass, "body:"+r.Body)
	if c.Server == "chunk" && isPut && r.Target == "X" && named && authorised && c.Writable {
		// the body is what the other digest algorithm names that way: a bad upload for this server
		dn := digestName(c.Digest)
		o.Class("digest:" + dn + ":put:named-by-other-digest")
		if !c.SkipVerifyWrite && status >= 400 && !stored {
			o.Class("digest:" + dn + ":put:named-by-other-digest:refused")
		}
	}
	if c.Server == "chunk" && isPut && named && authorised && stored && !badUpload {
		o.Class("digest:" + digestName(c.Digest) + ":put:named-by-configured-digest:stored")
	}
	if c.Auth != "" {
		o.Class("hdr:" + r.HClass)
	} else {
		o.Class("hdr-unprotected:" + r.HClass)
	}
	if !s.Reached {
		o.Class("out:unreached")
		if status == 301 || status == 307 || status == 308 {
			o.Class("out:redirect")
		}
		if status == 0 {
			o.Class("out:no-response")
		}
	}
	if s.Reached && s.Path != r.Path {
		o.Class("out:path-rewritten-before-handler")
	}
	if c.Auth != "" && s.Reached {
		sent := len(r.Auth) > 0 && contains(r.Auth, c.Auth)
		switch {
		case !authorised && status >= 400:
			o.Class("out:auth-refused")
			if r.HClass == "whitespace" {
				o.Class("out:ows-refused-direct")
			}
		case authorised && !sent && status < 400:
			o.Class("out:ows-accepted-on-wire")
		}
	}
	if authorised && s.Reached {
		switch {
		case r.Method == "GET" && status == 200:
			o.Class("out:get-200")
		case r.Method == "HEAD" && status == 200:
			o.Class("out:head-200")
		case r.Method == "GET" && status == 404:
			o.Class("out:get-404")
		case status == 405:
			o.Class("out:405")
		}
		if isPut && named {
			switch {
			case stored && c.Server == "chunk" && badUpload:
				o.Class("out:unverified-upload-stored")
			case stored:
				o.Class("out:put-stored")
			case !c.Writable && status >= 400:
				o.Class("out:readonly-put-refused")
			case c.Server == "chunk" && badUpload && !c.SkipVerifyWrite && status >= 400:
				o.Class("out:bad-upload-refused")
			}
		}
		if !named && status >= 400 {
			o.Class("out:bad-path-refused")
		}
	}
	return obs, vi
}

// ---------------------------------------------------------------- running a case

type env struct {
	c      Case
	outer  string
	served string
	log    *callLog
}

// realHandler builds the handler under test the way cmd/desync does.
func realHandler(e *env) http.Handler {
	c := e.c
	if c.Server == "index" {
		is, err := desync.NewLocalIndexStore(e.served + "/")
		if err != nil {
			panic(err)
		}
		return desync.NewHTTPIndexHandler(recIndexStore{is, e.log}, c.Writable, c.Auth)
	}
	ls, err := desync.NewLocalStore(e.served, desync.StoreOptions{Uncompressed: c.StoreUncompressed, SkipVerify: c.StoreSkipVerify})
	if err != nil {
		panic(err)
	}
	rec := recStore{ls, e.log}
	var s desync.Store = rec
	if c.Wire == "cli" && !c.Writable {
		s = desync.NewDedupQueue(desync.NewStoreRouter(rec))
	}
	var conv desync.Converters
	if c.Compressed {
		conv = desync.Converters{desync.Compressor{}}
	}
	return desync.NewHTTPHandler(s, c.Writable, c.SkipVerifyWrite, conv, c.Auth)
}

var devNull, _ = os.OpenFile(os.DevNull, os.O_WRONLY, 0)

func run(c Case) hx.Outcome {
	defer setDigest(c.Digest)() // process-global; put back when the case is over
	if c.CLI != nil {
		return runCLI(c)
	}
	if c.Conc != nil {
		return runConc(c)
	}
	return runWith(c, realHandler)
}

func digestName(d string) string {
	if d == "sha256" {
		return "sha256"
	}
	return "sha512-256"
}

// sigFor makes the signature of a violated clause: "C15:chunk:…", "C15:index:…" for the library
// handlers, "C15:cli-chunk:…", "C15:cli-index:…" when the case ran against the CLI process.
func sigFor(c Case, x string) string {
	if c.CLI != nil {
		return "C15:cli-" + c.Server + ":" + x
	}
	return "C15:" + c.Server + ":" + x
}

func runWith(c Case, mk func(*env) http.Handler) (o hx.Outcome) {
	if c.Server != "index" {
		c.Server = "chunk"
	}
	w := acquireWorld(c)
	finished := false
	defer func() { w.release(c, finished) }() // runs after the server has been stopped
	e := &env{c: c, log: &callLog{}, outer: w.outer}
	e.served = filepath.Join(e.outer, "served")
	defer e.log.closeAll()

	// the handlers print their 5xx messages to os.Stderr
	if devNull != nil {
		old := os.Stderr
		os.Stderr = devNull
		defer func() { os.Stderr = old }()
	}

	tp := &tap{h: mk(e)}
	var drv driver = directDriver{tp}
	if c.Via == "server" {
		drv = newServerDriver(tp)
	}
	defer drv.stop()

	var observed []reqObs
	var descReqs []string
	nontrivial := false
	before := takeSnap(e.outer)
	for i, r := range c.Reqs {
		body, hasBody := buildBody(c, r)
		e.log.take()
		tp.take()
		resp := drv.do(r, body, hasBody)
		s := tp.take()
		calls := e.log.take()
		after := takeSnap(e.outer)
		obs, vi := judge(&o, c, i, r, body, hasBody, resp, s, calls, before, after)
		observed = append(observed, obs)
		if len(descReqs) < 8 {
			descReqs = append(descReqs, fmt.Sprintf("%s %s hdr=%s body=%s → %d", r.Method, r.PClass, r.HClass, r.Body, obs.Status))
		}
		if vi.hostile && vi.reached {
			nontrivial = true
		}
		before = after
	}

	finishOutcome(&o, c, descReqs, nontrivial, observed)
	finished = true
	return o
}

// finishOutcome is the common end of a case: violations thinned out, configuration classes,
// descriptor, key.
func finishOutcome(o *hx.Outcome, c Case, descReqs []string, nontrivial bool, observed any) {
	// a case with many requests repeats itself: keep three messages per signature
	{
		count := map[string]int{}
		var kept []hx.Violation
		for _, v := range o.Violations {
			count[v.Sig]++
			if count[v.Sig] <= 3 {
				kept = append(kept, v)
			}
		}
		for i := range kept {
			if n := count[kept[i].Sig]; n > 3 {
				kept[i].Msg += fmt.Sprintf(" (%d requests of this case show this signature)", n)
			}
		}
		o.Violations = kept
	}

	o.Class("server:"+c.Server, "via:"+c.Via)
	flag := func(b bool, yes, no string) {
		if b {
			o.Class(yes)
		} else {
			o.Class(no)
		}
	}
	flag(c.Writable, "cfg:writable", "cfg:readonly")
	flag(c.Auth != "", "cfg:auth-set", "cfg:auth-unset")
	if c.Server == "chunk" {
		o.Class("digest:" + digestName(c.Digest))
		if c.Writable && !c.SkipVerifyWrite && c.Conc == nil {
			o.Class("digest:" + digestName(c.Digest) + ":" + map[bool]string{true: "compressed", false: "uncompressed"}[c.Compressed] + ":verify-write")
		}
	}
	if c.Server == "chunk" {
		flag(c.SkipVerifyWrite, "cfg:verify-write-off", "cfg:verify-write-on")
		flag(c.Compressed, "cfg:compressed", "cfg:uncompressed")
		flag(c.StoreUncompressed, "cfg:store-uncompressed", "cfg:store-compressed")
		flag(c.Wire == "cli", "cfg:wired-like-cli", "cfg:wired-plain")
	}
	desc := map[string]any{"server": c.Server, "via": c.Via, "writable": c.Writable, "skip_verify_write": c.SkipVerifyWrite,
		"compressed": c.Compressed, "store_uncompressed": c.StoreUncompressed, "wire": c.Wire, "auth_set": c.Auth != "",
		"nreq": len(c.Reqs), "reqs": descReqs, "digest": digestName(c.Digest)}
	if c.CLI != nil {
		desc["cli"] = map[string]any{"auth_via": c.CLI.AuthVia, "cfg_via": c.CLI.CfgVia, "long_flags": c.CLI.Long, "log": c.CLI.Log}
	}
	if c.Conc != nil {
		desc["conc"] = map[string]any{"clients": len(c.Conc.Workers), "procs": c.Conc.Procs, "gate": c.Conc.Gate}
	}
	o.Desc = desc
	kb, _ := json.Marshal(c)
	o.Key = hx.Hash8(kb) + hx.Hash8(append(kb, 1))
	o.Nontrivial = nontrivial
	o.Observed = observed
}

var spec = &hx.Spec[Case]{
	ID:    "C15",
	Level: "exploration",
	Rule: "cases = server configuration (chunk|index, writable, skip-verify-write, compressed, store format, digest sha512-256|sha256, authorization unset|set, plain or cmd/desync store wiring) " +
		"driven directly (ServeHTTP with the literal URL.Path) or through a real http.Server + ServeMux(\"/\"), with 1..6 generated requests " +
		"(method x path grammar x Authorization variants x body variants); the whole scratch tree (served directory, sentinel directory, files where '..' would land) " +
		"is snapshotted around every request and store calls are recorded; " +
		"non-trivial = at least one request hostile in path, header or body reached the handler; distinct by the full case content",
	Assumptions: []string{
		"the served store is a LocalStore / LocalIndexStore on the scratch filesystem without symlinks",
		"the path a request names is judged from URL.Path as the handler receives it (net/http decodes %xx, strips optional whitespace around header values, and ServeMux redirects unclean paths before the handler runs)",
		"a chunk path names an ID iff it is exactly /<id[0:4]>/<id><ext> (hex in either case); an index path names its last non-empty segment unless that is '.' or '..'",
		"a request carrying two Authorization fields, one of them right, may be accepted or refused",
		"file modification times are compared with the kernel's timestamp granularity (a rewrite with identical bytes within one tick is only seen through the inode number)",
		"chunk IDs with crypto/sha512 directly, zstd by a harness-owned klauspost codec, index images by the harness' own caibx encoder",
	},
	Required: []string{
		"server:chunk", "server:index", "via:direct", "via:server",
		"cfg:writable", "cfg:readonly", "cfg:verify-write-on", "cfg:verify-write-off", "cfg:compressed", "cfg:uncompressed", "cfg:auth-set", "cfg:auth-unset",
		"cfg:wired-like-cli", "cfg:wired-plain",
		"digest:sha512-256", "digest:sha256", "digest:sha256:uncompressed:verify-write", "digest:sha256:compressed:verify-write",
		"digest:sha256:put:named-by-other-digest", "digest:sha256:put:named-by-other-digest:refused", "digest:sha512-256:put:named-by-other-digest:refused",
		"digest:sha256:put:named-by-configured-digest:stored",
		"method:GET", "method:HEAD", "method:PUT", "method:POST", "method:DELETE", "method:PATCH", "method:OPTIONS",
		"path:well", "path:wrong-prefix", "path:wrong-suffix", "path:upper-hex", "path:short-id", "path:long-id", "path:dotdot", "path:encoded",
		"path:double-slash", "path:trailing-slash", "path:empty", "path:long", "path:ctl", "path:subdir", "path:dots",
		"hdr:absent", "hdr:wrong", "hdr:right", "hdr:case", "hdr:whitespace", "hdr:two", "hdr:wrong-longer", "hdr:wrong-shorter",
		"body:valid", "body:other", "body:other-trailing", "body:other-truncated", "body:other-flip", "body:garbage",
		"out:auth-refused", "out:get-200", "out:put-stored", "out:bad-upload-refused", "out:readonly-put-refused", "out:unverified-upload-stored",
		"out:unreached", "out:redirect", "out:ows-accepted-on-wire", "out:ows-refused-direct", "out:bad-path-refused",
	},
	Gen: genCase,
	Run: run,
	// a case that never returns is a verdict (confirmed by a replay in a fresh process), not a timeout of the run
	Watchdog: hx.Pick(120*time.Second, 300*time.Second),
}

func TestMain(m *testing.M) { hx.Main(m) }

func TestRegress(t *testing.T) { t.Cleanup(dropWorlds); hx.Regress(t, spec) }
func TestKnown(t *testing.T)   { t.Cleanup(dropWorlds); hx.Known(t, spec) }
func TestReplay(t *testing.T)  { t.Cleanup(dropWorlds); hx.Replay(t, spec) }

// ---------------------------------------------------------------- exhaustive part

// baseConfigs is the full configuration grid of the statement's quantifier.
func baseConfigs() []Case {
	var out []Case
	for _, via := range []string{"direct", "server"} {
		for _, auth := range []string{"", "Bearer abcabcabc"} {
			for _, w := range []bool{false, true} {
				out = append(out, Case{Server: "index", Via: via, Writable: w, Auth: auth, Wire: "plain"})
				for _, sv := range []bool{false, true} {
					for _, comp := range []bool{false, true} {
						wire := "plain"
						if !w && sv {
							wire = "cli"
						}
						out = append(out, Case{Server: "chunk", Via: via, Writable: w, SkipVerifyWrite: sv, Compressed: comp,
							StoreUncompressed: !comp, StoreSkipVerify: true, Wire: wire, Auth: auth})
						if via == "direct" || (w && !sv && auth == "") { // the second digest algorithm
							out = append(out, Case{Server: "chunk", Via: via, Writable: w, SkipVerifyWrite: sv, Compressed: comp,
								StoreUncompressed: !comp, StoreSkipVerify: true, Wire: wire, Auth: auth, Digest: "sha256"})
						}
					}
				}
			}
		}
	}
	return out
}

func rightHeader(auth string) ([]string, string) {
	if auth == "" {
		return nil, "absent"
	}
	return []string{auth}, "right"
}

// TestEnum: every configuration x method x every path of the grammar (authorised, valid body),
// every configuration x every header variant x {GET, HEAD, PUT} on well-formed paths, and every
// configuration x every upload body for every target chunk.
func TestEnum(t *testing.T) {
	t.Cleanup(dropWorlds)
	nreq := 0
	for ci, base := range baseConfigs() {
		if ci%hx.Shards() != hx.Shard() { // the grid is dealt out to the shards; together they cover it
			continue
		}
		base.Seed = uint64(1000 + ci)
		restore := setDigest(base.Digest) // the paths and bodies below are made for this digest
		defer restore()
		u := chunkUniverse(base.Seed)
		paths := func(target string) []pv {
			if base.Server == "index" {
				return indexPaths(target)
			}
			return chunkPaths(u[target].Hex, u["R"].Hex, ext(base.Compressed))
		}
		readTarget, writeTarget := "P", "N"
		if base.Server == "index" {
			readTarget, writeTarget = "present.caibx", "new.caibx"
		}
		ms := methods
		if base.Via == "server" && !hx.Thorough() {
			ms = []string{"GET", "PUT", "DELETE"}
		}
		// (a) the path grammar
		for _, m := range ms {
			c := base
			target := readTarget
			if m == "PUT" || m == "POST" || m == "PATCH" {
				target = writeTarget
			}
			hv, hc := rightHeader(base.Auth)
			for _, p := range paths(target) {
				c.Reqs = append(c.Reqs, Req{Method: m, Path: p.Path, PClass: p.Class, Target: target, Auth: hv, HClass: hc, Body: "valid", BodySeed: 77})
			}
			nreq += len(c.Reqs)
			if !hx.Case(t, spec, c) {
				return
			}
		}
		// (b) the header variants
		{
			c := base
			for _, h := range headerVariants(base.Auth) {
				for _, mt := range [][2]string{{"GET", readTarget}, {"HEAD", readTarget}, {"PUT", writeTarget}} {
					c.Reqs = append(c.Reqs, Req{Method: mt[0], Path: paths(mt[1])[0].Path, PClass: "well", Target: mt[1], Auth: h.Vals, HClass: h.Class, HName: h.Name, Body: "valid", BodySeed: 78})
				}
			}
			nreq += len(c.Reqs)
			if !hx.Case(t, spec, c) {
				return
			}
		}
		// (c) the upload bodies
		{
			c := base
			hv, hc := rightHeader(base.Auth)
			targets := []string{"new.caibx", "present.caibx"}
			others := []string{""}
			if base.Server == "chunk" {
				targets = chunkKeys
				others = []string{"P", "R", "Q", "N", "E"}
			}
			for _, tg := range targets {
				for _, kind := range []string{"valid", "garbage", "wrongmode", "empty", "none", "truncated", "trailing", "flip", "other", "other-truncated", "other-trailing", "other-flip"} {
					os := []string{""}
					if strings.HasPrefix(kind, "other") {
						os = others
					}
					for _, bo := range os {
						if bo == tg {
							continue
						}
						c.Reqs = append(c.Reqs, Req{Method: "PUT", Path: paths(tg)[0].Path, PClass: "well", Target: tg, Auth: hv, HClass: hc, Body: kind,
							BodyObj: bo, BodySeed: 79, BodyLen: 100})
					}
				}
			}
			nreq += len(c.Reqs)
			if !hx.Case(t, spec, c) {
				return
			}
		}
	}
	hx.AddNote("enumerated_requests", nreq)
	hx.Exhaustive("every configuration (server x writable x verify-write x compressed x auth x direct|server) x every path of the grammar (methods: all when direct; GET, PUT, DELETE via server in the quick tier) + every header variant + every upload body kind on well-formed paths")
}

// ---------------------------------------------------------------- oracle self-tests

// sabotaged handlers: each breaks exactly one clause; the oracle must say so.
func TestSelf(t *testing.T) {
	if hx.Shard() != 0 {
		t.Skip()
	}
	t.Cleanup(dropWorlds)
	fail := func(format string, a ...any) {
		fmt.Printf("SELFTEST-FAILURE: "+format+"\n", a...)
		t.Fatalf(format, a...)
	}
	with := func(mod func(*Case)) func(*env) http.Handler {
		return func(e *env) http.Handler {
			mod(&e.c)
			return realHandler(e)
		}
	}
	type probe struct {
		name string
		c    Case
		mk   func(*env) http.Handler
		want string // "" = no violation at all
	}
	u := chunkUniverse(5)
	well := func(k string, comp bool) string { return chunkPaths(u[k].Hex, u["R"].Hex, ext(comp))[0].Path }
	chunk := Case{Server: "chunk", Via: "direct", Writable: true, Compressed: true, StoreSkipVerify: true, Wire: "plain", Seed: 5}
	index := Case{Server: "index", Via: "direct", Writable: true, Wire: "plain", Seed: 5}
	probes := []probe{}
	for _, via := range []string{"direct", "server"} {
		cc, ic := chunk, index
		cc.Via, ic.Via = via, via
		// clean runs
		c := cc
		c.Reqs = []Req{{Method: "GET", Path: well("P", true), Target: "P"}, {Method: "PUT", Path: well("N", true), Target: "N", Body: "valid"},
			{Method: "GET", Path: well("N", true), Target: "N"}, {Method: "HEAD", Path: well("Q", true), Target: "Q"}}
		probes = append(probes, probe{"clean chunk " + via, c, realHandler, ""})
		c = ic
		c.Reqs = []Req{{Method: "GET", Path: "/present.caibx"}, {Method: "PUT", Path: "/new.caibx", Body: "valid", BodySeed: 3}, {Method: "GET", Path: "/new.caibx"},
			{Method: "GET", Path: "/sub/inner.caibx"}}
		probes = append(probes, probe{"clean index " + via, c, realHandler, ""})
		// (1) authorization not enforced
		c = cc
		c.Auth = "Bearer abcabcabc"
		c.Reqs = []Req{{Method: "GET", Path: well("P", true), Target: "P", Auth: []string{"bearer ABCABCABC"}}}
		probes = append(probes, probe{"auth off chunk " + via, c, with(func(c *Case) { c.Auth = "" }), "C15:chunk:auth-ignored"})
		c.Reqs = []Req{{Method: "GET", Path: well("P", true), Target: "P", Auth: []string{"Bearer abcabcabc"}}}
		probes = append(probes, probe{"auth right chunk " + via, c, realHandler, ""})
		// (2) read-only not enforced
		c = cc
		c.Writable = false
		c.Reqs = []Req{{Method: "PUT", Path: well("N", true), Target: "N", Body: "valid"}}
		probes = append(probes, probe{"readonly off chunk " + via, c, with(func(c *Case) { c.Writable = true }), "C15:chunk:readonly-modified"})
		c = ic
		c.Writable = false
		c.Reqs = []Req{{Method: "PUT", Path: "/new.caibx", Body: "valid", BodySeed: 3}}
		probes = append(probes, probe{"readonly off index " + via, c, with(func(c *Case) { c.Writable = true }), "C15:index:readonly-modified"})
		// (3) verification not enforced
		c = cc
		c.Compressed = false
		c.StoreUncompressed = true
		c.Reqs = []Req{{Method: "PUT", Path: well("N", false), Target: "N", Body: "garbage", BodyLen: 50, BodySeed: 1}}
		probes = append(probes, probe{"verify off " + via, c, with(func(c *Case) { c.SkipVerifyWrite = true }), "C15:chunk:bad-upload-accepted"})
		probes = append(probes, probe{"verify off (stored) " + via, c, with(func(c *Case) { c.SkipVerifyWrite = true }), "C15:chunk:bad-upload-stored"})
		// (4) confinement
		escape := func(rel string) func(*env) http.Handler {
			return func(e *env) http.Handler {
				return http.HandlerFunc(func(w http.ResponseWriter, r *http.Request) {
					os.WriteFile(filepath.Join(e.served, rel), []byte("evil"), 0o644)
				})
			}
		}
		c = ic
		c.Reqs = []Req{{Method: "PUT", Path: "/new.caibx", Body: "valid", BodySeed: 3}}
		probes = append(probes, probe{"escape " + via, c, escape("../evil"), "C15:index:outside-modified"})
		probes = append(probes, probe{"other name " + via, c, escape("other.caibx"), "C15:index:other-name-modified"})
		probes = append(probes, probe{"named " + via, c, escape("new.caibx"), ""})
		c.Reqs = []Req{{Method: "PUT", Path: "/keep.txt", Body: "valid", BodySeed: 3}}
		probes = append(probes, probe{"sentinel overwrite " + via, c, escape("../sentinel/keep.txt"), "C15:index:outside-modified"})
		c = cc
		c.Reqs = []Req{{Method: "GET", Path: well("R", true), Target: "R"}}
		serveP := func(e *env) http.Handler {
			return http.HandlerFunc(func(w http.ResponseWriter, r *http.Request) { w.Write(compress(u["P"].Plain)) })
		}
		probes = append(probes, probe{"wrong object " + via, c, serveP, "C15:chunk:get-wrong-object"})
		c.Reqs = []Req{{Method: "POST", Path: well("R", true), Target: "R"}}
		probes = append(probes, probe{"foreign bytes " + via, c, serveP, "C15:chunk:foreign-bytes-served"})
		c = ic
		c.Reqs = []Req{{Method: "GET", Path: "/sub/deep.caibx"}}
		serveOutside := func(e *env) http.Handler {
			return http.HandlerFunc(func(w http.ResponseWriter, r *http.Request) {
				b, _ := os.ReadFile(filepath.Join(e.outer, "victim.caibx"))
				w.Write(b)
			})
		}
		probes = append(probes, probe{"outside served " + via, c, serveOutside, "C15:index:get-wrong-object"})
	}
	for _, p := range probes {
		o := runWith(p.c, p.mk)
		if p.want == "" {
			if len(o.Violations) > 0 {
				fail("%s: expected no violation, got [%s] %s", p.name, o.Violations[0].Sig, o.Violations[0].Msg)
			}
			continue
		}
		hit := false
		for _, v := range o.Violations {
			if v.Sig == p.want {
				hit = true
			}
		}
		if !hit {
			fail("%s: oracle did not report %s (got %v)", p.name, p.want, o.Violations)
		}
	}
	// no goroutine, listener or connection outlives a case
	{
		settle := func() int {
			n := runtime.NumGoroutine()
			for i := 0; i < 500 && n > 0; i++ {
				time.Sleep(10 * time.Millisecond)
				if m := runtime.NumGoroutine(); m >= n {
					return m
				} else {
					n = m
				}
			}
			return n
		}
		base := settle()
		c := index
		c.Via = "server"
		c.Reqs = []Req{{Method: "GET", Path: "/present.caibx"}, {Method: "HEAD", Path: "/present.caibx"}, {Method: "PUT", Path: "/%zz", Body: "garbage", BodyLen: 70000},
			{Method: "PUT", Path: "/new.caibx", Body: "valid", BodySeed: 3}, {Method: "GET", Path: "/../victim.caibx"}}
		for i := 0; i < 40; i++ {
			runWith(c, realHandler)
		}
		after := runtime.NumGoroutine()
		for i := 0; i < 500 && after > base; i++ {
			time.Sleep(10 * time.Millisecond)
			after = runtime.NumGoroutine()
		}
		if after > base {
			fail("goroutines: %d before, %d after 40 server cases", base, after)
		}
	}

	// the oracle's own path reading
	id := strings.Repeat("ab", 32)
	for _, tc := range []struct {
		p, e string
		ok   bool
	}{
		{"/abab/" + id + cacnk, cacnk, true}, {"/abab/" + id, "", true}, {"/abab/" + id + cacnk, "", false}, {"/abab/" + id, cacnk, false},
		{"/ABAB/" + strings.ToUpper(id), "", true}, {"/abab/" + strings.ToUpper(id), "", false}, {"/abac/" + id, "", false},
		{"//abab/" + id, "", false}, {"/abab/" + id + "/", "", false}, {"/abab/" + id[:63] + "g", "", false}, {"", "", false}, {"/", "", false},
	} {
		if _, ok := parseChunkPath(tc.p, tc.e); ok != tc.ok {
			fail("parseChunkPath(%q,%q) = %v", tc.p, tc.e, ok)
		}
	}
	for p, want := range map[string]string{"/a": "a", "/x/y/a": "a", "/a/": "a", "a": "a", "/..": "", "/.": "", "/": "", "": "", "///": "", "/sub/..": "", "/a\\b": "a\\b"} {
		if n, _ := indexBaseName(p); n != want {
			fail("indexBaseName(%q) = %q, want %q", p, n, want)
		}
	}
}

func TestProp(t *testing.T) { t.Cleanup(dropWorlds); hx.Prop(t, spec) }
