// C19 — Decoders survive arbitrary input: no panic, no allocation out of proportion to the
// input, every call returns, and input the generator knows to be malformed yields an error.
package c19

import (
	"encoding/binary"
	"encoding/json"
	"fmt"
	"os"
	"path/filepath"
	"strings"
	"testing"
	"time"

	"pgregory.net/rapid"

	"verifharness/internal/gen"
	"verifharness/internal/hx"
)

// Case is one input for one decoder entry point. Three forms:
//
//	elems   — a generated element / message stream (Elems)
//	trunc   — fixture Fixture cut to Cut bytes
//	mut     — fixture Fixture with the 8-byte field at Off overwritten by Val
//	fixture — fixture Fixture unchanged
//	raw     — Raw bytes as they are (fuzz crashers, hand-made probes)
//	struct  — an archive (Fixture, or the well-formed Elems) with one element-level mutation (Struct)
//	index   — a valid index with a header mutation and a table mutation combined (Idx)
//	enum    — a batch of enumeration cases by index (crash journal of TestEnum)
type Case struct {
	Target  string    `json:"target"`
	Form    string    `json:"form"`
	Elems   []Elem    `json:"elems,omitempty"`
	Fixture string    `json:"fixture,omitempty"`
	Cut     int       `json:"cut,omitempty"`
	Off     int       `json:"off,omitempty"`
	Val     uint64    `json:"val,omitempty"`
	Raw     []byte    `json:"raw,omitempty"`
	Struct  *StructOp `json:"struct,omitempty"` // form "struct": element-level mutation of Fixture (or of Elems)
	Idx     *IdxCase  `json:"idx,omitempty"`    // form "index": header x table mutation of a valid index
	Enum    []int     `json:"enum,omitempty"`   // form "enum": indexes into the enumeration (batch journal of TestEnum)
	Src     string    `json:"src,omitempty"`    // source kind handed to the entry point (default guard)
	Drain   string    `json:"drain,omitempty"`  // catar decoders: what the caller does with a payload reader (none/part/all)
}

// input materialises the bytes and what is known about them.
func (c Case) input() ([]byte, known, error) {
	switch c.Form {
	case "elems":
		b, k := buildStream(c.Target, targetDomain(c.Target), c.Elems)
		return b, k, nil
	case "raw":
		return c.Raw, known{}, nil
	case "struct":
		if c.Target != "archive" && c.Target != "untar" {
			return nil, known{}, fmt.Errorf("form struct needs an archive target")
		}
		b, _, _, err := c.structInput()
		return b, known{}, err
	case "index":
		if c.Idx == nil || (c.Target != "index" && c.Target != "indexput") {
			return nil, known{}, fmt.Errorf("form index needs idx and an index target")
		}
		b, k, _ := c.Idx.build()
		return b, k, nil
	case "fixture", "trunc", "mut":
		fm, err := fixtures()
		if err != nil {
			return nil, known{}, err
		}
		f, ok := fm[c.Fixture]
		if !ok {
			return nil, known{}, fmt.Errorf("unknown fixture %q", c.Fixture)
		}
		switch c.Form {
		case "fixture":
			return f.Data, known{OKBefore: len(f.Spans)}, nil
		case "trunc":
			cut := clampN(c.Cut, len(f.Data))
			return f.Data[:cut], f.truncKnown(c.Target, cut), nil
		default:
			off := clampN(c.Off, len(f.Data)-8)
			b := append([]byte(nil), f.Data...)
			binary.LittleEndian.PutUint64(b[off:], c.Val)
			return b, f.mutKnown(c.Target, off, c.Val), nil
		}
	}
	return nil, known{}, fmt.Errorf("unknown case form %q", c.Form)
}

// ---------------------------------------------------------------- generator

func genElem(t *rapid.T, d *domain, typ string, hostile bool) Elem {
	e := Elem{T: typ, SK: "exact", Seed: rapid.Uint64().Draw(t, "seed")}
	if typ == "unknown" {
		e.TV = rapid.Uint64().Draw(t, "tv")
		if _, clash := d.byVal[e.TV]; clash {
			e.TV++
		}
	}
	e.N = rapid.SampledFrom([]int{0, 1, 1, 2, 3, 7, 8, 9, 15, 16, 17, 40, 100}).Draw(t, "n")
	e.Dir = rapid.Bool().Draw(t, "dir")
	if !hostile {
		return e
	}
	if ti := d.info(e); (ti.kind == kString || ti.kind == kACLName) && rapid.IntRange(0, 3).Draw(t, "term") == 0 {
		// a string element of the right size whose body does not end in NUL
		e.Term = rapid.SampledFrom([]string{"none", "inner", "inner"}).Draw(t, "termkind")
		if e.N < 2 {
			e.N = 2 + int(e.Seed%9)
		}
		return e
	}
	e.SK = rapid.SampledFrom(sizeKindsDrawn).Draw(t, "sk")
	// A repeated 1 GiB allocation is not lazily mapped any more (the runtime clears reused
	// address space: ~0.7 s and 1-2 GiB resident per process), so 2^30 is drawn very rarely and
	// only on the first four shards; the enumeration covers it for every type.
	// (decided by a hash of the content seed: rapid's integer draws favour small values)
	if hx.Shard() < 4 && gen.RandBytes(8, e.Seed)[0] == 0 && gen.RandBytes(8, e.Seed)[1] < 43 {
		e.SK = "2^30"
	}
	switch rapid.IntRange(0, 5).Draw(t, "bodymode") {
	case 0, 1: // as natural
	case 2: // shorter
		e.BD = -rapid.SampledFrom([]int{1, 1, 2, 7, 8, 9, 16, 24, 4096}).Draw(t, "short")
	case 3: // longer
		e.BD = rapid.SampledFrom([]int{1, 1, 7, 8, 16, 24, 40, 64}).Draw(t, "long")
	case 4: // empty body
		e.BD = -4096
	case 5: // body exactly as announced, when that is a sane number
		e.BD = 1 << 30 // resolved in fitBody
	}
	return e
}

// fitBody resolves BD == 1<<30 ("make the body as long as the size field says") for small sizes.
func fitBody(d *domain, e Elem) Elem {
	if e.BD != 1<<30 {
		return e
	}
	e.BD = 0
	nat := natural(d, e)
	size := e.sizeField(exactSize(d.info(e), nat))
	if size >= 16 && size < 16+4096 {
		e.BD = int(size-16) - len(nat)
	}
	return e
}

// sizeKindsDrawn: what the generator draws from (2^30 is handled separately, see genElem).
var sizeKindsDrawn = func() []string {
	var w []string
	for _, k := range sizeKinds {
		if k != "2^30" {
			w = append(w, k)
		}
	}
	return w
}()

var (
	formatTypeNames = func() []string {
		var n []string
		for _, t := range formatTypes {
			n = append(n, t.name)
		}
		return append(n, "unknown")
	}()
	protoTypeNames = func() []string {
		var n []string
		for _, t := range protoTypes {
			n = append(n, t.name)
		}
		return append(n, "unknown")
	}()
	perEntryTypes = []string{"CaFormatUser", "CaFormatGroup", "CaFormatXAttr", "CaFormatACLUser", "CaFormatACLGroup",
		"CaFormatACLGroupObj", "CaFormatACLDefault", "CaFormatFCaps", "CaFormatSELinux"}
)

// archiveShape: a small well-formed catar skeleton; the caller makes one or two elements hostile.
func archiveShape(t *rapid.T) []string {
	ts := []string{"CaFormatEntry"} // root directory
	nfiles := rapid.IntRange(0, 3).Draw(t, "files")
	for i := 0; i < nfiles; i++ {
		ts = append(ts, "CaFormatFilename", "CaFormatEntry")
		extras := rapid.IntRange(0, 2).Draw(t, "extras")
		for j := 0; j < extras; j++ {
			ts = append(ts, rapid.SampledFrom(perEntryTypes).Draw(t, "extra"))
		}
		switch rapid.IntRange(0, 3).Draw(t, "node") {
		case 0, 1:
			ts = append(ts, "CaFormatPayload")
		case 2:
			ts = append(ts, "CaFormatSymlink")
		case 3:
			ts = append(ts, "CaFormatDevice")
		}
	}
	return append(ts, "CaFormatGoodbye")
}

func genCase(t *rapid.T) Case {
	c := Case{Form: "elems"}
	c.Target = rapid.SampledFrom(allTargets).Draw(t, "target")
	if (c.Target == "index" || c.Target == "indexput") && rapid.IntRange(0, 9).Draw(t, "idxform") < 5 {
		x := genIdxCase(t)
		return Case{Target: c.Target, Form: "index", Idx: &x}
	}
	if (c.Target == "archive" || c.Target == "untar") && rapid.IntRange(0, 9).Draw(t, "structform") < 3 {
		return genStructCase(t, c.Target)
	}
	d := targetDomain(c.Target)
	var types []string
	shape := rapid.IntRange(0, 9).Draw(t, "shape")
	switch c.Target {
	case "index", "indexput":
		if shape < 7 {
			types = []string{"CaFormatIndex", "CaFormatTable"}
		}
	case "archive", "untar":
		if shape < 7 {
			types = archiveShape(t)
		}
	case "format", "indexfile":
		if shape < 3 {
			types = archiveShape(t)
		} else if shape < 5 {
			types = []string{"CaFormatIndex", "CaFormatTable"}
		}
	case "protohello":
		if shape < 7 {
			types = []string{"CaProtocolHello"}
		}
	case "protochunk":
		if shape < 5 {
			types = []string{"CaProtocolChunk"}
		} else if shape < 7 {
			types = []string{"CaProtocolMissing"}
		}
	case "protoserve":
		if shape < 8 {
			types = []string{"CaProtocolHello"}
			for i := rapid.IntRange(0, 3).Draw(t, "reqs"); i > 0; i-- {
				types = append(types, rapid.SampledFrom([]string{"CaProtocolRequest", "CaProtocolRequest", "CaProtocolGoodbye", "CaProtocolAbort", "unknown"}).Draw(t, "msg"))
			}
		}
	}
	free := types == nil
	if free {
		names := formatTypeNames
		if d == domProto {
			names = protoTypeNames
		}
		for i := rapid.IntRange(1, 4).Draw(t, "count"); i > 0; i-- {
			types = append(types, rapid.SampledFrom(names).Draw(t, "type"))
		}
	}
	if sourceTarget(c.Target) && rapid.IntRange(0, 9).Draw(t, "plainsrc") >= 4 {
		c.Src = rapid.SampledFrom(sourceKinds[1:]).Draw(t, "src")
	}
	if drainTarget(c.Target) {
		c.Drain = rapid.SampledFrom([]string{"", "none", "part", "all"}).Draw(t, "drain")
	}
	// which elements are hostile: usually exactly one, sometimes none or two
	h1 := rapid.IntRange(0, len(types)-1).Draw(t, "h1")
	h2 := -1
	switch rapid.IntRange(0, 9).Draw(t, "hostility") {
	case 0:
		h1 = -1
	case 1, 2:
		h2 = rapid.IntRange(0, len(types)-1).Draw(t, "h2")
	}
	for i, typ := range types {
		e := genElem(t, d, typ, i == h1 || i == h2)
		if i == 0 && (c.Target == "archive" || c.Target == "untar") && !free {
			e.Dir = true
		}
		c.Elems = append(c.Elems, fitBody(d, e))
	}
	return c
}

// ---------------------------------------------------------------- run

func sizeClass(d *domain, e Elem) string { return "size:" + e.SK }

func describe(c Case, in []byte, k known, r res) map[string]any {
	m := map[string]any{"target": c.Target, "form": c.Form, "len": len(in), "consumed": r.Consumed, "calls": r.Calls,
		"alloc": r.Alloc, "elem": r.Elem, "err": r.Err != nil, "malformed": k.Malformed}
	if k.What != "" {
		m["what"] = k.What
	}
	if c.Src != "" {
		m["src"] = c.Src
	}
	if c.Drain != "" {
		m["drain"] = c.Drain
	}
	switch c.Form {
	case "elems":
		var sh []string
		for _, e := range c.Elems {
			sh = append(sh, fmt.Sprintf("%s/%s/%+d", strings.TrimPrefix(strings.TrimPrefix(e.T, "CaFormat"), "CaProtocol"), e.SK, e.BD))
		}
		m["elems"] = sh
	case "trunc":
		m["fixture"], m["cut"] = c.Fixture, c.Cut
	case "mut":
		m["fixture"], m["off"], m["val"] = c.Fixture, c.Off, fmt.Sprintf("%#x", c.Val)
	case "fixture":
		m["fixture"] = c.Fixture
	case "struct":
		m["fixture"], m["op"] = c.Fixture, fmt.Sprintf("%s@%d/%d", c.Struct.Op, c.Struct.At, c.Struct.Arg)
	case "index":
		m["idx"] = fmt.Sprintf("n=%d max=%s min=%s avg=%s flags=%s tab=%s at=%d", c.Idx.N, c.Idx.Max, c.Idx.Min, c.Idx.Avg, c.Idx.Flags, c.Idx.Tab, c.Idx.At)
	}
	return m
}

// verdict applies the oracle to what one target call showed.
func verdict(o *hx.Outcome, target string, in []byte, k known, r res) {
	verdictTag(o, target, "", in, k, r)
}

// verdictTag: tag ("" for the default source) is appended to every signature so that a failure
// that depends on the kind of reader is told apart from the plain one.
func verdictTag(o *hx.Outcome, target, tag string, in []byte, k known, r res) {
	if r.Panic != nil {
		o.Fail("C19:"+target+":panic:"+r.Elem+tag, "%s panicked on %d input bytes (%d consumed, element in flight %s): %v\n%s",
			target, len(in), r.Consumed, r.Elem, r.Panic, trimStack(r.Stack))
	}
	if bound := allocBound(len(in), r.Exempt); r.Alloc > bound {
		o.Fail("C19:"+target+":alloc:"+r.Elem+tag, "%s allocated %d bytes for %d input bytes (bound %d; element in flight %s)",
			target, r.Alloc, len(in), bound, r.Elem)
	}
	if k.Malformed && !r.Unsafe && r.Panic == nil {
		sizeKnown := strings.HasPrefix(k.What, "size:") || k.What == "unknown-type"
		switch {
		case r.Err == nil:
			o.Fail("C19:"+target+":accepts-malformed:"+k.What+tag, "%s returned no error for an input that is malformed by construction (%s; %d bytes, %d successful calls, %d well-formed elements in front)",
				target, k.What, len(in), r.Calls, k.OKBefore)
		case sizeKnown && (target == "format" || target == "protomsg") && r.Calls > k.OKBefore:
			o.Fail("C19:"+target+":accepts-malformed:"+k.What+tag, "%s returned %d elements although element %d is malformed by construction (%s); later error: %v",
				target, r.Calls, k.OKBefore, k.What, r.Err)
		}
	}
}

func trimStack(s string) string {
	// keep the frames of the code under test
	lines := strings.Split(s, "\n")
	var keep []string
	for i := 0; i+1 < len(lines); i++ {
		if strings.Contains(lines[i], "desync") && !strings.Contains(lines[i], "verifharness") {
			keep = append(keep, lines[i], lines[i+1])
			i++
		}
		if len(keep) >= 8 {
			break
		}
	}
	return strings.Join(keep, "\n")
}

func run(c Case) (o hx.Outcome) {
	if c.Form == "enum" {
		return runEnumBatch(c)
	}
	in, k, err := c.input()
	if err != nil {
		panic("c19: cannot build the input: " + err.Error())
	}
	op := opt{Src: c.Src, Drain: c.Drain}
	if !validOpt(c.Target, op) {
		panic(fmt.Sprintf("c19: source %q / drain %q not applicable to target %s", c.Src, c.Drain, c.Target))
	}
	var r res
	var base *res
	tag := ""
	if op.src() == "guard" {
		r = runTargetOpt(c.Target, in, unsafeLo, op)
	} else {
		// reference run of the same input and drain mode on the guarded, non-seekable source
		b := runTargetOpt(c.Target, in, unsafeLo, opt{Drain: c.Drain})
		base = &b
		if sourceSeekable(op.src()) {
			tag = ":seekable-source"
		} else {
			tag = ":" + op.src()
		}
		if sourceUnguarded(op.src()) && c.Target != "index" && b.Unsafe {
			// the real reader types cannot be guarded: left out when the guarded run withheld a value
			r = b
			r.Skipped = "unguarded-source"
			base = nil
		} else {
			r = runTargetOpt(c.Target, in, unsafeLo, op)
			if r.Elem == "none" {
				r.Elem = b.Elem
			}
			if r.Consumed < 0 {
				r.Consumed = b.Consumed
			}
		}
	}
	o.Desc = describe(c, in, k, r)
	o.Key = c.Target + "/" + hx.Hash8(in) + fmt.Sprint(len(in)) + "/" + c.Src + "/" + c.Drain
	o.Nontrivial = r.Consumed >= 16
	o.Class("target:"+c.Target, "form:"+c.Form)
	if sourceTarget(c.Target) {
		o.Class("source:" + op.src())
	}
	if drainTarget(c.Target) {
		o.Class("drain:" + op.drain(c.Target))
	}
	if c.Form == "trunc" && k.What == "trunc:CaFormatPayload" && drainTarget(c.Target) {
		how := map[string]string{"none": "undrained", "part": "partly", "all": "drained"}[op.drain(c.Target)]
		if sourceSeekable(op.src()) {
			o.Class("trunc-in-payload:seekable:" + how)
		} else {
			o.Class("trunc-in-payload:stream:" + how)
		}
	}
	if c.Form == "struct" {
		_, label, ref, lenient, _ := c.structInput2()
		demand := structDemand(ref, lenient)
		o.Class("archive:struct-mutation:" + label)
		switch {
		case !ref.Broken:
			o.Class("archive:struct:reference-accepts")
		case demand:
			o.Class("archive:struct:reference-refuses", "archive:struct:ref:"+ref.Code)
		default:
			o.Class("archive:struct:only-strict-reference-refuses", "archive:struct:no-demand:"+label+":"+ref.Code)
		}
		if !r.Unsafe && r.Panic == nil && r.Err == nil {
			switch {
			case demand:
				o.Fail("C19:"+c.Target+":clean-end-on-malformed"+tag, "%s reports a clean end after %d nodes of a stream that is not an archive (%s: reference finding %s at offset %d of %d bytes, it could follow %d nodes)",
					c.Target, r.Calls, label, ref.Code, ref.Off, len(in), ref.Nodes)
			case !ref.Broken && r.Calls < ref.Nodes:
				o.Fail("C19:"+c.Target+":clean-end-before-end-of-archive"+tag, "%s reports a clean end after %d nodes, the reference decoder finds %d nodes in this well-formed archive (%s, %d bytes)",
					c.Target, r.Calls, ref.Nodes, label, len(in))
			}
		}
	}
	if c.Form == "index" {
		_, _, tags := c.Idx.build()
		hdr := "normal-header-max"
		if tags["huge-header-max"] {
			hdr = "huge-header-max"
		}
		o.Class("index:tab:"+c.Idx.Tab, "index:max:"+c.Idx.Max)
		for _, tg := range []string{"decreasing-offset", "oversize-chunk", "equal-offset", "zero-offset", "table-size", "tail", "tail-unchecked-field", "digest-flag-missing"} {
			if tags[tg] {
				o.Class("index:"+tg, "index:"+tg+":"+hdr)
			}
		}
	}
	if c.Form == "elems" {
		d := targetDomain(c.Target)
		for _, e := range c.Elems {
			o.Class(sizeClass(d, e), "type:"+d.info(e).name)
			switch {
			case e.BD < 0:
				o.Class("body:shorter")
			case e.BD > 0:
				o.Class("body:longer")
			default:
				o.Class("body:natural")
			}
		}
	}
	switch {
	case k.Malformed:
		o.Class("known-malformed", "malformed:"+strings.SplitN(k.What, ":", 2)[0])
	case c.Form == "raw":
		o.Class("validity-unknown")
	case k.OKBefore > 0:
		o.Class("known-wellformed-prefix")
	default:
		o.Class("validity-unknown")
	}
	switch {
	case r.Unsafe:
		o.Class("outcome:withheld-by-guard")
	case r.Panic != nil:
		o.Class("outcome:panic")
	case r.Err != nil:
		o.Class("outcome:error")
	default:
		o.Class("outcome:accepted")
	}
	if r.Skipped != "" {
		o.Class("skipped:" + r.Skipped)
	}
	if r.Alloc > 1<<20 {
		o.Class("alloc>1MiB")
	}
	verdictTag(&o, c.Target, tag, in, k, r)
	// the outcome must not depend on the kind of reader the bytes come from
	if base != nil && !base.Unsafe && !r.Unsafe && base.Panic == nil && r.Panic == nil {
		if (base.Err == nil) != (r.Err == nil) || base.Calls != r.Calls {
			o.Fail("C19:"+c.Target+":source-dependent"+tag, "%s on %d bytes (drain %s): source %s gives err=%v after %d results, the plain stream reader gives err=%v after %d results",
				c.Target, len(in), op.drain(c.Target), op.src(), r.Err, r.Calls, base.Err, base.Calls)
		}
	}
	return o
}

// runEnumBatch re-runs a batch of enumeration cases (replay of a batch journal entry).
func runEnumBatch(c Case) (o hx.Outcome) {
	cases, err := enumCases()
	if err != nil {
		panic("c19: " + err.Error())
	}
	o.Desc = map[string]any{"form": "enum", "cases": len(c.Enum)}
	for _, i := range c.Enum {
		if i < 0 || i >= len(cases) {
			continue
		}
		oi := run(cases[i])
		o.Nontrivial = o.Nontrivial || oi.Nontrivial
		for _, v := range oi.Violations {
			o.Violations = append(o.Violations, hx.Violation{Sig: v.Sig, Msg: fmt.Sprintf("enumeration case %d %+v: %s", i, oi.Desc, v.Msg)})
		}
	}
	return o
}

// validOpt: source kinds apply to the entry points that take a reader, drain modes to the catar decoders.
func validOpt(target string, o opt) bool {
	if o.Src != "" {
		ok := false
		for _, k := range sourceKinds {
			ok = ok || k == o.Src
		}
		if !ok || !sourceTarget(target) {
			return false
		}
	}
	if o.Drain != "" {
		ok := false
		for _, m := range drainModes {
			ok = ok || m == o.Drain
		}
		if !ok || !drainTarget(target) {
			return false
		}
	}
	return true
}

var requiredClasses = func() []string {
	req := []string{"form:elems", "form:trunc", "form:mut", "form:fixture", "form:index", "form:struct",
		"archive:struct-mutation:drop-payload", "archive:struct-mutation:drop-symlink", "archive:struct-mutation:drop-device", "archive:struct-mutation:drop-filename",
		"archive:struct-mutation:drop-entry", "archive:struct-mutation:drop-goodbye", "archive:struct-mutation:dup-entry", "archive:struct-mutation:dup-payload",
		"archive:struct-mutation:swap", "archive:struct-mutation:mode-type-changed", "archive:struct-mutation:move-goodbye-up", "archive:struct-mutation:move-goodbye-down",
		"archive:struct:reference-accepts", "archive:struct:reference-refuses",
		"index:decreasing-offset:huge-header-max", "index:decreasing-offset:normal-header-max", "index:oversize-chunk", "index:equal-offset:huge-header-max",
		"index:zero-offset", "index:table-size", "index:tail", "index:tail-unchecked-field", "body:shorter", "body:longer", "body:natural",
		"known-malformed", "malformed:size", "malformed:trunc", "malformed:unterminated", "outcome:error", "outcome:accepted"}
	for _, t := range allTargets {
		req = append(req, "target:"+t)
	}
	for _, k := range sourceKinds {
		req = append(req, "source:"+k)
	}
	for _, m := range drainModes {
		req = append(req, "drain:"+m)
	}
	for _, a := range []string{"seekable", "stream"} {
		for _, b := range []string{"undrained", "partly", "drained"} {
			req = append(req, "trunc-in-payload:"+a+":"+b)
		}
	}
	for _, s := range sizeKinds {
		req = append(req, "size:"+s)
	}
	for _, t := range formatTypes {
		req = append(req, "type:"+t.name)
	}
	for _, t := range protoTypes {
		req = append(req, "type:"+t.name)
	}
	return append(req, "type:unknown")
}()

var spec = &hx.Spec[Case]{
	ID:    "C19",
	Level: "exploration",
	Rule: "cases = (decoder entry point, input) with input = generated element/message stream (type in all known identifiers + unknown, size field in " +
		"{0,1,15,16,17,24,31,32,33,40,47,48,63,64,65,exact,exact±1,2^20,2^21,2^30,2^48+64,2^63,MaxUint64}, body shorter/equal/longer than announced), or a fixture " +
		"(index.caibx, *.catar, recorded protocol session) truncated at every length or with one 8-byte field overwritten, or raw bytes; " +
		"non-trivial = the entry point consumed at least one 16-byte header (a size field was interpreted); distinct by (target, input bytes)",
	Assumptions: []string{
		"allocation = runtime.MemStats.TotalAlloc delta across the call on the calling goroutine; bound 1 MiB + 32 x len(input)",
		"decoded chunk payload of a CHUNK message is exempt from the bound (4 x its independently decoded size; frames over 64 MiB are not fed to desync)",
		"size values in the open interval (2^30, 2^48+64) are never handed to the code under test (guard reader / prescan of offsets 0 and 48)",
		"malformed-must-fail is judged only where the generator broke a size field or truncated; fixed-size elements must carry their fixed size",
		"index verdicts: decreasing or zero offsets, a chunk larger than the header maximum, items that are not 40 bytes and broken tail zero-fill/marker are malformed whatever the header says; equal offsets (zero-size chunk) and the tail's index-offset/size fields carry no demand",
		"UnTar writes into a no-op FilesystemWriter that drains file bodies like LocalFS does (drain mode all; part/none model a writer that stops early)",
		"*bytes.Reader, *os.File and *bufio.Reader are handed over unguarded, only after a guarded run of the same input withheld nothing; the outcome (error or not, number of results) must equal that of the guarded stream reader",
	},
	Required: requiredClasses,
	Gen:      genCase,
	Run:      run,
	Journal:  true,
	Watchdog: 60 * time.Second,
}

func TestMain(m *testing.M) {
	setAddressSpaceLimit()
	hx.Main(m)
}

func TestRegress(t *testing.T) { hx.Regress(t, spec) }
func TestKnown(t *testing.T)   { hx.Known(t, spec) }
func TestReplay(t *testing.T)  { hx.Replay(t, spec) }

// mine reports whether enumeration item i belongs to this shard.
func mine(i int) bool { return i%hx.Shards() == hx.Shard() }

var mutSizeVals = func() []uint64 {
	var v []uint64
	for _, k := range sizeKinds {
		if c, ok := sizeConsts[k]; ok && k != "2^30" {
			v = append(v, c)
		}
	}
	return v
}()

// gridCases: one element of every type x every hostile size x {natural body, no body, 8 extra
// bytes} for every entry point (behind the minimal well-formed prefix the entry point needs).
func gridCases() []Case {
	var out []Case
	for _, target := range allTargets {
		d := targetDomain(target)
		names := formatTypeNames
		if d == domProto {
			names = protoTypeNames
		}
		for _, typ := range names {
			for _, sk := range sizeKinds {
				for _, bd := range []int{0, -4096, 8} {
					if sk == "2^30" && (bd != 0 || !(target == "format" || typ == "CaFormatFilename" || typ == "CaProtocolChunk")) {
						continue // 1 GiB allocations are expensive: every type once, every entry point once
					}
					es := []Elem{{T: typ, TV: 0x1111, N: 3, SK: sk, BD: bd, Seed: 5}}
					if target == "archive" || target == "untar" {
						es = append([]Elem{{T: "CaFormatEntry", SK: "exact", Dir: true}}, es...)
					}
					if target == "protoserve" && typ != "CaProtocolHello" {
						es = append([]Elem{{T: "CaProtocolHello", SK: "exact", Seed: 0x40}}, es...)
					}
					if (target == "index" || target == "indexput") && typ != "CaFormatIndex" && bd == 8 {
						es = append([]Elem{{T: "CaFormatIndex", SK: "exact"}}, es...)
					}
					out = append(out, Case{Target: target, Form: "elems", Elems: es})
				}
			}
		}
	}
	return out
}

// TestEnum: the hostile grid (gridCases), every truncation of every fixture for every applicable entry point, and every
// single-field mutation: size fields x all hostile sizes (+ old±1), type fields x all known
// identifiers + one unknown, other 8-byte fields x a small hostile set. Spread over the shards.
func TestEnum(t *testing.T) {
	cases, err := enumCases()
	if err != nil {
		fmt.Println("SELFTEST-FAILURE: fixtures:", err)
		t.Fatal(err)
	}
	// Entry points that start goroutines (a panic there ends the process) are journalled case by
	// case by hx. The others run in batches behind one journal entry that names the whole batch
	// (form "enum"): a process death is still attributed and replayable, at 1/256 of the file traffic.
	var plain, journalled []int
	for i, c := range cases {
		if !mine(i) {
			continue
		}
		if needsJournal(c.Target) {
			journalled = append(journalled, i)
		} else {
			plain = append(plain, i)
		}
	}
	failed := 0
	jpath := filepath.Join(hx.RunDir(), "current-case.json")
	for start := 0; start < len(plain) && failed < 20; start += enumBatch {
		batch := plain[start:min(start+enumBatch, len(plain))]
		jb, _ := json.Marshal(map[string]any{"property": "C19", "case": Case{Target: "enum", Form: "enum", Enum: batch},
			"verdict": "process died while running one of these enumeration cases"})
		os.WriteFile(jpath, jb, 0o644)
		for _, i := range batch {
			if !hx.Case(t, specBatch, cases[i]) {
				failed++
			}
		}
		os.Remove(jpath)
	}
	for _, i := range journalled {
		if failed >= 20 {
			break
		}
		if !hx.Case(t, spec, cases[i]) {
			failed++
		}
	}
	hx.AddNote("enumerated_cases", len(plain)+len(journalled))
	if failed == 0 {
		hx.Exhaustive("index header maximum {ok,0,1,2^32,2^63,MaxUint64-11..-8,-1,MaxUint64} x every table mutation x position {first,middle,last} x {2,5} chunks for IndexFromReader and the PUT handler; every element/message type x every hostile size x {natural, empty, longer} body for every entry point; every truncation of the single-file archives and every truncation in/around a payload of the catar fixtures x every source kind x every payload consumption; every truncation and every single-field mutation (size x hostile sizes, type x known identifiers, body fields x hostile values) of index.caibx, *.catar and the recorded protocol session, for every applicable entry point")
	}
}

const enumBatch = 256

// needsJournal: entry points whose code starts goroutines (Protocol.Initialize, IndexFromFile).
func needsJournal(target string) bool {
	switch target {
	case "protohello", "protochunk", "protoserve", "indexfile":
		return true
	}
	return false
}

// specBatch is spec without the per-case journal (see TestEnum).
var specBatch = func() *hx.Spec[Case] {
	s := *spec
	s.Journal = false
	return &s
}()

// cutsFor: every truncation length of a fixture; for the big single-file archive a sample that
// keeps everything near the element boundaries and the usual buffer sizes.
func cutsFor(f *fixture) []int {
	var cuts []int
	for cut := 0; cut < len(f.Data); cut++ {
		if len(f.Data) > 5000 {
			near := cut < 120 || cut >= len(f.Data)-8
			for _, m := range []int{512, 4096, 4096 + 80, 8192, 8192 + 80} {
				near = near || (cut >= m-2 && cut <= m+2)
			}
			if !near && cut%997 != 0 {
				continue
			}
		}
		cuts = append(cuts, cut)
	}
	return cuts
}

// combosFor: the non-default (source kind, payload consumption) combinations of an entry point.
func combosFor(target string) []opt {
	var out []opt
	drains := []string{""}
	if drainTarget(target) {
		drains = drainModes
	}
	for _, k := range sourceKinds {
		for _, d := range drains {
			o := opt{Src: k, Drain: d}
			if k == "guard" && (d == "" || d == o2default(target)) {
				continue // the plain enumeration above
			}
			out = append(out, o)
		}
	}
	return out
}

func o2default(target string) string { return opt{}.drain(target) }

func enumCases() ([]Case, error) {
	fm, err := fixtures()
	if err != nil {
		return nil, err
	}
	out := append(gridCases(), idxEnumCases()...)
	sc, err := structEnumCases()
	if err != nil {
		return nil, err
	}
	out = append(out, sc...)
	do := func(c Case) { out = append(out, c) }
	bodyVals := []uint64{0, 1, 1 << 21, sizeHuge48, 1 << 63, ^uint64(0)}
	ti := 0
	for _, name := range fixtureNames() {
		f := fm[name]
		for _, target := range f.Targets {
			do(Case{Target: target, Form: "fixture", Fixture: name})
			cuts := cutsFor(f)
			for _, cut := range cuts {
				if target == "indexfile" && cut > 80 {
					break // only the first element is looked at
				}
				do(Case{Target: target, Form: "trunc", Fixture: name, Cut: cut})
			}
			if !sourceTarget(target) {
				continue
			}
			// --- source kind x payload consumption
			combos := combosFor(target)
			ti++
			for _, co := range combos { // the intact fixture under every combination
				do(Case{Target: target, Form: "fixture", Fixture: name, Src: co.Src, Drain: co.Drain})
			}
			full := map[int]bool{} // cuts that get the complete product
			switch {
			case name == "single.catar" || name == "single-big.catar" || !drainTarget(target):
				for _, cut := range cuts {
					full[cut] = true
				}
			default:
				// around and inside every payload
				for _, sp := range f.Spans {
					if sp.Name != "CaFormatPayload" {
						continue
					}
					for _, cut := range []int{sp.Off, sp.Off + 1, sp.Off + 8, sp.Off + 15, sp.Off + 16, sp.Off + 17, (sp.Off + 16 + sp.End) / 2, sp.End - 1, sp.End, sp.End + 1, sp.End + 16} {
						if cut >= 0 && cut < len(f.Data) {
							full[cut] = true
						}
					}
				}
			}
			for ci, cut := range cuts {
				if full[cut] {
					for _, co := range combos {
						do(Case{Target: target, Form: "trunc", Fixture: name, Cut: cut, Src: co.Src, Drain: co.Drain})
					}
					continue
				}
				// everywhere else: one more combination per cut, rotating through all of them
				co := combos[(ci+5*ti)%len(combos)]
				do(Case{Target: target, Form: "trunc", Fixture: name, Cut: cut, Src: co.Src, Drain: co.Drain})
			}
			seenType := map[string]bool{}
			for si, s := range f.Spans {
				if (target == "indexfile" || target == "protohello" || target == "protochunk") && si > 0 {
					break
				}
				for _, fl := range s.Fields {
					var vals []uint64
					switch fl.Role {
					case "size":
						vals = append(append([]uint64(nil), mutSizeVals...), s.Size-1, s.Size+1)
						if !seenType[s.Name] && (target == "format" || target == "protomsg") {
							// 2^30 (a real 1 GiB allocation when unguarded) once per element type and fixture
							seenType[s.Name] = true
							vals = append(vals, 1<<30)
						}
					case "type":
						for _, ti := range f.Dom.types {
							vals = append(vals, ti.val)
						}
						vals = append(vals, 0, 0x1234567890abcdef)
					default:
						vals = bodyVals
					}
					for _, v := range vals {
						do(Case{Target: target, Form: "mut", Fixture: name, Off: fl.Off, Val: v})
					}
				}
			}
		}
	}
	return out, nil
}

func TestProp(t *testing.T) { hx.Prop(t, spec) }

// ---------------------------------------------------------------- dev aid

// TestSigs (only with C19_LIST_SIGS=1) prints every distinct violation signature of the
// enumerations and of a batch of generated cases, with the smallest input that showed it.
func TestSigs(t *testing.T) {
	if os.Getenv("C19_LIST_SIGS") == "" {
		t.Skip("C19_LIST_SIGS not set")
	}
	type hit struct {
		n    int
		in   []byte
		msg  string
		desc any
	}
	hits := map[string]*hit{}
	note := func(c Case) {
		o := run(c)
		in, _, _ := c.input()
		for _, v := range o.Violations {
			h := hits[v.Sig]
			if h == nil {
				h = &hit{}
				hits[v.Sig] = h
			}
			h.n++
			if h.in == nil || len(in) < len(h.in) {
				h.in, h.msg, h.desc = in, v.Msg, o.Desc
			}
		}
	}
	cases, err := enumCases()
	if err != nil {
		t.Fatal(err)
	}
	for _, c := range cases {
		note(c)
	}
	rapid.Check(t, func(rt *rapid.T) { note(genCase(rt)) })
	var sigs []string
	for s := range hits {
		sigs = append(sigs, s)
	}
	sortStrings(sigs)
	for _, s := range sigs {
		h := hits[s]
		msg := h.msg
		if len(msg) > 600 {
			msg = msg[:600]
		}
		fmt.Printf("SIG %s  n=%d  len=%d  hex=%x\n    %s\n", s, h.n, len(h.in), trunc(h.in, 96), strings.ReplaceAll(msg, "\n", "\n    "))
	}
	fmt.Println("IGNORE-LIST " + strings.Join(sigs, ","))
}

func trunc(b []byte, n int) []byte {
	if len(b) > n {
		return b[:n]
	}
	return b
}

// TestProbes (only with C19_CHECK_PROBES=1) runs the minimal input of every root cause found on
// the unrepaired tree (testdata/probes) and says which of them still reproduce.
func TestProbes(t *testing.T) {
	if os.Getenv("C19_CHECK_PROBES") == "" {
		t.Skip("C19_CHECK_PROBES not set")
	}
	files, _ := filepath.Glob("testdata/probes/*.json")
	sortStrings(files)
	for _, f := range files {
		c, err := hx.LoadCase[Case](f)
		if err != nil {
			t.Errorf("%s: %v", f, err)
			continue
		}
		b, _ := os.ReadFile(f)
		var meta struct{ Verdict, What string }
		json.Unmarshal(b, &meta)
		in, _, _ := c.input()
		o := run(c)
		state := "does not reproduce"
		for _, v := range o.Violations {
			if v.Sig == meta.Verdict {
				state = "REPRODUCES"
			}
		}
		fmt.Printf("PROBE %-34s %-18s %s  input=%x\n      %s\n", filepath.Base(f), state, meta.Verdict, trunc(in, 48), meta.What)
		for _, v := range o.Violations {
			if v.Sig != meta.Verdict {
				fmt.Printf("      also: %s\n", v.Sig)
			}
		}
	}
}
