package c19

// Structured index cases (form "index"): an otherwise valid caibx whose HEADER fields and chunk
// TABLE are mutated together. The verdict comes from the harness' own reading of the format
// (strictly after casync: offsets never go back, no chunk larger than the announced maximum,
// 40-byte items, intact tail markers) and is claimed only where that reading is certain.

import (
	"encoding/binary"
	"fmt"
	"math"

	"pgregory.net/rapid"

	"verifharness/internal/gen"
)

// IdxCase describes one mutated index.
type IdxCase struct {
	N     int    `json:"n"`              // chunks of the valid index the case starts from (>= 2)
	Seed  uint64 `json:"seed,omitempty"` // offsets and IDs
	Max   string `json:"max"`            // header ChunkSizeMax: one of idxHeaderKinds
	Min   string `json:"min,omitempty"`  // header ChunkSizeMin likewise ("" = ok)
	Avg   string `json:"avg,omitempty"`  // header ChunkSizeAvg likewise
	Flags string `json:"flags,omitempty"`
	Tab   string `json:"tab"` // table mutation: one of idxTableKinds
	At    int    `json:"at"`  // item the table mutation applies to
}

var idxHeaderKinds = []string{"ok", "0", "1", "2^32", "2^63", "max-11", "max-10", "max-9", "max-8", "max-1", "max"}

var idxFlagKinds = []string{"ok", "all", "sha-only", "none", "no-sha"}

var idxTableKinds = []string{"none", "equal", "dec1", "dec10", "declarge", "wrap", "maxoff", "zero", "oversize",
	"extra8", "short8", "tail-zero1", "tail-zero2", "tail-marker", "tail-ioff", "tail-size"}

const idxBaseMax = 262144

func idxHeaderValue(kind string, ok uint64) uint64 {
	switch kind {
	case "", "ok":
		return ok
	case "0":
		return 0
	case "1":
		return 1
	case "2^32":
		return 1 << 32
	case "2^63":
		return 1 << 63
	case "max":
		return math.MaxUint64
	}
	var k uint64
	if _, err := fmt.Sscanf(kind, "max-%d", &k); err == nil {
		return math.MaxUint64 - k
	}
	return ok
}

func idxFlags(kind string) uint64 {
	const sha, nodump = uint64(0x2000000000000000), uint64(0x8000000000000000)
	switch kind {
	case "all":
		return math.MaxUint64
	case "sha-only":
		return sha
	case "none":
		return 0
	case "no-sha":
		return nodump
	}
	return sha | nodump
}

// build returns the file and what is certain about it.
func (x IdxCase) build() ([]byte, known, map[string]bool) {
	n := x.N
	if n < 2 {
		n = 2
	}
	if n > 2000 {
		n = 2000
	}
	at := x.At
	if at < 1 {
		at = 1
	}
	if at > n-1 {
		at = n - 1
	}
	flags := idxFlags(x.Flags)
	hmin, havg, hmax := idxHeaderValue(x.Min, 16384), idxHeaderValue(x.Avg, 65536), idxHeaderValue(x.Max, idxBaseMax)
	offs := make([]uint64, n)
	var off uint64
	for i := range offs {
		off += 1000 + binary.LittleEndian.Uint64(gen.RandBytes(8, x.Seed+uint64(i)))%60000 // every chunk 1000..60999 bytes
		offs[i] = off
	}
	tags := map[string]bool{}
	switch x.Tab {
	case "equal":
		offs[at] = offs[at-1]
	case "dec1":
		offs[at] = offs[at-1] - 1
	case "dec10":
		offs[at] = offs[at-1] - 10
	case "declarge":
		offs[at] = offs[at-1]/2 + 1
	case "wrap": // a huge offset followed by the ordinary ones
		offs[at-1] = math.MaxUint64
	case "maxoff":
		offs[n-1] = math.MaxUint64
	case "zero":
		offs[at] = 0
	case "oversize":
		for i := at; i < n; i++ {
			offs[i] += idxBaseMax
		}
	}
	b := le(48, domFormat.byName["CaFormatIndex"].val, flags, hmin, havg, hmax)
	b = append(b, le(math.MaxUint64, domFormat.byName["CaFormatTable"].val)...)
	for i, o := range offs {
		item := append(le(o), gen.RandBytes(32, x.Seed^uint64(i+1)*0x9e3779b97f4a7c15)...)
		for j := 8; j < 16; j++ { // no ID starts with eight zero bytes (a zero offset would else look like a tail)
			item[j] |= 1
		}
		switch {
		case x.Tab == "extra8" && i == at:
			item = append(item, 0x11, 0x22, 0x33, 0x44, 0x55, 0x66, 0x77, 0x88)
		case x.Tab == "short8" && i == at:
			item = item[:32]
		}
		b = append(b, item...)
	}
	tail := []uint64{0, 0, 48, uint64(16 + 40*n + 40), tailTable}
	switch x.Tab {
	case "tail-zero1":
		tail[0] = 1 // reads as one more item whose ID is the rest of the tail: the file then ends early
	case "tail-zero2":
		tail[1] = 1
	case "tail-marker":
		tail[4] ^= 1
	case "tail-ioff":
		tail[2] = 49
	case "tail-size":
		tail[3]++
	}
	b = append(b, le(tail...)...)

	// ---- the certain part of the verdict
	k := known{OKBefore: 2}
	certain := func(what string) {
		if !k.Malformed {
			k = known{Malformed: true, What: "index:" + what}
		}
		tags[what] = true
	}
	switch x.Tab {
	case "extra8", "short8":
		certain("table-size")
	case "tail-zero1", "tail-zero2", "tail-marker":
		certain("tail")
	case "tail-ioff", "tail-size":
		tags["tail-unchecked-field"] = true // casync writes them, nobody is known to insist on them: no demand
	}
	if x.Tab != "extra8" && x.Tab != "short8" {
		var last uint64
		for i, o := range offs {
			switch {
			case o == 0:
				certain("zero-offset")
			case i > 0 && o < last:
				certain("decreasing-offset")
			case i > 0 && o == last:
				tags["equal-offset"] = true // a zero-size chunk: outside the statement's reading (as in C04), no demand
			case o-last > hmax:
				certain("oversize-chunk")
			}
			if o == 0 {
				break
			}
			last = o
		}
	}
	if flags&0x2000000000000000 == 0 {
		tags["digest-flag-missing"] = true // refused under the default digest; not a format verdict
	}
	if hmax >= 1<<63 {
		tags["huge-header-max"] = true
	}
	return b, k, tags
}

func genIdxCase(t *rapid.T) IdxCase {
	x := IdxCase{
		N:    rapid.SampledFrom([]int{2, 2, 3, 5, 8, 40}).Draw(t, "n"),
		Seed: rapid.Uint64().Draw(t, "seed"),
		Max:  rapid.SampledFrom(idxHeaderKinds).Draw(t, "max"),
		Tab:  rapid.SampledFrom(idxTableKinds).Draw(t, "tab"),
	}
	x.At = rapid.IntRange(1, x.N-1).Draw(t, "at")
	if rapid.IntRange(0, 3).Draw(t, "minavg") == 0 {
		x.Min = rapid.SampledFrom(idxHeaderKinds).Draw(t, "min")
		x.Avg = rapid.SampledFrom(idxHeaderKinds).Draw(t, "avg")
	}
	if rapid.IntRange(0, 4).Draw(t, "flagmut") == 0 {
		x.Flags = rapid.SampledFrom(idxFlagKinds).Draw(t, "flags")
	}
	return x
}

// idxEnumCases: the fixed pairs header maximum x table mutation (x position x length), plus the
// other header fields and the flags against the offset mutations.
func idxEnumCases() []Case {
	var out []Case
	for _, target := range []string{"index", "indexput"} {
		for _, n := range []int{2, 5} {
			ats := []int{1, n - 1}
			if n > 3 {
				ats = []int{1, n / 2, n - 1}
			}
			for _, at := range ats {
				for _, tab := range idxTableKinds {
					for _, max := range idxHeaderKinds {
						out = append(out, Case{Target: target, Form: "index", Idx: &IdxCase{N: n, Seed: uint64(7*n + at), Max: max, Tab: tab, At: at}})
					}
					for _, hk := range []string{"0", "2^63", "max"} {
						out = append(out, Case{Target: target, Form: "index", Idx: &IdxCase{N: n, Seed: uint64(7*n + at), Max: "max", Min: hk, Avg: hk, Tab: tab, At: at}})
					}
					for _, fk := range idxFlagKinds[1:3] {
						out = append(out, Case{Target: target, Form: "index", Idx: &IdxCase{N: n, Seed: uint64(7*n + at), Max: "max", Flags: fk, Tab: tab, At: at}})
					}
				}
			}
		}
	}
	return out
}
