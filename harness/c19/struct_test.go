package c19

// Structural mutations of archives at element granularity (form "struct"): one element dropped,
// duplicated, swapped with its neighbour, an ENTRY's file-type bits changed without touching what
// follows, a GOODBYE moved up or down. The verdict comes from the independent reference decoder
// internal/catar: a structural (fatal) finding or bytes behind the root node mean the stream is
// not an archive; the decoder under test must then fail, never report a clean end.

import (
	"encoding/binary"
	"fmt"

	"pgregory.net/rapid"

	"verifharness/internal/catar"
)

// StructOp is one element-level mutation.
type StructOp struct {
	Op  string `json:"op"`            // drop | dup | swap | mode | move-goodbye
	At  int    `json:"at"`            // element index (for mode: index among the ENTRY elements; for move-goodbye: among the GOODBYEs)
	Arg int    `json:"arg,omitempty"` // mode: index into modeTypes; move-goodbye: displacement in elements (+ down, - up)
}

var structOps = []string{"drop", "dup", "swap", "mode", "move-goodbye"}

var modeTypes = []struct {
	name string
	bits uint64
}{{"file", 0o100000}, {"dir", 0o040000}, {"fifo", 0o010000}, {"socket", 0o140000}, {"symlink", 0o120000}, {"chardev", 0o020000}, {"blockdev", 0o060000}}

func modeTypeName(mode uint64) string {
	for _, m := range modeTypes {
		if mode&0o170000 == m.bits {
			return m.name
		}
	}
	return "none"
}

func shortType(name string) string {
	if len(name) > 8 && name[:8] == "CaFormat" {
		name = name[8:]
	}
	b := []byte(name)
	for i := range b {
		if b[i] >= 'A' && b[i] <= 'Z' {
			b[i] += 'a' - 'A'
		}
	}
	return string(b)
}

// applyStruct mutates the element sequence of base. label names the mutation class, e.g.
// "drop-payload" or "mode-type-changed"; ok is false if the operation does not apply.
func applyStruct(base []byte, op StructOp) (out []byte, label string, ok bool) {
	spans, clean := walk(domFormat, base)
	if !clean || len(spans) == 0 {
		return nil, "", false
	}
	el := func(i int) []byte { return base[spans[i].Off:spans[i].End] }
	join := func(order []int) []byte {
		var b []byte
		for _, i := range order {
			b = append(b, el(i)...)
		}
		return b
	}
	idx := make([]int, len(spans))
	for i := range idx {
		idx[i] = i
	}
	pick := func(typ string, k int) int { // k-th element of a type
		for i, s := range spans {
			if s.Name == typ {
				if k == 0 {
					return i
				}
				k--
			}
		}
		return -1
	}
	switch op.Op {
	case "drop":
		if op.At < 0 || op.At >= len(spans) {
			return nil, "", false
		}
		return join(append(append([]int{}, idx[:op.At]...), idx[op.At+1:]...)), "drop-" + shortType(spans[op.At].Name), true
	case "dup":
		if op.At < 0 || op.At >= len(spans) {
			return nil, "", false
		}
		return join(append(append(append([]int{}, idx[:op.At+1]...), op.At), idx[op.At+1:]...)), "dup-" + shortType(spans[op.At].Name), true
	case "swap":
		if op.At < 0 || op.At+1 >= len(spans) {
			return nil, "", false
		}
		o := append([]int{}, idx...)
		o[op.At], o[op.At+1] = o[op.At+1], o[op.At]
		return join(o), "swap", true
	case "mode":
		i := pick("CaFormatEntry", op.At)
		if i < 0 || op.Arg < 0 || op.Arg >= len(modeTypes) {
			return nil, "", false
		}
		out = append([]byte(nil), base...)
		mode := binary.LittleEndian.Uint64(out[spans[i].Off+24:])
		if mode&0o170000 == modeTypes[op.Arg].bits {
			return nil, "", false
		}
		binary.LittleEndian.PutUint64(out[spans[i].Off+24:], mode&^0o170000|modeTypes[op.Arg].bits)
		return out, "mode-type-changed", true
	case "move-goodbye":
		i := pick("CaFormatGoodbye", op.At)
		j := i + op.Arg
		if i < 0 || op.Arg == 0 || j < 1 || j >= len(spans) {
			return nil, "", false
		}
		o := append(append([]int{}, idx[:i]...), idx[i+1:]...)
		o = append(o[:j], append([]int{i}, o[j:]...)...)
		if op.Arg < 0 {
			return join(o), "move-goodbye-up", true
		}
		return join(o), "move-goodbye-down", true
	}
	return nil, "", false
}

// refVerdict is what internal/catar says about a byte string.
type refVerdict struct {
	Broken bool   // a structural finding, or bytes behind the root node
	Code   string // its rule
	Off    int
	Nodes  int // nodes of the (partial) tree the reference could follow
}

func countNodes(n *catar.Node) int {
	if n == nil {
		return 0
	}
	c := 1
	for _, ch := range n.Children {
		c += countNodes(ch)
	}
	return c
}

func reference(b []byte) refVerdict {
	root, errs := catar.ValidateAll(b, catar.ValidateOptions{AllowDuplicateNames: true})
	v := refVerdict{Nodes: countNodes(root)}
	for _, e := range errs {
		if e.Fatal || e.Code == "trailing-bytes" {
			v.Broken, v.Code, v.Off = true, e.Code, e.Off
		}
	}
	return v
}

// structInput builds the mutated bytes of a struct case.
func (c Case) structInput() ([]byte, string, refVerdict, error) {
	b, label, v, _, err := c.structInput2()
	return b, label, v, err
}

// structInput2 also gives the verdict of the lenient reading.
func (c Case) structInput2() ([]byte, string, refVerdict, bool, error) {
	b, label, v, err := c.structInput1()
	if err != nil {
		return nil, "", v, false, err
	}
	lb, _ := lenientBroken(b)
	return b, label, v, lb, nil
}

func (c Case) structInput1() ([]byte, string, refVerdict, error) {
	var base []byte
	if c.Fixture != "" {
		fm, err := fixtures()
		if err != nil {
			return nil, "", refVerdict{}, err
		}
		f, ok := fm[c.Fixture]
		if !ok {
			return nil, "", refVerdict{}, fmt.Errorf("unknown fixture %q", c.Fixture)
		}
		base = f.Data
	} else {
		base, _ = buildStream("format", domFormat, c.Elems)
	}
	if c.Struct == nil {
		return nil, "", refVerdict{}, fmt.Errorf("form struct needs a struct operation")
	}
	out, label, ok := applyStruct(base, *c.Struct)
	if !ok {
		out, label = base, "not-applicable"
	}
	return out, label, reference(out), nil
}

// lenientBroken reads the element sequence the most permissive way anybody documents: the way
// desync's archive.go describes itself ("if it doesn't have a payload or is a device/symlink, it
// must be a directory"), ignoring the ENTRY's file type and the order of the elements that belong
// to one node. It is used only to NARROW the demand: an error is demanded where the strict
// reference (internal/catar) AND this reading both find no archive. Where only the strict
// reference objects (file type and body disagree, elements of a node repeated or out of order)
// there is no demand; those are counted as classes and reported.
func lenientBroken(b []byte) (broken bool, nodes int) {
	spans, clean := walk(domFormat, b)
	if !clean {
		return true, 0
	}
	depth, seen := 0, false
	i := 0
	for {
		named, entry, body := false, false, false
	node:
		for {
			if i == len(spans) {
				if !entry {
					return depth != 0 || !seen, nodes
				}
				return true, nodes // input ends inside a node
			}
			switch spans[i].Name {
			case "CaFormatEntry":
				if entry {
					return true, nodes
				}
				entry = true
			case "CaFormatPayload":
				if !entry {
					return true, nodes
				}
				body = true
				i++
				break node
			case "CaFormatSymlink", "CaFormatDevice", "CaFormatXAttr":
				if !entry {
					return true, nodes
				}
				body = body || spans[i].Name != "CaFormatXAttr"
			case "CaFormatFilename":
				if entry {
					break node
				}
				named = true
			case "CaFormatGoodbye":
				if entry {
					break node
				}
				depth--
			case "CaFormatUser", "CaFormatGroup", "CaFormatSELinux", "CaFormatACLUser", "CaFormatACLGroup", "CaFormatACLGroupObj", "CaFormatACLDefault", "CaFormatFCaps":
			default:
				return true, nodes
			}
			i++
		}
		if !named && seen || named && depth <= 0 {
			return true, nodes
		}
		seen = true
		nodes++
		if !body {
			depth++
		}
	}
}

// structDemand: an error is demanded where both readings find no archive.
func structDemand(v refVerdict, lenient bool) bool { return v.Broken && lenient }

func genStructCase(t *rapid.T, target string) Case {
	c := Case{Target: target, Form: "struct"}
	if rapid.IntRange(0, 2).Draw(t, "onfixture") == 0 {
		c.Fixture = rapid.SampledFrom([]string{"flat.catar", "flatdir.catar", "nested.catar", "complex.catar", "single.catar"}).Draw(t, "fixture")
	} else {
		// a generated, well-formed flat archive
		for i, typ := range archiveShape(t) {
			if typ == "CaFormatSymlink" || typ == "CaFormatDevice" {
				typ = "CaFormatPayload" // generated entries carry a regular-file mode: keep the base valid for the strict reference
			}
			e := Elem{T: typ, SK: "exact", Seed: rapid.Uint64().Draw(t, "seed"), N: rapid.SampledFrom([]int{1, 3, 8, 40}).Draw(t, "n")}
			e.Dir = i == 0
			c.Elems = append(c.Elems, e)
		}
	}
	op := StructOp{Op: rapid.SampledFrom(structOps).Draw(t, "op"), At: rapid.IntRange(0, 60).Draw(t, "at")}
	switch op.Op {
	case "mode":
		op.Arg = rapid.IntRange(0, len(modeTypes)-1).Draw(t, "type")
	case "move-goodbye":
		op.Arg = rapid.SampledFrom([]int{-3, -2, -1, 1, 2, 3}).Draw(t, "by")
	}
	// fold the position into the range of the base
	var base []byte
	if c.Fixture != "" {
		fm, _ := fixtures()
		base = fm[c.Fixture].Data
	} else {
		base, _ = buildStream("format", domFormat, c.Elems)
	}
	if spans, ok := walk(domFormat, base); ok && len(spans) > 0 {
		n := len(spans)
		switch op.Op {
		case "mode", "move-goodbye":
			want := "CaFormatEntry"
			if op.Op == "move-goodbye" {
				want = "CaFormatGoodbye"
			}
			n = 0
			for _, s := range spans {
				if s.Name == want {
					n++
				}
			}
		}
		if n > 0 {
			op.At %= n
		}
	}
	c.Struct = &op
	if rapid.IntRange(0, 3).Draw(t, "seek") == 0 {
		c.Src = "seekguard"
	}
	return c
}

// structEnumCases: every operation at every position of the archive fixtures.
func structEnumCases() ([]Case, error) {
	fm, err := fixtures()
	if err != nil {
		return nil, err
	}
	var out []Case
	for _, name := range []string{"flat.catar", "flatdir.catar", "nested.catar", "complex.catar", "single.catar"} {
		f := fm[name]
		entries, goodbyes := 0, 0
		for _, s := range f.Spans {
			switch s.Name {
			case "CaFormatEntry":
				entries++
			case "CaFormatGoodbye":
				goodbyes++
			}
		}
		var ops []StructOp
		for i := range f.Spans {
			ops = append(ops, StructOp{Op: "drop", At: i}, StructOp{Op: "dup", At: i}, StructOp{Op: "swap", At: i})
		}
		for i := 0; i < entries; i++ {
			for k := range modeTypes {
				ops = append(ops, StructOp{Op: "mode", At: i, Arg: k})
			}
		}
		for i := 0; i < goodbyes; i++ {
			for _, by := range []int{-3, -2, -1, 1, 2, 3} {
				ops = append(ops, StructOp{Op: "move-goodbye", At: i, Arg: by})
			}
		}
		for _, target := range []string{"archive", "untar"} {
			for _, op := range ops {
				op := op
				if _, _, ok := applyStruct(f.Data, op); !ok {
					continue
				}
				out = append(out, Case{Target: target, Form: "struct", Fixture: name, Struct: &op})
				if target == "archive" {
					out = append(out, Case{Target: target, Form: "struct", Fixture: name, Struct: &op, Src: "seekguard", Drain: "part"})
				}
			}
		}
	}
	return out, nil
}
