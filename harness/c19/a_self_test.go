package c19

import (
	"bytes"
	"fmt"
	"io"
	"runtime"
	"sort"
	"syscall"
	"testing"

	"github.com/folbricht/desync"

	"verifharness/internal/ref"
)

func sortStrings(s []string) { sort.Strings(s) }

// setAddressSpaceLimit is the in-process equivalent of `ulimit -v 24 GiB`: the backstop behind
// the guard. A runaway allocation then ends the process (crash journal) instead of the machine.
func setAddressSpaceLimit() {
	const limit = 24 << 30
	var rl syscall.Rlimit
	if err := syscall.Getrlimit(syscall.RLIMIT_AS, &rl); err != nil {
		return
	}
	if rl.Cur > limit {
		rl.Cur = limit
		syscall.Setrlimit(syscall.RLIMIT_AS, &rl)
	}
}

var sink []byte

// TestSelf checks the harness' own instruments: fixtures and walker, the allocation meter, the
// guard, the panic capture and the malformed-verdict on hand-made streams.
func TestSelf(t *testing.T) {
	fail := func(format string, a ...any) {
		fmt.Println("SELFTEST-FAILURE: " + fmt.Sprintf(format, a...))
		t.Fatalf(format, a...)
	}
	fm, err := fixtures()
	if err != nil {
		fail("fixtures: %v", err)
	}
	if len(fm) < 10 {
		fail("expected index.caibx, 4 catar files, 2 single-file archives and 3 session streams, have %d fixtures", len(fm))
	}
	// every fixture is accepted by every entry point it is meant for, with no violation
	for _, name := range fixtureNames() {
		f := fm[name]
		if len(f.Spans) == 0 || f.Spans[len(f.Spans)-1].End != len(f.Data) {
			fail("walker did not consume fixture %s", name)
		}
		for _, target := range f.Targets {
			r := runTarget(target, f.Data, unsafeLo)
			wantErr := false // (Serve returns nil after answering MISSING: errors.Wrap of a nil error)
			if target == "protomsg" {
				if r.Calls != len(f.Spans) {
					fail("fixture %s: ReadMessage returned %d messages, walker sees %d", name, r.Calls, len(f.Spans))
				}
			} else if (r.Err != nil) != wantErr {
				fail("fixture %s is refused by %s: %v", name, target, r.Err)
			}
			if target == "format" && r.Calls != len(f.Spans) {
				fail("fixture %s: decoder returned %d elements, walker sees %d", name, r.Calls, len(f.Spans))
			}
			if r.Panic != nil || r.Unsafe || r.Alloc > allocBound(len(f.Data), r.Exempt) {
				fail("fixture %s on %s: panic=%v withheld=%v alloc=%d", name, target, r.Panic, r.Unsafe, r.Alloc)
			}
			// ... whatever kind of reader it comes from and whatever the caller does with payloads
			if sourceTarget(target) {
				for _, co := range combosFor(target) {
					rv := runTargetOpt(target, f.Data, unsafeLo, co)
					if target != "protomsg" && rv.Err != nil || rv.Panic != nil || rv.Unsafe || rv.Calls != r.Calls {
						fail("fixture %s on %s with source %s drain %q: err=%v panic=%v withheld=%v results=%d (plain: %d)", name, target, co.Src, co.Drain, rv.Err, rv.Panic, rv.Unsafe, rv.Calls, r.Calls)
					}
				}
			}
		}
	}
	// meter: sees a large allocation, stays quiet otherwise
	_, _, _, a := measure(func() error { sink = make([]byte, 16<<20); return nil })
	if a < 16<<20 || a > 17<<20 {
		fail("allocation meter reports %d for a 16 MiB allocation", a)
	}
	sink = nil
	_, _, _, a = measure(func() error { return nil })
	if a > 64<<10 {
		fail("allocation meter reports %d for an empty call", a)
	}
	// panic capture
	_, pv, st, _ := measure(func() error { var s []int; _ = s[len(sink)+3]; return nil })
	if pv == nil || st == "" {
		fail("panic was not captured")
	}
	if _, ok := pv.(runtime.Error); !ok {
		fail("captured panic is %T", pv)
	}
	// guard: withholds exactly the unsafe interval on 8-byte reads
	for _, tc := range []struct {
		v      uint64
		unsafe bool
	}{{1 << 30, false}, {1<<30 + 1, true}, {1 << 40, true}, {1 << 48, true}, {sizeHuge48 - 1, true}, {sizeHuge48, false}, {^uint64(0), false}, {0, false}} {
		g := newGuard(le(tc.v, 0), unsafeLo, domFormat)
		b := make([]byte, 8)
		_, err := io.ReadFull(g, b)
		if (err != nil) != tc.unsafe || g.unsafe != tc.unsafe {
			fail("guard on %#x: err=%v unsafe=%v, want unsafe=%v", tc.v, err, g.unsafe, tc.unsafe)
		}
	}
	if u, _ := prescan(append(le(48, domFormat.byName["CaFormatIndex"].val, 0, 0, 0, 0), le(1<<35, 7)...), unsafeLo, 0, 48); !u {
		fail("prescan misses an unsafe size at offset 48")
	}
	// seekGuard behaves like bytes.Reader: seeking beyond the end succeeds, reading there is EOF
	{
		sg := seekGuard{newGuard([]byte("abcdef"), unsafeLo, domFormat)}
		br := bytes.NewReader([]byte("abcdef"))
		p1, e1 := sg.Seek(100, io.SeekCurrent)
		p2, e2 := br.Seek(100, io.SeekCurrent)
		_, r1 := sg.Read(make([]byte, 4))
		_, r2 := br.Read(make([]byte, 4))
		if p1 != p2 || (e1 == nil) != (e2 == nil) || r1 != r2 {
			fail("seekGuard differs from bytes.Reader: %d/%v/%v vs %d/%v/%v", p1, e1, r1, p2, e2, r2)
		}
	}
	// guard in action: a filename announcing 2^40 bytes never reaches make()
	r := runTarget("format", le(1<<40, domFormat.byName["CaFormatFilename"].val), unsafeLo)
	if !r.Unsafe || r.Alloc > 1<<20 || r.Panic != nil {
		fail("guard did not withhold a 2^40 size: %+v", r)
	}
	// malformed verdicts on hand-made streams
	type kc struct {
		target string
		es     []Elem
		mal    bool
		what   string
	}
	for _, c := range []kc{
		{"format", []Elem{{T: "CaFormatEntry", SK: "exact"}}, false, ""},
		{"format", []Elem{{T: "CaFormatEntry", SK: "63"}}, true, "size:CaFormatEntry"},
		{"format", []Elem{{T: "CaFormatEntry", SK: "exact"}, {T: "CaFormatFilename", N: 3, SK: "16"}}, true, "size:CaFormatFilename"},
		{"format", []Elem{{T: "CaFormatFilename", N: 3, SK: "exact", BD: -1}}, true, "trunc:CaFormatFilename"},
		{"format", []Elem{{T: "CaFormatFilename", N: 3, SK: "exact+1"}}, true, "trunc:CaFormatFilename"},
		{"format", []Elem{{T: "CaFormatFilename", N: 3, SK: "exact-1"}, {T: "CaFormatEntry", SK: "exact"}}, false, ""},
		{"format", []Elem{{T: "CaFormatGoodbye", N: 2, SK: "exact-1"}}, true, "size:CaFormatGoodbye"},
		{"format", []Elem{{T: "CaFormatTable", N: 2, SK: "exact"}}, false, ""},
		{"format", []Elem{{T: "CaFormatTable", N: 2, SK: "48"}}, true, "size:CaFormatTable"},
		{"format", []Elem{{T: "unknown", TV: 77, SK: "exact"}}, true, "unknown-type"},
		{"protomsg", []Elem{{T: "CaProtocolHello", SK: "15"}}, true, "size:CaProtocolHello"},
		{"protomsg", []Elem{{T: "CaProtocolHello", SK: "16", BD: -8}}, false, ""},
		{"protohello", []Elem{{T: "CaProtocolHello", SK: "exact"}}, false, ""},
		{"protohello", []Elem{{T: "CaProtocolHello", SK: "32", BD: 8}}, true, "size:CaProtocolHello"},
		{"protohello", []Elem{{T: "CaProtocolGoodbye", SK: "exact"}}, true, "hello:type"},
	} {
		_, k := buildStream(c.target, targetDomain(c.target), c.es)
		if k.Malformed != c.mal || (c.mal && k.What != c.what) {
			fail("verdict for %s %+v = %+v, want malformed=%v %s", c.target, c.es, k, c.mal, c.what)
		}
	}
	// archive fixtures: the strict reference (internal/catar), the lenient reading and desync agree
	// that they are archives and on the number of nodes; a dropped payload is refused by both readings
	for _, name := range []string{"flat.catar", "flatdir.catar", "nested.catar", "complex.catar", "single.catar", "single-big.catar"} {
		f := fm[name]
		v := reference(f.Data)
		lb, ln := lenientBroken(f.Data)
		r := runTarget("archive", f.Data, unsafeLo)
		if v.Broken || lb || v.Nodes != ln || r.Calls != v.Nodes || v.Nodes == 0 {
			fail("fixture %s: reference %+v, lenient reading broken=%v nodes=%d, desync nodes=%d", name, v, lb, ln, r.Calls)
		}
		for i, sp := range f.Spans {
			if sp.Name != "CaFormatPayload" {
				continue
			}
			b, label, ok := applyStruct(f.Data, StructOp{Op: "drop", At: i})
			lb, _ := lenientBroken(b)
			if !ok || label != "drop-payload" || !reference(b).Broken || (!lb && name != "single.catar" && name != "single-big.catar") {
				fail("fixture %s without payload element %d: label %s, reference %+v, lenient broken=%v", name, i, label, reference(b), lb)
			}
		}
	}
	// structured index cases against the independent codec (internal/ref): an unmutated table parses
	// there, everything the builder calls certainly malformed (other than an oversize chunk, which
	// the strict parser does not judge) is refused there, and desync accepts the unmutated ones
	for _, c := range idxEnumCases() {
		b, k, _ := c.Idx.build()
		_, perr := ref.ParseIndex(b)
		switch {
		case c.Idx.Tab == "none" && perr != nil:
			fail("index builder: unmutated table refused by the reference parser: %v (%+v)", perr, *c.Idx)
		case k.Malformed && k.What != "index:oversize-chunk" && perr == nil:
			fail("index builder: %s not refused by the reference parser (%+v)", k.What, *c.Idx)
		case c.Idx.Tab == "none" && c.Idx.Max == "max" && c.Idx.Flags == "" && c.Target == "index":
			if r := runTarget("index", b, unsafeLo); r.Err != nil {
				fail("index builder: valid index refused by desync: %v (%+v)", r.Err, *c.Idx)
			}
		}
	}
	// a generated well-formed archive and index are accepted by desync (the generator speaks the format)
	arch := []Elem{{T: "CaFormatEntry", SK: "exact", Dir: true}, {T: "CaFormatFilename", N: 4, SK: "exact", Seed: 1}, {T: "CaFormatEntry", SK: "exact"},
		{T: "CaFormatXAttr", N: 6, SK: "exact", Seed: 2}, {T: "CaFormatPayload", N: 100, SK: "exact", Seed: 3}, {T: "CaFormatGoodbye", N: 2, SK: "exact"}}
	b, k := buildStream("untar", domFormat, arch)
	if k.Malformed || k.OKBefore != len(arch) {
		fail("well-formed generated archive judged %+v", k)
	}
	if r := runTarget("untar", b, unsafeLo); r.Err != nil || r.Calls != 2 {
		fail("well-formed generated archive: UnTar err=%v nodes=%d", r.Err, r.Calls)
	}
	b, _ = buildStream("index", domFormat, []Elem{{T: "CaFormatIndex", SK: "exact"}, {T: "CaFormatTable", N: 3, SK: "exact", Seed: 9}})
	idx, err := desync.IndexFromReader(newGuard(b, unsafeLo, domFormat))
	if err != nil || len(idx.Chunks) != 3 {
		fail("well-formed generated index: %v, %d chunks", err, len(idx.Chunks))
	}
}
