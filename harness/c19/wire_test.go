package c19

// Wire-level knowledge of the harness itself (independent of desync's decoder): the table of
// element / message types, construction of element streams from a structured description,
// an element walker for the fixtures, and the constructive "this input is malformed" verdict.

import (
	"encoding/binary"
	"fmt"
	"math"
	"os"
	"path/filepath"
	"sort"
	"sync"

	"verifharness/internal/gen"
	"verifharness/internal/hx"
)

// ---------------------------------------------------------------- type tables

type kind int

const (
	kFixed   kind = iota // header + fixed number of uint64 fields
	kString              // header + bytes + NUL
	kBytes               // header + bytes (payload, fcaps)
	kACLName             // header + 2 uint64 + bytes + NUL
	kGoodbye             // header + 24-byte items, last with tail marker
	kTable               // header (size MaxUint64) + 40-byte items + 40-byte tail
	kUnknown             // not an element type the decoder knows (or not an element type at all)
)

type typeInfo struct {
	name  string
	val   uint64
	kind  kind
	fixed uint64 // total element size for kFixed
}

const (
	tailGoodbye = 0x57446fa533702943
	tailTable   = 0x4b4f050e5549ecd1
)

// All identifiers of desync's const.go, spelled out here so that the harness does not depend on
// the table it is testing.
var formatTypes = []typeInfo{
	{"CaFormatEntry", 0x1396fabcea5bbb51, kFixed, 64},
	{"CaFormatUser", 0xf453131aaeeaccb3, kString, 0},
	{"CaFormatGroup", 0x25eb6ac969396a52, kString, 0},
	{"CaFormatXAttr", 0xb8157091f80bc486, kString, 0},
	{"CaFormatACLUser", 0x297dc88b2ef12faf, kACLName, 0},
	{"CaFormatACLGroup", 0x36f2acb56cb3dd0b, kACLName, 0},
	{"CaFormatACLGroupObj", 0x23047110441f38f3, kFixed, 24},
	{"CaFormatACLDefault", 0xfe3eeda6823c8cd0, kFixed, 48},
	{"CaFormatACLDefaultUser", 0xbdf03df9bd010a91, kUnknown, 0},  // known constant, not decoded by desync
	{"CaFormatACLDefaultGroup", 0xa0cb1168782d1f51, kUnknown, 0}, // known constant, not decoded by desync
	{"CaFormatFCaps", 0xf7267db0afed0629, kBytes, 0},
	{"CaFormatSELinux", 0x46faf0602fd26c59, kString, 0},
	{"CaFormatSymlink", 0x664a6fb6830e0d6c, kString, 0},
	{"CaFormatDevice", 0xac3dace369dfe643, kFixed, 32},
	{"CaFormatPayload", 0x8b9e1d93d6dcffc9, kBytes, 0},
	{"CaFormatFilename", 0x6dbb6ebcb3161f0b, kString, 0},
	{"CaFormatGoodbye", 0xdfd35c5e8327c403, kGoodbye, 0},
	{"CaFormatGoodbyeTailMarker", tailGoodbye, kUnknown, 0}, // a marker, not an element type
	{"CaFormatIndex", 0x96824d9c7b129ff9, kFixed, 48},
	{"CaFormatTable", 0xe75b9e112f17417d, kTable, 0},
	{"CaFormatTableTailMarker", tailTable, kUnknown, 0}, // a marker, not an element type
}

// Protocol messages have the same outer layout (length, type, body).
var protoTypes = []typeInfo{
	{"CaProtocolHello", 0x3c71d0948ca5fbee, kFixed, 24},
	{"CaProtocolIndex", 0xb32a91dd2b3e27f8, kBytes, 0},
	{"CaProtocolIndexEOF", 0x4f0932f1043718f5, kFixed, 16},
	{"CaProtocolArchive", 0x95d6428a69eddcc5, kBytes, 0},
	{"CaProtocolArchiveEOF", 0x450bef663f24cbad, kFixed, 16},
	{"CaProtocolRequest", 0x8ab427e0f89d9210, kFixed, 56},
	{"CaProtocolChunk", 0x5213dd180a84bc8c, kBytes, 0},
	{"CaProtocolMissing", 0xd010f9fac82b7b6c, kFixed, 48},
	{"CaProtocolGoodbye", 0xad205dbf1a3686c3, kFixed, 16},
	{"CaProtocolAbort", 0xe7d9136b7efea352, kBytes, 0},
}

type domain struct {
	name   string
	types  []typeInfo
	byName map[string]typeInfo
	byVal  map[uint64]typeInfo
}

func mkDomain(name string, ts []typeInfo) *domain {
	d := &domain{name: name, types: ts, byName: map[string]typeInfo{}, byVal: map[uint64]typeInfo{}}
	for _, t := range ts {
		d.byName[t.name] = t
		d.byVal[t.val] = t
	}
	return d
}

var (
	domFormat = mkDomain("format", formatTypes)
	domProto  = mkDomain("proto", protoTypes)
)

func (d *domain) nameOf(v uint64) string {
	if t, ok := d.byVal[v]; ok {
		return t.name
	}
	return "unknown"
}

func (d *domain) info(e Elem) typeInfo {
	if t, ok := d.byName[e.T]; ok {
		return t
	}
	return typeInfo{name: "unknown", val: e.TV, kind: kUnknown}
}

// ---------------------------------------------------------------- hostile size values

// Size values a generated element can announce. 2^48 is encoded as 2^48+64 so that size-16,
// size-32 and 24*((size-16)/24) are all strictly above Go's maximum allocation (2^48 on
// linux/amd64) and fail in makeslice instead of being attempted.
const sizeHuge48 = uint64(1)<<48 + 64

var sizeConsts = map[string]uint64{
	"0": 0, "1": 1, "15": 15, "16": 16, "17": 17, "24": 24, "31": 31, "32": 32, "33": 33, "40": 40, "47": 47, "48": 48,
	"63": 63, "64": 64, "65": 65, "2^20": 1 << 20, "2^21": 1 << 21, "2^30": 1 << 30, "2^48": sizeHuge48, "2^63": 1 << 63,
	"max": math.MaxUint64,
}

var sizeKinds = []string{"0", "1", "15", "16", "17", "24", "31", "32", "33", "40", "47", "48", "63", "64", "65",
	"exact", "exact-1", "exact+1", "2^20", "2^21", "2^30", "2^48", "2^63", "max"}

// unsafeLo/unsafeHi delimit the open interval of 64-bit values that are never handed to the
// code under test as a potential size (a real allocation of up to 256 TiB would be attempted).
const (
	unsafeLo = uint64(1) << 30
	unsafeHi = sizeHuge48
)

func isUnsafe(v, lo uint64) bool { return v > lo && v < unsafeHi }

// ---------------------------------------------------------------- structured elements

// Elem describes one generated element (or protocol message).
type Elem struct {
	T    string `json:"t"`              // type name, or "unknown"
	TV   uint64 `json:"tv,omitempty"`   // type value when unknown
	N    int    `json:"n"`              // content parameter: string/payload length, item count
	SK   string `json:"sk"`             // size kind: one of sizeKinds
	BD   int    `json:"bd,omitempty"`   // emitted body length = natural length + BD (clamped at 0)
	Seed uint64 `json:"seed,omitempty"` // content
	Dir  bool   `json:"dir,omitempty"`  // entries: directory mode instead of regular file
	// Term: string-carrying elements (kString, kACLName): "" = body ends in NUL as the format demands; "none" = the
	// terminator is replaced by a letter (no NUL in the body); "inner" = the terminator is replaced by a letter and a NUL
	// sits in the middle of the body (for XATTR, which has one there anyway: just the terminator replaced)
	Term string `json:"term,omitempty"`
}

func le(v ...uint64) []byte {
	b := make([]byte, 8*len(v))
	for i, x := range v {
		binary.LittleEndian.PutUint64(b[8*i:], x)
	}
	return b
}

func clampN(n, max int) int {
	if n < 0 {
		return 0
	}
	if n > max {
		return max
	}
	return n
}

// printable gives n bytes without NUL.
func printable(n int, seed uint64) []byte {
	b := gen.RandBytes(n, seed)
	for i := range b {
		b[i] = 'a' + b[i]%26
	}
	return b
}

// natural returns the body of e: well-formed, except for the terminator when e.Term says so.
func natural(d *domain, e Elem) []byte {
	b := natural0(d, e)
	ti := d.info(e)
	if e.Term == "" || (ti.kind != kString && ti.kind != kACLName) {
		return b
	}
	lo := 0
	if ti.kind == kACLName {
		lo = 16
	}
	if len(b)-lo < 2 {
		return b
	}
	b = append([]byte(nil), b...)
	b[len(b)-1] = 'z'
	if e.Term == "inner" {
		b[lo+(len(b)-1-lo)/2] = 0
	}
	return b
}

// unterminated says whether e was built with a broken string terminator.
func unterminated(d *domain, e Elem) bool {
	ti := d.info(e)
	if e.Term == "" || (ti.kind != kString && ti.kind != kACLName) {
		return false
	}
	lo := 0
	if ti.kind == kACLName {
		lo = 16
	}
	return len(natural0(d, e))-lo >= 2
}

func natural0(d *domain, e Elem) []byte {
	ti := d.info(e)
	n := clampN(e.N, 20000)
	switch ti.name {
	case "CaFormatEntry":
		mode := uint64(0o100644)
		if e.Dir {
			mode = 0o040755
		}
		return le(0, mode, 0, e.Seed%1000, e.Seed%77, 1_500_000_000_000_000_000+e.Seed%1000)
	case "CaFormatDevice":
		return le(e.Seed%256, e.Seed%16)
	case "CaFormatACLGroupObj":
		return le(e.Seed % 8)
	case "CaFormatACLDefault":
		return le(e.Seed%8, 5, 4, 7)
	case "CaFormatIndex":
		return le(0xa000000000000000, 16384, 65536, 262144) // exclude-nodump | sha512-256
	case "CaFormatXAttr":
		b := printable(n+2, e.Seed)
		b[n/2] = 0 // name NUL value
		return append(b, 0)
	case "CaFormatGoodbye":
		if n < 1 {
			n = 1
		}
		var b []byte
		for i := 0; i < n-1; i++ {
			b = append(b, le(uint64(100*(i+1)), 64, e.Seed+uint64(i))...)
		}
		return append(b, le(uint64(100*n), uint64(16+24*n), tailGoodbye)...)
	case "CaFormatTable":
		var b []byte
		off := uint64(0)
		for i := 0; i < n; i++ {
			off += 1000 + (e.Seed+uint64(i))%5000
			b = append(b, le(off)...)
			b = append(b, gen.RandBytes(32, e.Seed+uint64(i))...)
		}
		return append(b, le(0, 0, 48, uint64(16+40*n+40), tailTable)...)
	case "CaProtocolHello":
		return le(e.Seed % 0x2000)
	case "CaProtocolRequest":
		return append(le(1), gen.RandBytes(32, e.Seed)...)
	case "CaProtocolMissing":
		return gen.RandBytes(32, e.Seed)
	case "CaProtocolChunk":
		return append(append(le(1), gen.RandBytes(32, e.Seed)...), gen.RandBytes(n, e.Seed+1)...)
	case "CaProtocolIndexEOF", "CaProtocolArchiveEOF", "CaProtocolGoodbye":
		return nil
	}
	switch ti.kind {
	case kString:
		return append(printable(n, e.Seed), 0)
	case kACLName:
		return append(append(le(e.Seed%1000, 7), printable(n, e.Seed)...), 0)
	default: // kBytes, unknown
		return gen.RandBytes(n, e.Seed)
	}
}

// exactSize is the size field a well-formed element with this body carries.
func exactSize(ti typeInfo, nat []byte) uint64 {
	if ti.kind == kTable {
		return math.MaxUint64
	}
	return 16 + uint64(len(nat))
}

func (e Elem) sizeField(exact uint64) uint64 {
	switch e.SK {
	case "exact", "":
		return exact
	case "exact-1":
		return exact - 1
	case "exact+1":
		return exact + 1
	}
	return sizeConsts[e.SK]
}

// encode returns header+body of e and the announced size.
func encode(d *domain, e Elem) (b []byte, size uint64, natLen int) {
	ti := d.info(e)
	nat := natural(d, e)
	size = e.sizeField(exactSize(ti, nat))
	body := nat
	switch {
	case e.BD < 0:
		body = nat[:clampN(len(nat)+e.BD, len(nat))]
	case e.BD > 0:
		body = append(append([]byte(nil), nat...), gen.RandBytes(clampN(e.BD, 4096), e.Seed^0x5bd1e995)...)
	}
	b = append(le(size, ti.val), body...)
	return b, size, len(nat)
}

// sizeVerdict says whether the size field alone makes an element of this type malformed.
func sizeInvalid(ti typeInfo, size uint64) bool {
	switch ti.kind {
	case kFixed:
		return size != ti.fixed
	case kString:
		return size < 17
	case kBytes:
		return size < 16
	case kACLName:
		return size < 33
	case kGoodbye:
		return size < 40 || (size-16)%24 != 0
	case kTable:
		return size != math.MaxUint64
	}
	return false
}

// known is what the generator knows for certain about an input.
type known struct {
	Malformed bool   // a correct decoder must fail on this input
	What      string // size:<Type> | trunc:<Type> | trunc:header | trunc:boundary | unknown-type | ...
	OKBefore  int    // number of well-formed elements in front of the malformed one
}

// classifyStream walks already encoded elements as a correct decoder would and decides whether
// the stream is known to be malformed for the given target. encs[i] is the encoding of es[i].
func classifyStream(target string, d *domain, es []Elem, encs [][]byte, sizes []uint64) known {
	total := 0
	for _, b := range encs {
		total += len(b)
	}
	switch target {
	case "indexfile", "protoserve":
		return known{} // any byte string is a legitimate blob; Serve always ends with an error
	case "protohello":
		if len(es) == 0 {
			return known{Malformed: true, What: "empty"}
		}
		ti := d.info(es[0])
		switch {
		case ti.name != "CaProtocolHello":
			return known{Malformed: true, What: "hello:type"}
		case sizes[0] != 24:
			return known{Malformed: true, What: "size:" + ti.name}
		case total < 24:
			return known{Malformed: true, What: "trunc:" + ti.name}
		}
		return known{OKBefore: 1}
	case "protochunk":
		// generated chunk data never hashes to the requested ID: every scripted answer must be refused
		if len(es) == 0 {
			return known{Malformed: true, What: "empty"}
		}
		ti := d.info(es[0])
		switch {
		case sizes[0] < 16 || (ti.name == "CaProtocolChunk" && sizes[0] < 56):
			return known{Malformed: true, What: "size:" + ti.name}
		case sizes[0]-16 > uint64(total-16):
			return known{Malformed: true, What: "trunc:" + ti.name}
		case ti.name != "CaProtocolChunk":
			return known{Malformed: true, What: "chunk:type"}
		}
		return known{Malformed: true, What: "chunk:data"}
	}
	generic := target == "protomsg"
	indexOnly := target == "index" || target == "indexput" // these read exactly two elements
	pos := 0
	for i, e := range es {
		if indexOnly && i == 2 {
			break
		}
		ti := d.info(e)
		if total-pos < 16 {
			return known{} // cannot happen: every encoding carries its header
		}
		remaining := total - pos - 16 // bytes behind this header
		if generic {
			ti.kind = kBytes
		}
		if ti.kind == kUnknown {
			return known{Malformed: true, What: "unknown-type", OKBefore: i}
		}
		if sizeInvalid(ti, sizes[i]) {
			return known{Malformed: true, What: "size:" + ti.name, OKBefore: i}
		}
		bodyLen := len(encs[i]) - 16
		if ti.kind == kTable {
			// the body is self-delimiting; a shortened one in last position is a truncation,
			// anything else is beyond what the generator can know
			if e.BD == 0 {
				pos += len(encs[i])
				continue
			}
			if e.BD < 0 && i == len(es)-1 {
				return known{Malformed: true, What: "trunc:" + ti.name, OKBefore: i}
			}
			return known{}
		}
		announced := sizes[i] - 16
		if announced > uint64(remaining) {
			return known{Malformed: true, What: "trunc:" + ti.name, OKBefore: i}
		}
		if announced != uint64(bodyLen) {
			return known{} // decoder runs out of sync with the generator's element boundaries
		}
		if ti.kind == kGoodbye && e.BD != 0 {
			return known{}
		}
		if !generic && e.BD == 0 && unterminated(d, e) {
			// a string body that does not end in NUL (with or without a NUL further in front)
			return known{Malformed: true, What: "unterminated:" + ti.name + ":" + e.Term, OKBefore: i}
		}
		pos += len(encs[i])
	}
	if indexOnly {
		if len(es) < 2 || d.info(es[0]).name != "CaFormatIndex" || d.info(es[1]).name != "CaFormatTable" {
			return known{Malformed: true, What: "not-an-index", OKBefore: 0}
		}
		return known{OKBefore: 2}
	}
	return known{OKBefore: len(es)}
}

func buildStream(target string, d *domain, es []Elem) ([]byte, known) {
	encs := make([][]byte, len(es))
	sizes := make([]uint64, len(es))
	var out []byte
	for i, e := range es {
		encs[i], sizes[i], _ = encode(d, e)
		out = append(out, encs[i]...)
	}
	return out, classifyStream(target, d, es, encs, sizes)
}

// ---------------------------------------------------------------- walker (fixtures)

type field struct {
	Off  int
	Role string // size | type | body
}

type span struct {
	Off, End int // [Off, End) in the input
	Type     uint64
	Name     string
	Size     uint64
	Fields   []field
}

// walk splits well-formed bytes into elements. ok is false when the bytes are not a clean
// sequence of complete elements.
func walk(d *domain, b []byte) (spans []span, ok bool) {
	pos := 0
	for pos < len(b) {
		if len(b)-pos < 16 {
			return spans, false
		}
		s := span{Off: pos, Size: binary.LittleEndian.Uint64(b[pos:]), Type: binary.LittleEndian.Uint64(b[pos+8:])}
		ti, found := d.byVal[s.Type]
		if !found {
			return spans, false
		}
		s.Name = ti.name
		s.Fields = []field{{pos, "size"}, {pos + 8, "type"}}
		var end int
		if ti.kind == kTable {
			p := pos + 16
			for {
				if len(b)-p < 8 {
					return spans, false
				}
				if binary.LittleEndian.Uint64(b[p:]) == 0 {
					break
				}
				s.Fields = append(s.Fields, field{p, "body"})
				p += 40
			}
			for k := 0; k < 5; k++ {
				s.Fields = append(s.Fields, field{p + 8*k, "body"})
			}
			end = p + 40
		} else {
			if s.Size < 16 || s.Size > uint64(len(b)-pos) {
				return spans, false
			}
			end = pos + int(s.Size)
			nf := 0
			switch ti.kind {
			case kFixed, kGoodbye:
				nf = (end - pos - 16) / 8
			case kACLName:
				nf = 2
			}
			if d == domProto && (ti.name == "CaProtocolChunk") {
				nf = 1
			}
			if d == domProto && (ti.name == "CaProtocolRequest") {
				nf = 1
			}
			if d == domProto && (ti.name == "CaProtocolMissing") {
				nf = 0
			}
			for k := 0; k < nf; k++ {
				s.Fields = append(s.Fields, field{pos + 16 + 8*k, "body"})
			}
		}
		if end > len(b) {
			return spans, false
		}
		s.End = end
		spans = append(spans, s)
		pos = end
	}
	return spans, true
}

// ---------------------------------------------------------------- fixtures

type fixture struct {
	Name    string
	Dom     *domain
	Data    []byte
	Spans   []span
	Targets []string
	Whole   bool // the file format requires the complete sequence (any truncation is malformed)
}

var (
	fixOnce sync.Once
	fixMap  map[string]*fixture
	fixErr  error
)

func fixtures() (map[string]*fixture, error) {
	fixOnce.Do(func() {
		fixMap = map[string]*fixture{}
		add := func(name string, d *domain, data []byte, targets ...string) {
			sp, ok := walk(d, data)
			if !ok {
				fixErr = fmt.Errorf("fixture %s is not a clean element sequence for the harness walker (%d spans)", name, len(sp))
			}
			fixMap[name] = &fixture{Name: name, Dom: d, Data: data, Spans: sp, Targets: targets}
		}
		td := filepath.Join(hx.Repo(), "testdata")
		b, err := os.ReadFile(filepath.Join(td, "index.caibx"))
		if err != nil {
			fixErr = err
			return
		}
		add("index.caibx", domFormat, b, "index", "indexput", "format", "indexfile")
		catars, _ := filepath.Glob(filepath.Join(td, "*.catar"))
		sort.Strings(catars)
		if len(catars) == 0 {
			fixErr = fmt.Errorf("no catar fixtures in %s", td)
			return
		}
		for _, p := range catars {
			b, err := os.ReadFile(p)
			if err != nil {
				fixErr = err
				return
			}
			add(filepath.Base(p), domFormat, b, "format", "archive", "untar", "indexfile")
		}
		// archives whose root is a single regular file: no goodbye, depth 0 at the end
		single := func(n int) []byte {
			b, _ := buildStream("format", domFormat, []Elem{{T: "CaFormatEntry", SK: "exact", Seed: 7}, {T: "CaFormatPayload", N: n, SK: "exact", Seed: 8}})
			return b
		}
		add("single.catar", domFormat, single(40), "format", "archive", "untar")
		add("single-big.catar", domFormat, single(9000), "format", "archive", "untar")
		s2c, c2s, err := recordSession()
		if err != nil {
			fixErr = fmt.Errorf("recording the protocol session: %v", err)
			return
		}
		add("session.s2c", domProto, s2c, "protomsg", "protohello")
		add("session.resp", domProto, s2c[24:], "protochunk")
		add("session.c2s", domProto, c2s, "protomsg", "protoserve")
	})
	return fixMap, fixErr
}

func fixtureNames() []string {
	m, _ := fixtures()
	var ns []string
	for n := range m {
		ns = append(ns, n)
	}
	sort.Strings(ns)
	return ns
}

// spanAt returns the element that contains byte offset off.
func (f *fixture) spanAt(off int) (span, bool) {
	for _, s := range f.Spans {
		if off >= s.Off && off < s.End {
			return s, true
		}
	}
	return span{}, false
}

// truncKnown: verdict for data[:cut], cut < len(data), as seen by target.
func (f *fixture) truncKnown(target string, cut int) known {
	if cut >= len(f.Data) {
		return known{OKBefore: len(f.Spans)}
	}
	s, _ := f.spanAt(cut)
	idx := 0
	for i, sp := range f.Spans {
		if sp.Off == s.Off {
			idx = i
		}
	}
	atBoundary := cut == s.Off
	var what string
	switch {
	case cut == 0:
		what = "trunc:empty"
	case atBoundary:
		what = "trunc:boundary"
	case cut-s.Off < 16:
		what = "trunc:header"
	default:
		what = "trunc:" + s.Name
	}
	switch target {
	case "format":
		// an element stream may end after any complete element
		return known{Malformed: !atBoundary, What: what, OKBefore: idx}
	case "protomsg":
		return known{Malformed: !atBoundary, What: what, OKBefore: idx}
	case "protohello", "protochunk":
		// one call reads the first message only
		return known{Malformed: idx == 0, What: what, OKBefore: 0}
	case "index", "indexput", "archive", "untar":
		// an index needs its table tail, an archive its closing goodbye
		return known{Malformed: true, What: what, OKBefore: idx}
	}
	return known{}
}

// mutKnown: verdict after the 8-byte field at off was overwritten with val.
func (f *fixture) mutKnown(target string, off int, val uint64) known {
	s, ok := f.spanAt(off)
	if !ok {
		return known{}
	}
	idx := 0
	for i, sp := range f.Spans {
		if sp.Off == s.Off {
			idx = i
		}
	}
	if target == "indexfile" || target == "protoserve" {
		return known{}
	}
	old := binary.LittleEndian.Uint64(f.Data[off:])
	if val == old {
		return known{}
	}
	ti := f.Dom.byVal[s.Type]
	switch target {
	case "protohello", "protochunk":
		// one call reads the first message; its length and type are both load-bearing
		if idx > 0 {
			return known{}
		}
		if off == s.Off {
			return known{Malformed: true, What: "size:" + ti.name}
		}
		if off == s.Off+8 {
			return known{Malformed: true, What: "type"}
		}
		return known{}
	case "protomsg":
		ti.kind = kBytes
	}
	if off != s.Off { // not the size field
		return known{}
	}
	if sizeInvalid(ti, val) {
		return known{Malformed: true, What: "size:" + ti.name, OKBefore: idx}
	}
	if ti.kind != kTable && val-16 > uint64(len(f.Data)-s.Off-16) {
		return known{Malformed: true, What: "trunc:" + ti.name, OKBefore: idx}
	}
	return known{}
}
