package c19

// Native fuzzing (thorough tier). The six fuzz targets carry the same oracle as the structured
// check; TestFuzzCampaign drives them from inside the test binary and turns crashers into
// ordinary hx violations with a replay file.

import (
	"bytes"
	"encoding/json"
	"flag"
	"fmt"
	"os"
	"os/exec"
	"path/filepath"
	"regexp"
	"strconv"
	"strings"
	"sync"
	"testing"
	"time"

	"verifharness/internal/hx"
)

// While fuzzing the guard withholds everything above 2 MiB: an allocation of 2 MiB is as
// good a witness of "out of proportion" as 1 GiB and keeps executions cheap.
const fuzzLo = uint64(1) << 21

const fuzzMaxInput = 64 << 10

var fuzzTargets = []struct {
	Name string
	Subs []string
	Fixt []string // fixtures for the seed corpus
}{
	{"FuzzIndex", []string{"index"}, []string{"index.caibx"}},
	{"FuzzFormat", []string{"format"}, []string{"index.caibx", "flat.catar", "flatdir.catar", "nested.catar", "complex.catar"}},
	{"FuzzArchive", []string{"archive"}, []string{"flat.catar", "flatdir.catar", "nested.catar", "complex.catar"}},
	{"FuzzUntar", []string{"untar"}, []string{"flat.catar", "flatdir.catar", "nested.catar", "complex.catar"}},
	{"FuzzProtocol", []string{"protomsg", "protohello", "protochunk", "protoserve"}, []string{"session.s2c", "session.resp", "session.c2s"}},
	{"FuzzIndexPut", []string{"indexput"}, []string{"index.caibx"}},
}

func fuzzing() bool {
	for _, n := range []string{"test.fuzz", "test.fuzzworker"} {
		if f := flag.Lookup(n); f != nil && f.Value.String() != "" && f.Value.String() != "false" {
			return true
		}
	}
	return false
}

// knownSigs: signatures of listed, unrepaired findings (plus the development ignore list).
// Inputs that only show these are left out by construction so that the campaign goes on.
var knownSigs = sync.OnceValue(func() map[string]bool {
	m := map[string]bool{}
	for _, f := range hx.Findings() {
		if f.Property == "C19" && f.Status == "known" {
			m[f.Signature] = true
		}
	}
	for _, s := range strings.Split(os.Getenv("VERIF_DEV_IGNORE"), ",") {
		if s != "" {
			m[s] = true
		}
	}
	return m
})

var (
	skipMu     sync.Mutex
	skipCounts = map[string]int{}
	skipTotal  int
)

func countSkip(sig string) {
	dir := os.Getenv("C19_FUZZ_STATS")
	skipMu.Lock()
	defer skipMu.Unlock()
	skipCounts[sig]++
	skipTotal++
	if dir == "" || (skipTotal&(skipTotal-1) != 0 && skipTotal%512 != 0) {
		return
	}
	b, _ := json.Marshal(skipCounts)
	os.WriteFile(filepath.Join(dir, fmt.Sprintf("skips-%d.json", os.Getpid())), b, 0o644)
}

// fuzzOracle runs the input through the entry points of one fuzz target.
func fuzzOracle(t *testing.T, subs []string, in []byte) {
	if len(in) > fuzzMaxInput {
		return
	}
	for _, target := range subs {
		r := runTarget(target, in, fuzzLo)
		var o hx.Outcome
		verdict(&o, target, in, known{}, r)
		if drainTarget(target) && !r.Unsafe && r.Panic == nil {
			// same bytes through a (guarded) seekable source, payloads left unread / partly read:
			// the outcome must not depend on the kind of reader
			for _, co := range []opt{{Src: "seekguard", Drain: "none"}, {Src: "seekguard", Drain: "part"}} {
				b := r
				if co.Drain != o2default(target) {
					b = runTargetOpt(target, in, fuzzLo, opt{Drain: co.Drain})
				}
				rv := runTargetOpt(target, in, fuzzLo, co)
				verdictTag(&o, target, ":seekable-source", in, known{}, rv)
				if !b.Unsafe && !rv.Unsafe && b.Panic == nil && rv.Panic == nil && ((b.Err == nil) != (rv.Err == nil) || b.Calls != rv.Calls) {
					o.Fail("C19:"+target+":source-dependent:seekable-source", "%s on %d bytes (drain %s): seekable source gives err=%v after %d results, stream reader err=%v after %d", target, len(in), co.Drain, rv.Err, rv.Calls, b.Err, b.Calls)
				}
			}
		}
		for _, v := range o.Violations {
			if knownSigs()[v.Sig] {
				countSkip(v.Sig)
				continue
			}
			t.Fatalf("[%s] %s", v.Sig, v.Msg)
		}
	}
}

// fuzzSeeds: the seed corpus of fuzz target idx = its fixtures + one element of every type with
// every hostile size (with its natural body; header only for a few sizes), behind the minimal
// prefix the entry point needs.
func fuzzSeeds(idx int) ([][]byte, error) {
	ft := fuzzTargets[idx]
	fm, err := fixtures()
	if err != nil {
		return nil, err
	}
	var out [][]byte
	for _, n := range ft.Fixt {
		out = append(out, fm[n].Data)
	}
	d := targetDomain(ft.Subs[0])
	prefix := []byte(nil)
	if ft.Subs[0] == "archive" || ft.Subs[0] == "untar" {
		prefix, _, _ = encode(d, Elem{T: "CaFormatEntry", SK: "exact", Dir: true})
	}
	names := formatTypeNames
	if d == domProto {
		names = protoTypeNames
	}
	for _, typ := range names {
		for _, sk := range sizeKinds {
			for _, bd := range []int{0, -4096} {
				if bd != 0 && !(sk == "0" || sk == "16" || sk == "2^21" || sk == "2^48" || sk == "max") {
					continue
				}
				b, _, _ := encode(d, Elem{T: typ, TV: 0x1122334455667788, N: 5, SK: sk, BD: bd, Seed: 3})
				out = append(out, append(append([]byte(nil), prefix...), b...))
			}
		}
	}
	return out, nil
}

func fuzzBody(f *testing.F, idx int) {
	ft := fuzzTargets[idx]
	if !fuzzing() {
		f.Skip("seed corpus is covered by TestEnum; native fuzzing runs from TestFuzzCampaign (thorough tier)")
	}
	seeds, err := fuzzSeeds(idx)
	if err != nil {
		f.Fatal(err)
	}
	for _, s := range seeds {
		f.Add(s)
	}
	f.Fuzz(func(t *testing.T, in []byte) { fuzzOracle(t, ft.Subs, in) })
}

func FuzzIndex(f *testing.F)    { fuzzBody(f, 0) }
func FuzzFormat(f *testing.F)   { fuzzBody(f, 1) }
func FuzzArchive(f *testing.F)  { fuzzBody(f, 2) }
func FuzzUntar(f *testing.F)    { fuzzBody(f, 3) }
func FuzzProtocol(f *testing.F) { fuzzBody(f, 4) }
func FuzzIndexPut(f *testing.F) { fuzzBody(f, 5) }

// ---------------------------------------------------------------- campaign

// parseCorpusFile decodes a "go test fuzz v1" file with a single []byte value.
func parseCorpusFile(b []byte) ([]byte, error) {
	lines := strings.Split(strings.TrimSpace(string(b)), "\n")
	if len(lines) < 2 || !strings.HasPrefix(lines[0], "go test fuzz v1") {
		return nil, fmt.Errorf("not a fuzz corpus file")
	}
	l := strings.TrimSpace(lines[1])
	if !strings.HasPrefix(l, "[]byte(") || !strings.HasSuffix(l, ")") {
		return nil, fmt.Errorf("unexpected value line %q", l)
	}
	s, err := strconv.Unquote(l[len("[]byte(") : len(l)-1])
	return []byte(s), err
}

// fuzzBinary returns a test binary built with coverage instrumentation for fuzzing; if that
// build is not possible it falls back to the running (uninstrumented) binary.
func fuzzBinary(t *testing.T, scratch string) (string, bool) {
	harness := filepath.Join(hx.Root(), "harness")
	out := filepath.Join(scratch, "c19.fuzz.test")
	args := []string{"test", "-c", "-vet=off", "-fuzz=Fuzz", "-tags", "verif"}
	if mf := filepath.Join(os.Getenv("VERIF_RUNDIR"), "go.mod"); os.Getenv("VERIF_RUNDIR") != "" {
		if _, err := os.Stat(mf); err == nil {
			args = append(args, "-modfile="+mf) // mutant run: the driver's go.mod points at the copy
		}
	}
	args = append(args, "-o", out, "./c19")
	cmd := exec.Command("go", args...)
	cmd.Dir = harness
	cmd.Env = append(os.Environ(), "GOFLAGS=-mod=mod", "GOPROXY=off", "GOSUMDB=off", "GOTOOLCHAIN=local")
	if b, err := cmd.CombinedOutput(); err != nil {
		t.Logf("instrumented build failed (%v), fuzzing the running binary without coverage guidance:\n%s", err, b)
		return os.Args[0], false
	}
	return out, true
}

var (
	reExecs = regexp.MustCompile(`execs: (\d+)`)
	reNew   = regexp.MustCompile(`new interesting: (\d+) \(total: (\d+)\)`)
	reSeed  = regexp.MustCompile(`seed corpus entry: Fuzz\w+/seed#(\d+)`)
)

// TestFuzzCampaign runs every fuzz target for a fixed time (thorough tier, shard 0) by
// executing a test binary with -test.fuzz in a scratch working directory, and converts every
// crasher into a raw-bytes case that goes through the ordinary oracle and replay writer.
func TestFuzzCampaign(t *testing.T) {
	secs := 0
	if hx.Thorough() && hx.Shard() == 0 {
		secs = 60
	}
	if v, err := strconv.Atoi(os.Getenv("C19_FUZZ_SECONDS")); err == nil && hx.Shard() == 0 {
		secs = v
	}
	if secs <= 0 {
		t.Skip("native fuzzing runs in the thorough tier on shard 0 (or with C19_FUZZ_SECONDS)")
	}
	only := os.Getenv("C19_FUZZ_ONLY")
	scratch := hx.Scratch("c19fuzz")
	defer os.RemoveAll(scratch)
	bin, instrumented := fuzzBinary(t, scratch)
	hx.Note("fuzz_instrumented_binary", instrumented)
	stats := filepath.Join(scratch, "stats")
	os.MkdirAll(stats, 0o755)
	workers := 16
	if v, err := strconv.Atoi(os.Getenv("C19_FUZZ_WORKERS")); err == nil && v > 0 {
		workers = v
	}
	for fi, ft := range fuzzTargets {
		if only != "" && only != ft.Name {
			continue
		}
		cwd := filepath.Join(scratch, ft.Name)
		os.MkdirAll(cwd, 0o755)
		cmd := exec.Command(bin, "-test.run=^$", "-test.fuzz=^"+ft.Name+"$", fmt.Sprintf("-test.fuzztime=%ds", secs),
			"-test.fuzzcachedir="+filepath.Join(scratch, "cache"), fmt.Sprintf("-test.parallel=%d", workers),
			"-test.fuzzminimizetime=20s", fmt.Sprintf("-test.timeout=%ds", secs+180))
		cmd.Dir = cwd
		cmd.Env = append(os.Environ(), "GOMAXPROCS=4", "VERIF_RUNDIR="+filepath.Join(scratch, "rundir"), "VERIF_SHARD=0", "C19_FUZZ_STATS="+stats)
		var buf bytes.Buffer
		cmd.Stdout, cmd.Stderr = &buf, &buf
		start := time.Now()
		err := cmd.Run()
		out := buf.String()
		execs := 0
		if m := reExecs.FindAllStringSubmatch(out, -1); len(m) > 0 {
			execs, _ = strconv.Atoi(m[len(m)-1][1])
		}
		interesting := 0
		if m := reNew.FindAllStringSubmatch(out, -1); len(m) > 0 {
			interesting, _ = strconv.Atoi(m[len(m)-1][2])
		}
		hx.Note("fuzz_execs_"+ft.Name, execs)
		hx.Note("fuzz_corpus_"+ft.Name, interesting)
		t.Logf("%s: %d execs, corpus %d, %.0fs, exit error: %v", ft.Name, execs, interesting, time.Since(start).Seconds(), err)
		// failing inputs: crasher files written by the fuzzer, or seed corpus entries named in the output
		type crasher struct {
			name string
			raw  []byte
		}
		var found []crasher
		files, _ := filepath.Glob(filepath.Join(cwd, "testdata", "fuzz", ft.Name, "*"))
		for _, cf := range files {
			b, rerr := os.ReadFile(cf)
			if rerr != nil {
				continue
			}
			raw, perr := parseCorpusFile(b)
			if perr != nil {
				t.Errorf("%s: cannot parse crasher %s: %v", ft.Name, cf, perr)
				continue
			}
			found = append(found, crasher{filepath.Base(cf), raw})
		}
		if seeds, serr := fuzzSeeds(fi); serr == nil {
			for _, m := range reSeed.FindAllStringSubmatch(out, -1) {
				if n, _ := strconv.Atoi(m[1]); n < len(seeds) {
					found = append(found, crasher{"seed#" + m[1], seeds[n]})
				}
			}
		}
		converted := 0
		for _, cr := range found {
			raw, cf := cr.raw, cr.name
			converted++
			held := true
			for _, sub := range ft.Subs {
				if !hx.Case(t, spec, Case{Target: sub, Form: "raw", Raw: raw}) {
					held = false
				}
			}
			if held {
				// the fuzz worker saw a failure that the in-process oracle does not reproduce
				// (e.g. the worker died or timed out): still a finding of the campaign
				t.Errorf("%s: crasher %s (%d bytes, hex %x) did not reproduce in-process; fuzzer output:\n%s", ft.Name, cf, len(raw), trunc(raw, 64), tail(out, 3000))
			}
		}
		if err != nil && converted == 0 {
			fmt.Println("SELFTEST-FAILURE: fuzz run of", ft.Name, "failed without a crasher file")
			t.Fatalf("%s: fuzz process failed without a crasher: %v\n%s", ft.Name, err, tail(out, 4000))
		}
		if execs == 0 && converted == 0 {
			fmt.Println("SELFTEST-FAILURE: fuzz run of", ft.Name, "executed nothing")
			t.Fatalf("%s: no executions reported:\n%s", ft.Name, tail(out, 4000))
		}
	}
	// known-finding inputs left out by construction inside the fuzz targets
	total := map[string]int{}
	files, _ := filepath.Glob(filepath.Join(stats, "skips-*.json"))
	for _, f := range files {
		var m map[string]int
		if b, err := os.ReadFile(f); err == nil && json.Unmarshal(b, &m) == nil {
			for k, v := range m {
				total[k] += v
			}
		}
	}
	n := 0
	for _, v := range total {
		n += v
	}
	hx.Note("fuzz_inputs_left_out_as_known_findings", n)
	t.Logf("inputs left out as known findings: %v", total)
}

func tail(s string, n int) string {
	if len(s) > n {
		return s[len(s)-n:]
	}
	return s
}
