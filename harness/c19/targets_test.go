package c19

// The decoders under test, each wrapped in the same oracle: panic capture, allocation meter,
// guard against size values that would make the sandbox attempt a giant allocation.

import (
	"strconv"
	"bufio"
	"bytes"
	"context"
	"encoding/binary"
	"errors"
	"fmt"
	"io"
	"net/http"
	"net/http/httptest"
	"os"
	"path/filepath"
	"runtime"
	"runtime/debug"
	"sync"
	"sync/atomic"
	"testing/iotest"

	"github.com/folbricht/desync"
	"github.com/klauspost/compress/zstd"

	"verifharness/internal/gen"
	"verifharness/internal/hx"
)

var allTargets = []string{"index", "format", "archive", "untar", "indexput", "indexfile",
	"protomsg", "protohello", "protochunk", "protoserve"}

func targetDomain(target string) *domain {
	switch target {
	case "protomsg", "protohello", "protochunk", "protoserve":
		return domProto
	}
	return domFormat
}

// ---------------------------------------------------------------- guard reader

var errUnsafe = errors.New("c19 guard: value withheld (would be a giant allocation if used as a size)")

// guard serves the input and refuses to hand out any 8-byte read whose little-endian value lies
// in the unsafe interval: every size or length the decoders use is obtained by exactly such a
// read. It also remembers the last element type identifier that went through.
type guard struct {
	b      []byte
	off    int
	src    io.Reader // if set, the bytes come from here instead of b (stream sources)
	tmp    [8]byte
	lo     uint64
	dom    *domain
	elem   string
	skip   int
	prev   uint64
	unsafe bool
}

func newGuard(b []byte, lo uint64, d *domain) *guard {
	return &guard{b: b, lo: lo, dom: d, elem: "none"}
}

// newStreamGuard puts the guard in front of an arbitrary (non-seekable) reader.
func newStreamGuard(src io.Reader, lo uint64, d *domain) *guard {
	return &guard{src: src, lo: lo, dom: d, elem: "none"}
}

// observe inspects one 8-byte value on its way to the decoder; false = withheld.
func (g *guard) observe(v uint64) bool {
	if isUnsafe(v, g.lo) {
		g.unsafe = true
		return false
	}
	// attribution: a type identifier names the element in flight; the fixed fields that the
	// decoder reads next (which, in a short element, may be the following header) do not
	if g.skip > 0 {
		g.skip--
	} else if t, ok := g.dom.byVal[v]; ok && v != tailGoodbye && v != tailTable {
		g.elem = t.name
		switch t.kind {
		case kFixed:
			g.skip = int(t.fixed-16) / 8
		case kACLName:
			g.skip = 2
		case kGoodbye: // items are read as 8-byte values: all of them belong to the goodbye
			g.skip = 1 << 40
			if n := (g.prev - 16) / 24; g.prev >= 16 && n < 1<<38 {
				g.skip = int(3 * n)
			}
		}
	}
	g.prev = v
	return true
}

func (g *guard) Read(p []byte) (int, error) {
	if len(p) == 0 {
		return 0, nil
	}
	if g.src != nil {
		if len(p) != 8 {
			n, err := g.src.Read(p)
			g.off += n
			return n, err
		}
		n, _ := io.ReadFull(g.src, g.tmp[:])
		if n == 8 && !g.observe(binary.LittleEndian.Uint64(g.tmp[:])) {
			return 0, errUnsafe
		}
		if n == 0 {
			return 0, io.EOF
		}
		copy(p, g.tmp[:n])
		g.off += n
		return n, nil
	}
	if g.off >= len(g.b) {
		return 0, io.EOF
	}
	if len(p) == 8 && len(g.b)-g.off >= 8 {
		if !g.observe(binary.LittleEndian.Uint64(g.b[g.off:])) {
			return 0, errUnsafe
		}
	}
	n := copy(p, g.b[g.off:])
	g.off += n
	return n, nil
}

// seekGuard is the guard as an io.Seeker with the semantics of bytes.Reader and *os.File:
// positions beyond the end are accepted, reading there gives io.EOF.
type seekGuard struct{ *guard }

func (s seekGuard) Seek(offset int64, whence int) (int64, error) {
	var abs int64
	switch whence {
	case io.SeekStart:
		abs = offset
	case io.SeekCurrent:
		abs = int64(s.off) + offset
	case io.SeekEnd:
		abs = int64(len(s.b)) + offset
	default:
		return 0, errors.New("c19 seekGuard: invalid whence")
	}
	if abs < 0 {
		return 0, errors.New("c19 seekGuard: negative position")
	}
	if abs > 1<<40 {
		abs = 1 << 40
	}
	s.off = int(abs)
	return abs, nil
}

// ---------------------------------------------------------------- sources

// The kinds of reader a decoder entry point is given. guard/seekguard/onebyte/pipe keep the
// guard as the outermost reader; bytes.Reader, os.File and bufio are the real types, handed over
// unguarded, and therefore used only after a guarded dry run of the same input withheld nothing.
var sourceKinds = []string{"guard", "seekguard", "bytes.Reader", "os.File", "bufio", "onebyte", "pipe"}

func sourceSeekable(kind string) bool {
	return kind == "seekguard" || kind == "bytes.Reader" || kind == "os.File"
}

func sourceUnguarded(kind string) bool {
	return kind == "bytes.Reader" || kind == "os.File" || kind == "bufio"
}

var drainModes = []string{"none", "part", "all"}

// opt selects the source kind and, for the catar decoders, what the caller does with the payload
// reader it is handed before asking for the next element. Zero value = guard, and the historic
// behaviour of each target (FormatDecoder/ArchiveDecoder leave the payload unread, UnTar's
// no-op writer drains it like LocalFS).
type opt struct {
	Src   string
	Drain string
}

func (o opt) src() string {
	if o.Src == "" {
		return "guard"
	}
	return o.Src
}

func (o opt) drain(target string) string {
	if o.Drain != "" {
		return o.Drain
	}
	if target == "untar" {
		return "all"
	}
	return "none"
}

var (
	srcDirOnce sync.Once
	srcDir     string
	srcSeq     atomic.Int64
)

type source struct {
	r       io.Reader
	g       *guard // nil for unguarded kinds
	cleanup func()
	pos     func() int // bytes consumed, -1 if unknown
}

func openSource(kind string, in []byte, lo uint64, d *domain) source {
	switch kind {
	case "guard", "":
		g := newGuard(in, lo, d)
		return source{r: g, g: g, cleanup: func() {}, pos: func() int { return g.off }}
	case "seekguard":
		g := newGuard(in, lo, d)
		return source{r: seekGuard{g}, g: g, cleanup: func() {}, pos: func() int { return g.off }}
	case "onebyte":
		g := newStreamGuard(iotest.OneByteReader(bytes.NewReader(in)), lo, d)
		return source{r: g, g: g, cleanup: func() {}, pos: func() int { return g.off }}
	case "pipe":
		pr, pw := io.Pipe()
		done := make(chan struct{})
		go func() {
			defer close(done)
			if len(in) > 0 {
				pw.Write(in)
			}
			pw.Close()
		}()
		g := newStreamGuard(pr, lo, d)
		return source{r: g, g: g, cleanup: func() { pr.Close(); <-done }, pos: func() int { return g.off }}
	case "bytes.Reader":
		r := bytes.NewReader(in)
		return source{r: r, cleanup: func() {}, pos: func() int { return len(in) - r.Len() }}
	case "bufio":
		return source{r: bufio.NewReaderSize(bytes.NewReader(in), 16), cleanup: func() {}, pos: func() int { return -1 }}
	case "os.File":
		srcDirOnce.Do(func() { srcDir = hx.Scratch("c19src") })
		path := filepath.Join(srcDir, fmt.Sprintf("src-%d", srcSeq.Add(1)))
		if err := os.WriteFile(path, in, 0o644); err != nil {
			panic(err)
		}
		f, err := os.Open(path)
		if err != nil {
			panic(err)
		}
		return source{r: f, cleanup: func() { f.Close(); os.Remove(path) }, pos: func() int {
			p, err := f.Seek(0, io.SeekCurrent)
			if err != nil || p > int64(len(in)) {
				return len(in)
			}
			return int(p)
		}}
	}
	panic("c19: unknown source kind " + kind)
}

// drainPayload does with a payload reader what the drain mode says. An error met while reading
// is the caller's error (LocalFS.CreateFile returns the copy error, too).
func drainPayload(mode string, data io.Reader, size uint64) error {
	switch mode {
	case "all":
		_, err := io.Copy(io.Discard, data)
		return err
	case "part":
		n := size / 2
		if n > 4096 {
			n = 4096
		}
		if n == 0 {
			return nil
		}
		_, err := io.ReadFull(data, make([]byte, n))
		return err
	}
	return nil
}

// prescan is the guard for the entry points that wrap the input in their own buffered reader:
// it inspects the size fields at the only offsets where those entry points can interpret one.
func prescan(b []byte, lo uint64, offsets ...int) (unsafe bool, elem string) {
	elem = "none"
	for _, o := range offsets {
		if len(b) < o+16 {
			break
		}
		if isUnsafe(binary.LittleEndian.Uint64(b[o:]), lo) {
			return true, elem
		}
		typ := binary.LittleEndian.Uint64(b[o+8:])
		elem = domFormat.nameOf(typ)
		if elem != "CaFormatIndex" {
			break // IndexFromReader stops unless the first element is an index
		}
	}
	return false, elem
}

// ---------------------------------------------------------------- meter

type res struct {
	Err      error
	Panic    any
	Stack    string
	Alloc    uint64
	Exempt   uint64 // allocation the statement does not bound (decoded chunk payload)
	Elem     string
	Consumed int
	Calls    int // successful Next / ReadMessage calls
	Unsafe   bool
	Skipped  string // sub-step left out by construction
}

func measure(f func() error) (err error, pv any, stack string, alloc uint64) {
	var m0, m1 runtime.MemStats
	runtime.ReadMemStats(&m0)
	func() {
		defer func() {
			if r := recover(); r != nil {
				pv = r
				stack = string(debug.Stack())
			}
		}()
		err = f()
	}()
	runtime.ReadMemStats(&m1)
	alloc = m1.TotalAlloc - m0.TotalAlloc
	return
}

const allocBase = 1 << 20

func allocBound(inputLen int, exempt uint64) uint64 {
	return allocBase + 32*uint64(inputLen) + exempt
}

// ---------------------------------------------------------------- collaborators

// nopFS is a FilesystemWriter that touches nothing. In drain mode "all" it copies the file body
// (to nowhere) and reports the copy error like desync.LocalFS; "part"/"none" model a writer that
// stops early (e.g. a failed or skipped file).
type nopFS struct {
	nodes int
	drain string
}

func (f *nopFS) CreateDir(n desync.NodeDirectory) error { f.nodes++; return nil }
func (f *nopFS) CreateFile(n desync.NodeFile) error {
	f.nodes++
	return drainPayload(f.drain, n.Data, n.Size)
}
func (f *nopFS) CreateSymlink(n desync.NodeSymlink) error { f.nodes++; return nil }
func (f *nopFS) CreateDevice(n desync.NodeDevice) error   { f.nodes++; return nil }

// nopIndexStore accepts and forgets indexes.
type nopIndexStore struct{ stored int }

func (s *nopIndexStore) GetIndexReader(string) (io.ReadCloser, error) {
	return nil, os.ErrNotExist
}
func (s *nopIndexStore) GetIndex(string) (desync.Index, error) { return desync.Index{}, os.ErrNotExist }
func (s *nopIndexStore) Close() error                          { return nil }
func (s *nopIndexStore) String() string                        { return "c19-nop" }
func (s *nopIndexStore) StoreIndex(string, desync.Index) error { s.stored++; return nil }

// oneStore serves exactly one chunk.
type oneStore struct {
	id   desync.ChunkID
	data []byte
}

func (s oneStore) GetChunk(id desync.ChunkID) (*desync.Chunk, error) {
	if id != s.id {
		return nil, desync.ChunkMissing{ID: id}
	}
	return desync.NewChunkWithID(id, s.data, true)
}
func (s oneStore) HasChunk(id desync.ChunkID) (bool, error) { return id == s.id, nil }
func (s oneStore) Close() error                             { return nil }
func (s oneStore) String() string                           { return "c19-one" }

// The chunk of the recorded session and of the protochunk target.
var (
	sessData = append(gen.RandBytes(200, 19), make([]byte, 300)...)
	sessID   = desync.NewChunk(sessData).ID()
)

type lockedBuf struct {
	mu sync.Mutex
	b  bytes.Buffer
}

type tee struct {
	w io.Writer
	l *lockedBuf
}

func (t tee) Write(p []byte) (int, error) {
	t.l.mu.Lock()
	t.l.b.Write(p)
	t.l.mu.Unlock()
	return t.w.Write(p)
}

// recordSession runs desync.Protocol against desync.ProtocolServer in-process once and returns
// the bytes each side sent: hello, chunk, missing / hello, request, request (+ a goodbye).
func recordSession() (s2c, c2s []byte, err error) {
	cr, sw := io.Pipe()
	sr, cw := io.Pipe()
	var bs, bc lockedBuf
	server := desync.NewProtocolServer(sr, tee{sw, &bs}, oneStore{sessID, sessData})
	client := desync.NewProtocol(cr, tee{cw, &bc})
	done := make(chan error, 1)
	go func() { done <- server.Serve(context.Background()) }()
	defer func() { cw.Close(); sw.Close(); cr.Close(); sr.Close() }()
	flags, err := client.Initialize(desync.CaProtocolPullChunks)
	if err != nil {
		return nil, nil, err
	}
	if flags&desync.CaProtocolReadableStore == 0 {
		return nil, nil, fmt.Errorf("server flags %x", flags)
	}
	c, err := client.RequestChunk(sessID)
	if err != nil {
		return nil, nil, err
	}
	if b, _ := c.Data(); !bytes.Equal(b, sessData) {
		return nil, nil, errors.New("session chunk differs")
	}
	var missing desync.ChunkID
	missing[0] = 0xee
	if _, err = client.RequestChunk(missing); err == nil {
		return nil, nil, errors.New("missing chunk delivered")
	}
	<-done // the server leaves after answering MISSING
	c2s = append(append([]byte(nil), bc.b.Bytes()...), le(16, domProto.byName["CaProtocolGoodbye"].val)...)
	return append([]byte(nil), bs.b.Bytes()...), c2s, nil
}

func validHello(flags uint64) []byte {
	return le(24, domProto.byName["CaProtocolHello"].val, flags)
}

// ---------------------------------------------------------------- zstd exemption

var (
	zdecOnce sync.Once
	zdec     *zstd.Decoder
)

const zstdLimit = 64 << 20

// chunkExempt looks at the first scripted answer the way the protocol frames it; if it is a
// chunk message with a payload it decodes the payload independently with a hard memory limit.
// Returns the decoded size (exempt from the allocation bound: a correct client has to hold the
// decoded chunk) and whether the payload exceeds the limit (then desync is not called at all:
// its decoder would trust a declared frame content size of up to 64 GiB).
func chunkExempt(resp []byte) (exempt uint64, over bool) {
	if len(resp) < 16 {
		return 0, false
	}
	l := binary.LittleEndian.Uint64(resp)
	typ := binary.LittleEndian.Uint64(resp[8:])
	if typ != domProto.byName["CaProtocolChunk"].val || l < 56 || l > uint64(len(resp)) {
		return 0, false
	}
	payload := resp[56:l]
	zdecOnce.Do(func() {
		zdec, _ = zstd.NewReader(nil, zstd.WithDecoderMaxMemory(zstdLimit), zstd.WithDecoderConcurrency(1))
	})
	out, err := zdec.DecodeAll(payload, nil)
	if err != nil {
		if errors.Is(err, zstd.ErrDecoderSizeExceeded) || errors.Is(err, zstd.ErrWindowSizeExceeded) || errors.Is(err, zstd.ErrFrameSizeExceeded) {
			return 0, true
		}
		// a frame may declare a large content size and fail later: exempt what was produced
		return 4*uint64(len(out)) + frameContentSize(payload), false
	}
	return 4 * uint64(len(out)), false
}

// frameContentSize returns the content size a zstd frame header declares (0 if none/invalid),
// capped at the limit.
func frameContentSize(p []byte) uint64 {
	var h zstd.Header
	if err := h.Decode(p); err != nil || !h.HasFCS {
		return 0
	}
	if h.FrameContentSize > zstdLimit {
		return zstdLimit
	}
	return h.FrameContentSize
}

// ---------------------------------------------------------------- targets

// runTarget feeds in to one decoder entry point. lo is the lower end of the unsafe interval
// (2^30 in the quick tier; lower while fuzzing to keep executions cheap).
func runTarget(target string, in []byte, lo uint64) res { return runTargetOpt(target, in, lo, opt{}) }

// sourceTargets are the entry points that take a reader from the caller (source-kind dimension).
func sourceTarget(target string) bool {
	switch target {
	case "format", "archive", "untar", "index", "protomsg", "protohello", "protochunk", "protoserve":
		return true
	}
	return false
}

func drainTarget(target string) bool {
	return target == "format" || target == "archive" || target == "untar"
}

func runTargetOpt(target string, in []byte, lo uint64, o opt) (r res) {
	r.Elem = "none"
	dom := targetDomain(target)
	kind := o.src()
	drain := o.drain(target)
	// fin copies what the source saw into the result
	fin := func(src source) {
		r.Consumed = src.pos()
		if src.g != nil {
			r.Elem, r.Unsafe = src.g.elem, src.g.unsafe
		}
		src.cleanup()
	}
	switch target {
	case "format":
		src := openSource(kind, in, lo, dom)
		r.Err, r.Panic, r.Stack, r.Alloc = measure(func() error {
			d := desync.NewFormatDecoder(src.r)
			for {
				e, err := d.Next()
				if err != nil {
					return err
				}
				if e == nil {
					return nil
				}
				r.Calls++
				if p, ok := e.(desync.FormatPayload); ok {
					if err := drainPayload(drain, p.Data, p.Size-16); err != nil {
						return err
					}
				}
			}
		})
		fin(src)

	case "archive":
		src := openSource(kind, in, lo, dom)
		r.Err, r.Panic, r.Stack, r.Alloc = measure(func() error {
			a := desync.NewArchiveDecoder(src.r)
			for {
				n, err := a.Next()
				if err != nil {
					return err
				}
				if n == nil {
					return nil
				}
				r.Calls++
				if f, ok := n.(desync.NodeFile); ok {
					if err := drainPayload(drain, f.Data, f.Size); err != nil {
						return err
					}
				}
			}
		})
		fin(src)

	case "untar":
		src := openSource(kind, in, lo, dom)
		fs := &nopFS{drain: drain}
		r.Err, r.Panic, r.Stack, r.Alloc = measure(func() error {
			return desync.UnTar(context.Background(), src.r, fs)
		})
		fin(src)
		r.Calls = fs.nodes

	case "index":
		// IndexFromReader buffers the reader itself: the prescan is the guard for every source kind
		r.Unsafe, r.Elem = prescan(in, lo, 0, 48)
		if r.Unsafe {
			r.Err = errUnsafe
			return
		}
		if o.Src == "" {
			kind = "bytes.Reader"
		}
		src := openSource(kind, in, 0, dom)
		if src.g != nil {
			src.g.lo = unsafeHi // (guard switched off: reads arrive in buffer-sized pieces anyway)
		}
		r.Err, r.Panic, r.Stack, r.Alloc = measure(func() error {
			_, err := desync.IndexFromReader(src.r)
			return err
		})
		src.cleanup()
		r.Consumed = len(in)

	case "indexput":
		r.Unsafe, r.Elem = prescan(in, lo, 0, 48)
		if r.Unsafe {
			r.Err = errUnsafe
			return
		}
		r.Consumed = len(in)
		// the handler sees the length the client ANNOUNCES before it sees a single body byte: the same upload is
		// made with the true length, without one (chunked, what desync's own client sends) and with lengths far
		// above the body; no run may panic or allocate by the announcement
		for _, announced := range []int64{int64(len(in)), -1, 1 << 27, 1<<28 + 1} {
			st := &nopIndexStore{}
			h := desync.NewHTTPIndexHandler(st, true, "")
			var code int
			err, pv, stack, alloc := measure(func() error {
				req := httptest.NewRequest(http.MethodPut, "/c19.caibx", bytes.NewReader(in))
				req.ContentLength = announced
				if announced >= 0 {
					req.Header.Set("Content-Length", strconv.FormatInt(announced, 10))
				} else {
					req.TransferEncoding = []string{"chunked"}
				}
				w := httptest.NewRecorder()
				h.ServeHTTP(w, req)
				code = w.Code
				if w.Code != http.StatusOK {
					return fmt.Errorf("status %d", w.Code)
				}
				if st.stored != 1 {
					return fmt.Errorf("status 200 but StoreIndex called %d times", st.stored)
				}
				return nil
			})
			_ = code
			if announced == int64(len(in)) {
				r.Err, r.Panic, r.Stack, r.Alloc = err, pv, stack, alloc
				continue
			}
			if pv != nil && r.Panic == nil {
				r.Panic, r.Stack, r.Elem = pv, stack, "announced-length"
			}
			if alloc > r.Alloc {
				if alloc > allocBound(len(in), 0) && r.Alloc <= allocBound(len(in), 0) {
					r.Elem = "announced-length"
				}
				r.Alloc = alloc
			}
		}

	case "indexfile":
		r.Unsafe, r.Elem = prescan(in, lo, 0)
		if r.Unsafe {
			r.Err = errUnsafe
			return
		}
		r.Consumed = len(in)
		dir := hx.Scratch("c19f")
		defer os.RemoveAll(dir)
		path := filepath.Join(dir, "blob")
		if err := os.WriteFile(path, in, 0o644); err != nil {
			panic(err)
		}
		r.Err, r.Panic, r.Stack, r.Alloc = measure(func() error {
			_, _, err := desync.IndexFromFile(context.Background(), path, 2, 64, 256, 1024, desync.NullProgressBar{})
			return err
		})

	case "protomsg":
		src := openSource(kind, in, lo, dom)
		r.Err, r.Panic, r.Stack, r.Alloc = measure(func() error {
			p := desync.NewProtocol(src.r, io.Discard)
			for {
				if _, err := p.ReadMessage(); err != nil {
					return err
				}
				r.Calls++
			}
		})
		fin(src)
		r.Elem = "Message"

	case "protohello":
		src := openSource(kind, in, lo, dom)
		r.Err, r.Panic, r.Stack, r.Alloc = measure(func() error {
			_, err := desync.NewProtocol(src.r, io.Discard).RecvHello()
			return err
		})
		fin(src)
		r.Elem = "Message"
		if r.Panic != nil || r.Unsafe {
			// Initialize receives the hello on a goroutine of its own: the same panic there
			// would kill the process. Left out by construction when the direct call panics.
			r.Skipped = "initialize"
			return
		}
		src2 := openSource(kind, in, lo, dom)
		err2, pv, st, al := measure(func() error {
			_, err := desync.NewProtocol(src2.r, io.Discard).Initialize(desync.CaProtocolPullChunks)
			return err
		})
		src2.cleanup()
		if pv != nil {
			r.Panic, r.Stack = pv, st
		}
		if al > r.Alloc {
			r.Alloc = al
		}
		if (r.Err == nil) != (err2 == nil) {
			r.Err = fmt.Errorf("RecvHello and Initialize disagree: %v / %v", r.Err, err2)
		}

	case "protochunk":
		var over bool
		r.Exempt, over = chunkExempt(in)
		if over {
			r.Skipped = "zstd-over-limit"
			r.Err = errUnsafe
			r.Unsafe = true
			return
		}
		src := openSource(kind, append(validHello(desync.CaProtocolReadableStore), in...), lo, dom)
		p := desync.NewProtocol(src.r, io.Discard)
		if _, err := p.Initialize(desync.CaProtocolPullChunks); err != nil {
			panic("c19: handshake with a valid scripted hello failed: " + err.Error())
		}
		r.Err, r.Panic, r.Stack, r.Alloc = measure(func() error {
			c, err := p.RequestChunk(sessID)
			if err == nil && c == nil {
				return errors.New("nil chunk without error")
			}
			return err
		})
		fin(src)
		r.Elem = "Message"
		if r.Consumed >= 24 {
			r.Consumed -= 24
		}

	case "protoserve":
		// first the hello on this goroutine (see protohello)
		src0 := openSource(kind, in, lo, dom)
		r.Err, r.Panic, r.Stack, r.Alloc = measure(func() error {
			_, err := desync.NewProtocol(src0.r, io.Discard).RecvHello()
			return err
		})
		fin(src0)
		r.Elem = "Message"
		if r.Panic != nil || r.Unsafe {
			r.Skipped = "serve"
			return
		}
		src := openSource(kind, in, lo, dom)
		srv := desync.NewProtocolServer(src.r, io.Discard, oneStore{sessID, sessData})
		r.Err, r.Panic, r.Stack, r.Alloc = measure(func() error { return srv.Serve(context.Background()) })
		fin(src)
		r.Elem = "Message"
		r.Exempt = 8 * uint64(len(sessData)) * uint64(1+len(in)/56) // every request is answered with the chunk

	default:
		panic("c19: unknown target " + target)
	}
	return
}
