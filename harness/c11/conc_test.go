package c11

// Concurrent phase: worker goroutines issue GetChunk/HasChunk against failover/swap chains while a
// controller goroutine swaps the chain and breaks/heals failover members. The oracle is order-free:
//   - an ID that every chain version serves by construction (every failover group holds it in all
//     members and has a member without any fault that is never broken; routers/caches in front of
//     it are healthy) is always returned with the right bytes / reported present;
//   - an ID that no leaf of any version holds always yields ChunkMissing / false;
//   - no leaf method is entered after that leaf's Close returned.
// Expectations are derived from the case itself (serves/lacks below), so a shrunk or hand-written
// case can never make the oracle demand more than the statement.

import (
	"errors"
	"fmt"
	"runtime"
	"sync"
	"sync/atomic"
	"time"

	"github.com/folbricht/desync"
	"pgregory.net/rapid"

	"verifharness/internal/dx"
	"verifharness/internal/hx"
)

// ---------------------------------------------------------------- expectations from the spec

func pristine(n *Node) bool { return !n.Down && len(n.FailAt) == 0 }

func cont(n *Node, id int) int {
	if id < len(n.Cont) {
		return n.Cont[id]
	}
	return 0
}

// serves: under the phase's rules (only non-anchor failover members are ever broken) every
// GetChunk(id) on n returns the data and every HasChunk(id) returns true.
func serves(n *Node, id int) bool {
	switch n.K {
	case "leaf":
		return pristine(n) && cont(n, id) == 1
	case "failover":
		anchor := false
		for _, k := range n.Kids {
			if cont(k, id) == 0 {
				return false
			}
			if k.Anchor && pristine(k) && cont(k, id) == 1 {
				anchor = true
			}
		}
		return anchor
	case "router":
		for _, k := range n.Kids {
			if serves(k, id) {
				return true
			}
			if !lacks(k, id) {
				return false
			}
		}
		return false
	case "cache":
		lo := n.Kids[1]
		if !pristine(lo) {
			return false
		}
		switch cont(lo, id) {
		case 1:
			return true
		case 0:
			return serves(n.Kids[0], id)
		default:
			return n.Repair && serves(n.Kids[0], id)
		}
	case "swap", "dedup":
		return serves(n.Kids[0], id)
	}
	return false
}

// lacks: every GetChunk(id) on n returns ChunkMissing and every HasChunk(id) false.
func lacks(n *Node, id int) bool {
	switch n.K {
	case "leaf":
		return pristine(n) && cont(n, id) == 0
	case "failover":
		anchor := false
		for _, k := range n.Kids {
			if cont(k, id) != 0 {
				return false
			}
			if k.Anchor && pristine(k) {
				anchor = true
			}
		}
		return anchor
	case "router":
		for _, k := range n.Kids {
			if !lacks(k, id) {
				return false
			}
		}
		return true
	case "cache":
		return pristine(n.Kids[1]) && cont(n.Kids[1], id) == 0 && lacks(n.Kids[0], id)
	case "swap", "dedup":
		return lacks(n.Kids[0], id)
	}
	return false
}

// ---------------------------------------------------------------- generator

func (g *gctx) concFailover(absent [nIDs]bool) *Node {
	n := &Node{K: "failover"}
	m := g.rng(2, 3, "fmembers")
	anchor := g.rng(0, m-1, "anchor")
	n.Active = g.rng(0, m-1, "active")
	for j := 0; j < m; j++ {
		l := &Node{K: "leaf", Cont: make([]int, nIDs), RO: true, Anchor: j == anchor}
		for i := range l.Cont {
			if !absent[i] {
				l.Cont[i] = 1
				if j != anchor && g.pct(12, "finvalid") {
					l.Cont[i] = 2
				}
			}
		}
		if j != anchor {
			l.Down = g.pct(65, "fdown")
			if g.pct(25, "fflaky") {
				l.FailAt = append(l.FailAt, Fault{Kind: pick(g, []string{"get", "has"}, "fkind"), N: g.rng(1, 6, "fn")})
			}
		}
		n.Kids = append(n.Kids, l)
	}
	return n
}

func (g *gctx) concLeaf(absent [nIDs]bool) *Node {
	l := &Node{K: "leaf", Cont: make([]int, nIDs), RO: true}
	for i := range l.Cont {
		if !absent[i] && g.pct(40, "lhas") {
			l.Cont[i] = 1
		}
	}
	return l
}

// concChain: [Dedup] ( Failover | Router(Failover|leaf ...) | Cache(Failover|Router, local) ) without the swap on top.
func (g *gctx) concChain(absent [nIDs]bool) *Node {
	var n *Node
	core := func() *Node {
		if g.pct(55, "bare") {
			return g.concFailover(absent)
		}
		r := &Node{K: "router"}
		m := g.rng(1, 3, "stores")
		fo := g.rng(0, m-1, "fopos")
		for j := 0; j < m; j++ {
			if j == fo || g.pct(40, "group") {
				r.Kids = append(r.Kids, g.concFailover(absent))
			} else {
				r.Kids = append(r.Kids, g.concLeaf(absent))
			}
		}
		return r
	}
	n = core()
	if g.pct(30, "cache") {
		lo := &Node{K: "leaf", Cont: make([]int, nIDs)}
		rep := g.pct(50, "repair")
		for i := range lo.Cont {
			if !absent[i] && g.pct(25, "lhas") {
				lo.Cont[i] = 1
				if rep && g.pct(40, "linv") {
					lo.Cont[i] = 2
				}
			}
		}
		n = &Node{K: "cache", Kids: []*Node{n, lo}, Repair: rep}
	}
	if g.pct(30, "dedup") {
		n = &Node{K: "dedup", Kids: []*Node{n}}
	}
	return n
}

func genConc(t *rapid.T, c *Case) {
	g := &gctx{t: t}
	var absent [nIDs]bool
	absent[nIDs-1] = true
	if g.pct(20, "absent2") {
		absent[nIDs-2] = true
	}
	c.Chain = g.concChain(absent)
	swap := g.pct(75, "swap")
	if swap {
		c.Chain = &Node{K: "swap", Kids: []*Node{c.Chain}}
	}
	workers := g.rng(2, hx.Pick(6, 8), "workers")
	rounds := g.rng(1, hx.Pick(4, 6), "rounds")
	ctlKinds := []string{"break", "heal", "break"}
	if swap {
		ctlKinds = []string{"swap", "swap", "swap", "break", "heal"}
	}
	for r := 0; r < rounds; r++ {
		var rd Round
		for w := 0; w < workers; w++ {
			k := g.rng(1, hx.Pick(3, 4), "burst")
			var ops []Op
			for i := 0; i < k; i++ {
				ops = append(ops, Op{Op: pick(g, []string{"get", "get", "get", "has"}, "op"), ID: g.rng(0, nIDs-1, "id")})
			}
			rd.Reqs = append(rd.Reqs, ops)
		}
		nc := g.rng(0, 3, "nctl")
		for i := 0; i < nc; i++ {
			op := Op{Op: pick(g, ctlKinds, "ctl")}
			if op.Op == "swap" {
				op.New = g.concChain(absent)
			} else {
				op.M = g.rng(0, 7, "m")
			}
			rd.Ctl = append(rd.Ctl, op)
		}
		c.Rounds = append(c.Rounds, rd)
	}
	n := g.rng(1, 12, "plen")
	for i := 0; i < n; i++ {
		c.Perturb = append(c.Perturb, pick(g, []int{0, 0, 1, 1, 2, 3, 4, 5, 6, 7}, "perturb"))
	}
}

// ---------------------------------------------------------------- runner

type concStats struct {
	requests, checked, absentChecked int
	swaps, swapInflight              int
	advances                         int
	hookHits                         map[string]int
}

type reqResult struct {
	round, worker, i int
	op               Op
	class            string
	err              error
}

// breakable: non-anchor members of failover groups in the chain below r.
func breakable(r *rnode) []*rnode {
	var out []*rnode
	for _, l := range r.leaves() {
		if l.parent != nil && l.parent.kind == "failover" && !l.spec.Anchor {
			out = append(out, l)
		}
	}
	return out
}

func runConc(c Case, o *hx.Outcome) (cs concStats) {
	u := newUniverse(c.Seed)
	b := &builder{u: u, rec: &recorder{on: false}, prepos: true}
	top := b.build(c.Chain, nil)
	canSwap := top.kind == "swap"

	// every chain version a request can meet
	versions := []*Node{c.Chain}
	for _, rd := range c.Rounds {
		for _, op := range rd.Ctl {
			if op.Op == "swap" && canSwap && op.New != nil && op.New.sane() && !writableSpec(op.New) && op.New.K != "swap" {
				versions = append(versions, op.New)
			}
		}
	}
	var expectData, expectAbsent [nIDs]bool
	for id := 0; id < nIDs; id++ {
		expectData[id], expectAbsent[id] = true, true
		for _, v := range versions {
			if !serves(v, id) {
				expectData[id] = false
			}
			if !lacks(v, id) {
				expectAbsent[id] = false
			}
		}
	}

	// perturbation hook
	var inflight, maxAtSwap, pidx atomic.Int64
	var hmu sync.Mutex
	hits := map[string]int{}
	vec := c.Perturb
	desync.VerifHook = func(site string) {
		hmu.Lock()
		hits[site]++
		hmu.Unlock()
		if site == "swap.locked" {
			if n := inflight.Load(); n > maxAtSwap.Load() {
				maxAtSwap.Store(n)
			}
		}
		if len(vec) == 0 {
			return
		}
		v := vec[int(pidx.Add(1)-1)%len(vec)]
		switch {
		case v <= 0:
		case v <= 3:
			for i := 0; i < v; i++ {
				runtime.Gosched()
			}
		default:
			if v > 7 {
				v = 7
			}
			time.Sleep(time.Duration(1<<(v-2)) * time.Microsecond) // shakes the schedule only; no verdict depends on it
		}
	}
	defer func() { desync.VerifHook = nil }()

	var rmu sync.Mutex
	var results []reqResult
	var panics []string
	guard := func(who string) {
		if r := recover(); r != nil {
			rmu.Lock()
			panics = append(panics, fmt.Sprintf("%s: %v", who, r))
			rmu.Unlock()
		}
	}
	cur := top // controller's view of the chain whose members it breaks/heals
	if canSwap {
		cur = top.kids[0]
	}
	var swapErrs []string

	for ri, rd := range c.Rounds {
		var wg sync.WaitGroup
		start := make(chan struct{})
		for w, ops := range rd.Reqs {
			wg.Add(1)
			go func(w int, ops []Op) {
				defer wg.Done()
				defer guard(fmt.Sprintf("worker %d", w))
				<-start
				for i, op := range ops {
					if op.ID < 0 || op.ID >= nIDs {
						op.ID = 0
					}
					var res reqResult
					inflight.Add(1)
					if op.Op == "has" {
						h, err := top.st.HasChunk(u.ids[op.ID])
						res = reqResult{class: classHas(h, err), err: err}
					} else {
						op.Op = "get"
						ch, err := top.st.GetChunk(u.ids[op.ID])
						res = reqResult{class: u.classGet(op.ID, ch, err), err: err}
					}
					inflight.Add(-1)
					res.round, res.worker, res.i, res.op = ri, w, i, op
					rmu.Lock()
					results = append(results, res)
					rmu.Unlock()
				}
			}(w, ops)
		}
		wg.Add(1)
		go func(ops []Op) {
			defer wg.Done()
			defer guard("controller")
			<-start
			for _, op := range ops {
				switch op.Op {
				case "swap":
					if !canSwap || op.New == nil || !op.New.sane() || writableSpec(op.New) || op.New.K == "swap" {
						continue
					}
					nr := b.build(op.New, top)
					if n := inflight.Load(); n > maxAtSwap.Load() {
						maxAtSwap.Store(n)
					}
					if err := top.swapper.Swap(nr.st); err != nil {
						rmu.Lock()
						swapErrs = append(swapErrs, err.Error())
						rmu.Unlock()
						continue
					}
					cur = nr
					rmu.Lock()
					cs.swaps++
					rmu.Unlock()
				case "break", "heal":
					if bs := breakable(cur); len(bs) > 0 {
						m := op.M
						if m < 0 {
							m = 0
						}
						setDown(bs[m%len(bs)].leaf, op.Op == "break")
					}
				}
			}
		}(rd.Ctl)
		close(start)
		wg.Wait() // every goroutine of the round is joined here
	}
	desync.VerifHook = nil
	cs.hookHits = hits
	cs.swapInflight = int(maxAtSwap.Load())
	if cs.swaps == 0 {
		cs.swapInflight = 0
	}

	// ---- verdicts (a pure function of the observed results)
	for _, p := range panics {
		o.Fail("panic", "panic in a goroutine of the concurrent phase: %s", p)
	}
	for _, e := range swapErrs {
		o.Fail("C11:swap:swap-failed", "Swap of a read-only chain by another read-only chain returned %s", e)
	}
	seen := map[string]bool{}
	fail := func(sig, f string, a ...any) {
		if seen[sig] { // one report per clause and case is enough
			return
		}
		seen[sig] = true
		o.Fail(sig, f, a...)
	}
	for _, r := range results {
		cs.requests++
		where := fmt.Sprintf("round %d worker %d request %d: %s(id%d) on %s (%d chain versions, perturbation %v)", r.round, r.worker, r.i, r.op.Op, r.op.ID, c.Chain.shape(), len(versions), c.Perturb)
		if r.class == cWrong {
			fail("C11:swap:corrupted-request", "%s returned bytes that are not the chunk", where)
			continue
		}
		switch {
		case expectData[r.op.ID]:
			cs.checked++
			switch r.class {
			case cData, cTrue:
			case cErr:
				if errors.Is(r.err, dx.ErrInjected) || isInvalid(r.err) {
					fail("C11:failover:failed-with-healthy-member", "%s failed with %q although every failover group has a member that holds the chunk and never fails", where, r.err)
				} else {
					fail("C11:swap:request-failed", "%s failed with %q (not an injected member fault)", where, r.err)
				}
			default:
				fail("C11:conc:present-reported-missing", "%s returned %s although every chain version serves the chunk", where, r.class)
			}
		case expectAbsent[r.op.ID]:
			cs.checked++
			cs.absentChecked++
			switch r.class {
			case cMissing, cFalse:
			case cErr:
				fail("C11:failover:masked-missing", "%s failed with %q; the chunk is in no store, ChunkMissing/false is the documented answer", where, r.err)
			default:
				fail("C11:conc:absent-reported-present", "%s returned %s although no store holds the chunk", where, r.class)
			}
		}
	}
	for _, l := range b.all {
		if n := l.UsedAfterClose(); n > 0 {
			fail("C11:swap:use-after-close", "leaf %s was entered %d time(s) after its Close had returned (chain %s, %d swap(s), perturbation %v)", l.Name, n, c.Chain.shape(), cs.swaps, c.Perturb)
		}
	}
	// failover advances: an error delivered by a failover member makes the group move on
	for _, l := range b.all {
		cs.advances += l.Delivered()
	}
	cs.advances -= b.warm
	return cs
}

func isInvalid(err error) bool {
	var ci desync.ChunkInvalid
	return errors.As(err, &ci)
}
