// C11 — Store chains follow their documented routing, caching and failover policy.
package c11

import (
	"bytes"
	"encoding/json"
	"fmt"
	"os"
	"runtime"
	"sort"
	"strings"
	"testing"
	"time"

	"github.com/folbricht/desync"
	"pgregory.net/rapid"

	"verifharness/internal/hx"
)

// Op is one step of a history.
//
//	get/has    against the top of the chain
//	store      StoreChunk on the top if the chain is writable, otherwise the chunk appears in leaf M
//	           (and in the other members of M's failover group: group members hold the same IDs)
//	corrupt    the entry for ID in leaf M (if any) becomes invalid
//	break/heal leaf M starts/stops failing every call
//	swap       the top (a swap store) is given the chain New
type Op struct {
	Op  string `json:"op"`
	ID  int    `json:"id,omitempty"`
	M   int    `json:"m,omitempty"`
	New *Node  `json:"new,omitempty"`
}

// Round is one barrier-delimited burst of the concurrent phase.
type Round struct {
	Ctl  []Op   `json:"ctl,omitempty"` // swap / break / heal, executed in order by the controller goroutine
	Reqs [][]Op `json:"reqs"`          // per worker goroutine: get / has
}

type Case struct {
	Mode    string    `json:"mode"` // seq | conc | cli | race | load
	Seed    uint64    `json:"seed"`
	Chain   *Node     `json:"chain,omitempty"`
	Ops     []Op      `json:"ops,omitempty"`     // seq
	Rounds  []Round   `json:"rounds,omitempty"`  // conc
	Perturb []int     `json:"perturb,omitempty"` // conc: yields/sleeps consumed at failover.selected / swap.locked
	CLI     *CLICase  `json:"cli,omitempty"`     // cli: the chain is built by the command itself (cli_test.go)
	Load    *LoadCase `json:"load,omitempty"`    // load: requests parked inside the wrapped store while Swap is queued (load_test.go)
	Race    *RaceCase `json:"race,omitempty"`    // race: failover group of 3..5 members, all but one failing, concurrent requests (race_test.go)
}

// ---------------------------------------------------------------- generators

type gctx struct {
	t     *rapid.T
	flaky bool // "fail at call k" faults allowed in this case
}

// rapid's integer generators are strongly biased towards small values (IntRange(0,99) is below 10
// in 40% of the draws), which would skew every weight below. Fair coins are fair, so uniform
// numbers are assembled from them.
func (g *gctx) u(n int, label string) int {
	if n <= 1 {
		return 0
	}
	v, span := 0, 1
	for span < n {
		v <<= 1
		if rapid.Bool().Draw(g.t, label) {
			v |= 1
		}
		span <<= 1
	}
	return v % n
}

func (g *gctx) rng(lo, hi int, label string) int { return lo + g.u(hi-lo+1, label) }

func (g *gctx) pct(p int, label string) bool { return g.u(128, label)*100/128 < p }

func pick[T any](g *gctx, from []T, label string) T { return from[g.u(len(from), label)] }

func (g *gctx) faults(n *Node, kinds []string) {
	if !g.flaky || !g.pct(40, "hasflaky") {
		return
	}
	k := g.rng(1, 2, "nflaky")
	for i := 0; i < k; i++ {
		n.FailAt = append(n.FailAt, Fault{Kind: pick(g, kinds, "fkind"), N: g.rng(1, 5, "fn")})
	}
}

func (g *gctx) leaf(upstream bool) *Node {
	n := &Node{K: "leaf", Cont: make([]int, nIDs)}
	for i := range n.Cont {
		n.Cont[i] = pick(g, []int{0, 0, 0, 1, 1, 1, 1, 2}, "cont")
	}
	n.Down = g.pct(12, "down")
	g.faults(n, []string{"get", "get", "has", "store"})
	if upstream {
		n.RO = g.pct(30, "ro")
	}
	n.WDedup = g.pct(8, "wdedup")
	return n
}

func (g *gctx) local() *Node {
	n := &Node{K: "leaf", Cont: make([]int, nIDs)}
	for i := range n.Cont {
		n.Cont[i] = pick(g, []int{0, 0, 0, 0, 0, 1, 1, 2}, "lcont")
	}
	n.Down = g.pct(5, "ldown")
	g.faults(n, []string{"get", "has", "store", "store"})
	n.WDedup = g.pct(8, "lwdedup")
	return n
}

// failover group: members hold the same IDs (as the documentation requires); faults differ.
func (g *gctx) failover() *Node {
	n := &Node{K: "failover"}
	m := g.rng(2, 3, "fmembers")
	var present [nIDs]bool
	for i := range present {
		present[i] = g.pct(65, "fpresent")
	}
	for j := 0; j < m; j++ {
		l := &Node{K: "leaf", Cont: make([]int, nIDs), RO: g.pct(30, "fro")}
		for i := range l.Cont {
			if present[i] {
				l.Cont[i] = 1
				if g.pct(12, "finvalid") {
					l.Cont[i] = 2
				}
			}
		}
		l.Down = g.pct(35, "fdown")
		g.faults(l, []string{"get", "get", "has"})
		l.WDedup = g.pct(5, "fwdedup")
		n.Kids = append(n.Kids, l)
	}
	return n
}

func (g *gctx) router(members func() *Node) *Node {
	n := &Node{K: "router"}
	m := g.rng(2, 3, "rmembers")
	for j := 0; j < m; j++ {
		n.Kids = append(n.Kids, members())
	}
	return n
}

// cli: the shapes cmd/desync/store.go, chunkserver.go and mount-index.go build:
// [Swap] [Dedup] [Cache(] Router(leaf | Failover(leaf...) ...) [, [Repairable] leaf )]
func (g *gctx) cli() *Node {
	n := &Node{K: "router"}
	m := g.rng(1, 3, "stores")
	for j := 0; j < m; j++ {
		if g.pct(45, "group") {
			n.Kids = append(n.Kids, g.failover())
		} else {
			n.Kids = append(n.Kids, g.leaf(true))
		}
	}
	if g.pct(65, "cache") {
		n = &Node{K: "cache", Kids: []*Node{n, g.local()}, Repair: g.pct(50, "repair")}
	}
	if g.pct(40, "dedup") {
		n = &Node{K: "dedup", Kids: []*Node{n}}
	}
	if g.pct(50, "swap") {
		n = &Node{K: "swap", Kids: []*Node{n}}
	}
	return n
}

func (g *gctx) generic(depth int) *Node {
	kinds := []string{"leaf", "router", "failover", "cache", "cache", "dedup"}
	if depth <= 0 {
		kinds = []string{"leaf", "failover"}
	}
	switch pick(g, kinds, "kind") {
	case "router":
		return g.router(func() *Node { return g.generic(depth - 1) })
	case "failover":
		return g.failover()
	case "cache":
		return &Node{K: "cache", Kids: []*Node{g.generic(depth - 1), g.local()}, Repair: g.pct(50, "repair")}
	case "dedup":
		return &Node{K: "dedup", Kids: []*Node{g.generic(depth - 1)}}
	}
	return g.leaf(true)
}

// seqChain draws a chain for a sequential history. writable: the result must implement WriteStore.
func (g *gctx) seqChain(writable bool) *Node {
	if writable {
		l := g.leaf(false)
		l.RO = false
		return l
	}
	var n *Node
	switch pick(g, []string{"cli", "cli", "cli", "cli", "failover", "failover", "router", "cache", "cache", "generic", "generic"}, "shape") {
	case "cli":
		return g.cli()
	case "failover":
		n = g.failover()
	case "router":
		n = g.router(func() *Node { return g.leaf(true) })
	case "cache":
		up := g.leaf(true)
		if g.pct(40, "cfail") {
			up = g.failover()
		}
		n = &Node{K: "cache", Kids: []*Node{up, g.local()}, Repair: g.pct(50, "repair")}
	default:
		n = g.generic(2)
	}
	if g.pct(35, "swaptop") {
		n = &Node{K: "swap", Kids: []*Node{n}}
	}
	return n
}

func genSeq(t *rapid.T, c *Case) {
	g := &gctx{t: t}
	g.flaky = g.pct(33, "flakycase")
	if g.pct(10, "writable") {
		c.Chain = g.seqChain(true)
		if g.pct(60, "wswap") {
			c.Chain = &Node{K: "swap", Kids: []*Node{c.Chain}}
		}
	} else {
		c.Chain = g.seqChain(false)
	}
	w := writableSpec(c.Chain)
	n := g.rng(1, 30, "nops")
	kinds := []string{"get", "get", "get", "get", "get", "get", "get", "has", "has", "has", "store", "break", "heal", "corrupt"}
	if c.Chain.K == "swap" {
		kinds = append(kinds, "swap")
	}
	for i := 0; i < n; i++ {
		op := Op{Op: pick(g, kinds, "op")}
		switch op.Op {
		case "get", "has":
			op.ID = g.rng(0, nIDs-1, "id")
		case "store", "corrupt":
			op.ID = g.rng(0, nIDs-1, "id")
			op.M = g.rng(0, 11, "m")
		case "break", "heal":
			op.M = g.rng(0, 11, "m")
		case "swap":
			op.New = g.seqChain(w)
			if op.New.K == "swap" { // the swapped-in chain is never itself a swap store
				op.New = op.New.Kids[0]
			}
			if !w && writableSpec(op.New) { // the CLI never changes writability on reload (Swap refuses writable -> read-only)
				op.New = &Node{K: "router", Kids: []*Node{op.New}}
			}
		}
		c.Ops = append(c.Ops, op)
	}
	// a reconfiguration the writable swap store has to refuse (new store not writable), with requests behind it
	if w && c.Chain.K == "swap" && g.pct(60, "refusedswap") {
		nw := g.seqChain(false)
		if nw.K == "swap" {
			nw = nw.Kids[0]
		}
		if writableSpec(nw) {
			nw = &Node{K: "router", Kids: []*Node{nw}}
		}
		pos := g.rng(0, len(c.Ops), "refusedpos")
		ops := append([]Op(nil), c.Ops[:pos]...)
		ops = append(ops, Op{Op: "swap", New: nw})
		ops = append(ops, c.Ops[pos:]...)
		k := g.rng(1, 2, "afterrefused")
		for i := 0; i < k; i++ {
			ops = append(ops, Op{Op: pick(g, []string{"get", "has", "store"}, "afterop"), ID: g.rng(0, nIDs-1, "id")})
		}
		c.Ops = ops
	}
}

func genCase(t *rapid.T) Case {
	c := Case{Seed: rapid.Uint64Range(0, 1<<20).Draw(t, "seed")}
	// CLI cases start a child process (~0.1 s): 3 in 512 cases in quick (~115 per run, plus the fixed grid of 40), 1 in 32 in thorough
	if cliDraw(&gctx{t: t}) {
		c.Mode = "cli"
		genCLI(t, &c)
		return c
	}
	if (&gctx{t: t}).u(32, "load") == 0 {
		c.Mode = "load"
		genLoad(t, &c)
		return c
	}
	if (&gctx{t: t}).u(64, "race") == 0 {
		c.Mode = "race"
		genRace(t, &c)
		return c
	}
	if (&gctx{t: t}).pct(22, "conc") {
		c.Mode = "conc"
		genConc(t, &c)
	} else {
		c.Mode = "seq"
		genSeq(t, &c)
	}
	return c
}

// ---------------------------------------------------------------- sequential runner

// failover siblings of leaf index m (including m itself) — "group members hold the same IDs".
func group(leaves []*rnode, m int) []int {
	p := leaves[m].parent
	if p == nil || p.kind != "failover" {
		return []int{m}
	}
	var out []int
	for i, l := range leaves {
		if l.parent == p {
			out = append(out, i)
		}
	}
	return out
}

func sigFor(kind, op, want, got string) string {
	if got == cWrong {
		return "C11:" + kind + ":wrong-bytes"
	}
	switch kind {
	case "failover":
		if want == cMissing || want == cFalse {
			return "C11:failover:masked-missing"
		}
		if (want == cData || want == cTrue) && got == cErr {
			return "C11:failover:failed-with-healthy-member"
		}
	case "leaf":
		return "C11:harness:leaf-model-mismatch"
	}
	return fmt.Sprintf("C11:%s:%s:want-%s-got-%s", kind, op, want, got)
}

type seqStats struct {
	events map[string]bool
	steps  int
}

func runSeq(c Case, o *hx.Outcome) seqStats {
	st := seqStats{events: map[string]bool{}}
	u := newUniverse(c.Seed)
	b := &builder{u: u, rec: &recorder{on: true}}
	top := b.build(c.Chain, nil)
	m := &model{}
	mtop := m.build(c.Chain)
	var hist []string
	logf := func(f string, a ...any) { hist = append(hist, fmt.Sprintf(f, a...)) }
	defer func() {
		if len(o.Violations) > 0 {
			o.Observed = map[string]any{"history": hist}
		}
	}()

	ops := c.Ops
	if len(ops) > 33 {
		ops = ops[:33]
	}
	refusedBefore := false // a refused swap happened earlier in this history
steps:
	for si, op := range ops {
		if op.ID < 0 || op.ID >= nIDs {
			op.ID = 0
		}
		leaves, mleaves := top.leaves(), mtop.leaves()
		mi := 0
		if op.M > 0 {
			mi = op.M % len(leaves)
		}
		kind := op.Op
		if kind == "store" && !top.writable {
			kind = "put"
		}
		switch kind {
		case "break", "heal":
			setDown(leaves[mi].leaf, kind == "break")
			mleaves[mi].down = kind == "break"
			logf("%d %s L%d", si, kind, leaves[mi].nid)
			continue
		case "corrupt":
			if mleaves[mi].cont[op.ID] != 0 {
				leaves[mi].leaf.Put(u.ids[op.ID], u.bad[op.ID])
				mleaves[mi].cont[op.ID] = 2
				st.events["corrupt"] = true
			}
			logf("%d corrupt L%d id%d", si, leaves[mi].nid, op.ID)
			continue
		case "put":
			for _, j := range group(leaves, mi) {
				leaves[j].leaf.Put(u.ids[op.ID], u.data[op.ID])
				mleaves[j].cont[op.ID] = 1
			}
			logf("%d put L%d id%d", si, leaves[mi].nid, op.ID)
			continue
		case "swap":
			if top.kind != "swap" || op.New == nil || !op.New.sane() || op.New.K == "swap" {
				o.Class("swap-skipped")
				continue
			}
			// a writable swap store takes only writable stores: "a writable store can only be updated
			// with another writable one". A refused swap must leave the wrapped store as it was.
			refuse := top.writable && !writableSpec(op.New)
			nr := b.build(op.New, top)
			nm := m.build(op.New)
			oldLeaves := top.kids[0].leaves()
			before := make([]int, len(oldLeaves))
			for j, l := range oldLeaves {
				before[j] = l.leaf.Count("close")
			}
			err := top.swapper.Swap(nr.st)
			if selfBug == "refused-swap-closes" && refuse {
				oldLeaves[0].leaf.Close()
			}
			logf("%d swap -> %s (refusal expected: %v): %v", si, op.New.shape(), refuse, err)
			if refuse {
				st.events["swap-refused"] = true
				if err == nil {
					o.Fail("C11:swap:refused-swap-accepted", "step %d: Swap(%s) on the writable swap store %s returned nil; a store that cannot be written must be refused\nhistory:\n  %s",
						si, op.New.shape(), c.Chain.shape(), strings.Join(hist, "\n  "))
					break steps
				}
				for j, l := range oldLeaves {
					if n := l.leaf.Count("close") - before[j]; n > 0 {
						o.Fail("C11:swap:refused-swap-closed-store", "step %d: Swap(%s) was refused (%v), yet leaf %s of the store that stays in use was closed %d time(s)\nhistory:\n  %s",
							si, op.New.shape(), err, l.leaf.Name, n, strings.Join(hist, "\n  "))
					}
				}
				refusedBefore = true
				continue
			}
			if err != nil {
				o.Fail("C11:swap:swap-failed", "step %d: Swap(%s) on %s returned %v", si, op.New.shape(), c.Chain.shape(), err)
				break steps
			}
			// "replace the stores internally": the store that was swapped out is closed, once
			for j, l := range oldLeaves {
				switch n := l.leaf.Count("close") - before[j]; {
				case n == 0:
					o.Fail("C11:swap:old-store-not-closed", "step %d: after Swap(%s) leaf %s of the replaced store was not closed\nhistory:\n  %s", si, op.New.shape(), l.leaf.Name, strings.Join(hist, "\n  "))
				case n > 1:
					o.Fail("C11:swap:old-store-closed-twice", "step %d: Swap(%s) closed leaf %s of the replaced store %d times\nhistory:\n  %s", si, op.New.shape(), l.leaf.Name, n, strings.Join(hist, "\n  "))
				}
			}
			top.kids[0], mtop.kids[0] = nr, nm
			st.events["swap"] = true
			continue
		case "get", "has", "store":
		default:
			continue
		}

		// ---- an operation on the top of the chain
		st.steps++
		if refusedBefore {
			st.events["request-after-refused-swap"] = true
		}
		b.rec.reset()
		var got string
		switch kind {
		case "get":
			ch, err := top.st.GetChunk(u.ids[op.ID])
			got = u.classGet(op.ID, ch, err)
		case "has":
			h, err := top.st.HasChunk(u.ids[op.ID])
			got = classHas(h, err)
		case "store":
			err := top.st.(desync.WriteStore).StoreChunk(desync.NewChunk(append([]byte(nil), u.data[op.ID]...)))
			got = classStore(err)
		}
		ms := newStep()
		var want string
		switch kind {
		case "get":
			want = m.get(mtop, op.ID, ms).c
		case "has":
			want = m.has(mtop, op.ID, ms).c
		case "store":
			want = m.store(mtop, op.ID, ms).c
		}
		logf("%d %s id%d -> %s (model %s)", si, kind, op.ID, got, want)
		for e := range ms.events {
			st.events[e] = true
		}

		// did the chain probe its leaves the way the model assumed? (only matters for call-count faults)
		diverged := false
		for j, l := range leaves {
			for _, k := range []string{"get", "has", "store"} {
				if real := l.leaf.Count(k); real != mleaves[j].calls[k] {
					diverged = true
					mleaves[j].calls[k] = real
				}
			}
		}
		if diverged {
			o.Class("probe-divergence")
		}

		if got != want {
			switch {
			case got == cWrong:
			case ms.ambiguous && (got == cData || got == cErr):
				// filling the cache failed; whether the request then fails is not documented. The
				// states may have diverged: stop this history without a verdict.
				o.Class("ambiguous-stop")
				break steps
			case diverged && chainHasFlaky(top):
				// the chain probed differently from the model and a call-count fault is present:
				// the prediction is not reliable, no verdict.
				o.Class("divergence-stop")
				break steps
			}
			// attribute to the deepest node whose own result differs from the model's
			cul, mw, rg := top, want, got
		descend:
			for {
				for _, k := range cul.kids {
					w, ok1 := ms.res[k.nid]
					g, ok2 := b.rec.first(k.nid)
					if ok1 && ok2 && w != g {
						cul, mw, rg = k, w, g
						continue descend
					}
				}
				break
			}
			o.Fail(sigFor(cul.kind, kind, mw, rg),
				"step %d: %s(id%d) on %s returned %s, documented behaviour gives %s; node %s#%d returned %s where the model has %s\nhistory:\n  %s",
				si, kind, op.ID, c.Chain.shape(), got, want, cul.kind, cul.nid, rg, mw, strings.Join(hist, "\n  "))
		}

		// ---- side effects named by the statement (only meaningful while results agree)
		if got == want {
			for _, cn := range ms.hits {
				cr := findNode(top, cn)
				if cr != nil && b.rec.calls(cr.nid) > 0 && b.rec.calls(cr.kids[0].nid) > 0 {
					o.Fail("C11:cache:hit-touched-upstream", "step %d: get(id%d) was served from the cache (node #%d) but the upstream member was called %d time(s)\nhistory:\n  %s",
						si, op.ID, cn, b.rec.calls(cr.kids[0].nid), strings.Join(hist, "\n  "))
				}
			}
			for _, f := range ms.fills {
				lr := findNode(top, f.local)
				if lr == nil {
					continue
				}
				raw, ok := lr.leaf.Raw(u.ids[op.ID])
				if !ok || !bytes.Equal(raw, u.data[op.ID]) {
					sig, what := "C11:cache:miss-not-filled", "after a miss that succeeded"
					if f.repair {
						sig, what = "C11:cache:repair-not-replaced", "after a repair"
					}
					o.Fail(sig, "step %d: %s the local member of cache #%d holds present=%v valid=false for id%d\nhistory:\n  %s",
						si, what, f.cache, ok, op.ID, strings.Join(hist, "\n  "))
				}
			}
			for _, a := range ms.answered {
				rr := findNode(top, a.router)
				if rr == nil || b.rec.calls(rr.nid) == 0 {
					continue
				}
				for j := a.idx + 1; j < len(rr.kids); j++ {
					if n := b.rec.calls(rr.kids[j].nid); n > 0 {
						o.Fail("C11:router:consulted-after-answer", "step %d: %s(id%d): router #%d was answered by member %d but member %d was called %d time(s)\nhistory:\n  %s",
							si, kind, op.ID, a.router, a.idx, j, n, strings.Join(hist, "\n  "))
					}
				}
			}
		}
		if len(o.Violations) > 0 {
			break // model and chain may have diverged: later steps would only repeat the finding
		}
	}
	// sequential histories too must not touch a store that a swap closed
	for _, l := range b.all {
		if n := l.UsedAfterClose(); n > 0 {
			o.Fail("C11:swap:use-after-close", "leaf %s was called %d time(s) after its Close returned\nhistory:\n  %s", l.Name, n, strings.Join(hist, "\n  "))
		}
	}
	return st
}

func chainHasFlaky(r *rnode) bool {
	for _, l := range r.leaves() {
		if len(l.spec.FailAt) > 0 {
			return true
		}
	}
	return false
}

func findNode(r *rnode, nid int) *rnode {
	if r.nid == nid {
		return r
	}
	for _, k := range r.kids {
		if x := findNode(k, nid); x != nil {
			return x
		}
	}
	return nil
}

// ---------------------------------------------------------------- run

func faultClasses(n *Node, o *hx.Outcome) {
	seen := map[string]bool{}
	n.walk(func(x *Node) {
		if x.K != "leaf" {
			seen["node:"+x.K] = true
			return
		}
		if x.Down {
			seen["fault:down"] = true
		}
		if len(x.FailAt) > 0 {
			seen["fault:fail-at-k"] = true
		}
		for _, c := range x.Cont {
			if c == 2 {
				seen["fault:invalid"] = true
			}
		}
	})
	var keys []string
	for k := range seen {
		keys = append(keys, k)
	}
	sort.Strings(keys)
	o.Class(keys...)
}

func isCLIShape(n *Node) bool {
	if n.K == "swap" {
		n = n.Kids[0]
	}
	if n.K == "dedup" {
		n = n.Kids[0]
	}
	if n.K == "cache" {
		n = n.Kids[0]
	}
	if n.K != "router" {
		return false
	}
	for _, k := range n.Kids {
		if k.K != "leaf" && k.K != "failover" {
			return false
		}
	}
	return true
}

func run(c Case) (o hx.Outcome) {
	raw, _ := json.Marshal(c)
	o.Key = string(raw)
	if c.Mode == "cli" {
		runCLI(c, &o)
		return o
	}
	if c.Mode == "load" {
		defer func() { desync.VerifHook = nil }()
		runLoad(c, &o)
		return o
	}
	if c.Mode == "race" {
		defer func() { desync.VerifHook = nil }()
		runRace(c, &o)
		return o
	}
	if !c.Chain.sane() {
		o.Desc = map[string]any{"mode": c.Mode, "shape": "unbuildable"}
		o.Class("unbuildable-spec")
		return o
	}
	defer func() { desync.VerifHook = nil }()
	shape := c.Chain.shape()
	faultClasses(c.Chain, &o)
	if isCLIShape(c.Chain) {
		o.Class("shape:cli")
	}
	if c.Mode == "conc" {
		cs := runConc(c, &o)
		o.Class("mode:conc")
		var evs []string
		if cs.swapInflight > 0 {
			o.Class("conc:swap-with-request-in-flight")
			evs = append(evs, "swap-in-flight")
		}
		if cs.swaps > 0 {
			o.Class("conc:swap")
		}
		if cs.advances > 0 {
			o.Class("conc:failover-advance")
			evs = append(evs, "failover-advance")
		}
		if cs.checked > 0 {
			o.Class("conc:request-with-expectation")
		}
		if cs.absentChecked > 0 {
			o.Class("conc:globally-missing-id")
		}
		o.Nontrivial = cs.swapInflight > 0 || cs.advances > 0
		o.Desc = map[string]any{"mode": "conc", "shape": shape, "rounds": len(c.Rounds), "requests": cs.requests, "swaps": cs.swaps,
			"hook_hits": cs.hookHits, "events": evs}
		return o
	}
	st := runSeq(c, &o)
	o.Class("mode:seq")
	var evs []string
	for e := range st.events {
		evs = append(evs, e)
	}
	sort.Strings(evs)
	for _, e := range evs {
		switch e {
		case "swap-refused":
			o.Class("swap:refused")
		case "request-after-refused-swap":
			o.Class(e)
		default:
			o.Class("ev:" + e)
		}
	}
	o.Nontrivial = st.events["failover-advance"] || st.events["cache-fill"] || st.events["cache-repair"]
	o.Desc = map[string]any{"mode": "seq", "shape": shape, "ops": len(c.Ops), "steps": st.steps, "events": evs}
	return o
}

var spec = &hx.Spec[Case]{
	ID:    "C11",
	Level: "exploration",
	Rule: "cases = (chain of Router[2..3]/Failover[2..3]/Cache[+repair]/Swap/Dedup over in-memory leaves incl. the shapes the CLI builds, 4 chunk IDs, " +
		"per-leaf faults down / fail-at-call-k / invalid object) x (sequential history of <=33 get/has/store/swap (incl. swaps a writable swap store has to refuse)/break/heal/corrupt steps compared step by step with a reference model, " +
		"or a concurrent phase of 2..6 goroutines x 1..4 rounds against failover/swap chains with a controller swapping/breaking/healing and generated yields at failover.selected/swap.locked); " +
		"or a load case (1 in 32, and a fixed grid of 42): swap store over a leaf / a router / a writable leaf; directed: 1..3 get/has/store requests parked inside the old store (gate) with outcome data / missing / invalid object / store failure, " +
		"1..2 Swaps started and observed queued on the lock (runtime goroutine state), then the requests released; random: 2..8 goroutines x bursts of such requests racing with 1..4 swaps under generated yields inside the leaf and at swap.locked; " +
		"or a race case (1 in 64, and a fixed grid of 12): failover group of 3..5 members of which exactly one never fails, 2..48 goroutines x 1..4 get/has requests for a held and an absent chunk on 25..600 fresh groups, " +
		"either with every first request held inside the first failing member until all are inside and then released at once or staggered (late failure reports), or with generated yields at failover.selected; " +
		"plus, when the built command is available, CLI cases (3 in 512 quick / 1 in 32 thorough, and a fixed grid of 40): desync extract / cat / chunk-server --store-file + SIGHUP / mount-index --store-file + SIGHUP (reload acceptance only, no mount) given 1..3 -s entries " +
		"(directory, harness HTTP chunk server, raw file server, failover group a|b of 2..3) and an optional -c cache (directory or writable HTTP store) with --cache-repair default/true/false, per member absent/valid/invalid objects and down = connection refused / always 500; " +
		"non-trivial = history with a failover advance, a cache fill or a cache repair, or concurrent case with a failover advance or a swap issued while >=1 request was in flight, " +
		"or race case in which members failed under >=2 goroutines, or load case with a Swap seen queued behind an in-flight request (directed) or >=2 workers (random), or CLI case whose documented resolution needs a failover advance, a cache fill or a cache repair; distinct by the whole case",
	Assumptions: []string{
		"leaves are in-memory stores that verify stored bytes against the ID like a real store (ChunkInvalid) and report absence as ChunkMissing",
		"reference model written from README (Caching, Multiple chunk stores, Store failover, Dynamic store configuration) and type doc comments; only result classes and the side effects named in the statement are compared",
		"whether a request fails when filling the cache fails is not documented: no verdict for such a step",
		"concurrent oracle: a failover member counts as healthy only if it has no fault of any kind during the whole phase; expectations only for IDs that every chain version serves (or lacks) by construction",
		"interleavings come from the Go scheduler plus generated yields; a green concurrent phase is evidence, not proof",
		"race cases: there is no hook between a request's failure report and its next member selection, so a late report of another request cannot be placed there by force; the harness holds and releases the requests around it and repeats; the demand (every request for a held chunk succeeds, an absent one is reported missing) holds on every schedule",
		"load cases: 'request and Swap do not return' is a verdict only when every goroutine still out is in a lock wait (runtime status) over 8 polls with all gates open; a 12 s deadline without that state is inconclusive",
		"a writable swap store must refuse a store that cannot be written and leave the wrapped store open; an accepted swap closes every leaf of the replaced chain exactly once",
		"CLI cases: only the exit status, the output, the cache directory afterwards and the request logs of the harness HTTP stores are observed; one-shot commands are judged by an order-free evaluation of the same model " +
			"(no verdict on the exit status when members of one failover group differ for an ID and requests are concurrent); with --cache-repair=false an invalid cache entry must make the command fail (README, Caching); " +
			"the chunk server is started with --skip-verify-read=false and driven by one sequential client; the reload is recognised only by the server's own answer for a marker chunk; a child that exceeds its time limit gives no verdict",
	},
	Required: []string{"mode:seq", "mode:conc", "shape:cli", "node:router", "node:failover", "node:cache", "node:swap", "node:dedup",
		"fault:down", "fault:fail-at-k", "fault:invalid",
		"ev:failover-advance", "ev:failover-exhausted", "ev:failover-missing-as-is", "ev:cache-fill", "ev:cache-hit", "ev:cache-repair", "ev:cache-invalid-fails",
		"ev:router-fallthrough", "ev:router-abort", "ev:swap", "swap:refused", "request-after-refused-swap",
		"mode:load", "load:directed", "load:random", "swap:queued-behind-inflight-request", "swap:queued-behind-failing-request", "load:random:failing-requests-race-with-swaps",
		"load:get:data", "load:get:missing", "load:get:err", "load:get:invalid", "load:has:err", "load:store:ok", "load:store:err",
		"mode:race", "failover:3+members:2+down:concurrent", "failover:3+members:2+down:barrier", "race:requests-held-inside-failing-member",
		"conc:failover-advance", "conc:swap-with-request-in-flight", "conc:globally-missing-id", "conc:request-with-expectation"},
	Gen:      genCase,
	Run:      run,
	Journal:  true,
	Watchdog: 60 * time.Second,
}

// classes the CLI mode must populate when the command is available
var cliRequired = []string{"mode:cli", "cli:cmd:extract", "cli:cmd:cat", "cli:cmd:server", "cli:shape:router", "cli:shape:failover",
	"cli:cache:local", "cli:cache:http", "cli:cache-repair:on", "cli:cache-repair:off",
	"cli:ev:repair", "cli:ev:repair-nonlocal-cache", "cli:ev:fill", "cli:ev:hit", "cli:ev:failover-advance", "cli:ev:router-fallthrough",
	"cli:expect:success", "cli:expect:failure", "cli:server:reload-observed",
	"cli:cmd:mount", "cli:reload:accepted", "cli:reload:lone-local-store→chain", "cli:reload:chain→lone-local-store", "cli:reload:there-and-back"}

func TestMain(m *testing.M) {
	if cliBin() != "" {
		spec.Required = append(spec.Required, cliRequired...)
	}
	// The driver runs several shards side by side; 4 Ps per process give real parallelism for the
	// concurrent phase without 16 mostly idle Ps per process fighting over the machine.
	if os.Getenv("GOMAXPROCS") == "" && runtime.NumCPU() > 4 {
		runtime.GOMAXPROCS(4)
	}
	hx.Main(m)
}

func TestRegress(t *testing.T) { hx.Regress(t, spec) }
func TestKnown(t *testing.T)   { hx.Known(t, spec) }
func TestReplay(t *testing.T)  { hx.Replay(t, spec) }
func TestProp(t *testing.T)    { hx.Prop(t, spec) }
