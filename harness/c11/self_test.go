package c11

import (
	"fmt"
	"testing"

	"verifharness/internal/dx"
	"verifharness/internal/hx"
)

// ---------------------------------------------------------------- small constructors

func L(cont ...int) *Node {
	c := make([]int, nIDs)
	copy(c, cont)
	return &Node{K: "leaf", Cont: c}
}
func down(n *Node) *Node   { n.Down = true; return n }
func ro(n *Node) *Node     { n.RO = true; return n }
func anchor(n *Node) *Node { n.Anchor = true; return n }
func flaky(n *Node, k string, i int) *Node {
	n.FailAt = append(n.FailAt, Fault{k, i})
	return n
}
func N(k string, kids ...*Node) *Node { return &Node{K: k, Kids: kids} }
func G(id int) Op                     { return Op{Op: "get", ID: id} }
func H(id int) Op                     { return Op{Op: "has", ID: id} }

func sigs(o hx.Outcome) []string {
	var s []string
	for _, v := range o.Violations {
		s = append(s, v.Sig)
	}
	return s
}

func hasSig(o hx.Outcome, sig string) bool {
	for _, v := range o.Violations {
		if v.Sig == sig {
			return true
		}
	}
	return false
}

// TestSelf: the model against hand-computed expectations, and the checker against deliberately
// broken chains (selfBug makes the taps misbehave).
func TestSelf(t *testing.T) {
	bad := func(f string, a ...any) {
		fmt.Println("SELFTEST-FAILURE: " + fmt.Sprintf(f, a...))
		t.Fatalf(f, a...)
	}
	defer func() { selfBug = "" }()

	// ---- 1. model, by hand
	type exp struct {
		op   Op
		want string
	}
	model1 := func(name string, chain *Node, steps []exp) *mnode {
		m := &model{}
		top := m.build(chain)
		for i, e := range steps {
			s := newStep()
			var got string
			if e.op.Op == "get" {
				got = m.get(top, e.op.ID, s).c
			} else {
				got = m.has(top, e.op.ID, s).c
			}
			if got != e.want {
				bad("model %s step %d %v: got %s want %s", name, i, e.op, got, e.want)
			}
		}
		return top
	}
	// router: first member that has it; missing falls through; other errors abort
	model1("router", N("router", L(0, 1), L(1, 1), down(L(1, 1, 1))), []exp{{G(0), cData}, {G(1), cData}, {G(2), cErr}, {G(3), cErr}, {H(0), cTrue}, {H(2), cErr}})
	model1("router-missing", N("router", L(), L()), []exp{{G(0), cMissing}, {H(0), cFalse}})
	model1("router-invalid", N("router", L(2), L(1)), []exp{{G(0), cErr}, {H(0), cTrue}})
	// failover: [down, healthy] always succeeds and sticks to the second member
	f := model1("failover", N("failover", down(L(1)), L(1)), []exp{{G(0), cData}, {G(0), cData}, {G(1), cMissing}, {H(0), cTrue}, {H(1), cFalse}})
	if f.active != 1 || f.kids[0].calls["get"] != 1 {
		bad("model failover: active=%d calls to member 0=%d, want 1 and 1 (no fail-back)", f.active, f.kids[0].calls["get"])
	}
	f = model1("failover-all-down", N("failover", down(L(1)), down(L(1))), []exp{{G(0), cErr}, {G(1), cErr}})
	if f.active != 0 {
		bad("model failover: after two full rounds over two members active=%d, want 0", f.active)
	}
	f = model1("failover-missing-no-advance", N("failover", L(1), down(L(1))), []exp{{G(1), cMissing}, {G(1), cMissing}})
	if f.active != 0 {
		bad("model failover advanced on a missing chunk")
	}
	model1("failover-invalid", N("failover", L(2), L(1)), []exp{{G(0), cData}})
	model1("failover-flaky", N("failover", flaky(L(1), "get", 1), down(L(1))), []exp{{G(0), cErr}, {G(0), cData}})
	// cache
	c := model1("cache", N("cache", L(1, 0, 1), L(0, 0, 2)), []exp{{G(0), cData}, {G(0), cData}, {G(1), cMissing}, {G(2), cErr}, {H(1), cFalse}, {H(2), cTrue}})
	if c.kids[0].calls["get"] != 2 || c.kids[1].cont[0] != 1 {
		bad("model cache: upstream gets=%d (want 2: one fill, one miss), local has id0=%d", c.kids[0].calls["get"], c.kids[1].cont[0])
	}
	rc := N("cache", L(1), L(2))
	rc.Repair = true
	c = model1("repair", rc, []exp{{G(0), cData}, {G(0), cData}})
	if c.kids[1].cont[0] != 1 || c.kids[0].calls["get"] != 1 {
		bad("model repair: local state %d, upstream gets %d", c.kids[1].cont[0], c.kids[0].calls["get"])
	}
	rc = N("cache", down(L(1)), L(2))
	rc.Repair = true
	model1("repair-upstream-down", rc, []exp{{G(0), cErr}})

	// ---- 2. expectations of the concurrent oracle
	fo := N("failover", down(L(1, 1)), anchor(L(1, 1)))
	if !serves(fo, 0) || serves(fo, 2) || !lacks(fo, 2) || lacks(fo, 0) {
		bad("serves/lacks on a failover group")
	}
	if serves(N("failover", L(1), L(1)), 0) {
		bad("serves must require an anchor member")
	}
	if serves(N("failover", L(1), flaky(anchor(L(1)), "get", 3)), 0) {
		bad("a member with a fail-at fault is not healthy throughout")
	}
	if !serves(N("router", L(), fo), 0) || serves(N("router", down(L()), fo), 0) || serves(N("router", L(2), fo), 0) {
		bad("serves on a router")
	}
	if serves(N("cache", fo, L(2)), 0) {
		bad("an invalid cached chunk without repair fails the request")
	}

	// ---- 3. the real chain agrees with the model on fixed cases, and broken chains are flagged
	fixed := []struct {
		bug, sig string
		c        Case
	}{
		{"router-swallow-error", "C11:router:get:want-err-got-missing", Case{Mode: "seq", Chain: N("router", down(L(1)), L()), Ops: []Op{G(0)}}},
		{"router-swallow-error", "C11:router:get:want-err-got-missing", Case{Mode: "seq", Chain: N("swap", N("router", N("router", down(L(1)), L()), L(1))), Ops: []Op{G(0)}}},
		{"failover-mask-missing", "C11:failover:masked-missing", Case{Mode: "seq", Chain: N("dedup", N("router", N("failover", L(1), L(1)))), Ops: []Op{G(0), G(1)}}},
		{"cache-touch-upstream", "C11:cache:hit-touched-upstream", Case{Mode: "seq", Chain: N("cache", L(1), L()), Ops: []Op{G(0), G(0)}}},
		{"cache-drop-fill", "C11:cache:miss-not-filled", Case{Mode: "seq", Chain: N("cache", L(1), L()), Ops: []Op{G(0)}}},
		{"cache-drop-fill", "C11:cache:repair-not-replaced", Case{Mode: "seq", Chain: &Node{K: "cache", Kids: []*Node{L(1), L(2)}, Repair: true}, Ops: []Op{G(0)}}},
		{"router-consult-all", "C11:router:consulted-after-answer", Case{Mode: "seq", Chain: N("router", L(1), L(1)), Ops: []Op{G(0)}}},
		{"swap-stale", "C11:swap:use-after-close", Case{Mode: "seq", Chain: N("swap", N("router", L(1))), Ops: []Op{G(0), {Op: "swap", New: N("router", L(1))}, G(0)}}},
		{"swap-stale", "C11:swap:use-after-close", Case{Mode: "conc", Chain: N("swap", N("failover", ro(L(1)), ro(anchor(L(1))))),
			Rounds: []Round{{Ctl: []Op{{Op: "swap", New: N("failover", ro(L(1)), ro(anchor(L(1))))}}, Reqs: [][]Op{{G(0)}}}, {Reqs: [][]Op{{G(0)}, {G(0)}}}}}},
	}
	for i, fc := range fixed {
		selfBug = ""
		if o := run(fc.c); len(o.Violations) > 0 {
			bad("fixed case %d (%s) fails on the unmodified chain: %v", i, fc.c.Chain.shape(), o.Violations)
		}
		selfBug = fc.bug
		if o := run(fc.c); !hasSig(o, fc.sig) {
			bad("fixed case %d with bug %s: signature %s not reported, got %v", i, fc.bug, fc.sig, sigs(o))
		}
	}
	selfBug = ""

	// ---- 3b. a refused swap (writable swap store, read-only replacement) that closes the store in use
	wl := func() *Node { return L(1, 1) }
	refused := Case{Mode: "seq", Seed: 3, Chain: N("swap", wl()), Ops: []Op{G(0), {Op: "swap", New: N("router", L(1))}, G(0), H(1), {Op: "store", ID: 2}, {Op: "swap", New: wl()}, G(0)}}
	selfBug = "refused-swap-closes"
	if o := run(refused); !hasSig(o, "C11:swap:refused-swap-closed-store") || !hasSig(o, "C11:swap:use-after-close") {
		bad("a refused swap that closes the wrapped store is not flagged: %v", sigs(o))
	}
	selfBug = ""

	// ---- 4. the concurrent oracle flags a group that fails although its anchor is healthy
	selfBug = "failover-always-fails"
	o := run(Case{Mode: "conc", Chain: N("failover", ro(down(L(1))), ro(anchor(L(1)))), Rounds: []Round{{Reqs: [][]Op{{G(0)}, {G(3)}}}}})
	selfBug = ""
	if !hasSig(o, "C11:failover:failed-with-healthy-member") || !hasSig(o, "C11:failover:masked-missing") {
		bad("concurrent oracle did not flag a failing group: %v", sigs(o))
	}

	// ---- 5. the leaf's use-after-close meter
	ms := dx.NewMemStore("x")
	ms.Close()
	ms.HasChunk(newUniverse(1).ids[0])
	if ms.UsedAfterClose() != 1 {
		bad("MemStore.UsedAfterClose = %d, want 1", ms.UsedAfterClose())
	}
}

// TestEnum: small configurations completely (shard 0 only).
func TestEnum(t *testing.T) {
	if hx.Shard() != 0 {
		t.Skip()
	}
	// histories: all sequences up to length n over an alphabet
	var seqs func(alpha []Op, n int) [][]Op
	seqs = func(alpha []Op, n int) [][]Op {
		out := [][]Op{}
		var rec func(cur []Op)
		rec = func(cur []Op) {
			if len(cur) > 0 {
				out = append(out, append([]Op(nil), cur...))
			}
			if len(cur) == n {
				return
			}
			for _, a := range alpha {
				rec(append(cur, a))
			}
		}
		rec(nil)
		return out
	}
	count := 0
	try := func(chain func() *Node, hist []Op) bool {
		count++
		return hx.Case(t, spec, Case{Mode: "seq", Seed: 7, Chain: chain(), Ops: hist})
	}

	// (a) failover groups of 2 and 3 members: id0 held by all (valid or invalid), id3 by none
	fstates := []func() *Node{
		func() *Node { return ro(L(1)) },
		func() *Node { return ro(down(L(1))) },
		func() *Node { return ro(L(2)) },
		func() *Node { return ro(flaky(L(1), "get", 1)) },
		func() *Node { return ro(flaky(flaky(L(1), "get", 2), "has", 1)) },
	}
	fh := seqs([]Op{G(0), G(3), H(0), H(3)}, hx.Pick(3, 4))
	for m := 2; m <= 3; m++ {
		idx := make([]int, m)
		for {
			for _, h := range fh {
				mk := func() *Node {
					n := N("failover")
					for _, s := range idx {
						n.Kids = append(n.Kids, fstates[s]())
					}
					return n
				}
				if !try(mk, h) {
					return
				}
			}
			j := 0
			for ; j < m; j++ {
				idx[j]++
				if idx[j] < len(fstates) {
					break
				}
				idx[j] = 0
			}
			if j == m {
				break
			}
		}
	}
	hx.Exhaustive("failover groups of 2..3 members x member state {healthy, down, invalid object, fail at 1st get, fail at 2nd get + 1st has} x all get/has histories of length <=" + fmt.Sprint(hx.Pick(3, 4)) + " over a held and a missing ID")

	// (b) routers of 2 and 3 members
	rstates := []func() *Node{
		func() *Node { return L(0) },
		func() *Node { return L(1) },
		func() *Node { return L(2) },
		func() *Node { return down(L(1)) },
		func() *Node { return flaky(flaky(L(1), "get", 1), "has", 1) },
	}
	rh := seqs([]Op{G(0), H(0)}, 2)
	for m := 2; m <= 3; m++ {
		idx := make([]int, m)
		for {
			for _, h := range rh {
				mk := func() *Node {
					n := N("router")
					for _, s := range idx {
						n.Kids = append(n.Kids, rstates[s]())
					}
					return n
				}
				if !try(mk, h) {
					return
				}
			}
			j := 0
			for ; j < m; j++ {
				idx[j]++
				if idx[j] < len(rstates) {
					break
				}
				idx[j] = 0
			}
			if j == m {
				break
			}
		}
	}
	hx.Exhaustive("routers of 2..3 members x member state {absent, valid, invalid, down, fail at 1st call} x all get/has histories of length <=2")

	// (c) caches
	lstates := []func() *Node{
		func() *Node { return L(0) },
		func() *Node { return L(1) },
		func() *Node { return L(2) },
		func() *Node { return down(L(0)) },
		func() *Node { return flaky(L(0), "store", 1) },
		func() *Node { return flaky(L(2), "get", 1) },
	}
	ch := seqs([]Op{G(0), H(0)}, 3)
	for ui := range rstates {
		for li := range lstates {
			for rep := 0; rep < 2; rep++ {
				for _, wrap := range []string{"", "dedup", "swap"} {
					for _, h := range ch {
						mk := func() *Node {
							n := &Node{K: "cache", Kids: []*Node{rstates[ui](), lstates[li]()}, Repair: rep == 1}
							if wrap != "" {
								n = N(wrap, n)
							}
							return n
						}
						if !try(mk, h) {
							return
						}
					}
				}
			}
		}
	}
	hx.Exhaustive("cache(upstream in {absent, valid, invalid, down, fail at 1st call}, local in {absent, valid, invalid, down, store fails once, invalid + get fails once}) x repair on/off x bare/dedup/swap x all get/has histories of length <=3")

	// (d) writable swap stores: every history of length <=4 over get / has / store / refused swap / accepted swap
	wleaf := func() *Node { return L(1, 0) }
	sh := seqs([]Op{G(0), H(1), {Op: "store", ID: 1}, {Op: "swap", New: N("router", L(1))}, {Op: "swap", New: L(0, 1)}}, hx.Pick(4, 5))
	for _, h := range sh {
		// deep copy of the replacement chains: a history may swap the same specification in twice
		hc := make([]Op, len(h))
		for i, op := range h {
			hc[i] = op
			if op.New != nil {
				if op.New.K == "router" {
					hc[i].New = N("router", L(1))
				} else {
					hc[i].New = L(0, 1)
				}
			}
		}
		if !try(func() *Node { return N("swap", wleaf()) }, hc) {
			return
		}
	}
	hx.Exhaustive("writable swap store over a leaf x all histories of length <=" + fmt.Sprint(hx.Pick(4, 5)) + " over get / has / store / swap refused (read-only replacement) / swap accepted (writable replacement)")
	hx.Note("enumerated_cases", count)
}
