package c11

// CLI-level mode of C11: the chain is not built from library constructors but by the freshly
// built command ($VERIF_DESYNC_BIN) from its own -s / -c / --cache-repair / --store-file options,
// over stores owned by the harness:
//
//	dir    a directory with chunk files written by the harness (zstd by klauspost, not by desync)
//	http   desync.NewHTTPHandler over such a directory (what `desync chunk-server` serves)
//	raw    a plain file server written here (GET/HEAD = file or 404, PUT = write the body)
//
// A case names the -s entries in router order (one member = plain location, several = failover
// group "a|b"), an optional cache with --cache-repair default/true/false, per member the state of
// every ID of the universe (absent / valid / invalid object) and whether the member is down
// (connection refused / every request answered 500), and the command: extract, cat, or
// chunk-server started with --store-file and reloaded with SIGHUP.
//
// Oracle = the reference model of model_test.go, restricted to what is visible from outside.
// One-shot commands issue their requests in an order the harness does not control, so an
// order-free evaluation of the same rules is used (resolve below); the chunk server is driven by
// one sequential client and is compared request by request with the model itself.

import (
	"bytes"
	"encoding/json"
	"fmt"
	"io"
	"net"
	"net/http"
	"os"
	"os/exec"
	"path"
	"path/filepath"
	"runtime"
	"sort"
	"strconv"
	"strings"
	"sync"
	"sync/atomic"
	"syscall"
	"time"

	"github.com/folbricht/desync"
	"github.com/klauspost/compress/zstd"
	"golang.org/x/sys/unix"
	"pgregory.net/rapid"

	"verifharness/internal/hx"
	"verifharness/internal/ref"
)

// ---------------------------------------------------------------- case

type CLIMember struct {
	Kind string `json:"kind"`           // dir | http | raw
	Cont []int  `json:"cont"`           // per ID: 0 absent, 1 valid, 2 invalid object
	Down string `json:"down,omitempty"` // http/raw only: refused | 500
	Pfx  bool   `json:"pfx,omitempty"`  // http/raw: served below /store, location given without the trailing slash
}

type CLIStore struct {
	Members []CLIMember `json:"members"` // one = plain location, several = failover group "a|b"
}

type CLIConf struct {
	Stores []CLIStore `json:"stores"`
	Cache  *CLIMember `json:"cache,omitempty"`
}

type CLICase struct {
	Cmd     string  `json:"cmd"` // extract | cat | server
	Conf    CLIConf `json:"conf"`
	Repair  string  `json:"repair,omitempty"` // "" = flag not given (default: on) | true | false
	N       int     `json:"n,omitempty"`      // -n; 0 = flag not given
	Retry   int     `json:"retry"`            // -e (always given, with -b 1ms: the default waits 500 ms)
	Joined  bool    `json:"joined,omitempty"` // all locations in one comma separated -s
	Stdout  bool    `json:"stdout,omitempty"` // cat: to standard output instead of a file argument
	InPlace bool    `json:"inplace,omitempty"`
	Index   []int   `json:"index,omitempty"` // extract/cat: IDs of the blob's chunks in order
	// server
	Reload    *CLIConf `json:"reload,omitempty"`     // written to the store file before SIGHUP (ID nIDs-1 is the marker that shows the reload happened)
	SameCache bool     `json:"same_cache,omitempty"` // the reloaded configuration names the same cache
	Back      bool     `json:"back,omitempty"`       // mount: after the reload to Reload, a second one back to Conf
	Reqs      []int    `json:"reqs,omitempty"`       // IDs requested before the reload
	Reqs2     []int    `json:"reqs2,omitempty"`      // IDs requested after the reload
}

const (
	cUnknown   = "unknown"
	cliMarker  = nIDs - 1
	cliTimeout = 25 * time.Second // one child; far above the ~0.1 s a child needs
	cliBudget  = 40 * time.Second // one case, below the watchdog of the spec
)

func cliBin() string { return os.Getenv("VERIF_DESYNC_BIN") }

// cliDraw decides whether the next case is a CLI case: 3 in 512 in quick (about 115 of 20000), 1 in
// 32 in thorough. VERIF_C11_CLI_RATE=n overrides it with 1 in n (development aid: 1 = CLI cases
// only; n has to be a power of two to be exact).
func cliDraw(g *gctx) bool {
	if n, err := strconv.Atoi(os.Getenv("VERIF_C11_CLI_RATE")); err == nil && n >= 1 {
		return g.u(n, "cli") == 0
	}
	if hx.Thorough() {
		return g.u(32, "cli") == 0
	}
	return g.u(512, "cli") < 3
}

// cliSelfBug, set only by TestSelfCLI, makes the harness side misbehave so that the sensitivity
// of the checks can be tested without another binary.
var cliSelfBug string

func (m *CLIMember) sane() bool {
	if m == nil {
		return false
	}
	switch m.Kind {
	case "dir":
		if m.Down != "" {
			return false
		}
	case "http", "raw":
	default:
		return false
	}
	if m.Down != "" && m.Down != "refused" && m.Down != "500" {
		return false
	}
	for _, c := range m.Cont {
		if c < 0 || c > 2 {
			return false
		}
	}
	return true
}

func (cf *CLIConf) sane() bool {
	if cf == nil || len(cf.Stores) < 1 || len(cf.Stores) > 4 {
		return false
	}
	for _, st := range cf.Stores {
		if len(st.Members) < 1 || len(st.Members) > 4 {
			return false
		}
		for i := range st.Members {
			if !st.Members[i].sane() {
				return false
			}
		}
	}
	return cf.Cache == nil || cf.Cache.sane()
}

func (cl *CLICase) sane() bool {
	if cl == nil || !cl.Conf.sane() {
		return false
	}
	okIDs := func(a []int, n int) bool {
		if len(a) > n {
			return false
		}
		for _, i := range a {
			if i < 0 || i >= nIDs {
				return false
			}
		}
		return true
	}
	if cl.N < 0 || cl.N > 32 || cl.Retry < 0 || cl.Retry > 3 {
		return false
	}
	switch cl.Repair {
	case "", "true", "false":
	default:
		return false
	}
	switch cl.Cmd {
	case "extract", "cat":
		return len(cl.Index) >= 1 && okIDs(cl.Index, 12)
	case "mount":
		return cl.Reload != nil && cl.Reload.sane() && !cl.SameCache
	case "server":
		if !okIDs(cl.Reqs, 12) || !okIDs(cl.Reqs2, 12) {
			return false
		}
		if cl.Reload != nil {
			if !cl.Reload.sane() || (cl.SameCache && (cl.Conf.Cache == nil || cl.Reload.Cache != nil)) {
				return false
			}
			// the marker: nowhere before the reload, served by the first -s entry afterwards
			for _, i := range cl.Reqs {
				if i == cliMarker {
					return false
				}
			}
			bad := false
			cl.Conf.each(func(m *CLIMember) { bad = bad || contAt(m.Cont, cliMarker) != 0 })
			alive := false
			for _, m := range cl.Reload.Stores[0].Members {
				bad = bad || contAt(m.Cont, cliMarker) != 1
				alive = alive || m.Down == ""
			}
			if cl.Reload.Cache != nil && contAt(cl.Reload.Cache.Cont, cliMarker) != 0 {
				bad = true
			}
			return !bad && alive
		}
		return true
	}
	return false
}

func contAt(c []int, i int) int {
	if i < len(c) {
		return c[i]
	}
	return 0
}

func (cf *CLIConf) each(f func(*CLIMember)) {
	for s := range cf.Stores {
		for j := range cf.Stores[s].Members {
			f(&cf.Stores[s].Members[j])
		}
	}
	if cf.Cache != nil {
		f(cf.Cache)
	}
}

func (m CLIMember) label() string {
	s := m.Kind
	if m.Pfx {
		s += "/p"
	}
	if m.Down != "" {
		s += "!" + m.Down
	}
	return s
}

func (cf CLIConf) shape(repair string) string {
	var ss []string
	for _, st := range cf.Stores {
		var ms []string
		for _, m := range st.Members {
			ms = append(ms, m.label())
		}
		if len(ms) > 1 {
			ss = append(ss, "fo("+strings.Join(ms, "|")+")")
		} else {
			ss = append(ss, ms[0])
		}
	}
	s := "router(" + strings.Join(ss, ",") + ")"
	if cf.Cache != nil {
		r := repair
		if r == "" {
			r = "default"
		}
		s = "cache[" + cf.Cache.label() + ",repair=" + r + "](" + s + ")"
	}
	return s
}

// ---------------------------------------------------------------- generator

func (g *gctx) cliConf(marker int, second bool) CLIConf {
	var cf CLIConf
	ns := pick(g, []int{1, 1, 2, 2, 3}, "nstores")
	for s := 0; s < ns; s++ {
		var st CLIStore
		nm := 1
		if g.pct(45, "group") {
			nm = g.rng(2, 3, "gmembers")
		}
		for j := 0; j < nm; j++ {
			m := CLIMember{Kind: pick(g, []string{"dir", "dir", "http", "http", "raw"}, "mkind"), Cont: make([]int, nIDs)}
			if m.Kind != "dir" {
				m.Pfx = g.pct(30, "pfx")
				p := 8
				switch {
				case nm > 1 && j == 0:
					p = 55
				case nm > 1:
					p = 25
				}
				if g.pct(p, "mdown") {
					m.Down = pick(g, []string{"refused", "500"}, "downkind")
				}
			}
			st.Members = append(st.Members, m)
		}
		cf.Stores = append(cf.Stores, st)
	}
	if second {
		alive := false
		for _, m := range cf.Stores[0].Members {
			alive = alive || m.Down == ""
		}
		if !alive {
			cf.Stores[0].Members[0].Down = ""
		}
	}
	if g.pct(72, "cache") {
		cf.Cache = &CLIMember{Kind: pick(g, []string{"dir", "dir", "http", "http", "raw"}, "ckind"), Cont: make([]int, nIDs)}
		if cf.Cache.Kind != "dir" {
			cf.Cache.Pfx = g.pct(30, "cpfx")
		}
	}
	warm := cf.Cache != nil && g.pct(12, "warm")
	for id := 0; id < nIDs; id++ {
		if id == marker {
			if second {
				for j := range cf.Stores[0].Members {
					cf.Stores[0].Members[j].Cont[id] = 1
				}
			}
			continue
		}
		if cf.Cache != nil {
			cf.Cache.Cont[id] = pick(g, []int{0, 0, 0, 1, 1, 2, 2}, "ccont")
			if warm {
				cf.Cache.Cont[id] = 1
			}
		}
		// the -s entry meant to answer: earlier ones lack the ID, later ones hold whatever
		a := ns
		if g.pct(92, "held") {
			a = g.u(ns, "answer")
		}
		for s := range cf.Stores {
			ms := cf.Stores[s].Members
			v := 0
			switch {
			case s == a:
				v = 1
				if g.pct(6, "ginvalid") {
					v = 2
				}
			case s > a:
				v = pick(g, []int{0, 1}, "later")
			}
			for j := range ms {
				ms[j].Cont[id] = v
			}
			if s == a && v == 1 && len(ms) > 1 && g.pct(15, "minvalid") {
				ms[g.u(len(ms), "minvalidwho")].Cont[id] = 2
			}
		}
	}
	return cf
}

func (g *gctx) ids(n, hi int, label string) []int {
	out := make([]int, n)
	for i := range out {
		out[i] = g.rng(0, hi, label)
	}
	return out
}

func genCLI(t *rapid.T, c *Case) {
	g := &gctx{t: t}
	cl := &CLICase{}
	cl.Cmd = pick(g, []string{"extract", "extract", "extract", "cat", "cat", "server", "server", "mount"}, "clicmd")
	cl.Repair = pick(g, []string{"", "", "true", "false", "false"}, "clirepair")
	cl.N = pick(g, []int{0, 1, 1, 2, 4}, "clin")
	cl.Retry = pick(g, []int{0, 1, 1, 2}, "cliretry")
	if cl.Cmd == "mount" {
		// reload of the store file: one of the two configurations is often a lone local directory
		lone := func() CLIConf {
			cf := g.cliConf(-1, false)
			cf.Stores, cf.Cache = cf.Stores[:1], nil
			cf.Stores[0].Members = cf.Stores[0].Members[:1]
			cf.Stores[0].Members[0].Kind, cf.Stores[0].Members[0].Down, cf.Stores[0].Members[0].Pfx = "dir", "", false
			return cf
		}
		a, b := g.cliConf(-1, false), g.cliConf(-1, false)
		switch g.u(4, "mountshape") {
		case 0, 1:
			a = lone()
		case 2:
			b = lone()
		}
		cl.Conf, cl.Reload = a, &b
		cl.Back = g.pct(40, "back")
		c.CLI = cl
		return
	}
	if cl.Cmd == "server" {
		marker := -1
		if g.pct(75, "reload") {
			marker = cliMarker
		}
		cl.Conf = g.cliConf(marker, false)
		hi := nIDs - 1
		if marker >= 0 {
			hi = nIDs - 2
			r := g.cliConf(marker, true)
			if cl.Conf.Cache != nil && r.Cache != nil && g.pct(50, "samecache") {
				cl.SameCache, r.Cache = true, nil
			}
			cl.Reload = &r
			cl.Reqs2 = g.ids(g.rng(1, 6, "nreq2"), nIDs-1, "req2")
		}
		cl.Reqs = g.ids(g.rng(1, 6, "nreq"), hi, "req")
	} else {
		cl.Conf = g.cliConf(-1, false)
		cl.Index = g.ids(g.rng(1, 6, "nindex"), nIDs-1, "indexid")
		cl.Joined = len(cl.Conf.Stores) >= 2 && g.pct(20, "joined")
		cl.Stdout = cl.Cmd == "cat" && g.pct(50, "stdout")
		cl.InPlace = cl.Cmd == "extract" && g.pct(20, "inplace")
	}
	c.CLI = cl
}

// ---------------------------------------------------------------- order-free evaluation of the model (one-shot commands)

type cliRes struct {
	class   string // cData | cMissing | cErr | cUnknown
	why     string // for a result other than data: which rule makes the request fail
	cache   string // hit | fill | repair | "" : what the cache does for this ID when the request succeeds
	answer  int    // -s entry that answers (-1: none)
	advance bool   // a consulted failover group has to move off its first member
}

// resolveGroup: one -s entry. seq: the requests reach the group one at a time.
//
//	"When all stores returned a failure, the group will pass up the failure" / "a missing chunk is
//	treated as a failure immediately, no other servers will be tried" / a fresh process starts on
//	the first member. A member that is down fails every request whatever the ID, so moving off it
//	is never undone and the result does not depend on the order of the requests. Members of one
//	group that differ for an ID (valid here, invalid there) make the outcome depend on which member
//	is active; with sequential requests every member is tried once, so a valid copy is found.
func resolveGroup(st CLIStore, id int, seq bool) (class, why string, advance bool) {
	var alive []CLIMember
	for _, m := range st.Members {
		if m.Down == "" {
			alive = append(alive, m)
		}
	}
	if len(alive) == 0 {
		if len(st.Members) > 1 {
			return cErr, "failover-all-members-down", true
		}
		return cErr, "store-down", false
	}
	advance = len(st.Members) > 1 && (st.Members[0].Down != "" || contAt(st.Members[0].Cont, id) == 2)
	seen := map[int]bool{}
	for _, m := range alive {
		seen[contAt(m.Cont, id)] = true
	}
	if len(seen) == 1 {
		switch contAt(alive[0].Cont, id) {
		case 0:
			return cMissing, "", advance
		case 1:
			return cData, "", advance
		}
		return cErr, "upstream-invalid", advance
	}
	if seen[0] { // not "stores with identical content"
		return cUnknown, "", advance
	}
	if seq {
		return cData, "", advance
	}
	return cUnknown, "", advance
}

func resolve(cf CLIConf, repairOn bool, id int, seq bool) cliRes {
	up := func() cliRes {
		r := cliRes{answer: -1}
		for i, st := range cf.Stores {
			c, why, adv := resolveGroup(st, id, seq)
			r.advance = r.advance || (adv && c != cUnknown)
			switch c {
			case cMissing:
				continue
			case cData:
				r.class, r.answer = cData, i
				return r
			default:
				r.class, r.why = c, why
				if c == cErr && i > 0 {
					r.why = "router-abort:" + why
				}
				return r
			}
		}
		r.class, r.why = cMissing, "missing-everywhere"
		return r
	}
	if cf.Cache == nil {
		return up()
	}
	if cf.Cache.Down != "" { // what a failing cache does to a request is not documented
		return cliRes{class: cUnknown, answer: -1}
	}
	switch contAt(cf.Cache.Cont, id) {
	case 1:
		return cliRes{class: cData, cache: "hit", answer: -1}
	case 2:
		if !repairOn {
			return cliRes{class: cErr, why: "cache-invalid-without-repair", answer: -1}
		}
		r := up()
		if r.class == cData {
			r.cache = "repair"
		}
		return r
	}
	r := up()
	if r.class == cData {
		r.cache = "fill"
	}
	return r
}

// ---------------------------------------------------------------- harness-owned stores

var (
	zenc, _ = zstd.NewWriter(nil)
	zdec, _ = zstd.NewReader(nil)
)

func chunkRel(id desync.ChunkID) string {
	s := id.String()
	return s[:4] + "/" + s + ".cacnk"
}

func putChunkFile(dir string, id desync.ChunkID, plain []byte) {
	p := filepath.Join(dir, filepath.FromSlash(chunkRel(id)))
	if err := os.MkdirAll(filepath.Dir(p), 0o755); err != nil {
		panic(err)
	}
	if err := os.WriteFile(p, zenc.EncodeAll(plain, nil), 0o644); err != nil {
		panic(err)
	}
}

// dirState: what the directory holds for ID i: 0 absent, 1 valid, 2 anything else.
func dirState(dir string, u *universe, i int) int {
	b, err := os.ReadFile(filepath.Join(dir, filepath.FromSlash(chunkRel(u.ids[i]))))
	if err != nil {
		return 0
	}
	plain, err := zdec.DecodeAll(b, nil)
	if err == nil && bytes.Equal(plain, u.data[i]) && ref.ID(plain, false) == [32]byte(u.ids[i]) {
		return 1
	}
	return 2
}

// cliSrv is one HTTP store of the harness with a request log.
type cliSrv struct {
	kind     string
	dir      string
	pfx      bool
	writable bool
	fail500  bool
	inner    http.Handler
	ln       net.Listener
	srv      *http.Server
	served   chan struct{}

	mu  sync.Mutex
	log []string // "METHOD /abcd/<id>.cacnk"
}

var cliSrvCounter uint32

// cliIP: a loopback address of this process' own: other checks use 127.16-115.x.y, and two runs of
// this check at the same time differ in the process id.
func cliIP() [4]byte {
	k := atomic.AddUint32(&cliSrvCounter, 1)
	pid := uint32(os.Getpid())
	return [4]byte{127, byte(128 + pid%127), byte((pid/127 + k/250) % 256), byte(1 + k%250)}
}

func cliListen() net.Listener {
	ip := cliIP()
	l, err := net.Listen("tcp", fmt.Sprintf("%d.%d.%d.%d:0", ip[0], ip[1], ip[2], ip[3]))
	if err != nil {
		if l, err = net.Listen("tcp", "127.0.0.1:0"); err != nil {
			panic(err)
		}
	}
	return l
}

// cliReserve binds an address without listening: connecting to it is refused, and nobody else
// can take it while the case runs.
func cliReserve() (addr string, release func()) {
	fd, err := syscall.Socket(syscall.AF_INET, syscall.SOCK_STREAM|syscall.SOCK_CLOEXEC, 0)
	if err != nil {
		panic(err)
	}
	sa := &syscall.SockaddrInet4{Addr: cliIP()}
	if err := syscall.Bind(fd, sa); err != nil {
		sa = &syscall.SockaddrInet4{Addr: [4]byte{127, 0, 0, 1}}
		if err := syscall.Bind(fd, sa); err != nil {
			panic(err)
		}
	}
	got, err := syscall.Getsockname(fd)
	if err != nil {
		panic(err)
	}
	g4 := got.(*syscall.SockaddrInet4)
	return fmt.Sprintf("%d.%d.%d.%d:%d", g4.Addr[0], g4.Addr[1], g4.Addr[2], g4.Addr[3], g4.Port), func() { syscall.Close(fd) }
}

func (s *cliSrv) ServeHTTP(w http.ResponseWriter, r *http.Request) {
	p := r.URL.Path
	if s.pfx {
		if !strings.HasPrefix(p, "/store/") {
			s.mu.Lock()
			s.log = append(s.log, r.Method+" "+p)
			s.mu.Unlock()
			http.NotFound(w, r)
			return
		}
		p = strings.TrimPrefix(p, "/store")
	}
	s.mu.Lock()
	s.log = append(s.log, r.Method+" "+p)
	s.mu.Unlock()
	if s.fail500 {
		io.Copy(io.Discard, r.Body)
		http.Error(w, "injected failure", http.StatusInternalServerError)
		return
	}
	if cliSelfBug == "drop-put" && r.Method == "PUT" {
		io.Copy(io.Discard, r.Body)
		w.WriteHeader(http.StatusOK)
		return
	}
	if s.kind == "http" {
		r2 := r.Clone(r.Context())
		r2.URL.Path = p
		s.inner.ServeHTTP(w, r2)
		return
	}
	fp := filepath.Join(s.dir, filepath.FromSlash(path.Clean("/"+p)))
	switch r.Method {
	case "GET", "HEAD":
		b, err := os.ReadFile(fp)
		if err != nil {
			http.NotFound(w, r)
			return
		}
		w.Header().Set("Content-Length", strconv.Itoa(len(b)))
		w.WriteHeader(http.StatusOK)
		if r.Method == "GET" {
			w.Write(b)
		}
	case "PUT":
		if !s.writable {
			http.Error(w, "read-only", http.StatusMethodNotAllowed)
			return
		}
		b, err := io.ReadAll(r.Body)
		if err == nil {
			err = os.MkdirAll(filepath.Dir(fp), 0o755)
		}
		if err == nil {
			tmp := fp + ".tmp" + strconv.FormatUint(uint64(atomic.AddUint32(&cliSrvCounter, 1)), 10)
			if err = os.WriteFile(tmp, b, 0o644); err == nil {
				err = os.Rename(tmp, fp)
			}
		}
		if err != nil {
			http.Error(w, err.Error(), http.StatusInternalServerError)
			return
		}
		w.WriteHeader(http.StatusOK)
	default:
		http.Error(w, "unsupported", http.StatusMethodNotAllowed)
	}
}

func (s *cliSrv) requests() []string {
	s.mu.Lock()
	defer s.mu.Unlock()
	return append([]string(nil), s.log...)
}

func (s *cliSrv) reset() {
	s.mu.Lock()
	s.log = nil
	s.mu.Unlock()
}

func (s *cliSrv) close() {
	s.srv.Close()
	<-s.served
}

// cliEnd is one materialised member: directory, optional server, the location string for the CLI.
type cliEnd struct {
	m       CLIMember
	dir     string
	srv     *cliSrv // nil for dir and for refused
	loc     string
	release func() // refused: gives the reserved address back
}

func (e *cliEnd) close() {
	if e.srv != nil {
		e.srv.close()
	}
	if e.release != nil {
		e.release()
	}
}

// touched: requests this member's server saw for ID i.
func (e *cliEnd) touched(u *universe, i int) []string {
	if e.srv == nil {
		return nil
	}
	var out []string
	hexid := u.ids[i].String()
	for _, r := range e.srv.requests() {
		if strings.Contains(r, hexid) {
			out = append(out, r)
		}
	}
	return out
}

type cliChain struct {
	stores    [][]*cliEnd
	cache     *cliEnd
	ownsCache bool
	locs      []string // -s values in order
}

func (ch *cliChain) close() {
	for _, st := range ch.stores {
		for _, e := range st {
			e.close()
		}
	}
	if ch.ownsCache && ch.cache != nil {
		ch.cache.close()
	}
}

func (ch *cliChain) resetLogs() {
	for _, st := range ch.stores {
		for _, e := range st {
			if e.srv != nil {
				e.srv.reset()
			}
		}
	}
	if ch.cache != nil && ch.cache.srv != nil {
		ch.cache.srv.reset()
	}
}

func materialiseMember(base, name string, m CLIMember, u *universe, writable bool) *cliEnd {
	e := &cliEnd{m: m, dir: filepath.Join(base, name)}
	if err := os.MkdirAll(e.dir, 0o755); err != nil {
		panic(err)
	}
	for i := 0; i < nIDs; i++ {
		switch contAt(m.Cont, i) {
		case 1:
			putChunkFile(e.dir, u.ids[i], u.data[i])
		case 2:
			putChunkFile(e.dir, u.ids[i], u.bad[i])
		}
	}
	if m.Kind == "dir" {
		e.loc = e.dir
		return e
	}
	setLoc := func(addr string) {
		e.loc = "http://" + addr + "/"
		if m.Pfx {
			e.loc = "http://" + addr + "/store"
		}
	}
	if m.Down == "refused" {
		var addr string
		addr, e.release = cliReserve()
		setLoc(addr)
		return e
	}
	ln := cliListen()
	setLoc(ln.Addr().String())
	s := &cliSrv{kind: m.Kind, dir: e.dir, pfx: m.Pfx, writable: writable, fail500: m.Down == "500", ln: ln, served: make(chan struct{})}
	if m.Kind == "http" {
		// like `desync chunk-server [-w]` over a directory: the server does not verify, the client does
		ls, err := desync.NewLocalStore(e.dir, desync.StoreOptions{SkipVerify: true})
		if err != nil {
			panic(err)
		}
		s.inner = desync.NewHTTPHandler(ls, writable, true, desync.Converters{desync.Compressor{}}, "")
	}
	s.srv = &http.Server{Handler: s}
	go func() {
		s.srv.Serve(ln)
		close(s.served)
	}()
	e.srv = s
	return e
}

func materialise(base, tag string, cf CLIConf, u *universe, sharedCache *cliEnd) *cliChain {
	ch := &cliChain{}
	for si, st := range cf.Stores {
		var ends []*cliEnd
		var locs []string
		for mi, m := range st.Members {
			e := materialiseMember(base, fmt.Sprintf("%ss%dm%d", tag, si, mi), m, u, false)
			ends = append(ends, e)
			locs = append(locs, e.loc)
		}
		ch.stores = append(ch.stores, ends)
		ch.locs = append(ch.locs, strings.Join(locs, "|"))
	}
	switch {
	case sharedCache != nil:
		ch.cache = sharedCache
	case cf.Cache != nil:
		ch.cache = materialiseMember(base, tag+"cache", *cf.Cache, u, true)
		ch.ownsCache = true
	}
	return ch
}

// ---------------------------------------------------------------- children

type cliProc struct {
	cmd    *exec.Cmd
	pid    int
	out    bytes.Buffer // stderr (and stdout unless captured separately); read only after done
	done   chan struct{}
	mu     sync.Mutex
	exited bool
	err    error
}

// cliStart starts the CLI in its own process group. The caller's goroutine must be locked to its
// thread while the child lives (Pdeathsig is bound to the thread that forked).
func cliStart(dir string, args []string, stdout io.Writer) (*cliProc, error) {
	p := &cliProc{done: make(chan struct{})}
	p.cmd = exec.Command(cliBin(), args...)
	p.cmd.Dir = dir
	p.cmd.Env = []string{"HOME=" + filepath.Join(dir, "home"), "TMPDIR=" + dir, "PATH=/usr/bin:/bin", "NO_PROXY=*", "no_proxy=*"}
	p.cmd.SysProcAttr = &syscall.SysProcAttr{Setpgid: true, Pdeathsig: syscall.SIGKILL}
	p.cmd.Stderr = &p.out
	if stdout != nil {
		p.cmd.Stdout = stdout
	} else {
		p.cmd.Stdout = &p.out
	}
	if err := p.cmd.Start(); err != nil {
		return nil, err
	}
	p.pid = p.cmd.Process.Pid
	go func() {
		// learn of the exit without reaping, so that the group id cannot be reused while what is
		// left of the group is killed; only then reap
		for {
			var info unix.Siginfo
			if err := unix.Waitid(unix.P_PID, p.pid, &info, unix.WEXITED|unix.WNOWAIT, nil); err != syscall.EINTR {
				break
			}
		}
		p.mu.Lock()
		p.exited = true
		syscall.Kill(-p.pid, syscall.SIGKILL)
		p.err = p.cmd.Wait()
		p.mu.Unlock()
		close(p.done)
	}()
	return p, nil
}

func (p *cliProc) signal(s syscall.Signal, group bool) bool {
	p.mu.Lock()
	defer p.mu.Unlock()
	if p.exited {
		return false
	}
	target := p.pid
	if group {
		target = -p.pid
	}
	return syscall.Kill(target, s) == nil
}

// wait returns false when the child had to be killed because it did not end in time.
func (p *cliProc) wait(d time.Duration) bool {
	select {
	case <-p.done:
		return true
	case <-time.After(d):
		p.signal(syscall.SIGKILL, true)
		<-p.done
		return false
	}
}

func (p *cliProc) exitCode() int {
	if p.err == nil {
		return 0
	}
	if ee, ok := p.err.(*exec.ExitError); ok {
		if c := ee.ExitCode(); c != 0 {
			return c
		}
	}
	return -1
}

func clip(s string) string {
	if len(s) > 500 {
		return s[:500] + "…"
	}
	return s
}

// ---------------------------------------------------------------- run

func repairOn(cl *CLICase) bool { return cl.Repair != "false" }

func storeArgs(cl *CLICase, ch *cliChain) []string {
	var args []string
	if cl.Joined {
		args = append(args, "-s", strings.Join(ch.locs, ","))
	} else {
		for _, l := range ch.locs {
			args = append(args, "-s", l)
		}
	}
	if ch.cache != nil {
		args = append(args, "-c", ch.cache.loc)
	}
	return args
}

func optionArgs(cl *CLICase) []string {
	args := []string{"-e", strconv.Itoa(cl.Retry), "-b", "1ms"}
	if cl.N > 0 {
		args = append(args, "-n", strconv.Itoa(cl.N))
	}
	rep := cl.Repair
	switch cliSelfBug {
	case "repair-flag-lost":
		rep = "false"
	case "repair-flag-forced":
		rep = "true"
	}
	if rep != "" {
		args = append(args, "--cache-repair="+rep)
	}
	return args
}

func confClasses(cl *CLICase, cf CLIConf, o *hx.Outcome) {
	seen := map[string]bool{}
	switch {
	case len(cf.Stores) > 1:
		seen["cli:shape:router"] = true
	default:
		seen["cli:shape:single-store"] = true
	}
	for _, st := range cf.Stores {
		if len(st.Members) > 1 {
			seen["cli:shape:failover"] = true
		}
		for _, m := range st.Members {
			seen["cli:member:"+m.Kind] = true
			if m.Down != "" {
				seen["cli:member:down-"+m.Down] = true
			}
			if m.Pfx {
				seen["cli:member:url-prefix"] = true
			}
		}
	}
	if cf.Cache == nil {
		seen["cli:cache:none"] = true
	} else {
		if cf.Cache.Kind == "dir" {
			seen["cli:cache:local"] = true
		} else {
			seen["cli:cache:http"] = true
			seen["cli:cache:http:"+cf.Cache.Kind] = true
		}
		switch cl.Repair {
		case "":
			seen["cli:cache-repair:on"], seen["cli:cache-repair:default"] = true, true
		case "true":
			seen["cli:cache-repair:on"] = true
		default:
			seen["cli:cache-repair:off"] = true
		}
	}
	if cl.Joined {
		seen["cli:shape:comma-joined-stores"] = true
	}
	var keys []string
	for k := range seen {
		keys = append(keys, k)
	}
	sort.Strings(keys)
	o.Class(keys...)
}

func runCLI(c Case, o *hx.Outcome) {
	cl := c.CLI
	o.Class("mode:cli")
	if !cl.sane() {
		o.Desc = map[string]any{"mode": "cli", "shape": "unbuildable"}
		o.Class("unbuildable-spec")
		return
	}
	o.Desc = map[string]any{"mode": "cli", "cmd": cl.Cmd, "shape": cl.Conf.shape(cl.Repair), "skipped": "no binary"}
	if cliBin() == "" {
		o.Class("cli:skipped-no-binary")
		return
	}
	o.Class("cli:cmd:" + cl.Cmd)
	confClasses(cl, cl.Conf, o)
	runtime.LockOSThread()
	defer runtime.UnlockOSThread()
	dir := hx.Scratch("c11cli")
	defer os.RemoveAll(dir)
	os.MkdirAll(filepath.Join(dir, "home"), 0o755)
	if cl.Cmd == "server" {
		runCLIServer(c, cl, dir, o)
		return
	}
	if cl.Cmd == "mount" {
		runCLIMount(c, cl, dir, o)
		return
	}
	runCLIOneShot(c, cl, dir, o)
}

func inconclusive(o *hx.Outcome, what string) {
	o.Class("cli:inconclusive:" + what)
	hx.AddNote("cli_inconclusive_"+what, 1)
}

func runCLIOneShot(c Case, cl *CLICase, dir string, o *hx.Outcome) {
	u := newUniverse(c.Seed)
	ch := materialise(dir, "", cl.Conf, u, nil)
	defer ch.close()

	// blob and index (encoded by the harness' own codec)
	var blob []byte
	f := ref.IndexFile{Flags: ref.FlagExcludeNoDump | ref.FlagSHA512256, Min: 16, Avg: 64, Max: 256}
	needed := map[int]bool{}
	for _, i := range cl.Index {
		blob = append(blob, u.data[i]...)
		f.Items = append(f.Items, ref.IndexItem{End: uint64(len(blob)), ID: [32]byte(u.ids[i])})
		needed[i] = true
	}
	idxPath := filepath.Join(dir, "in.caibx")
	if err := os.WriteFile(idxPath, ref.EncodeIndex(f), 0o644); err != nil {
		panic(err)
	}
	var ids []int
	for i := range needed {
		ids = append(ids, i)
	}
	sort.Ints(ids)

	// ---- expectation
	seq := cl.Cmd == "cat" || cl.N == 1
	res := map[int]cliRes{}
	expect := "success"
	evs := map[string]bool{}
	allCached := ch.cache != nil
	for _, i := range ids {
		r := resolve(cl.Conf, repairOn(cl), i, seq)
		res[i] = r
		if r.cache != "hit" {
			allCached = false
		}
		switch r.class {
		case cUnknown:
			expect = "none"
		case cData:
			if r.cache != "" {
				evs[r.cache] = true
				if r.cache == "repair" && cl.Conf.Cache.Kind != "dir" {
					evs["repair-nonlocal-cache"] = true
				}
			}
			if r.advance {
				evs["failover-advance"] = true
			}
			if r.answer > 0 {
				evs["router-fallthrough"] = true
			}
		default:
			if expect == "success" {
				expect = "failure"
			}
			evs["fails:"+strings.SplitN(r.why, ":", 2)[0]] = true
		}
	}
	if expect != "success" {
		// events of IDs that would have succeeded are not evidence of anything when the run must fail
		for k := range evs {
			if !strings.HasPrefix(k, "fails:") {
				delete(evs, k)
			}
		}
	}
	if allCached {
		evs["whole-blob-cached"] = true
	}

	// ---- the command
	outPath := filepath.Join(dir, "out")
	args := []string{cl.Cmd}
	args = append(args, storeArgs(cl, ch)...)
	args = append(args, optionArgs(cl)...)
	var stdout *bytes.Buffer
	switch {
	case cl.Cmd == "extract":
		if cl.InPlace {
			args = append(args, "-k")
		}
		args = append(args, idxPath, outPath)
	case cl.Stdout:
		stdout = &bytes.Buffer{}
		args = append(args, idxPath)
	default:
		args = append(args, idxPath, outPath)
	}
	var so io.Writer
	if stdout != nil {
		so = stdout
	}
	p, err := cliStart(dir, args, so)
	if err != nil {
		inconclusive(o, "cannot-start")
		return
	}
	if !p.wait(cliTimeout) {
		inconclusive(o, "timeout")
		return
	}
	exit := p.exitCode()
	msg := p.out.String()
	if cliSelfBug == "touch-upstream" {
		for _, st := range ch.stores {
			for _, e := range st {
				if e.srv != nil {
					for _, i := range ids {
						e.srv.mu.Lock()
						e.srv.log = append(e.srv.log, "HEAD /"+chunkRel(u.ids[i]))
						e.srv.mu.Unlock()
					}
				}
			}
		}
	}
	where := fmt.Sprintf("desync %s; chain %s, index IDs %v, expected per ID %s; exit %d, output of the command: %q",
		strings.Join(args, " "), cl.Conf.shape(cl.Repair), cl.Index, describe(res, ids), exit, clip(msg))
	if strings.Contains(msg, "panic:") || strings.Contains(msg, "fatal error:") {
		o.Fail("C11:cli:crash", "the command crashed — %s", where)
	}

	// ---- exit status and output
	if exit == 0 {
		o.Class("cli:exit-0")
		var got []byte
		var rerr error
		if stdout != nil {
			got = stdout.Bytes()
		} else {
			got, rerr = os.ReadFile(outPath)
		}
		correct := rerr == nil && bytes.Equal(got, blob)
		if !correct {
			o.Fail("C11:cli:wrong-output", "exit status 0 but the output (%d bytes, read error %v) is not the blob (%d bytes) — %s", len(got), rerr, len(blob), where)
		}
		if expect == "failure" {
			for _, i := range ids {
				if r := res[i]; r.class != cData && r.class != cUnknown {
					o.Fail("C11:cli:succeeded:"+strings.SplitN(r.why, ":", 2)[0], "exit status 0 (output correct: %v) although ID %d cannot be obtained as documented (%s) — %s", correct, i, r.why, where)
					break
				}
			}
		}
		// "Any chunks downloaded from the main stores are added to the cache" / repair replaces the invalid copy
		if ch.cache != nil && cl.Conf.Cache.Down == "" {
			for _, i := range ids {
				if st := dirState(ch.cache.dir, u, i); st != 1 {
					sig, what := "C11:cli:cache:miss-not-filled", "was fetched from upstream"
					switch res[i].cache {
					case "repair":
						sig, what = "C11:cli:cache:repair-not-replaced", "was invalid in the cache and repair is on"
					case "hit":
						sig, what = "C11:cli:cache:hit-entry-damaged", "was valid in the cache before the run"
					}
					if res[i].class == cUnknown {
						continue
					}
					o.Fail(sig, "the command succeeded and ID %d %s, but afterwards the cache holds state %d (0 absent, 2 invalid) for it — %s", i, what, st, where)
				}
			}
		}
	} else {
		o.Class("cli:exit-nonzero")
		if expect == "success" {
			// attribute: the IDs named in the error output, else all
			var cul []int
			for _, i := range ids {
				if strings.Contains(msg, u.ids[i].String()) {
					cul = append(cul, i)
				}
			}
			if len(cul) == 0 {
				cul = ids
			}
			has := func(f func(cliRes) bool) bool {
				for _, i := range cul {
					if f(res[i]) {
						return true
					}
				}
				return false
			}
			sig := "C11:cli:plain:failed"
			repaired := func(r cliRes) bool { return r.cache == "repair" }
			switch {
			case has(repaired) && (strings.Contains(msg, "does not match its hash") || !has(func(r cliRes) bool { return r.advance || r.answer > 0 })):
				sig = "C11:cli:cache:repair-not-applied"
			case has(func(r cliRes) bool { return r.advance }):
				sig = "C11:cli:failover:failed-with-healthy-member"
			case has(func(r cliRes) bool { return r.answer > 0 }):
				sig = "C11:cli:router:failed-with-later-member-having-chunk"
			case has(repaired):
				sig = "C11:cli:cache:repair-not-applied"
			case has(func(r cliRes) bool { return r.cache == "fill" }):
				sig = "C11:cli:cache:miss-failed"
			case has(func(r cliRes) bool { return r.cache == "hit" }):
				sig = "C11:cli:cache:hit-failed"
			}
			o.Fail(sig, "every chunk of the blob can be obtained as documented, but the command failed (IDs blamed: %v) — %s", cul, where)
		}
	}

	// ---- request logs (whatever the exit status)
	for _, i := range ids {
		r := res[i]
		if r.cache == "hit" {
			for si, st := range ch.stores {
				for mi, e := range st {
					if t := e.touched(u, i); len(t) > 0 {
						o.Fail("C11:cli:cache:hit-touched-upstream", "ID %d is valid in the cache, yet member %d of -s entry %d received %v — %s", i, mi, si, t, where)
					}
				}
			}
		}
		if r.class == cData && r.answer >= 0 {
			for si := r.answer + 1; si < len(ch.stores); si++ {
				for mi, e := range ch.stores[si] {
					if t := e.touched(u, i); len(t) > 0 {
						o.Fail("C11:cli:router:consulted-after-answer", "ID %d is answered by -s entry %d, yet member %d of entry %d received %v — %s", i, r.answer, mi, si, t, where)
					}
				}
			}
		}
	}

	o.Class("cli:expect:" + expect)
	var evl []string
	for e := range evs {
		evl = append(evl, e)
	}
	sort.Strings(evl)
	for _, e := range evl {
		o.Class("cli:ev:" + e)
	}
	o.Nontrivial = expect == "success" && (evs["fill"] || evs["repair"] || evs["failover-advance"])
	o.Desc = map[string]any{"mode": "cli", "cmd": cl.Cmd, "shape": cl.Conf.shape(cl.Repair), "n": cl.N, "retry": cl.Retry, "chunks": len(cl.Index),
		"distinct": len(ids), "expect": expect, "exit": exit, "events": evl, "joined": cl.Joined, "stdout": cl.Stdout, "inplace": cl.InPlace}
}

func describe(res map[int]cliRes, ids []int) string {
	var a []string
	for _, i := range ids {
		r := res[i]
		s := fmt.Sprintf("%d:%s", i, r.class)
		if r.why != "" {
			s += "(" + r.why + ")"
		}
		if r.cache != "" {
			s += "[cache " + r.cache + "]"
		}
		if r.answer >= 0 {
			s += fmt.Sprintf("[entry %d]", r.answer)
		}
		if r.advance {
			s += "[failover]"
		}
		a = append(a, s)
	}
	return strings.Join(a, " ")
}

// ---------------------------------------------------------------- chunk-server with --store-file and SIGHUP

// confNode: the chain `desync chunk-server` documents for a store file, as a specification of the
// reference model: Swap(Dedup([Cache(] Router(leaf | Failover(leaf...) ...) [, leaf)])).
func confNode(cf CLIConf, repair bool) (top *Node, cache *Node) {
	r := &Node{K: "router"}
	leaf := func(m CLIMember) *Node {
		n := &Node{K: "leaf", Cont: make([]int, nIDs), Down: m.Down != "", RO: true}
		copy(n.Cont, m.Cont)
		return n
	}
	for _, st := range cf.Stores {
		if len(st.Members) == 1 {
			r.Kids = append(r.Kids, leaf(st.Members[0]))
			continue
		}
		g := &Node{K: "failover"}
		for _, m := range st.Members {
			g.Kids = append(g.Kids, leaf(m))
		}
		r.Kids = append(r.Kids, g)
	}
	top = r
	if cf.Cache != nil {
		cache = leaf(*cf.Cache)
		cache.RO = false
		top = &Node{K: "cache", Kids: []*Node{r, cache}, Repair: repair}
	}
	return &Node{K: "swap", Kids: []*Node{{K: "dedup", Kids: []*Node{top}}}}, cache
}

// mcache finds the model node of the cache's local member below a tree built from confNode.
func mcache(top *mnode) *mnode {
	x := top
	for x.kind == "swap" || x.kind == "dedup" {
		x = x.kids[0]
	}
	if x.kind == "cache" {
		return x.kids[1]
	}
	return nil
}

func writeStoreFile(p string, ch *cliChain) {
	sf := struct {
		Stores []string `json:"stores"`
		Cache  string   `json:"cache,omitempty"`
	}{Stores: ch.locs}
	if ch.cache != nil {
		sf.Cache = ch.cache.loc
	}
	b, _ := json.Marshal(sf)
	tmp := p + ".new"
	if err := os.WriteFile(tmp, b, 0o644); err != nil {
		panic(err)
	}
	if err := os.Rename(tmp, p); err != nil {
		panic(err)
	}
}

func runCLIServer(c Case, cl *CLICase, dir string, o *hx.Outcome) {
	u := newUniverse(c.Seed)
	deadline := time.Now().Add(cliBudget)
	ch1 := materialise(dir, "a", cl.Conf, u, nil)
	defer ch1.close()
	var ch2 *cliChain
	if cl.Reload != nil {
		rc := *cl.Reload
		if cl.SameCache {
			rc.Cache = cl.Conf.Cache
		}
		confClasses(cl, rc, o)
		var shared *cliEnd
		if cl.SameCache {
			shared = ch1.cache
		}
		ch2 = materialise(dir, "b", *cl.Reload, u, shared)
		defer ch2.close()
	}
	sfPath := filepath.Join(dir, "stores.json")
	writeStoreFile(sfPath, ch1)

	ln := cliListen()
	addr := ln.Addr().String()
	ln.Close()
	args := []string{"chunk-server", "--store-file", sfPath, "-l", addr, "--skip-verify-read=false"}
	args = append(args, optionArgs(cl)...)
	p, err := cliStart(dir, args, nil)
	if err != nil {
		inconclusive(o, "cannot-start")
		return
	}
	stopped := false
	stop := func() {
		if stopped {
			return
		}
		stopped = true
		p.signal(syscall.SIGTERM, false)
		p.wait(3 * time.Second)
	}
	defer stop()

	client := &http.Client{Transport: &http.Transport{DisableKeepAlives: true, Proxy: nil}, Timeout: 10 * time.Second}
	defer client.CloseIdleConnections()
	// get: result class of one request to the server under test
	get := func(i int) (string, string) {
		resp, err := client.Get("http://" + addr + "/" + chunkRel(u.ids[i]))
		if err != nil {
			return "transport", err.Error()
		}
		defer resp.Body.Close()
		b, _ := io.ReadAll(resp.Body)
		switch {
		case resp.StatusCode == 200:
			plain, err := zdec.DecodeAll(b, nil)
			if err != nil || !bytes.Equal(plain, u.data[i]) {
				return cWrong, fmt.Sprintf("200 with %d bytes that are not chunk %d", len(b), i)
			}
			return cData, ""
		case resp.StatusCode == 404:
			return cMissing, ""
		case resp.StatusCode >= 500:
			return cErr, strings.TrimSpace(string(b))
		}
		return "status-" + strconv.Itoa(resp.StatusCode), strings.TrimSpace(string(b))
	}
	// wait until the server listens
	up := false
	for time.Now().Before(deadline.Add(-cliBudget / 2)) {
		conn, err := net.DialTimeout("tcp", addr, time.Second)
		if err == nil {
			conn.Close()
			up = true
			break
		}
		select {
		case <-p.done:
			stopped = true
			if strings.Contains(p.out.String(), "address already in use") {
				inconclusive(o, "listen-address-taken")
				return
			}
			o.Fail("C11:cli:server:exited-at-start", "desync %s ended (exit %d) instead of serving: %q", strings.Join(args, " "), p.exitCode(), clip(p.out.String()))
			return
		case <-time.After(2 * time.Millisecond):
		}
	}
	if !up {
		inconclusive(o, "server-start-timeout")
		return
	}

	var hist []string
	evs := map[string]bool{}
	steps := 0
	where := func() string {
		s := fmt.Sprintf("desync %s; store file 1: %s", strings.Join(args, " "), cl.Conf.shape(cl.Repair))
		if cl.Reload != nil {
			s += "; store file 2: " + cl.Reload.shape(cl.Repair)
			if cl.SameCache {
				s += " with the cache of file 1"
			}
		}
		return s + "\nhistory:\n  " + strings.Join(hist, "\n  ")
	}

	// phase: sequential requests compared with the model, request by request
	phase := func(name string, ch *cliChain, m *model, mtop *mnode, reqs []int) bool {
		for _, i := range reqs {
			if time.Now().After(deadline) {
				inconclusive(o, "budget")
				return false
			}
			ch.resetLogs()
			lo := mcache(mtop)
			cached := lo != nil && lo.cont[i] == 1
			viaRepair := lo != nil && lo.cont[i] == 2 && repairOn(cl)
			ms := newStep()
			want := m.get(mtop, i, ms).c
			got, detail := get(i)
			steps++
			hist = append(hist, fmt.Sprintf("%s GET id%d -> %s (model %s) %s", name, i, got, want, clip(detail)))
			if got == "transport" {
				select {
				case <-p.done:
					stopped = true
					o.Fail("C11:cli:server:died", "the server ended (exit %d) while serving: %q — %s", p.exitCode(), clip(p.out.String()), where())
				default:
					inconclusive(o, "transport")
				}
				return false
			}
			for e := range ms.events {
				evs[e] = true
			}
			if got != want {
				sig := "C11:cli:server:" + name + ":want-" + want + "-got-" + got
				switch {
				case got == cWrong:
					sig = "C11:cli:server:wrong-bytes"
				case viaRepair && got == cErr:
					sig = "C11:cli:cache:repair-not-applied"
				case got == cErr && ms.events["failover-advance"] && !ms.events["failover-exhausted"]:
					sig = "C11:cli:failover:failed-with-healthy-member"
				case want == cData && ms.events["router-fallthrough"]:
					sig = "C11:cli:router:failed-with-later-member-having-chunk"
				}
				o.Fail(sig, "request for ID %d answered %s, documented behaviour of the configured chain gives %s — %s", i, got, want, where())
				return false // model and server may have diverged
			}
			if cached {
				for si, st := range ch.stores {
					for mi, e := range st {
						if t := e.touched(u, i); len(t) > 0 {
							o.Fail("C11:cli:cache:hit-touched-upstream", "ID %d was valid in the cache, yet member %d of store entry %d received %v — %s", i, mi, si, t, where())
						}
					}
				}
			}
			for _, a := range ms.answered {
				for si := a.idx + 1; si < len(ch.stores); si++ {
					for mi, e := range ch.stores[si] {
						if t := e.touched(u, i); len(t) > 0 {
							o.Fail("C11:cli:router:consulted-after-answer", "ID %d was answered by store entry %d, yet member %d of entry %d received %v — %s", i, a.idx, mi, si, t, where())
						}
					}
				}
			}
			if lo != nil && len(ms.fills) > 0 {
				if st := dirState(ch.cache.dir, u, i); st != 1 {
					sig := "C11:cli:cache:miss-not-filled"
					if ms.fills[0].repair {
						sig = "C11:cli:cache:repair-not-replaced"
					}
					o.Fail(sig, "ID %d was served from upstream through the cache, but afterwards the cache holds state %d (0 absent, 2 invalid) for it — %s", i, st, where())
				}
			}
			if len(o.Violations) > 0 {
				return false
			}
		}
		return true
	}

	m1 := &model{}
	n1, _ := confNode(cl.Conf, repairOn(cl))
	mtop1 := m1.build(n1)
	ok := phase("before-reload", ch1, m1, mtop1, cl.Reqs)
	if ok && cl.Reload != nil {
		// rewrite the store file, SIGHUP, and poll the marker: it is nowhere in configuration 1 and
		// in every member of the first entry of configuration 2, which has a member that is up.
		// Only the answer of the server itself tells that the reload happened; no timing is assumed.
		writeStoreFile(sfPath, ch2)
		m2 := &model{}
		n2, _ := confNode(*cl.Reload, repairOn(cl))
		if cl.SameCache {
			cc := *cl.Conf.Cache
			cf := *cl.Reload
			cf.Cache = &cc
			n2, _ = confNode(cf, repairOn(cl))
		}
		mtop2 := m2.build(n2)
		if cl.SameCache {
			mcache(mtop2).cont = mcache(mtop1).cont // the state the shared cache has reached
		}
		seen := false
		polls := 0
	reload:
		for time.Now().Before(deadline.Add(-10 * time.Second)) {
			if !p.signal(syscall.SIGHUP, false) {
				break
			}
			for k := 0; k < 40; k++ {
				polls++
				got, _ := get(cliMarker)
				if got == cData {
					seen = true
					break reload
				}
				if got == "transport" || got == cWrong {
					break reload
				}
				time.Sleep(time.Duration(1+k/4) * time.Millisecond)
			}
			// the signal may have been dropped (unbuffered channel in the command): send it again
		}
		select {
		case <-p.done:
			stopped = true
			o.Fail("C11:cli:server:died", "the server ended (exit %d) on SIGHUP: %q — %s", p.exitCode(), clip(p.out.String()), where())
			return
		default:
		}
		if !seen {
			hist = append(hist, fmt.Sprintf("reload not observed after %d polls", polls))
			ok = false
			stop()
			if msg := p.out.String(); strings.Contains(msg, "failed to reload configuration") {
				// "If the configuration in the file is found to be invalid, an error is printed": this one is valid
				o.Fail("C11:cli:server:reload-refused", "the server refused a valid store file on SIGHUP: %q — %s", clip(msg), where())
			} else {
				inconclusive(o, "reload-not-observed")
			}
		} else {
			o.Class("cli:server:reload-observed")
			rc2 := *cl.Reload
			if cl.SameCache {
				rc2.Cache = cl.Conf.Cache
			}
			reloadClasses(cl.Conf, rc2, o)
			evs["swap"] = true
			ms := newStep()
			m2.get(mtop2, cliMarker, ms) // the one request for the marker that reached configuration 2
			for e := range ms.events {
				evs[e] = true
			}
			hist = append(hist, fmt.Sprintf("SIGHUP; marker served after %d polls", polls))
			if cl.SameCache {
				o.Class("cli:server:reload-keeps-cache")
			}
			ok = phase("after-reload", ch2, m2, mtop2, cl.Reqs2)
		}
	}
	stop()
	if msg := p.out.String(); strings.Contains(msg, "panic:") || strings.Contains(msg, "fatal error:") {
		o.Fail("C11:cli:crash", "the server crashed: %q — %s", clip(msg), where())
	}
	var evl []string
	for e := range evs {
		evl = append(evl, e)
	}
	sort.Strings(evl)
	for _, e := range evl {
		o.Class("cli:srv-ev:" + e)
	}
	o.Nontrivial = evs["failover-advance"] || evs["cache-fill"] || evs["cache-repair"]
	o.Desc = map[string]any{"mode": "cli", "cmd": "server", "shape": cl.Conf.shape(cl.Repair), "reload": cl.Reload != nil, "same_cache": cl.SameCache,
		"requests": steps, "events": evl, "n": cl.N, "retry": cl.Retry, "completed": ok}
	if cl.Reload != nil {
		o.Desc.(map[string]any)["shape2"] = cl.Reload.shape(cl.Repair)
	}
}
