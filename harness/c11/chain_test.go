package c11

// Chain specifications (the replayable description of a store chain), the builder that turns a
// specification into real desync stores over MemStore leaves, and the taps that observe what every
// node of the real chain returned in a step.

import (
	"bytes"
	"errors"
	"fmt"
	"strings"
	"sync"

	"github.com/folbricht/desync"

	"verifharness/internal/dx"
	"verifharness/internal/gen"
)

const nIDs = 4 // size of the chunk-ID universe

// result classes
const (
	cData    = "data"
	cMissing = "missing"
	cErr     = "err"
	cWrong   = "wrong-bytes"
	cTrue    = "true"
	cFalse   = "false"
	cOK      = "ok"
)

// Fault makes the N-th (1-based) call of Kind (get|has|store) on a leaf fail.
type Fault struct {
	Kind string `json:"kind"`
	N    int    `json:"n"`
}

// Node is one node of a chain specification.
//
//	leaf      MemStore; Cont[i] = 0 absent, 1 valid, 2 invalid (bytes do not hash to the ID)
//	router    desync.NewStoreRouter(kids...)
//	failover  desync.NewFailoverGroup(kids...)            (kids are leaves)
//	cache     desync.NewCache(kids[0], kids[1])           (kids[1] is a writable leaf; Repair wraps it in RepairableCache)
//	swap      desync.NewSwapStore / NewSwapWriteStore(kids[0])
//	dedup     desync.NewDedupQueue(kids[0])
type Node struct {
	K      string  `json:"k"`
	Kids   []*Node `json:"kids,omitempty"`
	Repair bool    `json:"repair,omitempty"`
	Cont   []int   `json:"cont,omitempty"`
	Down   bool    `json:"down,omitempty"`   // permanently failing (until healed)
	FailAt []Fault `json:"failat,omitempty"` // failing at call k
	RO     bool    `json:"ro,omitempty"`     // leaf does not expose StoreChunk
	WDedup bool    `json:"wdedup,omitempty"` // leaf wrapped in (Write)DedupQueue, the shape built on Windows
	Anchor bool    `json:"anchor,omitempty"` // concurrent phase: member that stays healthy throughout
	Active int     `json:"active,omitempty"` // concurrent phase, failover: the group starts with this member active (reached by a legal warm-up history)
}

func (n *Node) shape() string {
	if n == nil {
		return "nil"
	}
	switch n.K {
	case "router", "failover", "cache", "swap", "dedup":
		var a []string
		for _, k := range n.Kids {
			a = append(a, k.shape())
		}
		s := n.K + "(" + strings.Join(a, ",") + ")"
		if n.Repair {
			s += "r"
		}
		return s
	}
	return "L"
}

func (n *Node) walk(f func(*Node)) {
	if n == nil {
		return
	}
	f(n)
	for _, k := range n.Kids {
		k.walk(f)
	}
}

// sane reports whether the specification can be built (replay files may be hand-written).
func (n *Node) sane() bool {
	if n == nil {
		return false
	}
	switch n.K {
	case "leaf":
		return len(n.Kids) == 0
	case "router":
		if len(n.Kids) < 1 {
			return false
		}
	case "failover":
		if len(n.Kids) < 1 {
			return false
		}
		for _, k := range n.Kids {
			if k == nil || k.K != "leaf" {
				return false
			}
		}
	case "cache":
		if len(n.Kids) != 2 || n.Kids[1] == nil || n.Kids[1].K != "leaf" || n.Kids[1].RO {
			return false
		}
	case "swap", "dedup":
		if len(n.Kids) != 1 {
			return false
		}
	default:
		return false
	}
	for _, k := range n.Kids {
		if !k.sane() {
			return false
		}
	}
	return true
}

// writableSpec: does the chain built from n implement desync.WriteStore?
func writableSpec(n *Node) bool {
	switch n.K {
	case "leaf":
		return !n.RO
	case "swap":
		return writableSpec(n.Kids[0])
	}
	return false
}

// ---------------------------------------------------------------- universe

type universe struct {
	ids  [nIDs]desync.ChunkID
	data [nIDs][]byte
	bad  [nIDs][]byte
	idx  map[desync.ChunkID]int
}

func newUniverse(seed uint64) *universe {
	u := &universe{idx: map[desync.ChunkID]int{}}
	for i := 0; i < nIDs; i++ {
		b := gen.RandBytes(24+9*i, seed*7919+uint64(i)+1)
		b[0] = byte(i) // distinct even for a degenerate seed
		u.data[i] = b
		u.ids[i] = desync.Digest.Sum(b)
		bad := append([]byte(nil), b...)
		bad[len(bad)-1] ^= 0x5a
		u.bad[i] = bad
		u.idx[u.ids[i]] = i
	}
	return u
}

func isMissing(err error) bool {
	if _, ok := err.(desync.ChunkMissing); ok {
		return true
	}
	var cm desync.ChunkMissing
	return errors.As(err, &cm)
}

func (u *universe) classGet(i int, ch *desync.Chunk, err error) string {
	if err != nil {
		if isMissing(err) {
			return cMissing
		}
		return cErr
	}
	if ch == nil {
		return cWrong
	}
	b, derr := ch.Data()
	if derr != nil || i < 0 || !bytes.Equal(b, u.data[i]) {
		return cWrong
	}
	return cData
}

func classHas(has bool, err error) string {
	if err != nil {
		return cErr
	}
	if has {
		return cTrue
	}
	return cFalse
}

func classStore(err error) string {
	if err != nil {
		return cErr
	}
	return cOK
}

// ---------------------------------------------------------------- taps

type event struct {
	nid   int
	op    string
	class string
}

// recorder collects what every node of the real chain returned during one step.
type recorder struct {
	mu sync.Mutex
	on bool
	ev []event
}

func (r *recorder) reset() {
	r.mu.Lock()
	r.ev = r.ev[:0]
	r.mu.Unlock()
}

func (r *recorder) add(nid int, op, class string) {
	r.mu.Lock()
	if r.on {
		r.ev = append(r.ev, event{nid, op, class})
	}
	r.mu.Unlock()
}

// calls = how often node nid was entered in this step; first = class of its first return.
func (r *recorder) calls(nid int) int {
	r.mu.Lock()
	defer r.mu.Unlock()
	n := 0
	for _, e := range r.ev {
		if e.nid == nid {
			n++
		}
	}
	return n
}

func (r *recorder) first(nid int) (string, bool) {
	r.mu.Lock()
	defer r.mu.Unlock()
	for _, e := range r.ev {
		if e.nid == nid {
			return e.class, true
		}
	}
	return "", false
}

// selfBug, set only by TestSelf, makes the taps misbehave so that the checker's sensitivity can be tested.
var selfBug string

// tap sits between a node and its parent. It forwards every call unchanged and records the result.
type tap struct {
	n     *rnode
	inner desync.Store
	b     *builder
}

func (t *tap) GetChunk(id desync.ChunkID) (*desync.Chunk, error) {
	if selfBug == "cache-touch-upstream" && t.n.kind == "cache" {
		t.n.kids[0].st.HasChunk(id)
	}
	inner := t.inner
	if selfBug == "swap-stale" && t.n.kind == "swap" {
		inner = t.n.firstKid // bypasses the swap store: keeps using the chain that was swapped out
	}
	ch, err := inner.GetChunk(id)
	switch {
	case selfBug == "failover-always-fails" && t.n.kind == "failover":
		ch, err = nil, fmt.Errorf("group gave up: %w", dx.ErrInjected)
	case selfBug == "router-swallow-error" && t.n.kind == "router" && err != nil && !isMissing(err):
		ch, err = nil, desync.ChunkMissing{ID: id}
	case selfBug == "failover-mask-missing" && t.n.kind == "failover" && err != nil && isMissing(err):
		err = errors.New("masked")
	case selfBug == "router-consult-all" && t.n.kind == "router" && err == nil:
		t.n.kids[len(t.n.kids)-1].st.HasChunk(id)
	}
	i, ok := t.b.u.idx[id]
	if !ok {
		i = -1
	}
	t.b.rec.add(t.n.nid, "get", t.b.u.classGet(i, ch, err))
	return ch, err
}

func (t *tap) HasChunk(id desync.ChunkID) (bool, error) {
	h, err := t.inner.HasChunk(id)
	t.b.rec.add(t.n.nid, "has", classHas(h, err))
	return h, err
}

func (t *tap) Close() error   { return t.inner.Close() }
func (t *tap) String() string { return t.inner.String() }

type wtap struct{ *tap }

func (t wtap) StoreChunk(c *desync.Chunk) error {
	err := t.inner.(desync.WriteStore).StoreChunk(c)
	if selfBug == "cache-drop-fill" && t.n.isLocal {
		t.n.leaf.Delete(c.ID())
	}
	t.b.rec.add(t.n.nid, "store", classStore(err))
	return err
}

// ---------------------------------------------------------------- builder

// rnode is a node of the real chain.
type rnode struct {
	nid      int
	kind     string
	spec     *Node
	kids     []*rnode
	parent   *rnode
	leaf     *dx.MemStore
	st       desync.Store // what the parent (or the test) talks to: the tap around the real store
	swapper  interface{ Swap(desync.Store) error }
	firstKid desync.Store // swap: the chain it was created with (TestSelf only)
	writable bool
	isLocal  bool // local member of a cache
}

type builder struct {
	u    *universe
	rec  *recorder
	next int
	all  []*dx.MemStore // every leaf ever created (use-after-close accounting)
	// prepos: honour Node.Active (concurrent phase only; the sequential model reaches such states by itself)
	prepos bool
	warm   int // injected faults delivered during warm-ups (not part of the phase under test)
}

func (b *builder) wrap(r *rnode, s desync.Store) {
	t := &tap{n: r, inner: s, b: b}
	if r.writable {
		r.st = wtap{t}
	} else {
		r.st = t
	}
}

func (b *builder) build(n *Node, parent *rnode) *rnode {
	r := &rnode{nid: b.next, kind: n.K, spec: n, parent: parent}
	b.next++
	switch n.K {
	case "leaf":
		ms := dx.NewMemStore(fmt.Sprintf("L%d", r.nid))
		for i := 0; i < nIDs && i < len(n.Cont); i++ {
			switch n.Cont[i] {
			case 1:
				ms.Put(b.u.ids[i], b.u.data[i])
			case 2:
				ms.Put(b.u.ids[i], b.u.bad[i])
			}
		}
		if n.Down {
			setDown(ms, true)
		}
		for _, f := range n.FailAt {
			ms.FailAt(f.Kind, f.N)
		}
		r.leaf = ms
		b.all = append(b.all, ms)
		r.writable = !n.RO
		var s desync.Store = ms
		switch {
		case n.RO && n.WDedup:
			s = desync.NewDedupQueue(ms)
		case n.RO:
			s = dx.ReadOnlyStore{S: ms}
		case n.WDedup:
			s = desync.NewWriteDedupQueue(ms)
		}
		b.wrap(r, s)
	case "router", "failover":
		var ss []desync.Store
		for _, k := range n.Kids {
			kr := b.build(k, r)
			r.kids = append(r.kids, kr)
			ss = append(ss, kr.st)
		}
		if n.K == "router" {
			b.wrap(r, desync.NewStoreRouter(ss...))
		} else {
			b.wrap(r, desync.NewFailoverGroup(ss...))
			if k := n.Active; b.prepos && k > 0 && k < len(r.kids) {
				// warm-up through the public API only: with members 0..k-1 failing and member k
				// answering, one request moves the group from member 0 to member k ("all subsequent
				// requests will be routed to server2"). Then the members get their specified state.
				for j := 0; j < k; j++ {
					setDown(r.kids[j].leaf, true)
				}
				setDown(r.kids[k].leaf, false)
				r.st.HasChunk(b.u.ids[0])
				for _, m := range r.kids {
					b.warm += m.leaf.Delivered()
				}
				for j := 0; j <= k; j++ {
					setDown(r.kids[j].leaf, r.kids[j].spec.Down)
				}
			}
		}
	case "cache":
		up := b.build(n.Kids[0], r)
		lo := b.build(n.Kids[1], r)
		lo.isLocal = true
		r.kids = []*rnode{up, lo}
		l := lo.st.(desync.WriteStore)
		if n.Repair {
			l = desync.NewRepairableCache(l)
		}
		b.wrap(r, desync.NewCache(up.st, l))
	case "swap":
		k := b.build(n.Kids[0], r)
		r.kids = []*rnode{k}
		r.firstKid = k.st
		r.writable = k.writable
		if k.writable {
			sw := desync.NewSwapWriteStore(k.st)
			r.swapper = sw
			b.wrap(r, sw)
		} else {
			sw := desync.NewSwapStore(k.st)
			r.swapper = sw
			b.wrap(r, sw)
		}
	case "dedup":
		k := b.build(n.Kids[0], r)
		r.kids = []*rnode{k}
		b.wrap(r, desync.NewDedupQueue(k.st))
	}
	return r
}

func setDown(ms *dx.MemStore, on bool) {
	ms.FailAll("get", on)
	ms.FailAll("has", on)
	ms.FailAll("store", on)
}

func (r *rnode) leaves() []*rnode {
	if r.kind == "leaf" {
		return []*rnode{r}
	}
	var out []*rnode
	for _, k := range r.kids {
		out = append(out, k.leaves()...)
	}
	return out
}

// contentState of a real leaf for ID i: 0 absent, 1 valid, 2 invalid.
func (b *builder) contentState(ms *dx.MemStore, i int) int {
	raw, ok := ms.Raw(b.u.ids[i])
	if !ok {
		return 0
	}
	if bytes.Equal(raw, b.u.data[i]) {
		return 1
	}
	return 2
}
