package c11

// Reference model of a store chain (DESIGN.md Appendix A.5), written from the README sections
// "Caching", "Multiple chunk stores", "Store failover", "Dynamic store configuration" and the doc
// comments of StoreRouter, Cache, RepairableCache, FailoverGroup, SwapStore and DedupQueue:
//
//   router    "A chunk will first be requested from store1, and if not found there, the request
//             will be routed to store2 and so on"; "moves to the next if it gets a ChunkMissing.
//             Fails if any store returns a different error"; HasChunk "goes through the stores in
//             order and returns as soon as the chunk is found".
//   cache     "it is first looked up in the cache before routing the request to the next store.
//             Any chunks downloaded from the main stores are added to the cache"; "If the cache
//             contains an invalid chunk, the operation will fail"; RepairableCache: "ChunkMissing
//             instead of ChunkInvalid so caller can redownload invalid chunk from store".
//   failover  "requests will normally be sent to server1, but if a failure is encountered, all
//             subsequent requests will be routed to server2. There is no automatic fail-back. A
//             failure in server2 will cause it to switch back to server1"; "When all stores
//             returned a failure, the group will pass up the failure"; "a missing chunk is treated
//             as a failure immediately, no other servers will be tried".
//   swap, dedup  transparent for sequential histories.
//
// The model shares no code with the chain under test: it works on its own tree of plain structs.

type mnode struct {
	nid    int
	kind   string
	kids   []*mnode
	repair bool
	// leaf
	cont   [nIDs]int
	down   bool
	failAt map[string]map[int]bool
	calls  map[string]int
	ro     bool
	// failover
	active int
}

type mres struct {
	c       string
	invalid bool // the error is "stored object does not hash to its ID"
}

type fill struct {
	cache, local int
	repair       bool
}

type answer struct {
	router, idx int
}

// mstep collects what the model predicts for one step.
type mstep struct {
	res       map[int]string // node -> predicted result class (first visit)
	hits      []int          // caches (nid) that served a GetChunk from their local member
	fills     []fill
	answered  []answer
	events    map[string]bool
	flaky     bool // a "fail at call k" fault fired
	ambiguous bool // filling the local member failed: the documentation does not say whether the request fails
}

func newStep() *mstep { return &mstep{res: map[int]string{}, events: map[string]bool{}} }

func (s *mstep) note(nid int, c string) {
	if _, ok := s.res[nid]; !ok {
		s.res[nid] = c
	}
}

type model struct {
	next int
}

func (m *model) build(n *Node) *mnode {
	x := &mnode{nid: m.next, kind: n.K, repair: n.Repair}
	m.next++
	if n.K == "leaf" {
		for i := 0; i < nIDs && i < len(n.Cont); i++ {
			x.cont[i] = n.Cont[i]
		}
		x.down = n.Down
		x.ro = n.RO
		x.calls = map[string]int{}
		x.failAt = map[string]map[int]bool{}
		for _, f := range n.FailAt {
			if x.failAt[f.Kind] == nil {
				x.failAt[f.Kind] = map[int]bool{}
			}
			x.failAt[f.Kind][f.N] = true
		}
		return x
	}
	for _, k := range n.Kids {
		x.kids = append(x.kids, m.build(k))
	}
	return x
}

func (x *mnode) leaves() []*mnode {
	if x.kind == "leaf" {
		return []*mnode{x}
	}
	var out []*mnode
	for _, k := range x.kids {
		out = append(out, k.leaves()...)
	}
	return out
}

// faulty: one more call of kind reaches the leaf; does it fail?
func (x *mnode) faulty(kind string, s *mstep) bool {
	x.calls[kind]++
	if x.down {
		return true
	}
	if x.failAt[kind][x.calls[kind]] {
		s.flaky = true
		return true
	}
	return false
}

func (m *model) get(x *mnode, id int, s *mstep) (r mres) {
	defer func() { s.note(x.nid, r.c) }()
	switch x.kind {
	case "leaf":
		if x.faulty("get", s) {
			return mres{c: cErr}
		}
		switch x.cont[id] {
		case 0:
			return mres{c: cMissing}
		case 2:
			return mres{c: cErr, invalid: true}
		}
		return mres{c: cData}
	case "router":
		for i, k := range x.kids {
			r := m.get(k, id, s)
			switch r.c {
			case cData:
				s.answered = append(s.answered, answer{x.nid, i})
				if i > 0 {
					s.events["router-fallthrough"] = true
				}
				return mres{c: cData}
			case cMissing:
				continue
			default:
				s.events["router-abort"] = true
				return mres{c: cErr}
			}
		}
		return mres{c: cMissing}
	case "failover":
		last := mres{c: cErr}
		for i := 0; i < len(x.kids); i++ {
			a := x.active
			r := m.get(x.kids[a], id, s)
			if r.c == cData {
				return mres{c: cData}
			}
			if r.c == cMissing {
				s.events["failover-missing-as-is"] = true
				return mres{c: cMissing}
			}
			last = mres{c: cErr}
			if a == x.active {
				x.active = (a + 1) % len(x.kids)
				s.events["failover-advance"] = true
			}
		}
		s.events["failover-exhausted"] = true
		return last
	case "cache":
		up, lo := x.kids[0], x.kids[1]
		r := m.get(lo, id, s)
		wasInvalid := false
		if x.repair && r.c == cErr && r.invalid {
			r = mres{c: cMissing}
			wasInvalid = true
		}
		switch r.c {
		case cData:
			s.hits = append(s.hits, x.nid)
			s.events["cache-hit"] = true
			return mres{c: cData}
		case cMissing:
		default:
			if r.invalid {
				s.events["cache-invalid-fails"] = true
			}
			return mres{c: cErr}
		}
		u := m.get(up, id, s)
		if u.c != cData {
			return mres{c: u.c}
		}
		if m.store(lo, id, s).c != cOK {
			s.ambiguous = true
			return mres{c: cErr}
		}
		s.fills = append(s.fills, fill{x.nid, lo.nid, wasInvalid})
		if wasInvalid {
			s.events["cache-repair"] = true
		} else {
			s.events["cache-fill"] = true
		}
		return mres{c: cData}
	case "swap", "dedup":
		return m.get(x.kids[0], id, s)
	}
	return mres{c: cErr}
}

func (m *model) has(x *mnode, id int, s *mstep) (r mres) {
	defer func() { s.note(x.nid, r.c) }()
	switch x.kind {
	case "leaf":
		if x.faulty("has", s) {
			return mres{c: cErr}
		}
		if x.cont[id] != 0 {
			return mres{c: cTrue}
		}
		return mres{c: cFalse}
	case "router":
		for i, k := range x.kids {
			r := m.has(k, id, s)
			if r.c == cErr {
				s.events["router-abort"] = true
				return r
			}
			if r.c == cTrue {
				s.answered = append(s.answered, answer{x.nid, i})
				return r
			}
		}
		return mres{c: cFalse}
	case "failover":
		last := mres{c: cErr}
		for i := 0; i < len(x.kids); i++ {
			a := x.active
			r := m.has(x.kids[a], id, s)
			if r.c != cErr {
				return r
			}
			last = r
			if a == x.active {
				x.active = (a + 1) % len(x.kids)
				s.events["failover-advance"] = true
			}
		}
		s.events["failover-exhausted"] = true
		return last
	case "cache":
		r := m.has(x.kids[1], id, s)
		if r.c == cErr || r.c == cTrue {
			return r
		}
		return m.has(x.kids[0], id, s)
	case "swap", "dedup":
		return m.has(x.kids[0], id, s)
	}
	return mres{c: cErr}
}

// store: only leaves and swap(writable) accept StoreChunk.
func (m *model) store(x *mnode, id int, s *mstep) (r mres) {
	defer func() { s.note(x.nid, r.c) }()
	switch x.kind {
	case "leaf":
		if x.faulty("store", s) {
			return mres{c: cErr}
		}
		x.cont[id] = 1
		return mres{c: cOK}
	case "swap":
		return m.store(x.kids[0], id, s)
	}
	return mres{c: cErr}
}
