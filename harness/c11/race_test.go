package c11

// Failover groups of 3..5 members under concurrent failures ("race" mode).
//
// Statement: "a failover group keeps succeeding while at least one member stays healthy and never
// masks a missing chunk". Exactly one member never fails; every other member fails every call
// with an error that is not ChunkMissing; all members hold the same chunks. Whatever the
// interleaving, every GetChunk/HasChunk for a held chunk must succeed and every request for a
// chunk no member holds must be answered ChunkMissing / false: a request has len(members)
// attempts, the group only ever moves forward off a member that failed, and the healthy member
// is at most len-1 moves away.
//
// The dangerous schedule is a late failure report: request R2 is still inside failing member A
// while R1 has already moved the group A -> B, seen B fail and reported it. If R2's report of A
// moves the group again, R1 meets B a second time and runs out of attempts. There is no hook
// between a request's report and its next selection, so the harness cannot place R2's report
// there by force; what it owns is everything around it:
//
//	barrier variant   every request is held inside the first failing member (MemStore.Gate)
//	                  until all of them are inside, then all are released at once: len(workers)
//	                  reports of the same member race with the first requests' next attempts.
//	                  Repeated on fresh groups Iter times per case.
//	random variant    k goroutines x bursts of requests, start positions reached by a warm-up,
//	                  yields/sleeps from a generated vector at failover.selected.
//
// The demand holds on every schedule, so a green run is evidence (not proof) and a red one is a
// violation whatever the timing.

import (
	"errors"
	"fmt"
	"runtime"
	"sync"
	"sync/atomic"
	"testing"
	"time"

	"github.com/folbricht/desync"
	"pgregory.net/rapid"

	"verifharness/internal/dx"
	"verifharness/internal/hx"
)

type RaceCase struct {
	Members int      `json:"members"`           // 3..5
	Healthy int      `json:"healthy"`           // the member that never fails
	Start   int      `json:"start,omitempty"`   // random variant: member active when the phase begins (reached by a warm-up request)
	Workers int      `json:"workers"`           // goroutines
	Burst   int      `json:"burst"`             // requests per goroutine (barrier variant: the first one is the held one)
	Iter    int      `json:"iter"`              // fresh groups tried
	Barrier bool     `json:"barrier,omitempty"` // hold every first request inside the first failing member until all are inside
	Stagger int      `json:"stagger,omitempty"` // barrier variant: the k-th request leaves the member k*Stagger ns after the barrier opened (busy wait; 0 = all at once)
	Kinds   []string `json:"kinds"`             // get | has | get-absent | has-absent, cycled over the requests
	Perturb []int    `json:"perturb,omitempty"`
}

func (rc *RaceCase) sane() bool {
	if rc == nil || rc.Members < 2 || rc.Members > 6 || rc.Healthy < 0 || rc.Healthy >= rc.Members || rc.Start < 0 || rc.Start >= rc.Members {
		return false
	}
	if rc.Workers < 1 || rc.Workers > 64 || rc.Burst < 1 || rc.Burst > 8 || rc.Iter < 1 || rc.Iter > 2000 || len(rc.Kinds) == 0 {
		return false
	}
	for _, k := range rc.Kinds {
		switch k {
		case "get", "has", "get-absent", "has-absent":
		default:
			return false
		}
	}
	return true
}

func genRace(t *rapid.T, c *Case) {
	g := &gctx{t: t}
	rc := &RaceCase{}
	rc.Members = pick(g, []int{3, 3, 3, 4, 4, 5}, "rmembers")
	rc.Barrier = g.pct(55, "barrier")
	if rc.Barrier {
		// the group starts on member 0; at least two failing members come before the healthy one
		rc.Healthy = g.rng(2, rc.Members-1, "rhealthy")
		rc.Workers = pick(g, []int{4, 8, 16, 16, 24, 32, 32, 48}, "rworkers")
		rc.Burst = pick(g, []int{1, 1, 2}, "rburst")
		rc.Stagger = pick(g, []int{0, 0, 0, 100, 300, 1000}, "rstagger")
		rc.Iter = hx.Pick(60, 150)
	} else {
		rc.Healthy = g.rng(0, rc.Members-1, "rhealthy")
		rc.Start = g.rng(0, rc.Members-1, "rstart")
		rc.Workers = g.rng(2, hx.Pick(12, 16), "rworkers")
		rc.Burst = g.rng(1, 4, "rburst")
		rc.Iter = hx.Pick(25, 60)
		n := g.rng(1, 10, "plen")
		for i := 0; i < n; i++ {
			rc.Perturb = append(rc.Perturb, pick(g, []int{0, 0, 0, 1, 1, 2, 3, 4, 5}, "perturb"))
		}
	}
	n := g.rng(1, 4, "nkinds")
	for i := 0; i < n; i++ {
		rc.Kinds = append(rc.Kinds, pick(g, []string{"get", "get", "get", "has", "get-absent", "has-absent"}, "rkind"))
	}
	c.Race = rc
}

// distance: failing members a request meets before the healthy one when the group stands on from.
func (rc *RaceCase) distance(from int) int {
	return ((rc.Healthy-from)%rc.Members + rc.Members) % rc.Members
}

func runRace(c Case, o *hx.Outcome) {
	rc := c.Race
	o.Class("mode:race")
	if !rc.sane() {
		o.Desc = map[string]any{"mode": "race", "shape": "unbuildable"}
		o.Class("unbuildable-spec")
		return
	}
	u := newUniverse(c.Seed)
	const held, absent = 0, nIDs - 1

	var pidx atomic.Int64
	vec := rc.Perturb
	if len(vec) > 0 {
		desync.VerifHook = func(site string) {
			v := vec[int(pidx.Add(1)-1)%len(vec)]
			switch {
			case v <= 0:
			case v <= 3:
				for i := 0; i < v; i++ {
					runtime.Gosched()
				}
			default:
				if v > 7 {
					v = 7
				}
				time.Sleep(time.Duration(1<<(v-2)) * time.Microsecond) // shakes the schedule only
			}
		}
	}
	defer func() { desync.VerifHook = nil }()

	type failure struct {
		iter, worker, req int
		kind, class       string
		err               error
	}
	var (
		fmu      sync.Mutex
		failures []failure
		panics   []string
		requests int
		faults   int
		heldMax  int
	)
	start := rc.Start
	if rc.Barrier {
		start = 0
	}

	for it := 0; it < rc.Iter && len(failures) == 0 && len(panics) == 0; it++ {
		leaves := make([]*dx.MemStore, rc.Members)
		stores := make([]desync.Store, rc.Members)
		for j := range leaves {
			ms := dx.NewMemStore(fmt.Sprintf("M%d", j))
			ms.Put(u.ids[held], u.data[held])
			leaves[j] = ms
			stores[j] = dx.ReadOnlyStore{S: ms}
		}
		g := desync.NewFailoverGroup(stores...)
		// warm-up through the public interface: members before start fail once, start answers
		if start > 0 {
			for j := 0; j < start; j++ {
				setDown(leaves[j], true)
			}
			g.HasChunk(u.ids[held])
			for j := 0; j < start; j++ {
				setDown(leaves[j], false)
			}
		}
		for j, ms := range leaves {
			setDown(ms, j != rc.Healthy)
			ms.ResetLog()
		}

		// barrier inside the member the group stands on: opens when every worker is inside it (or has
		// returned, should the code under test ever send a first request elsewhere)
		var inside, finished atomic.Int64
		open := make(chan struct{})
		var once sync.Once
		check := func() {
			if inside.Load()+finished.Load() >= int64(rc.Workers) {
				once.Do(func() { close(open) })
			}
		}
		if rc.Barrier && start != rc.Healthy {
			leaves[start].Gate = func(kind string, n int, id desync.ChunkID) {
				k := inside.Add(1)
				check()
				<-open // closed once all are inside: later visits pass
				if rc.Stagger > 0 && k <= int64(rc.Workers) {
					// spread the late reports over the time the first requests need for their next attempts
					// (shakes the schedule only; no verdict depends on the clock)
					d := time.Duration((k-1)*int64(rc.Stagger)) * time.Nanosecond
					for t0 := time.Now(); time.Since(t0) < d; {
					}
				}
			}
		}

		var wg sync.WaitGroup
		begin := make(chan struct{})
		for w := 0; w < rc.Workers; w++ {
			wg.Add(1)
			go func(w int) {
				defer wg.Done()
				defer func() {
					if r := recover(); r != nil {
						fmu.Lock()
						panics = append(panics, fmt.Sprintf("worker %d: %v", w, r))
						fmu.Unlock()
					}
					finished.Add(1)
					check()
				}()
				<-begin
				for i := 0; i < rc.Burst; i++ {
					kind := rc.Kinds[(w*rc.Burst+i)%len(rc.Kinds)]
					var class string
					var err error
					switch kind {
					case "get":
						var ch *desync.Chunk
						ch, err = g.GetChunk(u.ids[held])
						class = u.classGet(held, ch, err)
					case "has":
						var h bool
						h, err = g.HasChunk(u.ids[held])
						class = classHas(h, err)
					case "get-absent":
						var ch *desync.Chunk
						ch, err = g.GetChunk(u.ids[absent])
						class = u.classGet(absent, ch, err)
					default:
						var h bool
						h, err = g.HasChunk(u.ids[absent])
						class = classHas(h, err)
					}
					want := map[string]string{"get": cData, "has": cTrue, "get-absent": cMissing, "has-absent": cFalse}[kind]
					if class != want {
						fmu.Lock()
						failures = append(failures, failure{it, w, i, kind, class, err})
						fmu.Unlock()
					}
				}
			}(w)
		}
		close(begin)
		wg.Wait()
		requests += rc.Workers * rc.Burst
		for _, ms := range leaves {
			faults += ms.Delivered()
		}
		if n := int(inside.Load()); n > heldMax {
			heldMax = min(n, rc.Workers)
		}
	}
	desync.VerifHook = nil

	where := fmt.Sprintf("failover group of %d members, only member %d healthy (all others fail every call), group standing on member %d, %d goroutines x %d requests, barrier %v, perturbation %v",
		rc.Members, rc.Healthy, start, rc.Workers, rc.Burst, rc.Barrier, rc.Perturb)
	for _, p := range panics {
		o.Fail("panic", "panic in a goroutine of the race phase: %s — %s", p, where)
	}
	seen := map[string]bool{}
	for _, f := range failures {
		sig := "C11:failover:failed-with-healthy-member"
		what := "failed although one member is healthy throughout and a request has as many attempts as the group has members"
		switch {
		case f.class == cWrong:
			sig, what = "C11:failover:wrong-bytes", "returned bytes that are not the chunk"
		case (f.kind == "get-absent" || f.kind == "has-absent") && f.class == cErr:
			sig, what = "C11:failover:masked-missing", "failed; no member holds the chunk, ChunkMissing/false is the documented answer"
		case f.kind == "get-absent" || f.kind == "has-absent":
			sig, what = "C11:conc:absent-reported-present", "reported a chunk that no member holds"
		case f.class != cErr:
			sig, what = "C11:conc:present-reported-missing", "did not find a chunk every member holds"
		case !errors.Is(f.err, dx.ErrInjected):
			sig, what = "C11:failover:unexpected-error", "failed with an error no member produced"
		}
		if seen[sig] {
			continue
		}
		seen[sig] = true
		o.Fail(sig, "iteration %d, goroutine %d, request %d: %s returned %s (%v): %s — %s", f.iter, f.worker, f.req, f.kind, f.class, f.err, what, where)
	}

	down := rc.Members - 1
	if rc.Members >= 3 && down >= 2 && rc.Workers >= 2 {
		if rc.Barrier {
			o.Class("failover:3+members:2+down:barrier")
		} else {
			o.Class("failover:3+members:2+down:concurrent")
		}
	}
	if rc.distance(start) >= 2 {
		o.Class("race:2+failing-members-before-healthy")
	}
	if heldMax >= 2 {
		o.Class("race:requests-held-inside-failing-member")
	}
	o.Class(fmt.Sprintf("race:members:%d", rc.Members))
	o.Nontrivial = faults > 0 && rc.Workers >= 2
	o.Desc = map[string]any{"mode": "race", "members": rc.Members, "healthy": rc.Healthy, "start": start, "workers": rc.Workers, "burst": rc.Burst,
		"iterations": rc.Iter, "barrier": rc.Barrier, "requests": requests, "member_failures": faults, "kinds": rc.Kinds}
}

// TestRaceEnum: the barrier schedule on a fixed grid (one shard), so that every run drives the
// late-report interleaving a few thousand times whatever the generator draws.
func TestRaceEnum(t *testing.T) {
	if hx.Shard() != 2%hx.Shards() {
		t.Skip("other shard")
	}
	n := 0
	for _, mh := range [][2]int{{3, 2}, {4, 3}, {4, 2}} {
		for _, workers := range []int{16, 32} {
			for _, stagger := range []int{0, 300} {
				rc := &RaceCase{Members: mh[0], Healthy: mh[1], Workers: workers, Burst: 1, Iter: hx.Pick(600, 1500), Barrier: true, Stagger: stagger,
					Kinds: []string{"get", "has", "get", "get-absent"}}
				n++
				if !hx.Case(t, spec, Case{Mode: "race", Seed: uint64(40 + n), Race: rc}) {
					return
				}
			}
		}
	}
	hx.Note("race_enumerated_cases", n)
}
