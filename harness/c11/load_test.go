package c11

// Swap under load ("load" mode): "swapping the store under load never fails or corrupts an
// in-flight request" — and, before anything else, both the request and the Swap have to return.
//
// Directed variant. The leaf below the swap store is gated (dx.MemStore.Gate): the requests of
// the case are parked INSIDE the wrapped store, holding whatever the swap store holds while a
// request is in flight. Then Swap is started in its own goroutine(s) and the harness waits until
// the Go runtime reports that goroutine blocked in a lock acquisition, i.e. the Swap is queued
// behind the in-flight requests. Only then the requests are let go, each with the outcome the
// case prescribes: data / ChunkMissing / injected store failure / ChunkInvalid for get, true /
// false / failure for has, ok / failure for store. Demands:
//
//	every request returns, with the result of the reference model (the old store answers it)
//	every Swap returns nil, and not before the requests it had to wait for have left the old store
//	the old store is closed once, nothing is entered after its Close
//	afterwards requests are served by the new store
//
// "Does not return" is not judged by a clock alone: the verdict C11:swap:deadlock-under-load
// needs every goroutine that is still out to sit in a lock wait (runtime goroutine status) with
// all gates open, unchanged over several polls. Nothing the harness still holds can wake them
// then, so a replay gives the same verdict. A deadline without that state is inconclusive.
//
// Random variant. Goroutines issue bursts of such requests (a share of them failing) while a
// controller swaps repeatedly; yields/sleeps from a generated vector run inside the leaf and at
// swap.locked. Same demands.

import (
	"bytes"
	"errors"
	"fmt"
	"runtime"
	"sort"
	"strconv"
	"strings"
	"sync"
	"sync/atomic"
	"testing"
	"time"

	"github.com/folbricht/desync"
	"pgregory.net/rapid"

	"verifharness/internal/dx"
	"verifharness/internal/hx"
	"verifharness/internal/sched"
)

type LoadReq struct {
	Op string `json:"op"` // get | has | store
	ID int    `json:"id"`
}

type LoadCase struct {
	Wrap      string    `json:"wrap"`               // leaf | router : what the swap store wraps (router = StoreRouter over the leaf)
	Writable  bool      `json:"writable,omitempty"` // SwapWriteStore over a writable leaf (wrap must be leaf)
	Cont      []int     `json:"cont"`               // leaf content per ID: 0 absent, 1 valid, 2 invalid object
	FailGet   bool      `json:"fail_get,omitempty"` // every GetChunk / HasChunk / StoreChunk of the OLD leaf fails (not ChunkMissing)
	FailHas   bool      `json:"fail_has,omitempty"`
	FailStore bool      `json:"fail_store,omitempty"`
	Reqs      []LoadReq `json:"reqs"`            // directed: parked inside the old leaf when Swap is called; random: cycled by the workers
	Swaps     int       `json:"swaps"`           // Swap calls (directed: all queued behind the parked requests)
	After     []LoadReq `json:"after,omitempty"` // directed: requests once every Swap has returned
	// random variant
	Random  bool  `json:"random,omitempty"`
	Workers int   `json:"workers,omitempty"`
	Burst   int   `json:"burst,omitempty"`
	Perturb []int `json:"perturb,omitempty"`
}

const (
	loadDeadline = 12 * time.Second // far beyond anything a live run needs; a verdict also needs the deadlock state
	loadStable   = 8                // consecutive polls (25 ms apart) with every straggler in a lock wait
)

func (lc *LoadCase) sane() bool {
	if lc == nil || (lc.Wrap != "leaf" && lc.Wrap != "router") || (lc.Writable && lc.Wrap != "leaf") {
		return false
	}
	okReqs := func(rs []LoadReq, max int) bool {
		if len(rs) > max {
			return false
		}
		for _, r := range rs {
			if r.ID < 0 || r.ID >= nIDs {
				return false
			}
			switch r.Op {
			case "get", "has":
			case "store":
				if !lc.Writable {
					return false
				}
			default:
				return false
			}
		}
		return true
	}
	for _, c := range lc.Cont {
		if c < 0 || c > 2 {
			return false
		}
	}
	if len(lc.Reqs) < 1 || !okReqs(lc.Reqs, 8) || !okReqs(lc.After, 8) || lc.Swaps < 1 || lc.Swaps > 4 {
		return false
	}
	if lc.Random {
		if lc.Workers < 1 || lc.Workers > 16 || lc.Burst < 1 || lc.Burst > 8 {
			return false
		}
		for _, r := range lc.Reqs { // a store of something the leaf does not hold would change later answers
			if r.Op == "store" && contAt(lc.Cont, r.ID) != 1 {
				return false
			}
		}
	}
	return true
}

func (lc *LoadCase) fails(op string) bool {
	return (op == "get" && lc.FailGet) || (op == "has" && lc.FailHas) || (op == "store" && lc.FailStore)
}

// want: the model's answer of the OLD store (old == true) or of a swapped-in one (healthy, same content).
func (lc *LoadCase) want(r LoadReq, old bool, stored map[int]bool) string {
	if old && lc.fails(r.Op) {
		return cErr
	}
	c := contAt(lc.Cont, r.ID)
	if stored[r.ID] {
		c = 1
	}
	switch r.Op {
	case "get":
		switch c {
		case 0:
			return cMissing
		case 1:
			return cData
		}
		return cErr
	case "has":
		if c != 0 {
			return cTrue
		}
		return cFalse
	}
	return cOK
}

func genLoad(t *rapid.T, c *Case) {
	g := &gctx{t: t}
	lc := &LoadCase{Cont: []int{1, 0, 2, 1}}
	lc.Writable = g.pct(30, "lwritable")
	lc.Wrap = "leaf"
	if !lc.Writable && g.pct(50, "lrouter") {
		lc.Wrap = "router"
	}
	lc.Cont[3] = pick(g, []int{0, 1, 2}, "lcont3")
	lc.FailGet = g.pct(30, "lfailget")
	lc.FailHas = g.pct(40, "lfailhas")
	lc.FailStore = lc.Writable && g.pct(50, "lfailstore")
	lc.Random = g.pct(45, "lrandom")
	ops := []string{"get", "get", "get", "has"}
	if lc.Writable {
		ops = append(ops, "store", "store")
	}
	req := func() LoadReq {
		r := LoadReq{Op: pick(g, ops, "lop"), ID: g.rng(0, nIDs-1, "lid")}
		if lc.Random && r.Op == "store" && lc.Cont[r.ID] != 1 {
			r.ID = 0
		}
		return r
	}
	n := g.rng(1, 3, "lnreq")
	if lc.Random {
		n = g.rng(2, 6, "lnreq")
	}
	for i := 0; i < n; i++ {
		lc.Reqs = append(lc.Reqs, req())
	}
	lc.Swaps = pick(g, []int{1, 1, 2}, "lswaps")
	if lc.Random {
		lc.Workers = g.rng(2, hx.Pick(6, 8), "lworkers")
		lc.Burst = g.rng(1, 4, "lburst")
		lc.Swaps = g.rng(1, 4, "lswaps")
		k := g.rng(1, 10, "plen")
		for i := 0; i < k; i++ {
			lc.Perturb = append(lc.Perturb, pick(g, []int{0, 0, 1, 1, 2, 3, 4, 5, 6}, "perturb"))
		}
	} else {
		k := g.rng(0, 3, "lnafter")
		for i := 0; i < k; i++ {
			lc.After = append(lc.After, req())
		}
	}
	c.Load = lc
}

// ---------------------------------------------------------------- goroutine states

func goroutineDump() []byte {
	buf := make([]byte, 1<<16)
	for {
		n := runtime.Stack(buf, true)
		if n < len(buf) {
			return buf[:n]
		}
		buf = make([]byte, 2*len(buf))
	}
}

// statesOf returns the runtime wait state and the stack of the goroutines with the given ids.
func statesOf(ids map[int]string) (state map[int]string, stacks map[int]string) {
	state, stacks = map[int]string{}, map[int]string{}
	for _, blk := range bytes.Split(goroutineDump(), []byte("\n\n")) {
		if !bytes.HasPrefix(blk, []byte("goroutine ")) {
			continue
		}
		line := blk
		if i := bytes.IndexByte(blk, '\n'); i >= 0 {
			line = blk[:i]
		}
		f := bytes.Fields(line)
		if len(f) < 3 {
			continue
		}
		id, err := strconv.Atoi(string(f[1]))
		if err != nil {
			continue
		}
		if _, ok := ids[id]; !ok {
			continue
		}
		l, r := bytes.IndexByte(line, '['), bytes.LastIndexByte(line, ']')
		if l < 0 || r < l {
			continue
		}
		st := string(line[l+1 : r])
		if c := strings.IndexByte(st, ','); c >= 0 {
			st = st[:c]
		}
		state[id] = st
		stacks[id] = string(blk)
	}
	return state, stacks
}

// lockWait: the goroutine waits for a sync lock (names of Go 1.20+ and the older generic one).
func lockWait(st string) bool {
	return strings.HasPrefix(st, "sync.RWMutex.") || strings.HasPrefix(st, "sync.Mutex.") || st == "semacquire"
}

// ---------------------------------------------------------------- runner

type loadParty struct {
	name string
	gid  atomic.Int64
	done chan struct{}
	// result
	class string
	err   error
}

func runLoad(c Case, o *hx.Outcome) {
	lc := c.Load
	o.Class("mode:load")
	if !lc.sane() {
		o.Desc = map[string]any{"mode": "load", "shape": "unbuildable"}
		o.Class("unbuildable-spec")
		return
	}
	u := newUniverse(c.Seed)

	var pidx atomic.Int64
	vec := lc.Perturb
	shake := func() {
		if len(vec) == 0 {
			return
		}
		v := vec[int(pidx.Add(1)-1)%len(vec)]
		switch {
		case v <= 0:
		case v <= 3:
			for i := 0; i < v; i++ {
				runtime.Gosched()
			}
		default:
			if v > 7 {
				v = 7
			}
			time.Sleep(time.Duration(1<<(v-2)) * time.Microsecond) // shakes the schedule only
		}
	}
	if lc.Random {
		desync.VerifHook = func(site string) { shake() }
	}
	defer func() { desync.VerifHook = nil }()

	// ---- stores
	var all []*dx.MemStore
	mkLeaf := func(name string, old bool) *dx.MemStore {
		ms := dx.NewMemStore(name)
		for i := 0; i < nIDs; i++ {
			switch contAt(lc.Cont, i) {
			case 1:
				ms.Put(u.ids[i], u.data[i])
			case 2:
				ms.Put(u.ids[i], u.bad[i])
			}
		}
		if old {
			ms.FailAll("get", lc.FailGet)
			ms.FailAll("has", lc.FailHas)
			ms.FailAll("store", lc.FailStore)
		}
		all = append(all, ms)
		return ms
	}
	wrap := func(ms *dx.MemStore) desync.Store {
		switch {
		case lc.Writable:
			return ms
		case lc.Wrap == "router":
			return desync.NewStoreRouter(dx.ReadOnlyStore{S: ms})
		}
		return dx.ReadOnlyStore{S: ms}
	}
	oldLeaf := mkLeaf("old", !lc.Random)
	if lc.Random { // in the random variant every version fails alike, so that answers do not depend on the version
		oldLeaf.FailAll("get", lc.FailGet)
		oldLeaf.FailAll("has", lc.FailHas)
		oldLeaf.FailAll("store", lc.FailStore)
	}
	var entered atomic.Int64
	release := make(chan struct{})
	if lc.Random {
		oldLeaf.OnCall = func(string, int, desync.ChunkID) { shake() }
	} else {
		oldLeaf.Gate = func(string, int, desync.ChunkID) {
			entered.Add(1)
			<-release
		}
	}
	var (
		top     desync.Store
		swapper interface{ Swap(desync.Store) error }
	)
	if lc.Writable {
		s := desync.NewSwapWriteStore(wrap(oldLeaf))
		top, swapper = s, s
	} else {
		s := desync.NewSwapStore(wrap(oldLeaf))
		top, swapper = s, s
	}
	var news []*dx.MemStore
	for i := 0; i < lc.Swaps; i++ {
		nl := mkLeaf(fmt.Sprintf("new%d", i), false)
		if lc.Random {
			nl.FailAll("get", lc.FailGet)
			nl.FailAll("has", lc.FailHas)
			nl.FailAll("store", lc.FailStore)
			nl.OnCall = func(string, int, desync.ChunkID) { shake() }
		}
		news = append(news, nl)
	}

	// ---- parties
	var parties []*loadParty
	var pmu sync.Mutex
	var panics []string
	spawn := func(name string, body func(p *loadParty)) *loadParty {
		p := &loadParty{name: name, done: make(chan struct{})}
		parties = append(parties, p)
		go func() {
			defer close(p.done)
			defer func() {
				if r := recover(); r != nil {
					pmu.Lock()
					panics = append(panics, fmt.Sprintf("%s: %v", name, r))
					pmu.Unlock()
				}
			}()
			p.gid.Store(int64(sched.GoID()))
			body(p)
		}()
		return p
	}
	do := func(r LoadReq) (string, error) {
		switch r.Op {
		case "get":
			ch, err := top.GetChunk(u.ids[r.ID])
			return u.classGet(r.ID, ch, err), err
		case "has":
			h, err := top.HasChunk(u.ids[r.ID])
			return classHas(h, err), err
		}
		err := top.(desync.WriteStore).StoreChunk(desync.NewChunk(append([]byte(nil), u.data[r.ID]...)))
		return classStore(err), err
	}
	finished := func(ps []*loadParty) bool {
		for _, p := range ps {
			select {
			case <-p.done:
			default:
				return false
			}
		}
		return true
	}

	// await: wait for the parties. Returns "" when all returned, "deadlock" when every party still
	// out has been sitting in a lock wait for loadStable polls, "deadline" otherwise.
	var stuck string
	await := func(ps []*loadParty) string {
		deadline := time.Now().Add(loadDeadline)
		stable := 0
		for i := 0; ; i++ {
			if finished(ps) {
				return ""
			}
			if i < 200 {
				runtime.Gosched()
				if i > 20 {
					time.Sleep(20 * time.Microsecond)
				}
				continue
			}
			time.Sleep(25 * time.Millisecond)
			ids := map[int]string{}
			for _, p := range ps {
				select {
				case <-p.done:
				default:
					ids[int(p.gid.Load())] = p.name
				}
			}
			if len(ids) == 0 {
				continue
			}
			st, stacks := statesOf(ids)
			allLocked := len(st) == len(ids)
			for _, s := range st {
				if !lockWait(s) {
					allLocked = false
				}
			}
			if allLocked && !finished(ps) {
				stable++
			} else {
				stable = 0
			}
			if stable >= loadStable {
				var names []string
				for id, name := range ids {
					names = append(names, fmt.Sprintf("%s [%s]", name, st[id]))
				}
				sort.Strings(names)
				stuck = strings.Join(names, ", ")
				for id := range ids {
					if s := stacks[id]; strings.Contains(s, "RLock") {
						stuck += "\n" + clip(s)
						break
					}
				}
				return "deadlock"
			}
			if time.Now().After(deadline) {
				return "deadline"
			}
		}
	}

	stored := map[int]bool{}
	queuedBehind, queuedBehindFailing := false, false
	desc := fmt.Sprintf("swap store over %s (writable %v, content %v, old store fails get/has/store: %v/%v/%v), requests %v, %d swap(s)",
		lc.Wrap, lc.Writable, lc.Cont, lc.FailGet, lc.FailHas, lc.FailStore, lc.Reqs, lc.Swaps)
	verdict := func(res string, what string) bool {
		switch res {
		case "deadlock":
			o.Fail("C11:swap:deadlock-under-load", "%s: neither returns, all of them wait for a lock and nothing is left that could release it: %s — %s", what, stuck, desc)
			return false
		case "deadline":
			o.Class("load:inconclusive:deadline-without-deadlock-state")
			hx.AddNote("load_inconclusive_deadline", 1)
			return false
		}
		return true
	}

	func() {
		if !lc.Random {
			// ---- 1. park the requests inside the old store
			var reqs []*loadParty
			for i, r := range lc.Reqs {
				r := r
				reqs = append(reqs, spawn(fmt.Sprintf("request %d %s(id%d)", i, r.Op, r.ID), func(p *loadParty) { p.class, p.err = do(r) }))
			}
			for i := 0; entered.Load() < int64(len(lc.Reqs)) && !finished(reqs); i++ {
				runtime.Gosched()
				if i > 50 {
					time.Sleep(20 * time.Microsecond)
				}
				if i > 500000 {
					break
				}
			}
			if entered.Load() < int64(len(lc.Reqs)) {
				close(release)
				await(reqs)
				o.Fail("C11:harness:request-did-not-reach-the-store", "only %d of %d requests entered the wrapped store — %s", entered.Load(), len(lc.Reqs), desc)
				return
			}
			// ---- 2. Swap, and wait until the runtime shows it queued on the lock
			var swaps []*loadParty
			for i := 0; i < lc.Swaps; i++ {
				nl := news[i]
				swaps = append(swaps, spawn(fmt.Sprintf("Swap %d", i), func(p *loadParty) {
					p.err = swapper.Swap(wrap(nl))
					p.class = classStore(p.err)
				}))
			}
			queued := 0
			for i := 0; i < 4000 && queued < len(swaps) && !finished(swaps); i++ {
				ids := map[int]string{}
				for _, p := range swaps {
					if g := int(p.gid.Load()); g != 0 {
						ids[g] = p.name
					}
				}
				st, _ := statesOf(ids)
				queued = 0
				for _, s := range st {
					if lockWait(s) {
						queued++
					}
				}
				if queued < len(swaps) {
					runtime.Gosched()
					if i > 20 {
						time.Sleep(50 * time.Microsecond)
					}
				}
			}
			// a Swap that is through while requests are still inside the old store has closed it under them
			early := false
			for _, p := range swaps {
				select {
				case <-p.done:
					early = true
				default:
				}
			}
			if early || oldLeaf.Count("close") > 0 {
				o.Fail("C11:swap:closed-store-under-inflight-request", "Swap returned / the old store was closed (%d Close calls) while %d request(s) were still inside it — %s", oldLeaf.Count("close"), len(lc.Reqs), desc)
			}
			if queued == len(swaps) {
				queuedBehind = true
				for _, r := range lc.Reqs {
					if w := lc.want(r, true, nil); w == cErr {
						queuedBehindFailing = true
					}
				}
			} else if !early {
				o.Class("load:swap-not-seen-queued")
			}
			// ---- 3. let the requests go
			close(release)
			res := await(append(append([]*loadParty(nil), reqs...), swaps...))
			if !verdict(res, "in-flight request(s) and queued Swap") {
				return
			}
			// a parked store that changes what the old store holds races with the other parked requests
			// for that ID: their answer depends on the order inside the store, no expectation
			dirty := map[int]bool{}
			for _, r := range lc.Reqs {
				if r.Op == "store" && !lc.FailStore && contAt(lc.Cont, r.ID) != 1 {
					dirty[r.ID] = true
				}
			}
			for i, p := range reqs {
				r := lc.Reqs[i]
				want := lc.want(r, true, nil)
				if r.Op != "store" && dirty[r.ID] && !lc.fails(r.Op) {
					o.Class("load:order-dependent-answer-not-judged")
					continue
				}
				if p.class != want {
					sig := "C11:swap:request-failed"
					if p.class == cWrong {
						sig = "C11:swap:corrupted-request"
					} else if want == cErr || want == cMissing || want == cFalse {
						sig = "C11:swap:load:want-" + want + "-got-" + p.class
					}
					o.Fail(sig, "%s was in flight in the old store when Swap was called and returned %s (%v); the old store answers %s — %s", p.name, p.class, p.err, want, desc)
				}
				if want == cErr && p.class == cErr && !lc.fails(r.Op) && !isInvalid(p.err) {
					o.Fail("C11:swap:load:error-kind-lost", "%s: the stored object is invalid, the error is %v (ChunkInvalid lost) — %s", p.name, p.err, desc)
				}
				if want == cErr && lc.fails(r.Op) && p.class == cErr && !errors.Is(p.err, dx.ErrInjected) {
					o.Fail("C11:swap:load:error-kind-lost", "%s: the store failed with the injected error, the caller got %v — %s", p.name, p.err, desc)
				}
			}
			for _, p := range swaps {
				if p.err != nil {
					o.Fail("C11:swap:swap-failed", "%s returned %v — %s", p.name, p.err, desc)
				}
			}
			if n := oldLeaf.Count("close"); n != 1 {
				sig := "C11:swap:old-store-not-closed"
				if n > 1 {
					sig = "C11:swap:old-store-closed-twice"
				}
				o.Fail(sig, "after %d Swap(s) the store that was replaced first has seen %d Close calls — %s", lc.Swaps, n, desc)
			}
			closedNew := 0
			for _, nl := range news {
				closedNew += nl.Count("close")
			}
			if closedNew != lc.Swaps-1 {
				o.Fail("C11:swap:replaced-stores-close-count", "%d Swaps: %d Close calls on the swapped-in stores, expected %d (all but the last one in) — %s", lc.Swaps, closedNew, lc.Swaps-1, desc)
			}
			// ---- 4. afterwards the new store answers
			for i, r := range lc.After {
				r := r
				p := spawn(fmt.Sprintf("later request %d %s(id%d)", i, r.Op, r.ID), func(p *loadParty) { p.class, p.err = do(r) })
				if !verdict(await([]*loadParty{p}), "a request after the swap") {
					return
				}
				want := lc.want(r, false, stored)
				if p.class != want {
					o.Fail("C11:swap:load:after-swap:want-"+want+"-got-"+p.class, "%s after the swap returned %s (%v), the swapped-in store answers %s — %s", p.name, p.class, p.err, want, desc)
				}
				if r.Op == "store" && p.class == cOK {
					stored[r.ID] = true
				}
			}
		} else {
			// ---- random variant
			begin := make(chan struct{})
			var ps []*loadParty
			type rr struct {
				r     LoadReq
				class string
				err   error
			}
			results := make([][]rr, lc.Workers)
			for w := 0; w < lc.Workers; w++ {
				w := w
				ps = append(ps, spawn(fmt.Sprintf("worker %d", w), func(p *loadParty) {
					<-begin
					for i := 0; i < lc.Burst; i++ {
						r := lc.Reqs[(w*lc.Burst+i)%len(lc.Reqs)]
						cl, err := do(r)
						results[w] = append(results[w], rr{r, cl, err})
					}
				}))
			}
			var swapErrs []error
			ps = append(ps, spawn("controller", func(p *loadParty) {
				<-begin
				for i := 0; i < lc.Swaps; i++ {
					shake()
					if err := swapper.Swap(wrap(news[i])); err != nil {
						swapErrs = append(swapErrs, err)
					}
				}
			}))
			close(begin)
			if !verdict(await(ps), "workers and controller") {
				return
			}
			for _, e := range swapErrs {
				o.Fail("C11:swap:swap-failed", "Swap returned %v — %s", e, desc)
			}
			seen := map[string]bool{}
			for w, rs := range results {
				for i, x := range rs {
					want := lc.want(x.r, true, nil) // every version holds the same and fails alike
					if x.class != want && !seen[want+x.class] {
						seen[want+x.class] = true
						sig := "C11:swap:request-failed"
						if x.class == cWrong {
							sig = "C11:swap:corrupted-request"
						} else if want != cData && want != cTrue && want != cOK {
							sig = "C11:swap:load:want-" + want + "-got-" + x.class
						}
						o.Fail(sig, "worker %d request %d %s(id%d) returned %s (%v) while the store was being swapped; every version answers %s — %s, perturbation %v", w, i, x.r.Op, x.r.ID, x.class, x.err, want, desc, lc.Perturb)
					}
				}
			}
			closed := oldLeaf.Count("close")
			for _, nl := range news {
				closed += nl.Count("close")
			}
			if closed != lc.Swaps {
				o.Fail("C11:swap:replaced-stores-close-count", "%d Swaps: %d Close calls on the replaced stores — %s", lc.Swaps, closed, desc)
			}
		}
		for _, l := range all {
			if n := l.UsedAfterClose(); n > 0 {
				o.Fail("C11:swap:use-after-close", "leaf %s was entered %d time(s) after its Close had returned — %s", l.Name, n, desc)
			}
		}
	}()

	for _, p := range panics {
		o.Fail("panic", "panic in a goroutine of the load phase: %s — %s", p, desc)
	}
	failing := false
	for _, r := range lc.Reqs {
		if lc.want(r, true, nil) == cErr {
			failing = true
		}
	}
	switch {
	case lc.Random:
		o.Class("load:random")
		if failing {
			o.Class("load:random:failing-requests-race-with-swaps")
		}
	default:
		o.Class("load:directed")
		if queuedBehind {
			o.Class("swap:queued-behind-inflight-request")
		}
		if queuedBehindFailing {
			o.Class("swap:queued-behind-failing-request")
		}
		for _, r := range lc.Reqs {
			o.Class("load:" + r.Op + ":" + lc.want(r, true, nil))
			if lc.want(r, true, nil) == cErr && r.Op == "get" && !lc.FailGet {
				o.Class("load:get:invalid")
			}
		}
	}
	if lc.Writable {
		o.Class("load:writable")
	}
	o.Class("load:wrap:" + lc.Wrap)
	o.Nontrivial = queuedBehind || (lc.Random && lc.Workers >= 2)
	o.Desc = map[string]any{"mode": "load", "wrap": lc.Wrap, "writable": lc.Writable, "cont": lc.Cont, "fail": []bool{lc.FailGet, lc.FailHas, lc.FailStore},
		"requests": len(lc.Reqs), "swaps": lc.Swaps, "random": lc.Random, "workers": lc.Workers, "burst": lc.Burst, "queued": queuedBehind, "after": len(lc.After)}
}

// TestLoadEnum: op x outcome, fixed (one shard): every kind of request parked in the old store
// with one and with two Swaps queued behind it, bare / behind a router / writable.
func TestLoadEnum(t *testing.T) {
	if hx.Shard() != 1%hx.Shards() {
		t.Skip("other shard")
	}
	n := 0
	try := func(lc *LoadCase) bool {
		n++
		return hx.Case(t, spec, Case{Mode: "load", Seed: uint64(70 + n), Load: lc})
	}
	cont := []int{1, 0, 2, 1}
	for _, swaps := range []int{1, 2} {
		for _, wrap := range []string{"leaf", "router"} {
			// get: data, missing, invalid, store failure; has: true, false, failure
			for _, r := range []struct {
				req  LoadReq
				fail bool
			}{{LoadReq{"get", 0}, false}, {LoadReq{"get", 1}, false}, {LoadReq{"get", 2}, false}, {LoadReq{"get", 0}, true},
				{LoadReq{"has", 0}, false}, {LoadReq{"has", 1}, false}, {LoadReq{"has", 0}, true}} {
				lc := &LoadCase{Wrap: wrap, Cont: cont, Reqs: []LoadReq{r.req}, Swaps: swaps, After: []LoadReq{{"get", 0}, {"has", 1}}}
				lc.FailGet, lc.FailHas = r.fail && r.req.Op == "get", r.fail && r.req.Op == "has"
				if !try(lc) {
					return
				}
			}
			// two requests in flight, one of them failing
			if !try(&LoadCase{Wrap: wrap, Cont: cont, Reqs: []LoadReq{{"get", 0}, {"get", 2}}, Swaps: swaps, After: []LoadReq{{"get", 2}}}) {
				return
			}
		}
		for _, r := range []struct {
			req  LoadReq
			fail bool
		}{{LoadReq{"store", 1}, false}, {LoadReq{"store", 1}, true}, {LoadReq{"get", 2}, false}, {LoadReq{"get", 0}, true}, {LoadReq{"has", 0}, true}} {
			lc := &LoadCase{Wrap: "leaf", Writable: true, Cont: cont, Reqs: []LoadReq{r.req}, Swaps: swaps, After: []LoadReq{{"store", 1}, {"get", 1}}}
			lc.FailGet, lc.FailHas, lc.FailStore = r.fail && r.req.Op == "get", r.fail && r.req.Op == "has", r.fail && r.req.Op == "store"
			if !try(lc) {
				return
			}
		}
	}
	hx.Exhaustive("swap under load, directed: request in flight inside the old store x {get: data, missing, invalid object, store failure; has: true, false, failure; store: ok, failure} x {bare, behind a router, writable} x 1..2 Swaps queued behind it")
	hx.Note("load_enumerated_cases", n)
}
