package c11

import (
	"fmt"
	"testing"

	"verifharness/internal/hx"
)

// small constructors for CLI cases
func cm(kind string, cont ...int) CLIMember {
	c := make([]int, nIDs)
	copy(c, cont)
	return CLIMember{Kind: kind, Cont: c}
}
func cdown(m CLIMember, how string) CLIMember { m.Down = how; return m }
func cs(ms ...CLIMember) CLIStore             { return CLIStore{Members: ms} }
func ccache(m CLIMember) *CLIMember           { return &m }

// TestCLIEnum: a fixed grid of CLI chains, so that the shapes the statement names are exercised in
// every run whatever the generator happens to draw:
// {extract, cat} x cache {dir, http, raw} x --cache-repair {default, false} x upstream {one
// directory; router of an HTTP store lacking the chunk and a directory; failover group whose
// first member is down}, the cache holding one valid, one invalid and one absent chunk.
func TestCLIEnum(t *testing.T) {
	if hx.Shard() != hx.Shards()-1 { // shard 0 already carries the library enumerations
		t.Skip("not the last shard")
	}
	if cliBin() == "" {
		t.Skip("VERIF_DESYNC_BIN not set")
	}
	ups := []func() []CLIStore{
		func() []CLIStore { return []CLIStore{cs(cm("dir", 1, 1, 1))} },
		func() []CLIStore { return []CLIStore{cs(cm("http", 1, 0, 0)), cs(cm("dir", 1, 1, 1))} },
		func() []CLIStore {
			return []CLIStore{cs(cdown(cm("http", 1, 1, 1), "refused"), cm("raw", 1, 1, 1))}
		},
	}
	n := 0
	for _, cmd := range []string{"extract", "cat"} {
		for _, ck := range []string{"dir", "http", "raw"} {
			for _, rep := range []string{"", "false"} {
				for ui, up := range ups {
					cl := &CLICase{Cmd: cmd, Repair: rep, N: 1 + (ui+n)%2, Retry: 1, Index: []int{0, 1, 2, 1},
						Conf: CLIConf{Stores: up(), Cache: ccache(cm(ck, 1, 2, 0))}}
					n++
					if !hx.Case(t, spec, Case{Mode: "cli", Seed: uint64(100 + n), CLI: cl}) {
						return
					}
				}
			}
		}
	}
	// the reloaded chunk server: cache kept across the reload, invalid entry repaired after it
	for _, ck := range []string{"dir", "http"} {
		for _, rep := range []string{"", "false"} {
			cl := &CLICase{Cmd: "server", Repair: rep, N: 2, Retry: 1, SameCache: true,
				Conf:   CLIConf{Stores: []CLIStore{cs(cm("dir", 1, 0, 0))}, Cache: ccache(cm(ck, 0, 2, 0))},
				Reload: &CLIConf{Stores: []CLIStore{cs(cdown(cm("http", 1, 1, 1, 1), "500"), cm("dir", 1, 1, 1, 1))}},
				Reqs:   []int{0, 0, 2}, Reqs2: []int{1, 2, 2, 0}}
			n++
			if !hx.Case(t, spec, Case{Mode: "cli", Seed: uint64(100 + n), CLI: cl}) {
				return
			}
		}
	}
	// mount-index --store-file: reloads between a lone local directory and every kind of chain, and back
	loneA := func() CLIConf { return CLIConf{Stores: []CLIStore{cs(cm("dir", 1, 1, 0))}} }
	chains := []func() CLIConf{
		func() CLIConf {
			return CLIConf{Stores: []CLIStore{cs(cm("dir", 1, 1, 0))}, Cache: ccache(cm("dir", 0, 0, 0))}
		},
		func() CLIConf { return CLIConf{Stores: []CLIStore{cs(cm("dir", 1, 0, 0)), cs(cm("dir", 1, 1, 1))}} },
		func() CLIConf { return CLIConf{Stores: []CLIStore{cs(cm("dir", 1, 1, 1), cm("dir", 1, 1, 1))}} },
		func() CLIConf { return CLIConf{Stores: []CLIStore{cs(cm("http", 1, 1, 1))}} },
		func() CLIConf {
			return CLIConf{Stores: []CLIStore{cs(cm("http", 1, 0, 0)), cs(cm("dir", 1, 1, 1), cm("raw", 1, 1, 1))}, Cache: ccache(cm("http", 0, 0, 0))}
		},
	}
	for i, chn := range chains {
		for _, dirn := range []string{"lone-to-chain", "chain-to-lone"} {
			a, b := loneA(), chn()
			if dirn == "chain-to-lone" {
				a, b = b, a
			}
			cl := &CLICase{Cmd: "mount", N: 1, Retry: 1, Conf: a, Reload: &b, Back: i%2 == 0}
			n++
			if !hx.Case(t, spec, Case{Mode: "cli", Seed: uint64(100 + n), CLI: cl}) {
				return
			}
		}
	}
	hx.Exhaustive("CLI: {extract, cat} x cache {dir, http, raw} x --cache-repair {default, false} x upstream {directory, router(http lacking the chunk, directory), failover(refused|raw)} with a valid, an invalid and an absent cache entry; chunk-server --store-file reloaded by SIGHUP x cache {dir, http} x repair {default, false}; mount-index --store-file reloaded by SIGHUP: lone local directory <-> {directory + cache, two directories, failover group, HTTP store, router + failover + HTTP cache}, half of them there and back")
	hx.Note("cli_enumerated_cases", n)
}

// TestSelfCLI: the order-free evaluation against hand-computed expectations, and the CLI checks
// against a harness side that misbehaves on purpose.
func TestSelfCLI(t *testing.T) {
	bad := func(f string, a ...any) {
		fmt.Println("SELFTEST-FAILURE: " + fmt.Sprintf(f, a...))
		t.Fatalf(f, a...)
	}
	defer func() { cliSelfBug = "" }()

	type exp struct {
		name   string
		cf     CLIConf
		repair bool
		seq    bool
		id     int
		class  string
		cache  string
		answer int
		adv    bool
	}
	grp := cs(cdown(cm("http", 1, 1), "500"), cm("dir", 1, 1))
	for _, e := range []exp{
		{"plain", CLIConf{Stores: []CLIStore{cs(cm("dir", 1))}}, true, false, 0, cData, "", 0, false},
		{"plain-missing", CLIConf{Stores: []CLIStore{cs(cm("dir", 1))}}, true, false, 1, cMissing, "", -1, false},
		{"router-fallthrough", CLIConf{Stores: []CLIStore{cs(cm("dir", 0)), cs(cm("http", 1))}}, true, false, 0, cData, "", 1, false},
		{"router-abort", CLIConf{Stores: []CLIStore{cs(cdown(cm("http", 0), "refused")), cs(cm("dir", 1))}}, true, false, 0, cErr, "", -1, false},
		{"router-invalid-aborts", CLIConf{Stores: []CLIStore{cs(cm("dir", 2)), cs(cm("dir", 1))}}, true, false, 0, cErr, "", -1, false},
		{"failover-advance", CLIConf{Stores: []CLIStore{grp}}, true, false, 0, cData, "", 0, true},
		{"failover-missing-as-is", CLIConf{Stores: []CLIStore{grp, cs(cm("dir", 0, 0, 1))}}, true, false, 2, cData, "", 1, true},
		{"failover-all-down", CLIConf{Stores: []CLIStore{cs(cdown(cm("http", 1), "500"), cdown(cm("raw", 1), "refused"))}}, true, false, 0, cErr, "", -1, true},
		{"failover-mixed-seq", CLIConf{Stores: []CLIStore{cs(cm("dir", 2), cm("dir", 1))}}, true, true, 0, cData, "", 0, true},
		{"failover-mixed-conc", CLIConf{Stores: []CLIStore{cs(cm("dir", 2), cm("dir", 1))}}, true, false, 0, cUnknown, "", -1, false},
		{"cache-hit-upstream-down", CLIConf{Stores: []CLIStore{cs(cdown(cm("http", 1), "500"))}, Cache: ccache(cm("dir", 1))}, true, false, 0, cData, "hit", -1, false},
		{"cache-fill", CLIConf{Stores: []CLIStore{cs(cm("dir", 1))}, Cache: ccache(cm("http", 0))}, true, false, 0, cData, "fill", 0, false},
		{"cache-repair", CLIConf{Stores: []CLIStore{cs(cm("dir", 1))}, Cache: ccache(cm("http", 2))}, true, false, 0, cData, "repair", 0, false},
		{"cache-invalid-no-repair", CLIConf{Stores: []CLIStore{cs(cm("dir", 1))}, Cache: ccache(cm("http", 2))}, false, false, 0, cErr, "", -1, false},
		{"cache-repair-upstream-missing", CLIConf{Stores: []CLIStore{cs(cm("dir", 0))}, Cache: ccache(cm("dir", 2))}, true, false, 0, cMissing, "", -1, false},
	} {
		r := resolve(e.cf, e.repair, e.id, e.seq)
		if r.class != e.class || r.cache != e.cache || r.answer != e.answer || (e.class != cUnknown && r.advance != e.adv) {
			bad("resolve %s: got %+v, want class %s cache %q answer %d advance %v", e.name, r, e.class, e.cache, e.answer, e.adv)
		}
	}

	if cliBin() == "" || hx.Shard() != 1%hx.Shards() {
		return
	}
	base := func() *CLICase {
		return &CLICase{Cmd: "extract", N: 1, Retry: 1, Index: []int{0, 1, 2},
			Conf: CLIConf{Stores: []CLIStore{cs(cm("http", 1, 0, 1)), cs(cm("http", 1, 1, 1))}, Cache: ccache(cm("http", 1, 2, 0))}}
	}
	skip := false
	try := func(bug string, cl *CLICase, want string) {
		cliSelfBug = bug
		o := run(Case{Mode: "cli", Seed: 9, CLI: cl})
		cliSelfBug = ""
		if want == "" {
			// the baseline runs the command under test: if that is broken the search reports it;
			// the sensitivity tests below are then meaningless and are skipped
			if len(o.Violations) > 0 {
				fmt.Printf("NOTE: CLI self-tests skipped, the command under test violates the property on the baseline case: %v\n", sigs(o))
				skip = true
			}
			return
		}
		if skip {
			return
		}
		if !hasSig(o, want) {
			bad("CLI self-test %q: expected %s, got %v", bug, want, sigs(o))
		}
	}
	try("", base(), "")
	try("repair-flag-lost", base(), "C11:cli:cache:repair-not-applied")
	try("drop-put", base(), "C11:cli:cache:repair-not-replaced")
	try("drop-put", base(), "C11:cli:cache:miss-not-filled")
	try("touch-upstream", base(), "C11:cli:cache:hit-touched-upstream")
	try("touch-upstream", base(), "C11:cli:router:consulted-after-answer")
	srv := func() *CLICase {
		return &CLICase{Cmd: "server", N: 1, Retry: 1, Reqs: []int{0, 1, 1, 2},
			Conf: CLIConf{Stores: []CLIStore{cs(cm("http", 1, 1, 0))}, Cache: ccache(cm("http", 0, 2, 0))}}
	}
	try("", srv(), "")
	try("repair-flag-lost", srv(), "C11:cli:cache:repair-not-applied")
	try("drop-put", srv(), "C11:cli:cache:miss-not-filled")
	// an expectation that the command must fail, turned around: with the flag lost the harness
	// believes repair is off while the command repairs
	if skip {
		return
	}
	cl := base()
	cl.Repair = "false"
	cliSelfBug = "repair-flag-forced"
	o := run(Case{Mode: "cli", Seed: 9, CLI: cl})
	cliSelfBug = ""
	if !hasSig(o, "C11:cli:succeeded:cache-invalid-without-repair") {
		bad("CLI self-test: a command that repairs although the oracle has repair off must be flagged, got %v", sigs(o))
	}
}
