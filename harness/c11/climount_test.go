package c11

// mount-index --store-file reloaded with SIGHUP, without a mount.
//
// `desync mount-index` builds its chain from the store file, wraps it in a SwapStore, starts
// the SIGHUP handler and only then reads the index and mounts. FUSE mounts are not possible in
// the sandbox, but the reload itself can be driven and observed:
//
//	- the index location is an HTTP URL of the harness that does not answer: the command sits in
//	  readCaibxFile, with the SIGHUP handler running, for as long as the case needs;
//	- the store file is a FIFO: every time the command reads its configuration (start-up, each
//	  reload) it blocks in open() until the harness writes one. That the harness' open for
//	  writing succeeds is the positive sign that a reload is under way; because the handler
//	  serves one SIGHUP after the other, the NEXT read of the store file proves that the Swap of
//	  the previous reload has completed (and its error, if any, has been printed);
//	- "If the configuration in the file is found to be invalid, an error is printed to STDERR and
//	  the reload ignored": every configuration written here is valid, so a "failed to reload
//	  configuration" line is a refused reload the documentation does not allow.
//
// Signals can be dropped (the command's channel is unbuffered), so SIGHUP is repeated while
// waiting; no verdict depends on time: without the handshakes the case is inconclusive.

import (
	"encoding/json"
	"fmt"
	"net/http"
	"os"
	"path/filepath"
	"strings"
	"syscall"
	"time"

	"verifharness/internal/hx"
)

func (cf CLIConf) lone() bool {
	return len(cf.Stores) == 1 && len(cf.Stores[0].Members) == 1 && cf.Stores[0].Members[0].Kind == "dir" && cf.Cache == nil
}

// reloadClasses: the shape transition of one reload.
func reloadClasses(from, to CLIConf, o *hx.Outcome) {
	switch {
	case from.lone() && !to.lone():
		o.Class("cli:reload:lone-local-store→chain")
	case !from.lone() && to.lone():
		o.Class("cli:reload:chain→lone-local-store")
	case from.lone() && to.lone():
		o.Class("cli:reload:lone-local-store→lone-local-store")
	default:
		o.Class("cli:reload:chain→chain")
	}
	if to.Cache != nil && from.Cache == nil {
		o.Class("cli:reload:adds-cache")
	}
	for _, st := range to.Stores {
		if len(st.Members) > 1 {
			o.Class("cli:reload:to-failover-group")
			break
		}
	}
}

func storeFileJSON(ch *cliChain) []byte {
	sf := struct {
		Stores []string `json:"stores"`
		Cache  string   `json:"cache,omitempty"`
	}{Stores: ch.locs}
	if ch.cache != nil {
		sf.Cache = ch.cache.loc
	}
	b, _ := json.Marshal(sf)
	return append(b, '\n')
}

func runCLIMount(c Case, cl *CLICase, dir string, o *hx.Outcome) {
	u := newUniverse(c.Seed)
	deadline := time.Now().Add(cliBudget)
	chA := materialise(dir, "a", cl.Conf, u, nil)
	defer chA.close()
	chB := materialise(dir, "b", *cl.Reload, u, nil)
	defer chB.close()
	confClasses(cl, *cl.Reload, o)

	// the sequence of configurations: A at start-up, then B, then (Back) A again
	type stage struct {
		ch   *cliChain
		conf CLIConf
		name string
	}
	seq := []stage{{chA, cl.Conf, "A"}, {chB, *cl.Reload, "B"}}
	if cl.Back {
		seq = append(seq, stage{chA, cl.Conf, "A"})
	}

	fifo := filepath.Join(dir, "stores.json")
	if err := syscall.Mkfifo(fifo, 0o644); err != nil {
		inconclusive(o, "mkfifo")
		return
	}
	os.MkdirAll(filepath.Join(dir, "mnt"), 0o755)

	// an index server that never answers while the case runs
	hold := make(chan struct{})
	ln := cliListen()
	srv := &http.Server{Handler: http.HandlerFunc(func(w http.ResponseWriter, r *http.Request) {
		select {
		case <-hold:
		case <-r.Context().Done():
		}
		http.NotFound(w, r)
	})}
	served := make(chan struct{})
	go func() { srv.Serve(ln); close(served) }()
	defer func() { close(hold); srv.Close(); <-served }()

	args := []string{"mount-index", "--store-file", fifo}
	args = append(args, optionArgs(cl)...)
	args = append(args, "http://"+ln.Addr().String()+"/idx/blob.caibx", filepath.Join(dir, "mnt"))
	p, err := cliStart(dir, args, nil)
	if err != nil {
		inconclusive(o, "cannot-start")
		return
	}
	defer func() {
		p.signal(syscall.SIGKILL, true)
		p.wait(5 * time.Second)
	}()
	exited := func() bool {
		select {
		case <-p.done:
			return true
		default:
			return false
		}
	}

	// tryOpen: open the FIFO for writing without blocking; ok only while a reader has it open
	tryOpen := func() (int, bool) {
		fd, err := syscall.Open(fifo, syscall.O_WRONLY|syscall.O_NONBLOCK|syscall.O_CLOEXEC, 0)
		return fd, err == nil
	}
	// awaitReader: wait (repeating SIGHUP if asked) until the command reads the store file
	awaitReader := func(hup bool) (int, string) {
		// first see the previous reader gone, so that what is written goes to the next one
		for i := 0; ; i++ {
			fd, ok := tryOpen()
			if !ok {
				break
			}
			syscall.Close(fd)
			if exited() {
				return -1, "exited"
			}
			if time.Now().After(deadline) {
				return -1, "deadline"
			}
			time.Sleep(200 * time.Microsecond)
		}
		for i := 0; ; i++ {
			if hup && i%100 == 0 {
				p.signal(syscall.SIGHUP, false)
			}
			if fd, ok := tryOpen(); ok {
				return fd, ""
			}
			if exited() {
				return -1, "exited"
			}
			if time.Now().After(deadline) {
				return -1, "deadline"
			}
			time.Sleep(200 * time.Microsecond)
		}
	}
	feed := func(fd int, b []byte) bool {
		syscall.SetNonblock(fd, false)
		_, err := syscall.Write(fd, b)
		syscall.Close(fd)
		return err == nil
	}

	var hist []string
	fed := 0
	problem := ""
	for i, st := range seq {
		fd, why := awaitReader(i > 0)
		if why != "" {
			problem = why
			break
		}
		if !feed(fd, storeFileJSON(st.ch)) {
			problem = "write"
			break
		}
		fed++
		hist = append(hist, fmt.Sprintf("store file read #%d: configuration %s = %s", i+1, st.name, st.conf.shape(cl.Repair)))
	}
	completed := false
	if problem == "" {
		// one more reload: when its read of the store file begins, the Swap of the last one is done
		if fd, why := awaitReader(true); why == "" {
			feed(fd, storeFileJSON(seq[len(seq)-1].ch))
			completed = true
		} else {
			problem = why
		}
	}
	early := exited()
	p.signal(syscall.SIGKILL, true)
	p.wait(5 * time.Second)
	msg := p.out.String()
	where := fmt.Sprintf("desync %s\n  %s\n  output of the command: %q", strings.Join(args, " "), strings.Join(hist, "\n  "), clip(msg))

	if strings.Contains(msg, "panic:") || strings.Contains(msg, "fatal error:") {
		o.Fail("C11:cli:crash", "the command crashed — %s", where)
	}
	switch {
	case strings.Contains(msg, "failed to read store-file"):
		inconclusive(o, "store-file-handshake") // what was written did not arrive: harness side
	case strings.Contains(msg, "failed to reload configuration"):
		o.Fail("C11:cli:reload:refused", "a SIGHUP reload to a valid store file was refused (%d configuration(s) delivered) — %s", fed, where)
	case early && fed == 0:
		inconclusive(o, "mount-exited-at-start")
	case !completed:
		inconclusive(o, "reload-handshake-"+problem)
	default:
		o.Class("cli:reload:accepted")
		for i := 1; i < len(seq); i++ {
			reloadClasses(seq[i-1].conf, seq[i].conf, o)
		}
		if cl.Back {
			o.Class("cli:reload:there-and-back")
		}
	}
	o.Nontrivial = completed
	o.Desc = map[string]any{"mode": "cli", "cmd": "mount", "shape": cl.Conf.shape(cl.Repair), "shape2": cl.Reload.shape(cl.Repair), "back": cl.Back, "reloads": fed - 1, "completed": completed}
}
