package c07

// CLI part, machinery: an HTTP object server owned by the harness that holds the k-th chunk
// request of a child, and a runner that starts the freshly built desync CLI in its own process
// group, delivers SIGINT/SIGTERM while the request is held, releases it and waits for the exit.

import (
	"bytes"
	"fmt"
	"io"
	"net"
	"net/http"
	"os"
	"os/exec"
	"path/filepath"
	"runtime"
	"strconv"
	"strings"
	"sync"
	"syscall"
	"time"

	"golang.org/x/sys/unix"
)

// A child that has not exited by then is killed and its case ends without a verdict (class
// cli:inconclusive:child-timeout); only liveness is at stake, so the limit is generous: a starved
// machine must not produce it. It stays below the watchdog the CLI part sets for the spec, so that a
// stuck child is not reported as "hang".
var cliChildTimeout = 90 * time.Second

// steering only: how long the child gets between "signal no longer pending" and the release of
// the held requests, so that its handler goroutine can cancel the root context first
const cliSteerDelay = 25 * time.Millisecond

// cliInfra reports a problem of the harness or the machine: the driver maps it to "inconclusive".
func cliInfra(format string, a ...any) {
	msg := fmt.Sprintf(format, a...)
	// keep child output from looking like a crash of the test process to the driver
	msg = strings.ReplaceAll(msg, "\n", "\n | ")
	fmt.Printf("SELFTEST-FAILURE: %s\nSELFTEST-FAILURE (see above): %s\n", msg, strings.SplitN(msg, "\n", 2)[0])
	os.Exit(3)
}

// ---------------------------------------------------------------- object server

type cliReq struct {
	Method string
	Key    string // path below the state's prefix: "<namespace>/<4hex>/<id>.cacnk"
}

type cliState struct {
	mu        sync.Mutex
	cond      *sync.Cond
	objs      map[string][]byte
	holdAt    int // the k-th request (arrival order, 1-based) and all behind it wait for release; 0 = never
	reqs      []cliReq
	inflight  int // requests being answered (not the held ones)
	completed int // requests answered completely
	reached   chan struct{}
	release   chan struct{}
	onceReach sync.Once
	onceRel   sync.Once
	active    sync.WaitGroup
}

var (
	cliSrvAddr   string
	cliSrvMu     sync.Mutex
	cliSrvStates = map[string]*cliState{}
	cliSrvSeq    int
)

// cliServerStart starts the server once; false when no loopback port can be had right now (the
// case then ends as inconclusive and the next one tries again).
func cliServerStart() bool {
	cliSrvMu.Lock()
	defer cliSrvMu.Unlock()
	if cliSrvAddr != "" {
		return true
	}
	// a fixed port below the ephemeral range first: when the machine's ephemeral range is full of
	// TIME_WAIT sockets bind(0) fails while connects to a fresh 4-tuple still work
	var ln net.Listener
	for i := 0; i < 200 && ln == nil; i++ {
		port := 10000 + (os.Getpid()*11+i*137)%20000
		ln, _ = net.Listen("tcp", "127.0.0.1:"+strconv.Itoa(port))
	}
	if ln == nil {
		ln, _ = net.Listen("tcp", "127.0.0.1:0")
	}
	if ln == nil {
		return false
	}
	cliSrvAddr = ln.Addr().String()
	go http.Serve(ln, http.HandlerFunc(cliServe))
	return true
}

func newCLIState(objs map[string][]byte, holdAt int) (prefix string, st *cliState) {
	if !cliServerStart() {
		return "", nil
	}
	if objs == nil {
		objs = map[string][]byte{}
	}
	st = &cliState{objs: objs, holdAt: holdAt, reached: make(chan struct{}), release: make(chan struct{})}
	st.cond = sync.NewCond(&st.mu)
	cliSrvMu.Lock()
	cliSrvSeq++
	prefix = "q" + strconv.Itoa(cliSrvSeq)
	cliSrvStates[prefix] = st
	cliSrvMu.Unlock()
	return prefix, st
}

// drop releases whatever is still held, waits (bounded) for the handlers and forgets the state.
func (st *cliState) drop(prefix string) {
	st.doRelease()
	fin := make(chan struct{})
	go func() { st.active.Wait(); close(fin) }()
	select {
	case <-fin:
	case <-time.After(5 * time.Second):
	}
	cliSrvMu.Lock()
	delete(cliSrvStates, prefix)
	cliSrvMu.Unlock()
}

func (st *cliState) doRelease() { st.onceRel.Do(func() { close(st.release) }) }

func (st *cliState) url(ns string) string { return "http://" + cliSrvAddr + "/" + ns + "/" }

// waitIdle waits until every request that is not held has been answered (steering only, bounded).
func (st *cliState) waitIdle() {
	st.mu.Lock()
	for i := 0; st.inflight > 0 && i < 100; i++ {
		t := time.AfterFunc(20*time.Millisecond, st.cond.Broadcast)
		st.cond.Wait()
		t.Stop()
	}
	st.mu.Unlock()
}

func (st *cliState) snapshot() (objs map[string][]byte, reqs []cliReq, completed int) {
	st.mu.Lock()
	defer st.mu.Unlock()
	objs = make(map[string][]byte, len(st.objs))
	for k, v := range st.objs {
		objs[k] = v
	}
	return objs, append([]cliReq(nil), st.reqs...), st.completed
}

func cliServe(w http.ResponseWriter, r *http.Request) {
	parts := strings.SplitN(strings.TrimPrefix(r.URL.Path, "/"), "/", 2)
	if len(parts) != 2 {
		http.NotFound(w, r)
		return
	}
	cliSrvMu.Lock()
	st := cliSrvStates[parts[0]]
	cliSrvMu.Unlock()
	if st == nil {
		http.NotFound(w, r)
		return
	}
	st.active.Add(1)
	defer st.active.Done()
	key := parts[1]
	var body []byte
	if r.Method == http.MethodPut {
		body, _ = io.ReadAll(r.Body)
	}
	st.mu.Lock()
	st.reqs = append(st.reqs, cliReq{r.Method, key})
	ord := len(st.reqs)
	held := st.holdAt > 0 && ord >= st.holdAt
	if !held {
		st.inflight++
	}
	st.mu.Unlock()
	if held {
		if ord == st.holdAt {
			st.onceReach.Do(func() { close(st.reached) })
		}
		<-st.release // closed after the signal was sent: from then on everything is served normally
		st.mu.Lock()
		st.inflight++
		st.mu.Unlock()
	}
	switch r.Method {
	case http.MethodGet, http.MethodHead:
		st.mu.Lock()
		obj, ok := st.objs[key]
		st.mu.Unlock()
		if !ok {
			http.NotFound(w, r)
		} else {
			w.Header().Set("Content-Length", strconv.Itoa(len(obj)))
			if r.Method == http.MethodGet {
				w.Write(obj)
			}
		}
	case http.MethodPut:
		st.mu.Lock()
		st.objs[key] = body
		st.mu.Unlock()
		w.WriteHeader(http.StatusOK)
	default:
		w.WriteHeader(http.StatusMethodNotAllowed)
	}
	if f, ok := w.(http.Flusher); ok {
		f.Flush()
	}
	st.mu.Lock()
	st.inflight--
	st.completed++
	st.cond.Broadcast()
	st.mu.Unlock()
}

// ---------------------------------------------------------------- /proc helpers (steering only)

// sigPending reports whether signal sig is still pending (not yet taken by a handler) for pid.
func sigPending(pid int, sig syscall.Signal) bool {
	b, err := os.ReadFile("/proc/" + strconv.Itoa(pid) + "/status")
	if err != nil {
		return false
	}
	for _, line := range strings.Split(string(b), "\n") {
		if strings.HasPrefix(line, "SigPnd:") || strings.HasPrefix(line, "ShdPnd:") {
			v, err := strconv.ParseUint(strings.TrimSpace(line[7:]), 16, 64)
			if err == nil && v&(1<<(uint(sig)-1)) != 0 {
				return true
			}
		}
	}
	return false
}

// hasOpen reports whether pid has path open.
func hasOpen(pid int, path string) bool {
	dir := "/proc/" + strconv.Itoa(pid) + "/fd"
	ents, err := os.ReadDir(dir)
	if err != nil {
		return false
	}
	for _, e := range ents {
		if l, err := os.Readlink(filepath.Join(dir, e.Name())); err == nil && l == path {
			return true
		}
	}
	return false
}

// ---------------------------------------------------------------- child runner

type childResult struct {
	Exit       int
	Signaled   bool // the child was terminated by a signal (no handler installed yet)
	Stderr     string
	SignalSent bool // the signal was sent while the child was alive and the trigger point was reached
	DoneBefore int  // requests answered completely when the signal was sent
	// not "": the run cannot be judged (start-failed, child-timeout, wait-error); the child is gone
	Inconclusive string
}

var (
	cliBinOverride string   // self-test: a stand-in for the CLI
	cliSelfEnv     []string // self-test: extra environment of the stand-in
)

func cliBin() string {
	if cliBinOverride != "" {
		return cliBinOverride
	}
	return os.Getenv("VERIF_DESYNC_BIN")
}

func cliEnabled() bool { return os.Getenv("VERIF_DESYNC_BIN") != "" }

// runChild starts the CLI in its own process group and waits for its exit. When the trigger
// fires first (st.reached, or openPath seen among the child's descriptors) sig is sent to the
// child process, then everything held by the server is released and the child is left alone.
func runChild(work string, args []string, st *cliState, sig syscall.Signal, openPath string, ff *fifoFeed) (res childResult) {
	runtime.LockOSThread() // Pdeathsig is bound to the starting thread
	defer runtime.UnlockOSThread()
	cmd := exec.Command(cliBin(), args...)
	cmd.Dir = work
	env := append([]string{"HOME=" + work, "TMPDIR=" + work, "PATH=/usr/bin:/bin", "NO_PROXY=*", "no_proxy=*"}, cliSelfEnv...)
	attr := &syscall.SysProcAttr{Setpgid: true, Pdeathsig: syscall.SIGKILL}
	cmd.Env, cmd.SysProcAttr = env, attr
	var se bytes.Buffer
	cmd.Stderr = &se
	cmd.Stdout = &se
	var serr error
	for try := 0; try < 6; try++ { // fork can fail for a moment on a machine short of memory or processes
		if serr = cmd.Start(); serr == nil {
			break
		}
		time.Sleep(time.Duration(try+1) * 300 * time.Millisecond)
		cmd = exec.Command(cliBin(), args...)
		cmd.Dir, cmd.Env, cmd.SysProcAttr, cmd.Stderr, cmd.Stdout = work, env, attr, &se, &se
	}
	if serr != nil {
		res.Inconclusive, res.Stderr = "start-failed", serr.Error()
		return res
	}
	pid := cmd.Process.Pid
	var (
		pmu    sync.Mutex
		exited bool
	)
	done := make(chan error, 1)
	go func() {
		// learn of the exit without reaping, so that pid and group id cannot be reused while the
		// rest of the group is killed; only then reap
		for {
			var info unix.Siginfo
			err := unix.Waitid(unix.P_PID, pid, &info, unix.WEXITED|unix.WNOWAIT, nil)
			if err != syscall.EINTR {
				break
			}
		}
		pmu.Lock()
		exited = true
		syscall.Kill(-pid, syscall.SIGKILL)
		err := cmd.Wait()
		pmu.Unlock()
		done <- err
	}()
	send := func(s syscall.Signal, group bool) bool {
		pmu.Lock()
		defer pmu.Unlock()
		if exited {
			return false
		}
		target := pid
		if group {
			target = -pid
		}
		return syscall.Kill(target, s) == nil
	}
	var reached <-chan struct{}
	stopPoll := make(chan struct{})
	stopAll := sync.OnceFunc(func() { close(stopPoll) })
	defer stopAll()
	if openPath != "" {
		ch := make(chan struct{})
		reached = ch
		go func() {
			for {
				select {
				case <-stopPoll:
					return
				default:
				}
				if hasOpen(pid, openPath) {
					close(ch)
					return
				}
				time.Sleep(100 * time.Microsecond)
			}
		}()
	} else if ff != nil {
		ch := make(chan struct{})
		reached = ch
		ff.cont = make(chan struct{})
		ff.fin = make(chan struct{})
		go ff.run(stopPoll, ch)
		defer func() { stopAll(); <-ff.fin }() // the feeder never outlives the case
	} else if st != nil && st.holdAt > 0 {
		reached = st.reached
	}
	timeout := time.NewTimer(cliChildTimeout)
	defer timeout.Stop()
	giveUp := func() {
		send(syscall.SIGKILL, true)
		<-done
		res.Inconclusive = "child-timeout"
	}
	var werr error
	select {
	case werr = <-done:
	case <-reached:
		if st != nil {
			st.waitIdle()
			st.mu.Lock()
			res.DoneBefore = st.completed
			st.mu.Unlock()
		}
		res.SignalSent = send(sig, false)
		if res.SignalSent {
			for i := 0; i < 20000 && sigPending(pid, sig); i++ { // polling, up to 5 s on a starved machine
				time.Sleep(250 * time.Microsecond)
			}
			time.Sleep(cliSteerDelay)
		}
		if st != nil {
			st.doRelease()
		}
		if ff != nil {
			close(ff.cont)
		}
		select {
		case werr = <-done:
		case <-timeout.C:
			giveUp()
		}
	case <-timeout.C:
		giveUp()
	}
	if st != nil {
		st.doRelease()
	}
	if ee, ok := werr.(*exec.ExitError); ok {
		res.Exit = ee.ExitCode()
		if ws, ok := ee.Sys().(syscall.WaitStatus); ok && ws.Signaled() {
			res.Signaled = true
		}
	} else if werr != nil && res.Inconclusive == "" {
		res.Inconclusive = "wait-error"
		se.WriteString("\nwait: " + werr.Error())
	}
	res.Stderr = se.String()
	return res
}

func cliTail(s string, n int) string {
	if len(s) > n {
		return "…" + s[len(s)-n:]
	}
	return s
}

// ---------------------------------------------------------------- input fed through a FIFO

// fifoFeed feeds the child's input through a FIFO in two parts: the first part is written and the
// feeder waits until the child has read all of it (the FIFO is empty), then the trigger fires (the
// signal is sent by runChild); the rest is written and the FIFO closed when cont is closed.
type fifoFeed struct {
	path         string
	part1, part2 []byte
	cont         chan struct{}
	fin          chan struct{}
	Drained      bool // the child had read the whole first part when the trigger fired
}

func fifoUnread(f *os.File) int {
	n := -1
	if rc, err := f.SyscallConn(); err == nil {
		rc.Control(func(fd uintptr) {
			if v, err := unix.IoctlGetInt(int(fd), unix.TIOCINQ); err == nil { // TIOCINQ == FIONREAD
				n = v
			}
		})
	}
	return n
}

func (ff *fifoFeed) run(stop <-chan struct{}, reached chan<- struct{}) {
	defer close(ff.fin)
	stopped := func() bool {
		select {
		case <-stop:
			return true
		default:
			return false
		}
	}
	// a non-blocking open for writing succeeds as soon as the child has the FIFO open for reading
	var f *os.File
	for {
		var err error
		if f, err = os.OpenFile(ff.path, os.O_WRONLY|syscall.O_NONBLOCK, 0); err == nil {
			break
		}
		if stopped() {
			return
		}
		time.Sleep(200 * time.Microsecond)
	}
	defer f.Close()
	closer := make(chan struct{})
	defer close(closer)
	go func() { // a write that is blocked because the child stopped reading ends when the case ends
		select {
		case <-stop:
			f.Close()
		case <-closer:
		}
	}()
	if _, err := f.Write(ff.part1); err != nil {
		return
	}
	for i := 0; i < 50000 && !stopped(); i++ {
		if fifoUnread(f) == 0 {
			ff.Drained = true
			break
		}
		time.Sleep(100 * time.Microsecond)
	}
	time.Sleep(3 * time.Millisecond) // steering: let the child digest what it has read and block on the next read
	close(reached)
	select {
	case <-ff.cont:
	case <-stop:
		return
	}
	f.Write(ff.part2)
}
