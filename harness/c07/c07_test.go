// C07 — a cancelled or interrupted operation never reports success.
package c07

import (
	"bytes"
	"context"
	"errors"
	"fmt"
	"os"
	"path/filepath"
	"runtime"
	"sort"
	"strings"
	"sync/atomic"
	"testing"
	"time"

	"github.com/folbricht/desync"
	"pgregory.net/rapid"

	"verifharness/internal/dx"
	"verifharness/internal/gen"
	"verifharness/internal/hx"
	"verifharness/internal/ref"
	"verifharness/internal/sched"
)

var entries = []string{"assemble", "assemble-seed", "verifyindex", "chop", "copy", "chunkstream", "indexfromfile", "tar", "untar", "untarindex"}

// where a cancellation can be triggered for each entry point: "before", "store:<kind>" (k-th
// call of that kind on a harness store), "hook:<site>" (k-th hit of a verif hook site),
// "fs:read" / "fs:write" (k-th call into the FilesystemReader / FilesystemWriter).
var points = map[string][]string{
	"assemble":      {"before", "store:get", "hook:assemble.job", "hook:assemble.written", "hook:assemble.feed"},
	"assemble-seed": {"before", "store:get", "hook:validate.job", "hook:validate.feed", "hook:assemble.job", "hook:assemble.feed"},
	"verifyindex":   {"before", "hook:verifyindex.batch", "hook:verifyindex.feed"},
	"chop":          {"before", "store:has", "store:store", "hook:chop.job", "hook:chop.feed"},
	"copy":          {"before", "store:has", "store:get", "store:store", "hook:copy.job", "hook:copy.feed"},
	"chunkstream":   {"before", "store:has", "store:store", "hook:chunkstream.job", "hook:chunkstream.feed"},
	"indexfromfile": {"before", "hook:pchunk.loop", "hook:pchunk.send", "hook:pchunk.collect"},
	"tar":           {"before", "fs:read"},
	"untar":         {"before", "fs:write"},
	"untarindex":    {"before", "store:get", "fs:write"},
}

type Case struct {
	Entry   string      `json:"entry"`
	Pieces  []gen.Piece `json:"pieces"`
	Sizes   gen.Sizes   `json:"sizes"`
	N       int         `json:"n"`
	Point   string      `json:"point"`
	K       int         `json:"k"`
	Files   []int       `json:"files,omitempty"` // tar/untar entries: file sizes of a small tree
	Perturb []int       `json:"perturb,omitempty"`
	Action  int         `json:"action,omitempty"` // assemble entries: invalid-seed action 0 bail-out, 1 skip, 2 regenerate
	CLI     *CLICase    `json:"cli,omitempty"` // set: a CLI-level case (cli_test.go); Entry is "cli"
}

func genCase(t *rapid.T) Case {
	if cliEnabled() { // a small fraction of the cases drive the freshly built CLI (cli_test.go)
		if c, ok := genCLI(t); ok {
			return c
		}
	}
	var c Case
	c.Entry = rapid.SampledFrom(entries).Draw(t, "entry")
	c.Point = rapid.SampledFrom(points[c.Entry]).Draw(t, "point")
	c.Sizes = gen.Sizes{Min: 64, Avg: 128, Max: 256}
	if rapid.Bool().Draw(t, "othersizes") {
		c.Sizes = gen.ChunkSizes(t, false)
		if c.Sizes.Max > 2048 {
			c.Sizes = gen.Sizes{Min: 48, Avg: 64, Max: 200}
		}
	}
	nch := rapid.IntRange(1, 60).Draw(t, "approxchunks")
	c.Pieces = []gen.Piece{{Kind: "rand", Len: nch * int(c.Sizes.Avg) * 3 / 2, Seed: rapid.Uint64().Draw(t, "seed")}}
	if rapid.IntRange(0, 4).Draw(t, "dups") == 0 {
		c.Pieces = append(c.Pieces, gen.Piece{Kind: "repeat", Len: int(c.Sizes.Max) * 4, Off: 0})
	}
	c.N = rapid.SampledFrom([]int{1, 1, 2, 3, 4, 8}).Draw(t, "n")
	if strings.HasPrefix(c.Entry, "assemble") {
		c.Action = rapid.IntRange(0, 2).Draw(t, "action")
	}
	c.K = rapid.IntRange(1, nch+5).Draw(t, "k")
	if rapid.IntRange(0, 3).Draw(t, "smallk") == 0 {
		c.K = rapid.IntRange(1, 3).Draw(t, "k3")
	}
	for i, nf := 0, rapid.IntRange(1, 12).Draw(t, "nfiles"); i < nf; i++ {
		c.Files = append(c.Files, rapid.IntRange(0, 3000).Draw(t, "fsize"))
	}
	if c.N > 1 {
		c.Perturb = sched.Vector(t, "pv")
	}
	return c
}

// trigger fires cancel at the k-th event of the chosen point.
type trigger struct {
	point     string
	k         int64
	count     atomic.Int64
	cancel    context.CancelFunc
	delivered atomic.Bool
	after     atomic.Int64 // events of the same point observed after the cancellation
}

func (tr *trigger) event(point string) {
	if point != tr.point {
		return
	}
	n := tr.count.Add(1)
	if n == tr.k {
		tr.cancel()
		tr.delivered.Store(true)
	} else if n > tr.k {
		tr.after.Add(1)
	}
}

// fsReader / fsWriter wrap desync's filesystem interfaces to count calls.
type fsReader struct {
	r  desync.FilesystemReader
	tr *trigger
}

func (f *fsReader) Next() (*desync.File, error) { f.tr.event("fs:read"); return f.r.Next() }

type fsWriter struct {
	w  desync.FilesystemWriter
	tr *trigger
}

func (f *fsWriter) CreateDir(n desync.NodeDirectory) error {
	f.tr.event("fs:write")
	return f.w.CreateDir(n)
}
func (f *fsWriter) CreateFile(n desync.NodeFile) error {
	f.tr.event("fs:write")
	return f.w.CreateFile(n)
}
func (f *fsWriter) CreateSymlink(n desync.NodeSymlink) error {
	f.tr.event("fs:write")
	return f.w.CreateSymlink(n)
}
func (f *fsWriter) CreateDevice(n desync.NodeDevice) error {
	f.tr.event("fs:write")
	return f.w.CreateDevice(n)
}

// makeTree materialises a small tree and returns its listing (path -> content, dirs as nil).
func makeTree(dir string, files []int) map[string][]byte {
	want := map[string][]byte{}
	sub := dir
	rel := ""
	for i, sz := range files {
		if i%4 == 3 {
			name := fmt.Sprintf("d%d", i)
			sub = filepath.Join(sub, name)
			rel = filepath.Join(rel, name)
			os.Mkdir(sub, 0o755)
			want[rel] = nil
		}
		name := fmt.Sprintf("f%02d", i)
		b := gen.RandBytes(sz, uint64(i)*7919+uint64(sz))
		os.WriteFile(filepath.Join(sub, name), b, 0o644)
		want[filepath.Join(rel, name)] = b
	}
	return want
}

func listTree(dir string) map[string][]byte {
	got := map[string][]byte{}
	filepath.Walk(dir, func(p string, info os.FileInfo, err error) error {
		if err != nil || p == dir {
			return nil
		}
		rel, _ := filepath.Rel(dir, p)
		if info.IsDir() {
			got[rel] = nil
		} else {
			b, _ := os.ReadFile(p)
			got[rel] = b
		}
		return nil
	})
	return got
}

func sameTree(a, b map[string][]byte) string {
	var keys []string
	for k := range a {
		keys = append(keys, k)
	}
	sort.Strings(keys)
	for _, k := range keys {
		v, ok := b[k]
		if !ok {
			return "missing " + k
		}
		if !bytes.Equal(v, a[k]) || (v == nil) != (a[k] == nil) {
			return "content of " + k + " differs"
		}
	}
	for k := range b {
		if _, ok := a[k]; !ok {
			return "unexpected " + k
		}
	}
	return ""
}

func run(c Case) (o hx.Outcome) {
	if c.CLI != nil {
		return runCLI(c)
	}
	sz := c.Sizes
	blob := gen.Expand(c.Pieces)
	spans := ref.Chunk(blob, sz.Min, sz.Avg, sz.Max, false)
	idx := dx.BuildIndex(blob, spans, sz, false)
	n := c.N
	if n < 1 {
		n = 1
	}
	dir := hx.Scratch("c07")
	defer os.RemoveAll(dir)

	ctx, cancel := context.WithCancel(context.Background())
	defer cancel()
	tr := &trigger{point: c.Point, k: int64(c.K), cancel: cancel}
	if c.Point == "before" {
		cancel()
		tr.delivered.Store(true)
	}
	base := runtime.NumGoroutine()
	pv := c.Perturb
	var pidx atomic.Int64
	desync.VerifHook = func(site string) {
		tr.event("hook:" + site)
		if len(pv) > 0 {
			v := pv[int(pidx.Add(1)-1)%len(pv)]
			for i := 0; i < v && i < 4; i++ {
				runtime.Gosched()
			}
		}
	}
	defer func() { desync.VerifHook = nil }()
	onCall := func(kind string, n int, id desync.ChunkID) { tr.event("store:" + kind) }

	var err error
	complete := "" // "" = the work is complete (only evaluated when err == nil)
	units := len(spans)

	switch c.Entry {
	case "assemble", "assemble-seed":
		store := dx.NewMemStore("store")
		dx.FillStore(store, blob, idx)
		store.OnCall = onCall
		target := filepath.Join(dir, "out")
		var seeds []desync.Seed
		if c.Entry == "assemble-seed" {
			// seed = the blob with its first chunk replaced: all other chunks come from the seed
			sd := append([]byte(nil), blob...)
			if len(spans) > 0 {
				gen.Fill(sd[:spans[0].Len], 424242)
			}
			sp := dx.WriteFile(dir, "seed", sd)
			sidx := dx.BuildIndex(sd, ref.Chunk(sd, sz.Min, sz.Avg, sz.Max, false), sz, false)
			s, e := desync.NewIndexSeed(target, sp, sidx)
			if e == nil {
				seeds = append(seeds, s)
			}
		}
		_, err = desync.AssembleFile(ctx, target, idx, store, seeds, desync.AssembleOptions{N: n, InvalidSeedAction: desync.InvalidSeedAction(c.Action % 3)})
		if c.Entry == "assemble-seed" {
			o.Class([]string{"assemble-seed:action:bailout", "assemble-seed:action:skip", "assemble-seed:action:regenerate"}[c.Action%3])
		}
		if err == nil {
			out, _ := os.ReadFile(target)
			if !bytes.Equal(out, blob) {
				complete = fmt.Sprintf("output file has %d bytes and differs from the %d-byte blob", len(out), len(blob))
			}
		}
	case "verifyindex":
		bad := append([]byte(nil), blob...)
		if len(bad) > 0 {
			bad[len(bad)-1] ^= 1 // corrupt the last chunk: success is never right
		}
		p := dx.WriteFile(dir, "blob", bad)
		err = desync.VerifyIndex(ctx, p, idx, n, desync.NullProgressBar{})
		if err == nil && len(bad) > 0 {
			complete = "file is corrupt in its last chunk, so a complete verification cannot succeed"
		}
	case "chop":
		p := dx.WriteFile(dir, "blob", blob)
		dst := dx.NewMemStore("dst")
		dst.OnCall = onCall
		err = desync.ChopFile(ctx, p, idx.Chunks, dst, n, desync.NullProgressBar{})
		if err == nil {
			complete = missingIn(dst, blob, idx)
		}
	case "copy":
		src := dx.NewMemStore("src")
		dx.FillStore(src, blob, idx)
		dst := dx.NewMemStore("dst")
		src.OnCall = func(kind string, n int, id desync.ChunkID) { tr.event("store:" + kind) }
		dst.OnCall = func(kind string, n int, id desync.ChunkID) {
			if kind != "get" {
				tr.event("store:" + kind)
			}
		}
		var ids []desync.ChunkID
		for _, ch := range idx.Chunks {
			ids = append(ids, ch.ID)
		}
		err = desync.Copy(ctx, ids, src, dst, n, desync.NullProgressBar{})
		if err == nil {
			complete = missingIn(dst, blob, idx)
		}
	case "chunkstream":
		dst := dx.NewMemStore("dst")
		dst.OnCall = onCall
		ck, _ := desync.NewChunker(bytes.NewReader(blob), sz.Min, sz.Avg, sz.Max)
		var got desync.Index
		got, err = desync.ChunkStream(ctx, ck, dst, n)
		if err == nil {
			if len(got.Chunks) != len(idx.Chunks) {
				complete = fmt.Sprintf("returned index has %d chunks, the input has %d", len(got.Chunks), len(idx.Chunks))
			} else {
				complete = missingIn(dst, blob, idx)
			}
		}
	case "indexfromfile":
		p := dx.WriteFile(dir, "blob", blob)
		var got desync.Index
		got, _, err = desync.IndexFromFile(ctx, p, n, sz.Min, sz.Avg, sz.Max, desync.NullProgressBar{})
		if err == nil {
			if got.Length() != int64(len(blob)) || len(got.Chunks) != len(idx.Chunks) {
				complete = fmt.Sprintf("returned index covers %d bytes in %d chunks, the input has %d bytes in %d chunks", got.Length(), len(got.Chunks), len(blob), len(idx.Chunks))
			}
		}
	case "tar", "untar", "untarindex":
		srcDir := filepath.Join(dir, "src")
		os.Mkdir(srcDir, 0o755)
		want := makeTree(srcDir, c.Files)
		units = len(want) + 1
		var full bytes.Buffer
		if e := desync.Tar(context.Background(), &full, desync.NewLocalFS(srcDir, desync.LocalFSOptions{})); e != nil {
			o.Fail("C07:harness:tar-failed", "uncancelled Tar failed: %v", e)
			return o
		}
		switch c.Entry {
		case "tar":
			var out bytes.Buffer
			err = desync.Tar(ctx, &out, &fsReader{desync.NewLocalFS(srcDir, desync.LocalFSOptions{}), tr})
			if err == nil && !bytes.Equal(out.Bytes(), full.Bytes()) {
				complete = fmt.Sprintf("archive has %d bytes, the uncancelled archive has %d", out.Len(), full.Len())
			}
		case "untar":
			dst := filepath.Join(dir, "dst")
			os.Mkdir(dst, 0o755)
			err = desync.UnTar(ctx, bytes.NewReader(full.Bytes()), &fsWriter{desync.NewLocalFS(dst, desync.LocalFSOptions{}), tr})
			if err == nil {
				complete = sameTree(want, listTree(dst))
			}
		case "untarindex":
			// index over the archive whose chunk boundaries coincide with element boundaries as
			// far as possible: cut at every 64-byte entry start (a cut pipe must not look like a clean end)
			arch := full.Bytes()
			aspans := ref.Chunk(arch, sz.Min, sz.Avg, sz.Max, false)
			aidx := dx.BuildIndex(arch, aspans, sz, false)
			units = len(aspans)
			store := dx.NewMemStore("store")
			dx.FillStore(store, arch, aidx)
			store.OnCall = onCall
			dst := filepath.Join(dir, "dst")
			os.Mkdir(dst, 0o755)
			err = desync.UnTarIndex(ctx, &fsWriter{desync.NewLocalFS(dst, desync.LocalFSOptions{}), tr}, aidx, store, n, desync.NullProgressBar{})
			if err == nil {
				complete = sameTree(want, listTree(dst))
			}
		}
	}
	sched.QuiesceFor(base, 30*time.Millisecond) // abandoned workers on error returns are expected here

	delivered := tr.delivered.Load()
	if err == nil && complete != "" {
		when := "not cancelled"
		if delivered {
			when = fmt.Sprintf("cancelled at %s #%d", c.Point, c.K)
			if c.Point == "before" {
				when = "cancelled before the call"
			}
		}
		o.Fail("C07:"+c.Entry+":success-but-incomplete", "%s returned nil (%s, n=%d, %d units) but its work is not complete: %s", c.Entry, when, n, units, complete)
	}
	o.Class("entry:"+c.Entry, "point:"+strings.SplitN(c.Point, ":", 2)[0])
	if delivered {
		o.Class("cancel-delivered")
	} else {
		o.Class("cancel-not-reached")
	}
	if err == nil {
		o.Class("returned-nil")
	} else if errors.As(err, &desync.Interrupted{}) {
		o.Class("returned-interrupted")
	} else {
		o.Class("returned-other-error")
	}
	mid := delivered && c.Point != "before" && (tr.after.Load() > 0 || c.K < units)
	if mid {
		o.Class("cancel-mid-flight")
	}
	o.Nontrivial = mid
	o.Desc = map[string]any{"entry": c.Entry, "point": c.Point, "k": c.K, "n": n, "units": units, "delivered": delivered, "err": fmt.Sprint(err)}
	o.Key = fmt.Sprintf("%s/%s/%d/%d/%d/%v", c.Entry, c.Point, c.K, n, units, err == nil)
	return o
}

func missingIn(s *dx.MemStore, blob []byte, idx desync.Index) string {
	for i, ch := range idx.Chunks {
		raw, ok := s.Raw(ch.ID)
		if !ok {
			return fmt.Sprintf("chunk %d of %d is not in the target store", i, len(idx.Chunks))
		}
		if !bytes.Equal(raw, blob[ch.Start:ch.Start+ch.Size]) {
			return fmt.Sprintf("chunk %d is in the target store with wrong bytes", i)
		}
	}
	return ""
}

var spec = &hx.Spec[Case]{
	ID:    "C07",
	Level: "fault_enumeration",
	Rule: "cases = (entry point in AssembleFile with/without a file seed, VerifyIndex, ChopFile, Copy, ChunkStream, IndexFromFile, Tar, UnTar, UnTarIndex; worker count; a cancellation point: before the call, the k-th store call of a kind, the k-th hit of a hook site in feeder or worker, the k-th filesystem call); for inputs of <= 12 chunks every k is enumerated for every point; " +
		"oracle: nil error => the work is complete by the uncancelled oracle (VerifyIndex runs on a file corrupt in its last chunk, so nil is always wrong). non-trivial = the cancellation was delivered after the first and before the last unit of work; distinct by (entry, point, k, n, units, outcome)",
	Assumptions: []string{"any non-nil error is accepted (worker errors racing the cancellation are legitimate); Interrupted is only counted", "CLI level (signals): only when the driver provides the freshly built CLI in $VERIF_DESYNC_BIN (quick: extract; thorough: all seven commands)"},
	Required: []string{"entry:assemble", "entry:assemble-seed", "assemble-seed:action:skip", "assemble-seed:action:regenerate", "entry:verifyindex", "entry:chop", "entry:copy", "entry:chunkstream", "entry:indexfromfile", "entry:tar", "entry:untar", "entry:untarindex",
		"point:before", "point:store", "point:hook", "point:fs", "cancel-delivered", "cancel-mid-flight", "returned-interrupted"},
	Gen:      genCase,
	Run:      run,
	Journal:  true,
	Watchdog: 60 * time.Second,
}

func TestMain(m *testing.M)    { hx.Main(m) }
func TestRegress(t *testing.T) { hx.Regress(t, spec) }
func TestKnown(t *testing.T)   { hx.Known(t, spec) }
func TestReplay(t *testing.T)  { hx.Replay(t, spec) }

// TestEnum: every k for every cancellation point of every entry point, small inputs.
// enumNA lists the (workers, invalid-seed action) pairs enumerated for an entry point.
func enumNA(entry string) [][2]int {
	var out [][2]int
	for _, n := range hx.Pick([]int{1, 3}, []int{1, 2, 3, 8}) {
		out = append(out, [2]int{n, 0})
		if entry == "assemble-seed" {
			out = append(out, [2]int{n, 1}, [2]int{n, 2})
		}
	}
	return out
}

func TestEnum(t *testing.T) {
	job := -1
	total := 0
	for _, e := range entries {
		for _, pt := range points[e] {
			for _, na := range enumNA(e) {
				n, action := na[0], na[1]
				job++
				if job%hx.Shards() != hx.Shard() {
					continue
				}
				for k := 1; k <= 40; k++ {
					c := Case{Entry: e, Point: pt, K: k, N: n, Action: action, Sizes: gen.Sizes{Min: 64, Avg: 128, Max: 256},
						Pieces: []gen.Piece{{Kind: "rand", Len: 1500, Seed: 77}}, Files: []int{10, 0, 700, 300, 20, 5}}
					before := len(hxViolations)
					if !hx.Case(t, spec, c) {
						return
					}
					_ = before
					total++
					if pt == "before" {
						break
					}
					if !lastDelivered.Load() {
						break // k is beyond the number of events: the space for this point is exhausted
					}
				}
			}
		}
	}
	hx.AddNote("enumerated_cancellation_points", total)
	hx.Exhaustive("every k-th event of every cancellation point of every entry point for a 1500-byte input (64:128:256) and a 6-file tree, n in {1,3}; assemble with a stale seed also under the skip and regenerate actions")
}

var hxViolations []string
var lastDelivered atomic.Bool

func init() {
	inner := spec.Run
	spec.Run = func(c Case) hx.Outcome {
		o := inner(c)
		d := false
		for _, cl := range o.Classes {
			if cl == "cancel-delivered" {
				d = true
			}
		}
		lastDelivered.Store(d)
		return o
	}
}

func TestProp(t *testing.T) { hx.Prop(t, spec) }
