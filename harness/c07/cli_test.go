package c07

// CLI part of C07: the freshly built desync CLI ($VERIF_DESYNC_BIN) works against an HTTP store
// owned by the harness. The k-th chunk request is held, SIGINT or SIGTERM is sent to the child,
// the request is released and the child finishes on its own. Verdicts:
//   exit status 0  => the produced file / store / tree is complete;
//   extract without -k, exit status != 0 => the destination path is exactly as before.
// Any non-zero exit is accepted otherwise; a child that does not exit is an infrastructure problem.

import (
	gnutar "archive/tar"
	"bytes"
	"context"
	"encoding/hex"
	"fmt"
	"os"
	"path/filepath"
	"sort"
	"strconv"
	"strings"
	"syscall"
	"testing"
	"time"

	"github.com/folbricht/desync"
	"github.com/klauspost/compress/zstd"
	"pgregory.net/rapid"

	"verifharness/internal/dx"
	"verifharness/internal/gen"
	"verifharness/internal/hx"
	"verifharness/internal/ref"
)

// CLICase is the CLI-specific part of a Case (Pieces, Sizes, N, K, Files are shared with it).
type CLICase struct {
	Cmd       string `json:"cmd"`               // extract | verify-index | chop | cache | make | tar | untar
	Sig       string `json:"sig"`               // INT | TERM
	Inplace   bool   `json:"inplace,omitempty"` // extract -k
	Prior     string `json:"prior,omitempty"`   // extract: destination before the run: absent | garbage | partial; chop/cache/make/tar: target store empty ("absent") or holding some of the chunks ("partial")
	PriorSeed uint64 `json:"prior_seed,omitempty"`
	PriorLen  int    `json:"prior_len,omitempty"`
	DestLen   int    `json:"dest_len,omitempty"` // extract: length of the destination's base name (0 = "blob"); near NAME_MAX no ".<name>.<random>" temp file fits next to it
	Stats     bool   `json:"stats,omitempty"`    // make: --print-stats (the index file is then not written)
	Fifo      bool   `json:"fifo,omitempty"`     // tar: --input-format tar, the tar stream (files of Case.Files) comes from a FIFO fed by the harness; no request is held
	AddRoot   bool   `json:"add_root,omitempty"` // tar from a FIFO: --tar-add-root (otherwise the stream starts with a "./" directory)
	Ignore    int    `json:"ignore,omitempty"`   // chop, cache: number of --ignore indexes, each served by the harness over HTTP (their fetches count as requests)
	IdxHTTP   bool   `json:"idx_http,omitempty"` // extract, chop, cache, untar: the index to work on is read over HTTP from the harness as well (the first request)
	Split     int    `json:"split,omitempty"`    // tar from a FIFO: bytes of the tar stream fed before the signal (capped at its length)
}

var cliCommands = []string{"extract", "verify-index", "chop", "cache", "make", "tar", "untar"}

// fixed chunk sizes of the commands that chunk themselves (-m takes KiB)
var cliMakeSizes = gen.Sizes{Min: 1024, Avg: 1024, Max: 4096}

const cliMakeArg = "1:1:4"

// destination base-name lengths around the point where ".<name>.<up to 10 digits>" exceeds NAME_MAX (255)
var cliDestLens = []int{200, 243, 244, 245, 250, 255}

// cliCmdList: the commands drawn from (with weights). Quick: extract, and make, tar (fed through
// a FIFO), cache, chop and verify-index at a low rate (a handful of children each per shard); thorough: all seven.
func cliCmdList() []string {
	if hx.Thorough() {
		return append([]string{"extract", "extract"}, cliCommands...)
	}
	return []string{"extract", "extract", "extract", "extract", "make", "tar", "cache", "chop", "verify-index"}
}

// genCLI decides with fair coin flips (rapid's integer generators are biased to small values)
// whether this case is a CLI case: about 3 % in the quick tier, 12 % in the thorough tier.
func genCLI(t *rapid.T) (Case, bool) {
	for i, n := 0, hx.Pick(5, 3); i < n; i++ {
		if !rapid.Bool().Draw(t, "cli?") {
			return Case{}, false
		}
	}
	var c Case
	c.Entry = "cli"
	c.Point = "http"
	cl := &CLICase{Cmd: rapid.SampledFrom(cliCmdList()).Draw(t, "cmd")}
	cl.Sig = rapid.SampledFrom([]string{"INT", "TERM"}).Draw(t, "sig")
	c.Sizes = gen.Sizes{Min: 64, Avg: 128, Max: 256}
	if rapid.Bool().Draw(t, "othersizes") {
		c.Sizes = gen.ChunkSizes(t, false)
		if c.Sizes.Max > 2048 {
			c.Sizes = gen.Sizes{Min: 48, Avg: 64, Max: 200}
		}
	}
	if cl.Cmd == "make" {
		c.Sizes = cliMakeSizes
	}
	nch := rapid.IntRange(1, 40).Draw(t, "approxchunks")
	c.Pieces = []gen.Piece{{Kind: "rand", Len: nch * int(c.Sizes.Avg) * 3 / 2, Seed: rapid.Uint64().Draw(t, "seed")}}
	if rapid.IntRange(0, 4).Draw(t, "dups") == 0 {
		c.Pieces = append(c.Pieces, gen.Piece{Kind: "repeat", Len: int(c.Sizes.Max) * 4, Off: 0})
	}
	if cl.Cmd == "tar" || cl.Cmd == "untar" { // the units are the chunks of the archive of a small tree
		total := 0
		for i, nf := 0, rapid.IntRange(1, 12).Draw(t, "nfiles"); i < nf; i++ {
			c.Files = append(c.Files, rapid.IntRange(0, 3000).Draw(t, "fsize"))
			total += c.Files[i] + 150
		}
		avg := int(c.Sizes.Avg)
		if cl.Cmd == "tar" {
			avg = 1500
		}
		nch = min(total/avg+1, 60)
	}
	c.N = rapid.SampledFrom([]int{1, 2, 3, 4}).Draw(t, "n")
	maxk := nch + 5
	switch cl.Cmd {
	case "chop", "cache", "make", "tar": // HEAD + PUT (+ GET) per chunk
		maxk = 2*nch + 5
	}
	c.K = rapid.IntRange(1, maxk).Draw(t, "k")
	if rapid.IntRange(0, 3).Draw(t, "smallk") == 0 {
		c.K = rapid.IntRange(1, 3).Draw(t, "k3")
	}
	switch cl.Cmd {
	case "extract":
		cl.Inplace = rapid.Bool().Draw(t, "inplace")
		cl.Prior = rapid.SampledFrom([]string{"absent", "garbage", "partial"}).Draw(t, "prior")
		cl.PriorSeed = rapid.Uint64().Draw(t, "priorseed")
		cl.PriorLen = rapid.IntRange(0, 4000).Draw(t, "priorlen")
		if rapid.Bool().Draw(t, "longname?") && rapid.Bool().Draw(t, "longname??") {
			cl.DestLen = rapid.SampledFrom(cliDestLens).Draw(t, "destlen")
		}
	case "chop", "cache", "make", "tar":
		cl.Prior = rapid.SampledFrom([]string{"absent", "absent", "partial"}).Draw(t, "prior")
		cl.PriorSeed = rapid.Uint64().Draw(t, "priorseed")
		if cl.Cmd == "make" {
			cl.Stats = rapid.Bool().Draw(t, "printstats")
		}
		if cl.Cmd == "tar" && (!hx.Thorough() || rapid.Bool().Draw(t, "fifo")) {
			cl.Fifo = true
			cl.AddRoot = rapid.Bool().Draw(t, "addroot")
			// mostly early cuts: what the child has buffered when the signal arrives is then small
			if rapid.Bool().Draw(t, "earlycut") {
				cl.Split = rapid.IntRange(0, 2600).Draw(t, "split")
			} else {
				cl.Split = rapid.IntRange(0, 60000).Draw(t, "split")
			}
			cl.Prior = "absent"
		}
	}
	switch cl.Cmd {
	case "chop", "cache":
		cl.Ignore = rapid.SampledFrom([]int{0, 0, 1, 2, 2, 3}).Draw(t, "ignore")
		cl.IdxHTTP = rapid.Bool().Draw(t, "idxhttp")
	case "extract", "untar":
		cl.IdxHTTP = rapid.IntRange(0, 3).Draw(t, "idxhttp") == 0
	}
	if prep := cl.Ignore + map[bool]int{true: 1}[cl.IdxHTTP]; prep > 0 && rapid.Bool().Draw(t, "kprep") {
		c.K = rapid.IntRange(1, prep).Draw(t, "kp") // hold a request of the preparatory phase (index fetches)
	}
	c.CLI = cl
	return c, true
}

// ---------------------------------------------------------------- stored chunks

var (
	cliZenc, _ = zstd.NewWriter(nil)
	cliZdec, _ = zstd.NewReader(nil)
)

func cliKey(ns string, id [32]byte) string {
	s := hex.EncodeToString(id[:])
	return ns + "/" + s[:4] + "/" + s + ".cacnk"
}

type cliChunk struct {
	id         [32]byte
	start, end int
}

func cliChunksOf(idx desync.Index) []cliChunk {
	out := make([]cliChunk, len(idx.Chunks))
	for i, ch := range idx.Chunks {
		out[i] = cliChunk{id: ch.ID, start: int(ch.Start), end: int(ch.Start + ch.Size)}
	}
	return out
}

func cliFill(objs map[string][]byte, ns string, data []byte, chunks []cliChunk, keep func(i int) bool) {
	for i, ch := range chunks {
		if keep == nil || keep(i) {
			objs[cliKey(ns, ch.id)] = cliZenc.EncodeAll(data[ch.start:ch.end], nil)
		}
	}
}

// cliStoreMissing: "" when every chunk is in namespace ns of objs as a valid compressed object
// holding exactly the chunk's bytes (whose ID the harness computed itself).
func cliStoreMissing(objs map[string][]byte, ns string, data []byte, chunks []cliChunk) string {
	for i, ch := range chunks {
		obj, ok := objs[cliKey(ns, ch.id)]
		if !ok {
			return fmt.Sprintf("chunk %d of %d (%x…) is not in the target store", i, len(chunks), ch.id[:6])
		}
		plain, err := cliZdec.DecodeAll(obj, nil)
		if err != nil {
			return fmt.Sprintf("chunk %d of %d (%x…) is in the target store but does not decompress: %v", i, len(chunks), ch.id[:6], err)
		}
		if ch.end > len(data) || ch.start > ch.end || !bytes.Equal(plain, data[ch.start:ch.end]) {
			return fmt.Sprintf("chunk %d of %d (%x…) is in the target store with the wrong bytes", i, len(chunks), ch.id[:6])
		}
	}
	return ""
}

// cliIndexCovers reads an index the child wrote and checks that it tiles data exactly with chunks
// whose IDs are the digests of their bytes.
func cliIndexCovers(path string, data []byte) ([]cliChunk, string) {
	b, err := os.ReadFile(path)
	if err != nil {
		return nil, "the index was not written: " + err.Error()
	}
	f, err := ref.ParseIndex(b)
	if err != nil {
		return nil, "the index written does not parse: " + err.Error()
	}
	var out []cliChunk
	pos := 0
	for i, it := range f.Items {
		end := int(it.End)
		if end <= pos || end > len(data) {
			return nil, fmt.Sprintf("index item %d ends at %d (previous end %d, input has %d bytes)", i, it.End, pos, len(data))
		}
		if ref.ID(data[pos:end], false) != it.ID {
			return nil, fmt.Sprintf("index item %d (%d..%d) does not carry the digest of these input bytes", i, pos, end)
		}
		out = append(out, cliChunk{id: it.ID, start: pos, end: end})
		pos = end
	}
	if pos != len(data) {
		return nil, fmt.Sprintf("the index written covers %d of %d bytes", pos, len(data))
	}
	return out, ""
}

func cliEncodeIndex(idx desync.Index) []byte {
	f := ref.IndexFile{Flags: idx.Index.FeatureFlags, Min: idx.Index.ChunkSizeMin, Avg: idx.Index.ChunkSizeAvg, Max: idx.Index.ChunkSizeMax}
	for _, ch := range idx.Chunks {
		f.Items = append(f.Items, ref.IndexItem{End: ch.Start + ch.Size, ID: ch.ID})
	}
	return ref.EncodeIndex(f)
}

// ---------------------------------------------------------------- destination path

type cliFileState struct {
	Exists bool
	Ino    uint64
	Size   int64
	Mode   os.FileMode
	Mtime  time.Time
	Data   []byte
}

func cliStat(p string) cliFileState {
	fi, err := os.Lstat(p)
	if err != nil {
		return cliFileState{}
	}
	fs := cliFileState{Exists: true, Size: fi.Size(), Mode: fi.Mode(), Mtime: fi.ModTime()}
	if st, ok := fi.Sys().(*syscall.Stat_t); ok {
		fs.Ino = st.Ino
	}
	fs.Data, _ = os.ReadFile(p)
	return fs
}

func (a cliFileState) diff(b cliFileState) string {
	switch {
	case a.Exists != b.Exists:
		return fmt.Sprintf("exists %v -> %v (size now %d)", a.Exists, b.Exists, b.Size)
	case !a.Exists:
		return ""
	case a.Ino != b.Ino:
		return fmt.Sprintf("inode %d -> %d (size %d -> %d)", a.Ino, b.Ino, a.Size, b.Size)
	case a.Size != b.Size:
		return fmt.Sprintf("size %d -> %d", a.Size, b.Size)
	case !bytes.Equal(a.Data, b.Data):
		return "content changed"
	case a.Mode != b.Mode:
		return fmt.Sprintf("mode %v -> %v", a.Mode, b.Mode)
	case !a.Mtime.Equal(b.Mtime):
		return "mtime changed"
	}
	return ""
}

func cliListDir(dir string) []string {
	ents, _ := os.ReadDir(dir)
	var out []string
	for _, e := range ents {
		name := e.Name()
		if len(name) > 80 {
			name = fmt.Sprintf("%s…(%d bytes)", name[:8], len(name))
		}
		out = append(out, name)
	}
	sort.Strings(out)
	return out
}

// ---------------------------------------------------------------- one CLI case

func cliSignal(s string) syscall.Signal {
	if s == "TERM" {
		return syscall.SIGTERM
	}
	return syscall.SIGINT
}

func runCLI(c Case) (o hx.Outcome) {
	cl := *c.CLI
	if cliBin() == "" {
		cliInfra("VERIF_DESYNC_BIN is not set (a CLI case of C07 needs the freshly built CLI)")
	}
	known := false
	for _, k := range cliCommands {
		known = known || k == cl.Cmd
	}
	if !known {
		cl.Cmd = "extract"
	}
	if cl.Sig != "TERM" {
		cl.Sig = "INT"
	}
	n := min(max(c.N, 1), 16)
	k := max(c.K, 0)
	sz := c.Sizes
	if sz.Min < 48 || sz.Avg < sz.Min || sz.Max < sz.Avg {
		sz = gen.Sizes{Min: 64, Avg: 128, Max: 256}
	}
	work := hx.Scratch("c07cli")
	defer os.RemoveAll(work)
	if p, err := filepath.EvalSymlinks(work); err == nil {
		work = p
	}

	objs := map[string][]byte{}
	var (
		args      []string
		openPath  string // verify-index: the signal is sent when the child has this file open
		complete  func(after map[string][]byte) string
		units     int
		dest      string // extract: the destination path
		destDir   string
		before    cliFileState
		priorDesc = cl.Prior
		feed      *fifoFeed // tar from a FIFO
		fedAll    bool
	)
	bit := func(i int) bool { return cl.PriorSeed>>(uint(i)%64)&1 == 1 }
	nStr := strconv.Itoa(n)

	// the blob and its index (every command but tar/untar/verify-index works on it)
	blob := gen.Expand(c.Pieces)
	if len(blob) == 0 {
		blob = gen.RandBytes(300, 1)
	}
	var idx desync.Index
	var chunks []cliChunk
	buildBlobIndex := func() {
		idx = dx.BuildIndex(blob, ref.Chunk(blob, sz.Min, sz.Avg, sz.Max, false), sz, false)
		chunks = cliChunksOf(idx)
		units = len(chunks)
	}
	indexPath := filepath.Join(work, "index.caibx")

	switch cl.Cmd {
	case "extract":
		buildBlobIndex()
		os.WriteFile(indexPath, cliEncodeIndex(idx), 0o644)
		cliFill(objs, "src", blob, chunks, nil)
		destDir = filepath.Join(work, "out")
		os.Mkdir(destDir, 0o755)
		destName := "blob"
		if cl.DestLen > 0 {
			destName = strings.Repeat("x", min(cl.DestLen, 255))
		}
		dest = filepath.Join(destDir, destName)
		switch cl.Prior {
		case "garbage":
			os.WriteFile(dest, gen.RandBytes(max(cl.PriorLen, 0), cl.PriorSeed), 0o600)
		case "partial": // the blob with some chunk positions damaged
			prior := append([]byte(nil), blob...)
			for i, ch := range chunks {
				if bit(i) {
					prior[ch.start] ^= 0x55
				}
			}
			os.WriteFile(dest, prior, 0o600)
		default:
			priorDesc = "absent"
		}
		before = cliStat(dest)
		args = []string{"extract"}
		if cl.Inplace {
			args = append(args, "-k")
		}
		if cl.IdxHTTP {
			objs["idx/main.caibx"] = cliEncodeIndex(idx)
			args = append(args, "-n", nStr, "-s", "@src", "@idx/main.caibx", dest)
		} else {
			args = append(args, "-n", nStr, "-s", "@src", indexPath, dest)
		}
		complete = func(map[string][]byte) string {
			after := cliStat(dest)
			if !after.Exists {
				return "the output file does not exist"
			}
			if !bytes.Equal(after.Data, blob) {
				return fmt.Sprintf("the output file has %d bytes and differs from the %d-byte blob (first difference at %d)", len(after.Data), len(blob), cliFirstDiff(after.Data, blob))
			}
			return ""
		}

	case "chop", "cache":
		buildBlobIndex()
		os.WriteFile(indexPath, cliEncodeIndex(idx), 0o644)
		if cl.Prior == "partial" {
			cliFill(objs, "dst", blob, chunks, bit)
		} else {
			priorDesc = "absent"
		}
		// --ignore indexes, served over HTTP: index j lists the chunks i with i%3 == j%3 that a seed bit selects
		ignored := map[[32]byte]bool{}
		var ignArgs []string
		for j := 0; j < min(max(cl.Ignore, 0), 4); j++ {
			f := ref.IndexFile{Flags: idx.Index.FeatureFlags, Min: sz.Min, Avg: sz.Avg, Max: sz.Max}
			end := uint64(0)
			for i, ch := range chunks {
				if i%3 == j%3 && bit(i+17*(j+1)) {
					ignored[ch.id] = true
					end += uint64(ch.end - ch.start)
					f.Items = append(f.Items, ref.IndexItem{End: end, ID: ch.id})
				}
			}
			name := fmt.Sprintf("idx/ign%d.caibx", j+1)
			objs[name] = ref.EncodeIndex(f)
			ignArgs = append(ignArgs, "--ignore", "@"+name)
		}
		var needed []cliChunk
		for _, ch := range chunks {
			if !ignored[ch.id] {
				needed = append(needed, ch)
			}
		}
		units = len(needed)
		ixArg := indexPath
		if cl.IdxHTTP {
			objs["idx/main.caibx"] = cliEncodeIndex(idx)
			ixArg = "@idx/main.caibx"
		}
		if cl.Cmd == "chop" {
			p := dx.WriteFile(work, "blob", blob)
			args = append(append([]string{"chop", "-n", nStr, "-s", "@dst"}, ignArgs...), ixArg, p)
		} else {
			cliFill(objs, "src", blob, chunks, nil)
			args = append(append([]string{"cache", "-n", nStr, "-s", "@src", "-c", "@dst"}, ignArgs...), ixArg)
		}
		complete = func(after map[string][]byte) string {
			why := cliStoreMissing(after, "dst", blob, needed)
			if why != "" && len(ignored) > 0 {
				why += fmt.Sprintf(" (%d of the %d chunks of the index are listed in the --ignore indexes and not required)", len(chunks)-len(needed), len(chunks))
			}
			return why
		}

	case "make":
		sz = cliMakeSizes
		buildBlobIndex()
		if cl.Prior == "partial" {
			cliFill(objs, "dst", blob, chunks, bit)
		} else {
			priorDesc = "absent"
		}
		p := dx.WriteFile(work, "blob", blob)
		out := filepath.Join(work, "made.caibx")
		args = []string{"make", "-n", nStr, "-m", cliMakeArg, "-s", "@dst"}
		if cl.Stats {
			args = append(args, "--print-stats")
		}
		args = append(args, out, p)
		complete = func(after map[string][]byte) string {
			if cl.Stats {
				// with --print-stats desync make does not write the index: the work is the store, which
				// must hold every chunk of the reference index of the input
				return cliStoreMissing(after, "dst", blob, chunks)
			}
			got, why := cliIndexCovers(out, blob)
			if why != "" {
				return why
			}
			return cliStoreMissing(after, "dst", blob, got)
		}

	case "tar", "untar":
		if cl.Cmd == "tar" && cl.Fifo {
			files := c.Files
			if len(files) == 0 {
				files = []int{100, 0, 2000}
			}
			stream := cliTarStream(files, !cl.AddRoot)
			var full bytes.Buffer
			if e := desync.Tar(context.Background(), &full, desync.NewTarReader(bytes.NewReader(stream), desync.TarReaderOptions{AddRoot: cl.AddRoot})); e != nil {
				o.Fail("C07:harness:tar-failed", "uncancelled Tar of the generated tar stream failed: %v", e)
				return o
			}
			arch := full.Bytes()
			units = len(ref.Chunk(arch, cliMakeSizes.Min, cliMakeSizes.Avg, cliMakeSizes.Max, false))
			priorDesc = "absent"
			k = 0
			cut := min(max(cl.Split, 0), len(stream))
			fifoPath := filepath.Join(work, "input.tar")
			if err := syscall.Mkfifo(fifoPath, 0o600); err != nil {
				return cliInconclusive(cl, "scratch", fmt.Sprintf("mkfifo %s: %v", fifoPath, err))
			}
			feed = &fifoFeed{path: fifoPath, part1: stream[:cut], part2: stream[cut:]}
			fedAll = cut == len(stream)
			out := filepath.Join(work, "made.caidx")
			args = []string{"tar", "-i", "-n", nStr, "-m", cliMakeArg, "-s", "@dst", "--input-format", "tar"}
			if cl.AddRoot {
				args = append(args, "--tar-add-root")
			}
			args = append(args, out, fifoPath)
			complete = func(after map[string][]byte) string {
				got, why := cliIndexCovers(out, arch)
				if why != "" {
					return why + " (input = the archive of the uninterrupted Tar of the same tar stream)"
				}
				return cliStoreMissing(after, "dst", arch, got)
			}
			break
		}
		srcDir := filepath.Join(work, "src")
		os.Mkdir(srcDir, 0o755)
		files := c.Files
		if len(files) == 0 {
			files = []int{100, 0, 2000}
		}
		want := makeTree(srcDir, files)
		var full bytes.Buffer
		if e := desync.Tar(context.Background(), &full, desync.NewLocalFS(srcDir, desync.LocalFSOptions{})); e != nil {
			o.Fail("C07:harness:tar-failed", "uncancelled Tar failed: %v", e)
			return o
		}
		arch := full.Bytes()
		if cl.Cmd == "tar" {
			asz := cliMakeSizes
			achunks := cliChunksOf(dx.BuildIndex(arch, ref.Chunk(arch, asz.Min, asz.Avg, asz.Max, false), asz, false))
			units = len(achunks)
			if cl.Prior == "partial" {
				cliFill(objs, "dst", arch, achunks, bit)
			} else {
				priorDesc = "absent"
			}
			out := filepath.Join(work, "made.caidx")
			args = []string{"tar", "-i", "-n", nStr, "-m", cliMakeArg, "-s", "@dst", out, srcDir}
			complete = func(after map[string][]byte) string {
				got, why := cliIndexCovers(out, arch)
				if why != "" {
					return why + " (input = the archive of the uninterrupted Tar)"
				}
				return cliStoreMissing(after, "dst", arch, got)
			}
		} else {
			aidx := dx.BuildIndex(arch, ref.Chunk(arch, sz.Min, sz.Avg, sz.Max, false), sz, false)
			achunks := cliChunksOf(aidx)
			units = len(achunks)
			cliFill(objs, "src", arch, achunks, nil)
			os.WriteFile(indexPath, cliEncodeIndex(aidx), 0o644)
			dst := filepath.Join(work, "dst")
			os.Mkdir(dst, 0o755)
			args = []string{"untar", "-i", "-n", nStr, "-s", "@src", indexPath, dst}
			if cl.IdxHTTP {
				objs["idx/main.caibx"] = cliEncodeIndex(aidx)
				args[len(args)-2] = "@idx/main.caibx"
			}
			complete = func(map[string][]byte) string { return sameTree(want, listTree(dst)) }
		}

	case "verify-index":
		// No store is involved, so nothing can be held. A large sparse file (all zeros: one digest for
		// every chunk) keeps the child busy for some 100 ms; the signal is sent as soon as the child has
		// the file open. The file is corrupt in its last byte, so exit status 0 is never right.
		const chunk = 1 << 20
		nchunks := 256
		units = nchunks
		zero := make([]byte, chunk)
		id := ref.ID(zero, false)
		f := ref.IndexFile{Flags: ref.FlagSHA512256 | ref.FlagExcludeNoDump, Min: chunk, Avg: chunk, Max: chunk}
		for i := 1; i <= nchunks; i++ {
			f.Items = append(f.Items, ref.IndexItem{End: uint64(i * chunk), ID: id})
		}
		os.WriteFile(indexPath, ref.EncodeIndex(f), 0o644)
		p := filepath.Join(work, "big")
		fh, err := os.Create(p)
		if err != nil {
			return cliInconclusive(cl, "scratch", fmt.Sprintf("cannot create %s: %v", p, err))
		}
		fh.Truncate(int64(nchunks * chunk))
		fh.WriteAt([]byte{1}, int64(nchunks*chunk-1))
		fh.Close()
		openPath = p
		k = 0
		args = []string{"verify-index", "-n", nStr, indexPath, p}
		complete = func(map[string][]byte) string {
			return "the file differs from the index in its last chunk, so a complete verification cannot succeed"
		}
	}

	// ---- the run
	var st *cliState
	if openPath == "" {
		var prefix string
		prefix, st = newCLIState(objs, k)
		if st == nil {
			return cliInconclusive(cl, "listen", "no loopback port for the harness server")
		}
		defer st.drop(prefix)
		for i, a := range args {
			if strings.HasPrefix(a, "@") {
				args[i] = st.url(prefix + "/" + a[1:])
				if strings.HasSuffix(a, ".caibx") { // an index object, not a store
					args[i] = strings.TrimSuffix(args[i], "/")
				}
			}
		}
	}
	res := runChild(work, args, st, cliSignal(cl.Sig), openPath, feed)
	if res.Inconclusive != "" {
		return cliInconclusive(cl, res.Inconclusive, fmt.Sprintf("desync %v (signal sent: %v): %s", cliShortArgs(args), res.SignalSent, cliTail(res.Stderr, 800)))
	}
	var after map[string][]byte
	nreq, heldKey := 0, ""
	if st != nil {
		var reqs []cliReq
		after, reqs, _ = st.snapshot()
		nreq = len(reqs)
		if k >= 1 && k <= nreq {
			heldKey = reqs[k-1].Method + " " + filepath.Base(reqs[k-1].Key)
		}
	}
	exit0 := res.Exit == 0 && !res.Signaled
	said := strings.Contains(res.Stderr, "interrupted")

	// ---- verdicts
	sigPrefix := "C07:cli-" + cl.Cmd + ":"
	how := fmt.Sprintf("SIG%s not sent (request %d was never made; %d requests)", cl.Sig, k, nreq)
	if res.SignalSent {
		how = fmt.Sprintf("SIG%s sent while request %d of %d (%s) was held, %d answered before", cl.Sig, k, nreq, cliShortArgs([]string{heldKey})[0], res.DoneBefore)
		if openPath != "" {
			how = fmt.Sprintf("SIG%s sent when the child had opened the file", cl.Sig)
		}
		if feed != nil {
			how = fmt.Sprintf("SIG%s sent when the child had read the first %d of %d bytes of the tar stream from the FIFO, the rest fed afterwards; %d requests", cl.Sig, len(feed.part1), len(feed.part1)+len(feed.part2), nreq)
		}
	}
	if exit0 {
		if why := complete(after); why != "" {
			o.Fail(sigPrefix+"exit0-but-incomplete", "desync %s exited with status 0 (%s, n=%d, %d units) but its work is not complete: %s; output: %s",
				strings.Join(cliShortArgs(args), " "), how, n, units, why, cliTail(res.Stderr, 300))
		}
	} else if cl.Cmd == "extract" && !cl.Inplace {
		if d := before.diff(cliStat(dest)); d != "" {
			o.Fail(sigPrefix+"dest-touched", "desync extract without -k exited with status %d (%s, n=%d, prior=%s) and the destination path changed: %s; directory now holds %v; output: %s",
				res.Exit, how, n, priorDesc, d, cliListDir(destDir), cliTail(res.Stderr, 300))
		}
	}

	// ---- evidence
	o.Class("entry:cli", "cli:"+cl.Cmd, "cli:sig-"+cl.Sig)
	if n > 1 {
		o.Class("cli:n>1")
	}
	if cl.Cmd == "extract" {
		o.Class("cli:extract:prior="+priorDesc, map[bool]string{true: "cli:extract:inplace", false: "cli:extract:tmpfile"}[cl.Inplace])
		if cl.DestLen > 0 {
			o.Class("cli:extract:longname")
			if !cl.Inplace && before.Exists {
				o.Class("cli:extract:longname-tmpfile-existing-dest")
			}
		}
	}
	if cl.Cmd == "make" {
		o.Class(map[bool]string{true: "cli:make:print-stats", false: "cli:make:index"}[cl.Stats])
	}
	if cl.Cmd == "tar" {
		o.Class(map[bool]string{true: "cli:tar:fifo", false: "cli:tar:directory"}[cl.Fifo])
		if cl.Fifo && cl.AddRoot {
			o.Class("cli:tar:fifo:add-root")
		}
	}
	mid := false
	if res.SignalSent {
		o.Class("cli:signal-sent")
		if strings.HasSuffix(heldKey, ".caibx") { // the signal arrived in the preparatory phase, while an index was being fetched
			o.Class("cli:index-held", "cli:"+cl.Cmd+":index-held")
			if strings.Contains(heldKey, " ign") {
				o.Class("cli:" + cl.Cmd + ":ignore-index-held")
			}
		}
		switch {
		case openPath != "":
			mid = !exit0 && said // observed: the verification was cut short by the signal
		case feed != nil:
			mid = feed.Drained && len(feed.part1) > 0 && !fedAll // part of the input read, the rest still to come
		case res.DoneBefore >= 1:
			mid = true
		default:
			o.Class("cli:signal-at-first-request")
		}
	} else {
		o.Class("cli:signal-not-reached")
	}
	if mid {
		o.Class("cli:signal-delivered-mid-flight", "cli:"+cl.Cmd+":mid-flight")
		if cl.Cmd == "make" {
			o.Class(map[bool]string{true: "cli:make:print-stats:mid-flight", false: "cli:make:index:mid-flight"}[cl.Stats])
		}
		if cl.Cmd == "tar" {
			o.Class(map[bool]string{true: "cli:tar:fifo:mid-flight", false: "cli:tar:directory:mid-flight"}[cl.Fifo])
		}
	}
	switch {
	case exit0:
		o.Class("cli:exit-0")
		if res.SignalSent {
			o.Class("cli:exit-0-after-signal")
		}
	case res.Signaled:
		o.Class("cli:exit-nonzero", "cli:killed-by-signal")
	default:
		o.Class("cli:exit-nonzero")
		if said {
			o.Class("cli:exit-nonzero:interrupted")
			if cl.Cmd == "extract" && mid {
				o.Class(map[bool]string{true: "cli:extract:inplace-interrupted-mid-flight", false: "cli:extract:tmpfile-interrupted-mid-flight"}[cl.Inplace])
			}
		} else {
			o.Class("cli:exit-nonzero:other-error")
			if os.Getenv("VERIF_CLI_DEBUG") != "" {
				fmt.Printf("CLI-DEBUG other error: %v exit=%d %s: %s\n", cliShortArgs(args), res.Exit, how, cliTail(res.Stderr, 600))
			}
		}
	}
	o.Nontrivial = mid
	o.Desc = map[string]any{"entry": "cli", "cmd": cl.Cmd, "sig": cl.Sig, "k": k, "n": n, "units": units, "inplace": cl.Inplace, "prior": priorDesc, "dest_len": cl.DestLen, "print_stats": cl.Stats, "fifo": cl.Fifo, "add_root": cl.AddRoot, "split": cl.Split, "ignore": cl.Ignore, "idx_http": cl.IdxHTTP, "held": cliShortArgs([]string{heldKey})[0],
		"signal_sent": res.SignalSent, "answered_before_signal": res.DoneBefore, "requests": nreq, "exit": res.Exit}
	o.Key = fmt.Sprintf("cli/%s/%s/%d/%d/%d/%v/%s/%d/%v/%d/%v", cl.Cmd, cl.Sig, k, n, units, cl.Inplace, priorDesc, res.DoneBefore, exit0, cl.DestLen, cl.Stats) + fmt.Sprintf("/%v/%v/%d/%d/%d/%v", cl.Fifo, cl.AddRoot, cl.Split, len(c.Files), cl.Ignore, cl.IdxHTTP)
	o.Observed = map[string]any{"args": cliShortArgs(args), "exit": res.Exit, "killed_by_signal": res.Signaled, "signal_sent": res.SignalSent,
		"answered_before_signal": res.DoneBefore, "requests": nreq, "output": cliTail(res.Stderr, 1500)}
	return o
}

// cliTarStream makes a GNU tar stream of flat regular files (sizes as given), optionally led by a
// "./" directory entry, with fixed owners and times.
func cliTarStream(files []int, rootEntry bool) []byte {
	var buf bytes.Buffer
	w := gnutar.NewWriter(&buf)
	when := time.Unix(1600000000, 0)
	if rootEntry {
		w.WriteHeader(&gnutar.Header{Typeflag: gnutar.TypeDir, Name: "./", Mode: 0o755, ModTime: when, Format: gnutar.FormatGNU})
	}
	for i, sz := range files {
		b := gen.RandBytes(max(sz, 0), uint64(i)*7919+uint64(sz)+1)
		w.WriteHeader(&gnutar.Header{Typeflag: gnutar.TypeReg, Name: fmt.Sprintf("./f%02d", i), Mode: 0o644, Size: int64(len(b)),
			Uid: 1000 + i%3, Gid: 100, ModTime: when.Add(time.Duration(i) * time.Second), Format: gnutar.FormatGNU})
		w.Write(b)
	}
	w.Close()
	return buf.Bytes()
}

// cliInconclusive ends a case that cannot be judged for a reason outside desync's statement (the
// child could not be started, or did not exit within the generous limit and was killed): no verdict,
// class cli:inconclusive:<reason>, counted in the evidence notes. Child time-outs that keep
// happening are not starvation any more: the third one in a process makes the run inconclusive.
var cliTimeouts int

func cliInconclusive(cl CLICase, reason, detail string) (o hx.Outcome) {
	if cliBinOverride == "" { // not for the stand-ins of the self-test
		fmt.Printf("CLI-INCONCLUSIVE (%s): %s\n", reason, strings.ReplaceAll(detail, "\n", "\n | "))
		hx.AddNote("cli_inconclusive_cases", 1)
		if reason == "child-timeout" {
			if cliTimeouts++; cliTimeouts >= 3 {
				cliInfra("%d children did not exit within %s after their signal; last: %s", cliTimeouts, cliChildTimeout, detail)
			}
		}
	}
	o.Class("entry:cli", "cli:inconclusive", "cli:inconclusive:"+reason)
	o.Desc = map[string]any{"entry": "cli", "cmd": cl.Cmd, "inconclusive": reason}
	o.Key = "cli/inconclusive/" + cl.Cmd + "/" + reason
	o.Observed = map[string]any{"inconclusive": reason, "detail": detail}
	return o
}

func cliShortArgs(args []string) []string {
	out := make([]string, len(args))
	for i, a := range args {
		if strings.HasPrefix(a, "/") {
			a = filepath.Base(a)
		}
		if len(a) > 80 {
			a = fmt.Sprintf("%s…(%d bytes)", a[:8], len(a))
		}
		out[i] = a
	}
	return out
}

func cliFirstDiff(a, b []byte) int {
	n := min(len(a), len(b))
	for i := 0; i < n; i++ {
		if a[i] != b[i] {
			return i
		}
	}
	return n
}

// ---------------------------------------------------------------- spec hooks and tests

func init() {
	if !cliEnabled() {
		return
	}
	spec.Rule += "; CLI part (only when the driver provides the freshly built CLI): cases = (command in extract, make -s with and without --print-stats and tar -i -s --input-format tar [--tar-add-root] reading a generated tar stream from a FIFO and cache / chop with 0..3 --ignore indexes [quick; make, tar, cache, chop, verify-index at a low rate], + tar -i -s of a directory, untar -i -s [thorough]; the --ignore indexes are, and the index to work on (extract, chop, cache, untar) may be, fetched over HTTP from the harness, so that the held request can be an index fetch of the preparatory phase; SIGINT or SIGTERM; -n 1..4; k; extract: -k or not, destination absent / garbage / partly right, destination base name blob or 200..255 bytes long (near NAME_MAX no temp file fits next to it); target store empty or partly filled); " +
		"the harness serves the chunks over HTTP, holds the k-th request and all behind it, signals the child, releases, and lets the child finish on its own (tar from a FIFO: no request is held; the harness feeds the first `split` bytes of the stream, waits until the child has read them, signals, then feeds the rest and closes; verify-index: signal when the child has opened a 256 MiB sparse file that is corrupt in its last byte); " +
		"oracle: exit status 0 => output file == blob / every chunk of the index (minus the chunks the --ignore indexes list) valid in the harness store / index written tiles the input (make --print-stats writes no index: every chunk of the reference index of the input valid in the store) / unpacked tree == source; extract without -k and exit status != 0 => destination path unchanged (existence, inode, bytes, mode, mtime). " +
		"non-trivial CLI case = the signal was sent while a request was held after at least one request had been answered; distinct by (command, signal, k, n, units, -k, prior, answered-before, exit 0?)"
	spec.Watchdog = cliChildTimeout + 60*time.Second // a child that is killed at its limit ends its case as inconclusive, not as "hang"
	spec.Required = append(spec.Required, "cli:extract", "cli:extract:inplace", "cli:extract:tmpfile", "cli:sig-INT", "cli:sig-TERM",
		"cli:signal-delivered-mid-flight", "cli:exit-0", "cli:exit-nonzero", "cli:exit-nonzero:interrupted",
		"cli:extract:tmpfile-interrupted-mid-flight", "cli:extract:inplace-interrupted-mid-flight",
		"cli:extract:longname-tmpfile-existing-dest", "cli:make", "cli:make:index:mid-flight", "cli:make:print-stats:mid-flight",
		"cli:tar:fifo", "cli:tar:fifo:add-root", "cli:tar:fifo:mid-flight",
		"cli:cache", "cli:cache:mid-flight", "cli:cache:ignore-index-held", "cli:cache:index-held", "cli:chop", "cli:chop:mid-flight", "cli:chop:ignore-index-held", "cli:extract:index-held", "cli:verify-index")
	if hx.Thorough() {
		for _, cmd := range cliCommands[1:] {
			if cmd == "make" {
				continue
			}
			spec.Required = append(spec.Required, "cli:"+cmd, "cli:"+cmd+":mid-flight")
		}
	}
}

// TestCLIEnum: a fixed matrix of extract cases on one small blob, dealt over the shards, so that
// every run sees both signals, both extract modes and every kind of prior destination at an early,
// a middle and a late request whatever the generator draws.
func TestCLIEnum(t *testing.T) {
	if !cliEnabled() {
		t.Skip("VERIF_DESYNC_BIN not set")
	}
	job, total, flip := -1, 0, 0
	for _, sig := range []string{"INT", "TERM"} {
		for _, inplace := range []bool{false, true} {
			for _, prior := range []string{"absent", "garbage", "partial"} {
				flip++ // -n alternates between 1 and 3 from one combination to the next
				for _, n := range []int{[]int{1, 3}[flip%2]} {
					for _, k := range []int{1, 2, 6, 40} {
						job++
						if job%hx.Shards() != hx.Shard() {
							continue
						}
						c := Case{Entry: "cli", Point: "http", K: k, N: n, Sizes: gen.Sizes{Min: 64, Avg: 128, Max: 256},
							Pieces: []gen.Piece{{Kind: "rand", Len: 2400, Seed: 99}},
							CLI:    &CLICase{Cmd: "extract", Sig: sig, Inplace: inplace, Prior: prior, PriorSeed: 0x5a5a5a5a5a5a5a5a, PriorLen: 777}}
						if !hx.Case(t, spec, c) {
							return
						}
						total++
					}
				}
			}
		}
	}
	// destinations whose name leaves no room for a temp file next to them: without -k the existing
	// destination must survive whatever the command does about the temp file
	for i, dl := range []int{243, 244, 250, 255} {
		for j, prior := range []string{"garbage", "partial"} {
			for _, k := range []int{[]int{2, 6}[(i+j)%2]} {
				job++
				if job%hx.Shards() != hx.Shard() {
					continue
				}
				c := Case{Entry: "cli", Point: "http", K: k, N: []int{1, 3}[(i+j)%2], Sizes: gen.Sizes{Min: 64, Avg: 128, Max: 256},
					Pieces: []gen.Piece{{Kind: "rand", Len: 2400, Seed: 99}},
					CLI:    &CLICase{Cmd: "extract", Sig: []string{"INT", "TERM"}[(i+k/6)%2], Prior: prior, PriorSeed: 0x5a5a5a5a5a5a5a5a, PriorLen: 777, DestLen: dl}}
				if !hx.Case(t, spec, c) {
					return
				}
				total++
			}
		}
	}
	hx.AddNote("cli_fixed_extract_cases", total)
	// make -s with and without --print-stats, interrupted while the chunks are being stored
	mtotal := 0
	for _, stats := range []bool{false, true} {
		for _, sig := range []string{"INT", "TERM"} {
			flip++
			for _, n := range []int{[]int{1, 3}[flip%2]} {
				for _, k := range []int{1, 2, 5, 9} {
					job++
					if job%hx.Shards() != hx.Shard() {
						continue
					}
					c := Case{Entry: "cli", Point: "http", K: k, N: n, Sizes: cliMakeSizes,
						Pieces: []gen.Piece{{Kind: "rand", Len: 20000, Seed: 98}},
						CLI:    &CLICase{Cmd: "make", Sig: sig, Prior: "absent", Stats: stats}}
					if !hx.Case(t, spec, c) {
						return
					}
					mtotal++
				}
			}
		}
	}
	hx.AddNote("cli_fixed_make_cases", mtotal)
	// tar -i of a tar stream fed through a FIFO, interrupted when a small first part has been read:
	// whether the interruption is noticed by the chunking side or only by the encoding side is up to
	// the child's scheduler, so every combination is run at six cut points
	ttotal := 0
	for i, sig := range []string{"INT", "TERM"} {
		for j, addRoot := range []bool{true, false} {
			for r, cut := range []int{700, 1024, 1100, 1536, 1800, 2048} {
				job++
				if job%hx.Shards() != hx.Shard() {
					continue
				}
				if !addRoot {
					cut += 512 // the "./" entry
				}
				c := Case{Entry: "cli", Point: "http", N: []int{1, 3}[(i+j+r)%2], Sizes: cliMakeSizes, Files: []int{300, 200, 500, 100, 2000, 900},
					Pieces: []gen.Piece{{Kind: "rand", Len: 100, Seed: 97}},
					CLI:    &CLICase{Cmd: "tar", Sig: sig, Prior: "absent", Fifo: true, AddRoot: addRoot, Split: cut}}
				if !hx.Case(t, spec, c) {
					return
				}
				ttotal++
			}
		}
	}
	hx.AddNote("cli_fixed_tar_fifo_cases", ttotal)
	// cache and chop: the signal arrives while an index of the preparatory phase (the index to work on,
	// one of several --ignore indexes) or a chunk request is held
	ctotal := 0
	for i, v := range []struct {
		cmd     string
		ignore  int
		idxHTTP bool
		ks      []int
	}{
		{"cache", 0, false, []int{1, 4}}, {"cache", 0, true, []int{1, 3}}, {"cache", 2, false, []int{1, 2, 5}}, {"cache", 3, true, []int{1, 2, 3, 4, 7}},
		{"chop", 2, false, []int{1, 2, 5}}, {"chop", 1, true, []int{1, 2, 4}},
	} {
		for j, k := range v.ks {
			job++
			if job%hx.Shards() != hx.Shard() {
				continue
			}
			c := Case{Entry: "cli", Point: "http", K: k, N: []int{1, 3}[(i+j)%2], Sizes: gen.Sizes{Min: 64, Avg: 128, Max: 256},
				Pieces: []gen.Piece{{Kind: "rand", Len: 2400, Seed: 96}},
				CLI:    &CLICase{Cmd: v.cmd, Sig: []string{"INT", "TERM"}[(i+j)%2], Prior: "absent", PriorSeed: 0x3c5a96e1d2b4f078, Ignore: v.ignore, IdxHTTP: v.idxHTTP}}
			if !hx.Case(t, spec, c) {
				return
			}
			ctotal++
		}
	}
	// extract with the index fetched over HTTP: held index fetch = a signal before the assembly starts
	for i, inplace := range []bool{false, true} {
		job++
		if job%hx.Shards() != hx.Shard() {
			continue
		}
		c := Case{Entry: "cli", Point: "http", K: 1, N: 1 + 2*i, Sizes: gen.Sizes{Min: 64, Avg: 128, Max: 256},
			Pieces: []gen.Piece{{Kind: "rand", Len: 2400, Seed: 99}},
			CLI:    &CLICase{Cmd: "extract", Sig: []string{"INT", "TERM"}[i], Inplace: inplace, Prior: "garbage", PriorSeed: 5, PriorLen: 500, IdxHTTP: true}}
		if !hx.Case(t, spec, c) {
			return
		}
		ctotal++
	}
	hx.AddNote("cli_fixed_prep_phase_cases", ctotal)
}

// TestCLISelf checks the machinery of the CLI part against stand-ins for the CLI whose behaviour
// is known: the server must hold exactly the k-th request, the signal must reach the child while it
// is held, and the two verdicts must fire for a child that breaks the statement and stay silent for
// one that keeps it.
func TestCLISelf(t *testing.T) {
	if hx.Shard() != 0 {
		t.Skip("shard != 0")
	}
	fail := func(format string, a ...any) {
		msg := fmt.Sprintf(format, a...)
		fmt.Printf("SELFTEST-FAILURE: %s\n", msg)
		t.Fatal(msg)
	}
	// ---- store oracle
	data := gen.RandBytes(1000, 5)
	chunks := []cliChunk{{ref.ID(data[:400], false), 0, 400}, {ref.ID(data[400:], false), 400, 1000}}
	objs := map[string][]byte{}
	cliFill(objs, "dst", data, chunks, nil)
	if why := cliStoreMissing(objs, "dst", data, chunks); why != "" {
		fail("store oracle rejects a complete store: %s", why)
	}
	k1 := cliKey("dst", chunks[1].id)
	good := objs[k1]
	delete(objs, k1)
	if cliStoreMissing(objs, "dst", data, chunks) == "" {
		fail("store oracle accepts a store without the last chunk")
	}
	objs[k1] = good[:len(good)/2]
	if cliStoreMissing(objs, "dst", data, chunks) == "" {
		fail("store oracle accepts a truncated object")
	}
	objs[k1] = cliZenc.EncodeAll(data[:600], nil)
	if cliStoreMissing(objs, "dst", data, chunks) == "" {
		fail("store oracle accepts an object with other bytes")
	}
	// ---- index oracle
	dir := hx.Scratch("c07self")
	defer os.RemoveAll(dir)
	mk := func(items ...ref.IndexItem) string {
		p := filepath.Join(dir, "i.caibx")
		os.WriteFile(p, ref.EncodeIndex(ref.IndexFile{Flags: ref.FlagSHA512256 | ref.FlagExcludeNoDump, Min: 64, Avg: 128, Max: 1024, Items: items}), 0o644)
		return p
	}
	if _, why := cliIndexCovers(mk(ref.IndexItem{End: 400, ID: chunks[0].id}, ref.IndexItem{End: 1000, ID: chunks[1].id}), data); why != "" {
		fail("index oracle rejects the right index: %s", why)
	}
	if _, why := cliIndexCovers(mk(ref.IndexItem{End: 400, ID: chunks[0].id}), data); why == "" {
		fail("index oracle accepts an index that stops early")
	}
	if _, why := cliIndexCovers(filepath.Join(dir, "none"), data); why == "" {
		fail("index oracle accepts a missing index")
	}
	// ---- destination oracle
	p := filepath.Join(dir, "dest")
	a0 := cliStat(p)
	os.WriteFile(p, []byte("abc"), 0o600)
	a1 := cliStat(p)
	os.WriteFile(p+".new", []byte("abc"), 0o600)
	os.Chtimes(p+".new", a1.Mtime, a1.Mtime)
	os.Rename(p+".new", p)
	a2 := cliStat(p)
	if a0.diff(a0) != "" || a1.diff(a1) != "" || a0.diff(a1) == "" || a1.diff(a2) == "" {
		fail("destination oracle: absent/absent %q same/same %q absent/present %q replaced-by-equal-bytes %q", a0.diff(a0), a1.diff(a1), a0.diff(a1), a1.diff(a2))
	}
	// ---- runner + server + verdicts against stand-ins (bash speaks HTTP through /dev/tcp)
	if _, err := os.Stat("/usr/bin/bash"); err != nil {
		t.Log("no bash: stand-in part skipped")
		return
	}
	// The stand-in is called like "desync extract [-k] -n N -s URL index out". It fetches the first
	// three chunks named in $SELF_IDS one by one, appending a marker line per answered request to the
	// output, and reacts to INT/TERM as $SELF_MODE says.
	script := `#!/usr/bin/bash
out="${@: -1}"; url=""; prev=""
for a in "$@"; do [ "$prev" = "-s" ] && url="$a"; prev="$a"; done
hostport="${url#http://}"; path="/${hostport#*/}"; hostport="${hostport%%/*}"
got=0
finish() {
  case "$SELF_MODE" in
    lie)     echo partial > "$out"; exit 0 ;;
    clobber) echo partial > "$out.tmp"; mv "$out.tmp" "$out"; echo interrupted >&2; exit 1 ;;
    honest)  echo interrupted >&2; exit 1 ;;
    stuck)   while :; do sleep 1000; done ;;
  esac
}
trap 'sig=1' INT TERM
for id in $SELF_IDS; do
  (exec 3<>"/dev/tcp/${hostport%%:*}/${hostport##*:}") 2>/dev/null || { echo "standin: cannot connect" >&2; exit 97; }
  exec 3<>"/dev/tcp/${hostport%%:*}/${hostport##*:}"
  printf 'GET %s%s/%s.cacnk HTTP/1.0\r\n\r\n' "$path" "${id:0:4}" "$id" >&3
  cat <&3 >/dev/null
  exec 3<&-
  [ -n "$sig" ] && finish
done
cp "$SELF_BLOB" "$out"
exit 0
`
	standin := filepath.Join(dir, "standin")
	os.WriteFile(standin, []byte(script), 0o755)
	cliBinOverride = standin
	defer func() { cliBinOverride = "" }()
	c := Case{Entry: "cli", Point: "http", K: 2, N: 1, Sizes: gen.Sizes{Min: 64, Avg: 128, Max: 256},
		Pieces: []gen.Piece{{Kind: "rand", Len: 2400, Seed: 99}},
		CLI:    &CLICase{Cmd: "extract", Sig: "INT", Prior: "garbage", PriorSeed: 3, PriorLen: 50}}
	blob := gen.Expand(c.Pieces)
	idx := dx.BuildIndex(blob, ref.Chunk(blob, 64, 128, 256, false), c.Sizes, false)
	var ids []string
	for _, ch := range idx.Chunks[:3] {
		ids = append(ids, hex.EncodeToString(ch.ID[:]))
	}
	blobPath := dx.WriteFile(dir, "blob", blob)
	defer func() { cliSelfEnv = nil }()
	sigs := func(o hx.Outcome) string {
		var s []string
		for _, v := range o.Violations {
			s = append(s, v.Sig)
		}
		return strings.Join(s, ",")
	}
	has := func(o hx.Outcome, class string) bool {
		for _, cl := range o.Classes {
			if cl == class {
				return true
			}
		}
		return false
	}
	for _, tc := range []struct {
		mode, sig string
		k         int
		want      string
		mid       bool
	}{
		{"lie", "INT", 2, "C07:cli-extract:exit0-but-incomplete", true},
		{"lie", "TERM", 1, "C07:cli-extract:exit0-but-incomplete", false},
		{"clobber", "TERM", 2, "C07:cli-extract:dest-touched", true},
		{"honest", "INT", 3, "", true},
		{"honest", "INT", 9, "", false}, // request 9 is never made: no signal, complete output, exit 0
	} {
		cliSelfEnv = []string{"SELF_MODE=" + tc.mode, "SELF_IDS=" + strings.Join(ids, " "), "SELF_BLOB=" + blobPath}
		c.K = tc.k
		c.CLI.Sig = tc.sig
		// A step is judged on a run in which the stand-in itself worked (it could be started, reached the
		// server and exited in time); on a starved machine that may need another attempt. A step that
		// cannot be run at all after several attempts is skipped with a note: nothing about the oracle
		// was observed. A wrong answer on a healthy run is repeated twice before it fails the self-test.
		var problem string
		wrong, sick := 0, 0
		for attempt := 0; attempt < 8 && wrong < 3; attempt++ {
			if attempt > 0 {
				time.Sleep(time.Duration(attempt) * 500 * time.Millisecond)
			}
			o := runCLI(c)
			obs, _ := o.Observed.(map[string]any)
			if has(o, "cli:inconclusive") || obs["exit"] == 97 {
				sick++
				problem = fmt.Sprintf("stand-in %s/%s/k=%d could not be run: %v", tc.mode, tc.sig, tc.k, o.Observed)
				continue
			}
			problem = ""
			if got := sigs(o); got != tc.want {
				problem = fmt.Sprintf("stand-in %s/%s/k=%d: violations %q, expected %q (%v)", tc.mode, tc.sig, tc.k, got, tc.want, o.Observed)
			} else if has(o, "cli:signal-delivered-mid-flight") != tc.mid {
				problem = fmt.Sprintf("stand-in %s/%s/k=%d: mid-flight class = %v, expected %v (%v)", tc.mode, tc.sig, tc.k, !tc.mid, tc.mid, o.Observed)
			} else if tc.k == 9 && (!has(o, "cli:signal-not-reached") || !has(o, "cli:exit-0")) {
				problem = fmt.Sprintf("stand-in honest/k=9: classes %v", o.Classes)
			} else if d, _ := o.Desc.(map[string]any); tc.k == 3 && (d["answered_before_signal"] != 2 || d["requests"] != 3) {
				problem = fmt.Sprintf("stand-in honest/k=3: the server did not hold exactly the 3rd request: %v", o.Desc)
			}
			if problem == "" {
				break
			}
			wrong++
			fmt.Printf("CLI-SELFTEST attempt %d: %s\n", attempt+1, problem)
		}
		if wrong >= 3 {
			fail("%s", problem)
		}
		if tc.mode == "honest" && tc.k == 9 && problem == "" {
			// a child that never exits is killed at the limit and its case carries no verdict
			cliSelfEnv[0] = "SELF_MODE=stuck"
			c.K = 2
			saved := cliChildTimeout
			cliChildTimeout = 1500 * time.Millisecond
			o := runCLI(c)
			cliChildTimeout = saved
			if !has(o, "cli:inconclusive:child-timeout") || len(o.Violations) > 0 {
				fail("stand-in stuck: classes %v, violations %q; expected cli:inconclusive:child-timeout and no verdict", o.Classes, sigs(o))
			}
		}
		if problem != "" {
			fmt.Printf("NOTE: C07 CLI self-test step skipped, the stand-in could not be run in %d attempts: %s\n", sick, cliTail(problem, 300))
			hx.AddNote("cli_selftest_steps_skipped", 1)
		}
	}
}
