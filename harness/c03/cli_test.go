package c03

import (
	"bytes"
	"context"
	"encoding/json"
	"fmt"
	"net/http"
	"net/url"
	"os"
	"os/exec"
	"path/filepath"
	"sort"
	"strconv"
	"strings"
	"syscall"
	"time"

	"pgregory.net/rapid"

	"verifharness/internal/dx"
	"verifharness/internal/fakessh"
	"verifharness/internal/hx"
)

// CLI describes a case that goes through the built `desync` binary ($VERIF_DESYNC_BIN).
type CLI struct {
	Cmd      string `json:"cmd"`                 // extract | cat | untar
	Role     string `json:"role"`                // store: the poisoned store is -s; cache: it is -c in front of a healthy -s store
	NoRepair bool   `json:"no_repair,omitempty"` // role cache: --cache-repair=false
	SSH      bool   `json:"ssh,omitempty"`       // role store: reached as ssh://… through the fake ssh and `desync pull`
	N        int    `json:"n"`
	Format   string `json:"format,omitempty"` // untar: disk | gnu-tar
	Stdout   bool   `json:"stdout,omitempty"` // cat, untar gnu-tar: output to stdout instead of a file argument
	Offset   int    `json:"offset,omitempty"` // cat: >0: --offset (selector)
	Length   int    `json:"length,omitempty"` // cat: >0: --length (selector)
	// Opts: options that have nothing to do with verification (and one that has): see cliOptions
	Opts []string `json:"opts,omitempty"`
}

// Options a case may add to the command. All but the last must leave the verdict untouched;
// the last one is the explicit way to disable verification for the store under test, and the
// exemption of the statement then applies.
const (
	optTrustInsecure = "trust-insecure"                    // -t: a TLS setting
	optErrorRetry    = "error-retry"                       // -e 2
	optRetryInterval = "error-retry-base-interval"         // -b 1ms
	optVerbose       = "verbose"                           // --verbose
	optPrintStats    = "print-stats"                       // extract --print-stats
	optInPlace       = "in-place"                          // extract -k
	optCfgSkipOther  = "config-skip-verify-other-location" // config: "skip-verify": true for other locations
	optCfgSkipThis   = "config-skip-verify-this-location"  // config: "skip-verify": true for the poisoned store
	// config: a glob entry with "skip-verify": true that matches the poisoned store NEXT TO the store's own entry, which says
	// "skip-verify": false. README: "A configuration file where more than one key matches a single store location, is
	// considered invalid" - an invalid file disables nothing
	optCfgAmbiguous = "config-glob-skip-verify-plus-own-entry"
)

var cliOptions = []string{optPrintStats, optPrintStats, optInPlace, optTrustInsecure, optTrustInsecure, optErrorRetry, optRetryInterval, optVerbose, optCfgSkipOther, optCfgSkipOther, optCfgSkipThis, optCfgAmbiguous}

func hasOpt(opts []string, o string) bool {
	for _, x := range opts {
		if x == o {
			return true
		}
	}
	return false
}

func genCLI(t *rapid.T) *CLI {
	c := &CLI{}
	c.Cmd = rapid.SampledFrom([]string{"extract", "cat", "untar"}).Draw(t, "cmd")
	// http: the poisoned store directory is served by an in-process file server under /Store/
	// group: the store is the second member of a failover group "A|poisoned" whose first member (an HTTP store with
	// "skip-verify": true in the config) answers every request with 500
	c.Role = rapid.SampledFrom([]string{"store", "store", "cache", "http", "group"}).Draw(t, "role")
	if c.Role == "cache" {
		c.NoRepair = rapid.IntRange(0, 2).Draw(t, "norepair") == 0
	} else if hx.Thorough() && fakessh.HavePull() {
		c.SSH = rapid.IntRange(0, 3).Draw(t, "ssh") == 0
	}
	c.N = rapid.IntRange(1, 4).Draw(t, "n")
	for i, k := 0, rapid.IntRange(0, 3).Draw(t, "nopts"); i < k; i++ {
		if o := rapid.SampledFrom(cliOptions).Draw(t, "opt"); !hasOpt(c.Opts, o) {
			c.Opts = append(c.Opts, o)
		}
	}
	if c.Cmd != "extract" { // options only extract has
		var keep []string
		for _, o := range c.Opts {
			if o != optPrintStats && o != optInPlace {
				keep = append(keep, o)
			}
		}
		c.Opts = keep
	}
	if c.Role == "http" && !hasOpt(c.Opts, optCfgSkipOther) && rapid.Bool().Draw(t, "urlcase") {
		c.Opts = append(c.Opts, optCfgSkipOther)
	}
	switch c.Cmd {
	case "untar":
		c.Format = rapid.SampledFrom([]string{"disk", "gnu-tar", "gnu-tar"}).Draw(t, "format")
		c.Stdout = c.Format == "gnu-tar" && rapid.Bool().Draw(t, "stdout")
	case "cat":
		c.Stdout = rapid.Bool().Draw(t, "stdout")
		// the whole blob (io.Copy from the index reader) twice as often as a window (io.CopyN)
		if rapid.IntRange(0, 2).Draw(t, "window") == 0 {
			c.Offset = rapid.IntRange(0, 1<<20).Draw(t, "offset")
			c.Length = rapid.IntRange(0, 1<<20).Draw(t, "length")
			if c.Offset == 0 && c.Length == 0 {
				c.Length = 1
			}
		}
	}
	return c
}

// cliTimeout bounds one command (which takes some ten milliseconds); running into it is
// reported as a hang of the command.
const cliTimeout = 60 * time.Second

func runCLI(c Case) (o hx.Outcome) {
	bin := os.Getenv("VERIF_DESYNC_BIN")
	p, cl := c.Pipe, c.CLI
	switch cl.Cmd {
	case "extract":
		p.Consumer = cAssemble
	case "untar":
		p.Consumer = cUnTarIndex
	default:
		cl.Cmd, p.Consumer = "cat", cReadSeeker
	}
	p.Pre, p.Seek = "", 0
	o.Class("mode:cli", "cli:"+cl.Cmd, "cli-role:"+cl.Role)
	if bin == "" {
		o.Class("cli:not-run(no binary)")
		o.Desc = map[string]any{"mode": mCLI, "skipped": "VERIF_DESYNC_BIN not set"}
		return o
	}
	pd := buildPipe(p)
	_, other := twoChunks(c)
	victim := pd.items[pd.victim]
	if len(pd.items) > 1 {
		other = pd.items[(pd.victim+1)%len(pd.items)].data
	}

	work := hx.Scratch("c03cli")
	defer os.RemoveAll(work)
	unc := c.Backend.Unc
	ssh := cl.SSH && cl.Role == "store" && fakessh.HavePull()
	if ssh {
		unc = false // `desync pull` serves compressed stores only
	}
	poisoned := filepath.Join(work, "poisoned")
	healthyDir := filepath.Join(work, "healthy")
	os.MkdirAll(poisoned, 0o755)
	os.MkdirAll(healthyDir, 0o755)
	plantP, storedP := dirDoor(poisoned, unc)
	plantH, _ := dirDoor(healthyDir, false)
	for _, it := range pd.items {
		plantP(it.id, wire(it.data, unc, c.Backend.Enc))
		plantH(it.id, wire(it.data, false, 0))
	}
	good := wire(victim.data, unc, c.Backend.Enc)
	bad, kind, detail := applyCorr(good, unc, c.Corr, victim.data, other, c.Backend.Enc)
	if !unc && declaredSize(bad) > maxDeclared {
		o.Class("skipped:header-declares>16MiB")
		o.Desc = map[string]any{"mode": mCLI, "skipped": "poisoned object announces a content size above 16 MiB", "corruption": kind, "what": detail}
		return o
	}
	plantP(victim.id, bad)
	changed := !bytes.Equal(bad, good)
	effective := changed && !decodesTo(bad, unc, victim.data)

	idxPath := filepath.Join(work, "index.caibx")
	f, err := os.Create(idxPath)
	if err != nil {
		infra("%v", err)
	}
	if _, err := pd.idx.WriteTo(f); err != nil {
		infra("writing the index: %v", err)
	}
	f.Close()

	// the location the command is given for the poisoned store: the directory, or (role http)
	// the URL under which a plain file server of this process serves that directory
	location := poisoned
	viaHTTP := cl.Role == "http"
	var httpBase string
	if viaHTTP {
		mux := http.NewServeMux()
		mux.Handle("/Store/", http.StripPrefix("/Store/", http.FileServer(http.Dir(poisoned))))
		srv := startServer(mux)
		defer srv.Close()
		httpBase = srv.URL
		location = httpBase + "/Store/"
	}

	// store options come from a config file (the only way to name an uncompressed store)
	storeOpts := map[string]any{}
	this := map[string]any{}
	if unc {
		this["uncompressed"] = true
		this["error-retry"] = 0
	}
	// verification explicitly switched off for the poisoned store itself (a local path; the
	// casync protocol client used for ssh:// has no such switch)
	skipThis := hasOpt(cl.Opts, optCfgSkipThis) && !ssh
	ambiguous := hasOpt(cl.Opts, optCfgAmbiguous) && !skipThis && !ssh
	if skipThis {
		this["skip-verify"] = true
	}
	if ambiguous {
		this["skip-verify"] = false
		g := strings.TrimSuffix(location, "/")
		storeOpts[g[:len(g)-1]+"?"] = map[string]any{"skip-verify": true, "uncompressed": unc, "error-retry": 0}
	}
	var groupFirst string
	if cl.Role == "group" {
		down := startServer(http.HandlerFunc(func(w http.ResponseWriter, r *http.Request) { http.Error(w, "down", http.StatusInternalServerError) }))
		defer down.Close()
		groupFirst = down.URL + "/mirror/"
		storeOpts[groupFirst] = map[string]any{"skip-verify": true, "uncompressed": unc, "error-retry": 0}
	}
	if len(this) > 0 {
		storeOpts[location] = this
	}
	if hasOpt(cl.Opts, optCfgSkipOther) {
		// entries for other locations must not leak to the store under test
		storeOpts[filepath.Join(work, "elsewhere")] = map[string]any{"skip-verify": true}
		storeOpts["http://other.example/store"] = map[string]any{"skip-verify": true, "trust-insecure": true}
		storeOpts[poisoned+"-old"] = map[string]any{"skip-verify": true, "uncompressed": !unc}
		if cl.Role != "cache" {
			storeOpts[healthyDir] = map[string]any{"skip-verify": true} // a store the command does not use
		}
		if viaHTTP {
			// URLs that are other locations by the documented matching (equal after dropping a
			// trailing slash, or a glob match): the path in another letter case, another port,
			// one more path element, another scheme
			u, _ := url.Parse(httpBase)
			port, _ := strconv.Atoi(u.Port())
			// (one spelling per case: two entries that a matcher wrongly takes for this
			// location would make the command refuse the ambiguous config instead)
			folded := []string{"/store/", "/STORE", "/sTORE/", "/storE"}[cl.N&3]
			for _, other := range []string{
				httpBase + folded, httpBase + "/Store/sub",
				fmt.Sprintf("http://%s:%d/Store/", u.Hostname(), port+1),
				"https://" + u.Host + "/Store/",
			} {
				storeOpts[other] = map[string]any{"skip-verify": true, "uncompressed": unc}
			}
		}
	}
	cfg := map[string]any{"store-options": storeOpts}
	cfgBytes, _ := json.Marshal(cfg)
	cfgPath := dx.WriteFile(work, "config.json", cfgBytes)

	n := cl.N
	if n < 1 {
		n = 1
	}
	storeArg := poisoned
	env := append(os.Environ(), "HOME="+work)
	if ssh {
		wrap := filepath.Join(work, "sshwrap")
		os.MkdirAll(wrap, 0o755)
		cleanup, err := fakessh.Setup(wrap)
		if err != nil {
			infra("fakessh.Setup: %v", err)
		}
		env = append(os.Environ(), "HOME="+work) // now with CASYNC_SSH_PATH
		defer cleanup()
		storeArg = fakessh.URL("ssh", poisoned).String()
	}
	args := []string{"--config", cfgPath}
	if hasOpt(cl.Opts, optVerbose) {
		args = append(args, "--verbose")
	}
	args = append(args, cl.Cmd, "-n", fmt.Sprint(n))
	if hasOpt(cl.Opts, optErrorRetry) {
		args = append(args, "-e", "2")
	} else {
		args = append(args, "-e", "0")
	}
	if hasOpt(cl.Opts, optRetryInterval) {
		args = append(args, "-b", "1ms")
	}
	if hasOpt(cl.Opts, optTrustInsecure) {
		args = append(args, "-t")
	}
	if cl.Cmd == "extract" && hasOpt(cl.Opts, optPrintStats) {
		args = append(args, "--print-stats")
	}
	if cl.Cmd == "extract" && hasOpt(cl.Opts, optInPlace) {
		args = append(args, "-k")
	}
	if viaHTTP {
		storeArg = location
	}
	if cl.Role == "cache" {
		args = append(args, "-s", healthyDir, "-c", poisoned)
		if cl.NoRepair {
			args = append(args, "--cache-repair=false")
		}
	} else if cl.Role == "group" {
		args = append(args, "-s", groupFirst+"|"+storeArg)
	} else {
		args = append(args, "-s", storeArg)
	}
	outPath := filepath.Join(work, "out")
	format := ""
	want := pd.blob
	variant := "whole"
	switch cl.Cmd {
	case "extract":
		args = append(args, idxPath, outPath)
	case "cat":
		if cl.Offset > 0 || cl.Length > 0 {
			// a window inside the blob (a length beyond the end makes io.CopyN fail by itself)
			off := cl.Offset % len(pd.blob)
			if cl.Offset > 0 {
				args = append(args, "-o", fmt.Sprint(off))
			} else {
				off = 0
			}
			want = pd.blob[off:]
			if cl.Length > 0 {
				l := 1 + cl.Length%len(want)
				args = append(args, "-l", fmt.Sprint(l))
				want = want[:l]
			}
			variant = "window"
		}
		args = append(args, idxPath)
		if !cl.Stdout {
			args = append(args, outPath)
		}
	case "untar":
		format = "gnu-tar"
		if cl.Format == "disk" {
			format = "disk"
		}
		target := outPath
		if format == "gnu-tar" && cl.Stdout {
			target = "-"
		}
		args = append(args, "-i", "--output-format", format, idxPath, target)
	}
	toStdout := cl.Stdout && (cl.Cmd == "cat" || format == "gnu-tar")
	ctx, cancel := context.WithTimeout(context.Background(), cliTimeout)
	defer cancel()
	cmd := exec.CommandContext(ctx, bin, args...)
	cmd.Env = env
	cmd.Dir = work
	cmd.SysProcAttr = &syscall.SysProcAttr{Pdeathsig: syscall.SIGKILL}
	var stderr bytes.Buffer
	cmd.Stderr = &stderr
	cmd.Stdout = &stderr
	if toStdout {
		of, err := os.Create(outPath)
		if err != nil {
			infra("%v", err)
		}
		defer of.Close()
		cmd.Stdout = of
	}
	runErr := cmd.Run()
	hung := ctx.Err() != nil

	fmtn := fmtName(unc)
	where := fmt.Sprintf("desync %v; %d chunks / %d bytes, victim chunk %d (%d bytes), store %s, corruption %s (%s); output of the command: %q",
		args[2:], len(pd.items), len(pd.blob), pd.victim, len(victim.data), fmtn, kind, detail, clip(stderr.String()))
	o.Class("corr:"+kind, "cli-store:"+fmtn)
	if ssh {
		o.Class("cli:ssh")
	}
	demanded := cl.Role == "cache" && !cl.NoRepair && !skipThis && !ambiguous // (an invalid configuration file is refused: nothing to repair)
	if cl.Role == "group" && effective {
		o.Class("cli:role:failover-group-second-member")
	}
	for _, op := range cl.Opts {
		if op == optCfgSkipThis && !skipThis {
			continue
		}
		if op == optCfgAmbiguous && !ambiguous {
			continue
		}
		if (op == optPrintStats || op == optInPlace) && cl.Cmd != "extract" {
			continue
		}
		if effective {
			o.Class("cli:option:" + op)
			if op == optCfgSkipOther && viaHTTP {
				o.Class("cli:option:" + op + ":url-case")
			}
		}
	}
	if len(cl.Opts) == 0 && effective {
		o.Class("cli:option:none")
	}
	switch {
	case hung:
		o.Fail("C03:cli:"+cl.Cmd+":hang", "the command did not end within %s — %s", cliTimeout, where)
	case skipThis:
		// the config file says "skip-verify" for the poisoned store: nothing is promised
		o.Class("unasserted:cli-config-skipverify")
		if runErr == nil {
			o.Class("cli:unverified-run-succeeded")
		}
	case runErr != nil:
		o.Class("result:error")
		if demanded {
			o.Fail("C03:cli:"+cl.Cmd+":cache-not-repaired", "a poisoned cache entry with cache repair on and a healthy store: the command failed (%v) — %s", runErr, where)
		}
	default:
		var out []byte
		var rerr error
		if format != "disk" {
			out, rerr = os.ReadFile(outPath)
		}
		diff := ""
		if rerr != nil {
			diff = "exit status 0 but no output: " + rerr.Error()
		} else if format == "disk" {
			got, serr := snapshotDir(outPath)
			var want []tarEntry
			expectedEntries(pd.tree, "", &want)
			for i := range want { // on disk only names, kinds, contents and link targets are compared
				want[i].perm, want[i].uid, want[i].gid, want[i].mtime = 0, 0, 0, 0
			}
			sort.Slice(want, func(i, j int) bool { return want[i].name < want[j].name })
			if serr != nil {
				diff = "exit status 0 but the unpacked tree cannot be read: " + serr.Error()
			} else {
				diff = diffEntries(want, got)
			}
		} else if cl.Cmd == "untar" {
			got, perr := parseTar(out)
			var want []tarEntry
			expectedEntries(pd.tree, "", &want)
			if perr != nil {
				diff = "exit status 0 but the tar stream is broken: " + perr.Error()
			} else {
				diff = diffEntries(want, got)
			}
		} else {
			diff = diffBytes(want, out)
		}
		if diff != "" {
			sig := "wrong-output"
			if cl.Cmd == "untar" {
				sig = "wrong-tree"
			} else if strings.HasPrefix(diff, truncatedMark) {
				sig = "truncated-output"
			}
			o.Fail("C03:cli:"+cl.Cmd+":"+sig, "exit status 0 but %s — %s", diff, where)
		} else {
			o.Class("result:good-data")
		}
		// (a window of the blob need not touch the poisoned chunk)
		if demanded && effective && variant == "whole" {
			if obj, ok := storedP(victim.id); !ok || !decodesTo(obj, unc, victim.data) {
				o.Fail("C03:cli:"+cl.Cmd+":cache-not-repaired", "the command succeeded but the poisoned cache entry was not replaced — %s", where)
			} else {
				o.Class("cli:cache-repaired")
			}
		}
	}
	if effective {
		o.Class("effective")
		// consumer classes count the runs in which the damaged chunk stood between the
		// command and its output: the poisoned store is the only source, and it verifies
		if (cl.Role == "store" || cl.Role == "group" || viaHTTP) && !skipThis {
			switch cl.Cmd {
			case "cat":
				o.Class("consumer:cli-cat:" + variant)
				if toStdout {
					o.Class("consumer:cli-cat:stdout")
				} else {
					o.Class("consumer:cli-cat:file")
				}
			case "untar":
				o.Class("consumer:cli-untar:" + format)
				if pd.victimMetaOnly {
					o.Class("consumer:cli-untar:victim-chunk-metadata-only")
					if format == "gnu-tar" {
						o.Class("consumer:cli-untar:gnu-tar:victim-chunk-metadata-only")
					}
				}
			case "extract":
				o.Class("consumer:cli-extract")
			}
		}
	}
	o.Nontrivial = effective && !skipThis
	o.Desc = map[string]any{"opts": strings.Join(cl.Opts, ","), "mode": mCLI, "cmd": cl.Cmd, "role": cl.Role, "no_repair": cl.NoRepair, "ssh": ssh, "format": fmtn, "corruption": kind, "what": detail,
		"chunks": len(pd.items), "bytes": len(pd.blob), "victim_len": len(victim.data), "effective": effective, "failed": runErr != nil}
	o.Key = fmt.Sprintf("cli/%s/%s/%s/%s/%v/%v/%v/%s/%s", cl.Cmd, format, variant, p.Tree, toStdout, cl.Role, cl.NoRepair || ssh, fmtn, kind)
	return o
}

// snapshotDir lists an unpacked tree the way expectedEntries lists the model: names relative
// to the root ("." first), kind, size and content hash of regular files, link targets; sorted
// by name.
func snapshotDir(root string) ([]tarEntry, error) {
	var out []tarEntry
	err := filepath.Walk(root, func(p string, info os.FileInfo, err error) error {
		if err != nil {
			return err
		}
		rel, rerr := filepath.Rel(root, p)
		if rerr != nil {
			return rerr
		}
		e := tarEntry{name: filepath.ToSlash(rel)}
		switch {
		case info.Mode()&os.ModeSymlink != 0:
			e.typ = "symlink"
			if e.link, err = os.Readlink(p); err != nil {
				return err
			}
		case info.IsDir():
			e.typ = "dir"
		case info.Mode().IsRegular():
			b, err := os.ReadFile(p)
			if err != nil {
				return err
			}
			e.typ, e.size, e.sum = "file", len(b), hx.Hash8(b)
		default:
			e.typ = "other:" + info.Mode().String()
		}
		out = append(out, e)
		return nil
	})
	sort.Slice(out, func(i, j int) bool { return out[i].name < out[j].name })
	return out, err
}
