package c03

import (
	"bytes"
	"crypto/sha512"
	"encoding/binary"
	"fmt"

	"github.com/folbricht/desync"
	"github.com/klauspost/compress/zstd"

	"verifharness/internal/gen"
)

// ---------------------------------------------------------------- digests

// The requested IDs are digests of real data. Normally that is SHA512/256 computed here with
// crypto/sha512. In the "weak digest" classes desync.Digest is replaced (for the duration of
// one case) by a function whose values agree with SHA512/256 except that the first or the
// last 16 bytes are a constant: two different chunks then share half of their ID, so a
// comparison that looks at only a part of the sum lets a foreign chunk through.
const (
	digestReal       = ""
	digestWeakPrefix = "weak-prefix"
	digestWeakSuffix = "weak-suffix"
)

func sumWith(mode string, b []byte) [32]byte {
	s := sha512.Sum512_256(b)
	switch mode {
	case digestWeakPrefix:
		for i := 0; i < 16; i++ {
			s[i] = 0xc3
		}
	case digestWeakSuffix:
		for i := 16; i < 32; i++ {
			s[i] = 0x3c
		}
	}
	return s
}

type weakDigest struct {
	desync.SHA512256
	mode string
}

func (w weakDigest) Sum(b []byte) [32]byte { return sumWith(w.mode, b) }

// installDigest replaces desync.Digest and returns the function restoring it.
func installDigest(mode string) func() {
	if mode != digestWeakPrefix && mode != digestWeakSuffix {
		return func() {}
	}
	old := desync.Digest
	desync.Digest = weakDigest{mode: mode}
	return func() { desync.Digest = old }
}

// ---------------------------------------------------------------- chunk content

// ChunkSpec describes chunk content (expanded deterministically, never empty).
type ChunkSpec struct {
	Kind string `json:"k"` // rand | zero | text
	Len  int    `json:"n"`
	Seed uint64 `json:"s,omitempty"`
}

func (s ChunkSpec) bytes() []byte {
	n := s.Len
	if n < 1 {
		n = 1
	}
	k := s.Kind
	if k != "zero" && k != "text" {
		k = "rand"
	}
	return gen.Expand([]gen.Piece{{Kind: k, Len: n, Seed: s.Seed}})
}

// ---------------------------------------------------------------- independent zstd codec

// Encoder variants for the valid objects planted through the back door. Variant 0 has the
// options desync itself uses.
var (
	zencs = func() []*zstd.Encoder {
		mk := func(o ...zstd.EOption) *zstd.Encoder {
			e, err := zstd.NewWriter(nil, o...)
			if err != nil {
				panic(err)
			}
			return e
		}
		return []*zstd.Encoder{
			mk(),
			mk(zstd.WithEncoderCRC(false)),
			mk(zstd.WithEncoderLevel(zstd.SpeedFastest)),
			mk(zstd.WithEncoderLevel(zstd.SpeedBetterCompression), zstd.WithEncoderCRC(false)),
		}
	}()
	zdec, _ = zstd.NewReader(nil)
)

func zCompress(b []byte, variant int) []byte {
	if variant < 0 {
		variant = -variant
	}
	return zencs[variant%len(zencs)].EncodeAll(b, nil)
}

func zDecompress(b []byte) ([]byte, error) { return zdec.DecodeAll(b, nil) }

// wire returns data in the storage format of a slot.
func wire(data []byte, unc bool, variant int) []byte {
	if unc {
		return append([]byte(nil), data...)
	}
	return zCompress(data, variant)
}

// decodesTo reports whether the object, read as the slot's format, yields exactly data.
func decodesTo(obj []byte, unc bool, data []byte) bool {
	if unc {
		return bytes.Equal(obj, data)
	}
	d, err := zDecompress(obj)
	return err == nil && bytes.Equal(d, data)
}

// frameInfo locates the parts of the first zstd frame of an object (RFC 8878 §3.1.1).
type frameInfo struct {
	ok        bool
	hdrStart  int // frame header descriptor
	hdrEnd    int // first byte after the frame header = first block header
	payload   int // first byte after the first block header
	checksum  int // first byte of the 4-byte content checksum, -1 if the frame has none
	hasChksum bool
}

func parseFrame(b []byte) (fi frameInfo) {
	fi.checksum = -1
	if len(b) < 6 || binary.LittleEndian.Uint32(b) != 0xFD2FB528 {
		return fi
	}
	fhd := b[4]
	single := fhd&0x20 != 0
	n := 5
	if !single {
		n++ // window descriptor
	}
	n += []int{0, 1, 2, 4}[fhd&3]
	switch fhd >> 6 {
	case 0:
		if single {
			n++
		}
	case 1:
		n += 2
	case 2:
		n += 4
	case 3:
		n += 8
	}
	if n+3 > len(b) {
		return fi
	}
	fi.ok = true
	fi.hdrStart = 4
	fi.hdrEnd = n
	fi.payload = n + 3
	if fhd&0x04 != 0 && len(b) >= n+3+4 {
		fi.hasChksum = true
		fi.checksum = len(b) - 4
	}
	return fi
}

// declaredSize returns the Frame_Content_Size the first frame header of an object announces
// (0 if the object does not start with a zstd frame or announces nothing).
func declaredSize(b []byte) uint64 {
	if len(b) < 5 || binary.LittleEndian.Uint32(b) != 0xFD2FB528 {
		return 0
	}
	fhd := b[4]
	single := fhd&0x20 != 0
	n := 5
	if !single {
		n++
	}
	n += []int{0, 1, 2, 4}[fhd&3]
	var buf [8]byte
	copy(buf[:], b[min(n, len(b)):])
	switch fhd >> 6 {
	case 0:
		if single {
			return uint64(buf[0])
		}
		return 0
	case 1:
		return uint64(binary.LittleEndian.Uint16(buf[:])) + 256
	case 2:
		return uint64(binary.LittleEndian.Uint32(buf[:]))
	}
	return binary.LittleEndian.Uint64(buf[:])
}

// maxDeclared: poisoned objects whose header announces more than this are not fed to desync.
// The zstd decoder allocates (and, on reused memory, clears) the announced size up to 64 GiB
// before it looks at the data; what that does to the process is the business of the decoder
// robustness property (C19), and several such cases in parallel shards endanger the machine
// the check runs on.
const maxDeclared = 16 << 20

// ---------------------------------------------------------------- corruptions

// Corr is one corruption of a stored object.
type Corr struct {
	Kind string `json:"kind"`
	Pos  int    `json:"pos"`            // position selector inside the class (taken modulo the class width)
	Bit  int    `json:"bit"`            // bit number for flips
	Len  int    `json:"len,omitempty"`  // length of garbage / appended bytes
	Seed uint64 `json:"seed,omitempty"` // content of garbage / appended bytes
}

const (
	kFlipMagic    = "flip-magic"
	kFlipFHdr     = "flip-frame-header"
	kFlipBHdr     = "flip-block-header"
	kFlipPayload  = "flip-payload"
	kFlipChecksum = "flip-checksum"
	kTrunc0       = "trunc-0"
	kTrunc1       = "trunc-1"
	kTruncHdr     = "trunc-header"
	kTruncMid     = "trunc-mid"
	kTruncLast    = "trunc-len-1"
	kGarbage      = "garbage"
	kOtherChunk   = "other-chunk"
	kOtherFrame   = "other-frame"
	kRawInComp    = "raw-in-compressed"
	kCompInRaw    = "compressed-in-raw"
	kAppendFrame  = "append-frame"
	kAppendBytes  = "append-bytes"
	kAppendEmpty  = "append-empty-frame"
	kNone         = "none"
	kFlipAt       = "enum-flip"  // exhaustive part: bit Bit of byte Pos
	kTruncAt      = "enum-trunc" // exhaustive part: cut to Pos bytes
)

// kinds valid for a compressed and for an uncompressed slot
var (
	kindsCompressed = []string{kFlipMagic, kFlipFHdr, kFlipBHdr, kFlipPayload, kFlipPayload, kFlipChecksum,
		kTrunc0, kTrunc1, kTruncHdr, kTruncMid, kTruncLast, kGarbage, kOtherChunk, kOtherFrame, kRawInComp,
		kAppendFrame, kAppendBytes, kAppendEmpty}
	kindsUncompressed = []string{kFlipPayload, kFlipPayload, kFlipPayload, kTrunc0, kTrunc1, kTruncMid, kTruncLast,
		kGarbage, kOtherChunk, kOtherFrame, kCompInRaw, kAppendBytes}
	allKinds = []string{kFlipMagic, kFlipFHdr, kFlipBHdr, kFlipPayload, kFlipChecksum, kTrunc0, kTrunc1, kTruncHdr,
		kTruncMid, kTruncLast, kGarbage, kOtherChunk, kOtherFrame, kRawInComp, kCompInRaw, kAppendFrame, kAppendBytes, kAppendEmpty}
)

func hasKind(list []string, k string) bool {
	for _, x := range list {
		if x == k {
			return true
		}
	}
	return false
}

// normKind maps a kind that does not apply to the slot format (shrunk or hand-written cases)
// to the nearest one that does.
func normKind(kind string, unc bool) string {
	if kind == kNone || kind == kFlipAt || kind == kTruncAt {
		return kind
	}
	if unc {
		switch kind {
		case kFlipMagic, kFlipFHdr, kFlipBHdr, kFlipChecksum:
			return kFlipPayload
		case kTruncHdr:
			return kTruncMid
		case kRawInComp:
			return kCompInRaw
		case kAppendFrame, kAppendEmpty:
			return kAppendBytes
		}
		if hasKind(kindsUncompressed, kind) {
			return kind
		}
		return kGarbage
	}
	if kind == kCompInRaw {
		return kRawInComp
	}
	if hasKind(kindsCompressed, kind) {
		return kind
	}
	return kGarbage
}

func flipAt(obj []byte, lo, hi, pos, bit int) ([]byte, int) {
	out := append([]byte(nil), obj...)
	if len(out) == 0 {
		return out, -1
	}
	if lo < 0 {
		lo = 0
	}
	if hi > len(out) {
		hi = len(out)
	}
	if hi <= lo {
		lo, hi = 0, len(out)
	}
	if pos < 0 {
		pos = -pos
	}
	i := lo + pos%(hi-lo)
	out[i] ^= 1 << uint(bit&7)
	return out, i
}

// applyCorr returns the poisoned object for a slot that holds obj = wire(data). other is the
// plain content of another chunk, variant the encoder variant used for frames made here.
// detail describes what was done (for messages and descriptors, no raw bytes).
func applyCorr(obj []byte, unc bool, c Corr, data, other []byte, variant int) (out []byte, kind, detail string) {
	kind = normKind(c.Kind, unc)
	fi := parseFrame(obj)
	if !unc && !fi.ok {
		// cannot happen for frames of our encoder; keep the case meaningful anyway
		fi = frameInfo{ok: true, hdrStart: min(4, len(obj)), hdrEnd: min(6, len(obj)), payload: min(9, len(obj)), checksum: -1}
	}
	glen := c.Len
	if glen < 0 {
		glen = -glen
	}
	switch kind {
	case kNone:
		return append([]byte(nil), obj...), kind, "unchanged"
	case kFlipAt:
		o, i := flipAt(obj, 0, len(obj), c.Pos, c.Bit)
		return o, kind, fmt.Sprintf("bit %d of byte %d/%d", c.Bit&7, i, len(obj))
	case kTruncAt:
		n := min(max(c.Pos, 0), len(obj))
		return append([]byte(nil), obj[:n]...), kind, fmt.Sprintf("%d -> %d bytes", len(obj), n)
	case kFlipMagic:
		o, i := flipAt(obj, 0, 4, c.Pos, c.Bit)
		return o, kind, fmt.Sprintf("bit %d of byte %d/%d", c.Bit&7, i, len(obj))
	case kFlipFHdr:
		o, i := flipAt(obj, fi.hdrStart, fi.hdrEnd, c.Pos, c.Bit)
		return o, kind, fmt.Sprintf("bit %d of byte %d/%d (frame header %d..%d)", c.Bit&7, i, len(obj), fi.hdrStart, fi.hdrEnd)
	case kFlipBHdr:
		o, i := flipAt(obj, fi.hdrEnd, fi.payload, c.Pos, c.Bit)
		return o, kind, fmt.Sprintf("bit %d of byte %d/%d (block header)", c.Bit&7, i, len(obj))
	case kFlipChecksum:
		if fi.hasChksum {
			o, i := flipAt(obj, fi.checksum, len(obj), c.Pos, c.Bit)
			return o, kind, fmt.Sprintf("bit %d of byte %d/%d (checksum)", c.Bit&7, i, len(obj))
		}
		// frame without checksum: the last byte of the payload stands in
		o, i := flipAt(obj, len(obj)-1, len(obj), 0, c.Bit)
		return o, kind, fmt.Sprintf("bit %d of byte %d/%d (last byte, frame has no checksum)", c.Bit&7, i, len(obj))
	case kFlipPayload:
		lo, hi := 0, len(obj)
		if !unc {
			lo = fi.payload
			if fi.hasChksum {
				hi = fi.checksum
			}
		}
		// favour first and last byte of the range
		pos := c.Pos
		switch {
		case hi > lo && pos%4 == 0:
			pos = 0
		case hi > lo && pos%4 == 1:
			pos = hi - lo - 1
		}
		o, i := flipAt(obj, lo, hi, pos, c.Bit)
		return o, kind, fmt.Sprintf("bit %d of byte %d/%d (payload %d..%d)", c.Bit&7, i, len(obj), lo, hi)
	case kTrunc0:
		return []byte{}, kind, fmt.Sprintf("%d -> 0 bytes", len(obj))
	case kTrunc1:
		return append([]byte(nil), obj[:min(1, len(obj))]...), kind, fmt.Sprintf("%d -> 1 byte", len(obj))
	case kTruncHdr:
		// inside or exactly at the end of magic+frame header, or just after the block header
		cuts := []int{2, 4, 5, fi.hdrEnd, fi.hdrEnd + 1, fi.payload}
		p := c.Pos
		if p < 0 {
			p = -p
		}
		n := min(cuts[p%len(cuts)], len(obj))
		return append([]byte(nil), obj[:n]...), kind, fmt.Sprintf("%d -> %d bytes (header area)", len(obj), n)
	case kTruncMid:
		n := 0
		if len(obj) > 2 {
			p := c.Pos
			if p < 0 {
				p = -p
			}
			n = 2 + p%(len(obj)-2)
		}
		return append([]byte(nil), obj[:n]...), kind, fmt.Sprintf("%d -> %d bytes", len(obj), n)
	case kTruncLast:
		n := max(len(obj)-1, 0)
		return append([]byte(nil), obj[:n]...), kind, fmt.Sprintf("%d -> %d bytes", len(obj), n)
	case kGarbage:
		n := glen
		switch c.Pos % 3 {
		case 0:
			n = len(obj) // same length as the original
		case 1:
			n = 1 + glen%64
		}
		if n == 0 {
			n = 1
		}
		g := gen.RandBytes(n, c.Seed)
		if c.Bit&1 == 1 && !unc && n >= 4 {
			binary.LittleEndian.PutUint32(g, 0xFD2FB528) // garbage behind a valid magic
		}
		return g, kind, fmt.Sprintf("%d random bytes", n)
	case kOtherChunk:
		return wire(other, unc, variant), kind, fmt.Sprintf("valid object of another chunk (%d bytes plain)", len(other))
	case kOtherFrame:
		// a valid zstd frame of data that is no chunk of the case: the original with one byte
		// changed, the original cut or extended (c.Pos selects)
		var d []byte
		switch c.Pos % 4 {
		case 0:
			d = append([]byte(nil), data...)
			d[len(d)/2] ^= 0x01
		case 1:
			d = append([]byte(nil), data[:len(data)-1]...)
		case 2:
			d = append(append([]byte(nil), data...), 0)
		default:
			d = gen.RandBytes(1+glen%512, c.Seed)
		}
		return zCompress(d, variant), kind, fmt.Sprintf("valid zstd frame of %d other bytes", len(d))
	case kRawInComp:
		return append([]byte(nil), data...), kind, "plain data in a compressed slot"
	case kCompInRaw:
		return zCompress(data, variant), kind, "zstd frame of the data in an uncompressed slot"
	case kAppendFrame:
		extra := other
		if c.Pos%2 == 1 {
			extra = data
		}
		return append(append([]byte(nil), obj...), zCompress(extra, variant)...), kind, fmt.Sprintf("second frame of %d bytes appended", len(extra))
	case kAppendBytes:
		n := 1 + glen%32
		tail := gen.RandBytes(n, c.Seed)
		if c.Pos%3 == 0 {
			tail = make([]byte, n)
		}
		return append(append([]byte(nil), obj...), tail...), kind, fmt.Sprintf("%d trailing bytes appended", n)
	case kAppendEmpty:
		// a frame of zero bytes or a skippable frame: the object still decodes to the data
		if c.Pos%2 == 0 {
			// single-segment frame, content size 0, one last raw block of size 0
			empty := []byte{0x28, 0xB5, 0x2F, 0xFD, 0x20, 0x00, 0x01, 0x00, 0x00}
			return append(append([]byte(nil), obj...), empty...), kind, "empty frame appended"
		}
		skip := []byte{0x50, 0x2A, 0x4D, 0x18, 3, 0, 0, 0, 'x', 'y', 'z'}
		return append(append([]byte(nil), obj...), skip...), kind, "skippable frame appended"
	}
	return append([]byte(nil), obj...), kNone, "unchanged"
}
