package c03

import (
	"testing"

	"verifharness/internal/hx"
)

// TestEnum: for one small chunk in a local store, every single-bit flip and every truncation
// length of the stored object, for both formats and every encoder variant.
func enumTest(t *testing.T) {
	if hx.Shard() != 0 {
		t.Skip()
	}
	chunk := ChunkSpec{Kind: "text", Len: hx.Pick(24, 96), Seed: 11}
	other := ChunkSpec{Kind: "rand", Len: 33, Seed: 12}
	n := 0
	for _, unc := range []bool{false, true} {
		variants := len(zencs)
		if unc {
			variants = 1
		}
		for v := 0; v < variants; v++ {
			objLen := len(wire(chunk.bytes(), unc, v))
			base := Case{Mode: mGet, Backend: Backend{Kind: bLocal, Unc: unc, Enc: v}, Chunk: chunk, Other: other, Calls: 1}
			for i := 0; i < objLen; i++ {
				for bit := 0; bit < 8; bit++ {
					c := base
					c.Corr = Corr{Kind: kFlipAt, Pos: i, Bit: bit}
					n++
					if !hx.Case(t, spec, c) {
						return
					}
				}
			}
			for l := 0; l < objLen; l++ {
				c := base
				c.Corr = Corr{Kind: kTruncAt, Pos: l}
				n++
				if !hx.Case(t, spec, c) {
					return
				}
			}
		}
	}
	hx.Note("enumerated_flips_and_truncations", n)
	hx.Exhaustive("local store, one small text chunk: every single-bit flip and every truncation length of the stored object (both formats, 4 encoder option sets)")
}
