package c03

import (
	"bytes"
	"crypto/sha512"
	"fmt"
	"testing"

	"github.com/folbricht/desync"

	"verifharness/internal/dx"
	"verifharness/internal/gen"
	"verifharness/internal/hx"
)

// lyingStore answers the victim ID with a foreign (trusted, unverified) chunk.
type lyingStore struct {
	desync.Store
	victim desync.ChunkID
	lie    []byte
}

func (l lyingStore) GetChunk(id desync.ChunkID) (*desync.Chunk, error) {
	if id == l.victim {
		return desync.NewChunk(l.lie), nil
	}
	return l.Store.GetChunk(id)
}

// aliasStore serves every chunk out of one buffer that it reuses for the next request.
type aliasStore struct {
	desync.Store
	buf []byte
}

func (a *aliasStore) GetChunk(id desync.ChunkID) (*desync.Chunk, error) {
	ch, err := a.Store.GetChunk(id)
	if err != nil {
		return nil, err
	}
	b, _ := ch.Data()
	a.buf = append(a.buf[:0], b...)
	return desync.NewChunk(a.buf), nil
}

// TestSelf: the pieces the verdicts rest on are checked against hand-made inputs.
func selfTest(t *testing.T) {
	fail := func(format string, a ...any) {
		fmt.Printf("SELFTEST-FAILURE: "+format+"\n", a...)
		t.Fatalf(format, a...)
	}
	data := gen.Expand([]gen.Piece{{Kind: "text", Len: 300, Seed: 7}})
	other := gen.RandBytes(120, 9)

	// digests
	if sumWith(digestReal, data) != sha512.Sum512_256(data) {
		fail("sumWith(real) is not SHA512/256")
	}
	a, b := sumWith(digestWeakPrefix, data), sumWith(digestWeakPrefix, other)
	if !bytes.Equal(a[:16], b[:16]) || bytes.Equal(a[16:], b[16:]) {
		fail("weak-prefix digest: first halves must agree, second halves differ")
	}
	a, b = sumWith(digestWeakSuffix, data), sumWith(digestWeakSuffix, other)
	if bytes.Equal(a[:16], b[:16]) || !bytes.Equal(a[16:], b[16:]) {
		fail("weak-suffix digest: second halves must agree, first halves differ")
	}

	// frame parser against each encoder variant
	for v := 0; v < len(zencs); v++ {
		for _, d := range [][]byte{{1}, data, gen.RandBytes(5000, 3), make([]byte, 70000)} {
			z := zCompress(d, v)
			fi := parseFrame(z)
			if !fi.ok || fi.hdrEnd < 6 || fi.payload != fi.hdrEnd+3 || fi.payload > len(z) {
				fail("parseFrame: variant %d, %d bytes: %+v (frame %d bytes)", v, len(d), fi, len(z))
			}
			wantCRC := v == 0 || v == 2
			if fi.hasChksum != wantCRC {
				fail("parseFrame: variant %d checksum flag %v, want %v", v, fi.hasChksum, wantCRC)
			}
			if !decodesTo(z, false, d) {
				fail("variant %d frame does not decode to its data", v)
			}
			if fi.hasChksum {
				// a flipped checksum bit must break the frame for the independent decoder
				bad, _, _ := applyCorr(z, false, Corr{Kind: kFlipChecksum, Pos: 1, Bit: 3}, d, other, v)
				if decodesTo(bad, false, d) {
					fail("variant %d: frame with a flipped checksum bit still decodes", v)
				}
			}
			// what desync wrote is what this decoder reads and vice versa
			dz, err := desync.Compress(d)
			if err != nil || !decodesTo(dz, false, d) {
				fail("desync.Compress output not decodable here: %v", err)
			}
			if back, err := desync.Decompress(nil, z); err != nil || !bytes.Equal(back, d) {
				fail("desync.Decompress cannot read a variant %d frame: %v", v, err)
			}
		}
	}

	// corruptions
	for _, unc := range []bool{false, true} {
		obj := wire(data, unc, 0)
		kinds := kindsCompressed
		if unc {
			kinds = kindsUncompressed
		}
		for _, k := range kinds {
			for pos := 0; pos < 6; pos++ {
				out, kind, _ := applyCorr(obj, unc, Corr{Kind: k, Pos: pos, Bit: pos, Len: 50 + pos, Seed: 5}, data, other, 0)
				if kind != k {
					fail("applyCorr(%s, unc=%v) reported kind %s", k, unc, kind)
				}
				if bytes.Equal(out, obj) {
					fail("applyCorr(%s, unc=%v, pos=%d) left the object unchanged", k, unc, pos)
				}
				still := decodesTo(out, unc, data)
				switch {
				case k == kAppendEmpty && !still:
					fail("an appended empty/skippable frame must leave the object decodable (pos=%d)", pos)
				case k == kOtherChunk && !decodesTo(out, unc, other):
					fail("other-chunk does not decode to the other chunk")
				case k != kAppendEmpty && k != kFlipFHdr && k != kFlipBHdr && k != kFlipMagic && still:
					fail("applyCorr(%s, unc=%v, pos=%d) still decodes to the original", k, unc, pos)
				}
			}
		}
		if k := normKind(kRawInComp, true); k != kCompInRaw {
			fail("normKind")
		}
	}

	// classification of GetChunk results
	id := desync.ChunkID(sumWith("", data))
	if r, _ := classifyGet(desync.NewChunk(data), nil, id, ""); r != resGood {
		fail("good chunk classified %s", r)
	}
	if r, _ := classifyGet(desync.NewChunk(other), nil, id, ""); r != resWrongData {
		fail("foreign chunk classified %s", r)
	}
	if r, _ := classifyGet(nil, nil, id, ""); r != resNilChunk {
		fail("nil chunk classified %s", r)
	}
	if r, _ := classifyGet(nil, desync.ChunkInvalid{ID: id}, id, ""); r != resError {
		fail("error classified %s", r)
	}
	und, _ := desync.NewChunkFromStorage(id, []byte("garbage"), desync.Converters{desync.Compressor{}}, true)
	if r, _ := classifyGet(und, nil, id, ""); r != resUndecoded {
		fail("undecodable chunk classified %s", r)
	}
	wid := desync.ChunkID(sumWith(digestWeakPrefix, data))
	if r, _ := classifyGet(desync.NewChunk(other), nil, wid, digestWeakPrefix); r != resWrongData {
		fail("weak digest: foreign chunk classified %s", r)
	}

	// held chunks: a store that hands out chunks aliasing one reused buffer is flagged, a
	// store that hands out fresh slices is not
	{
		d1, d2 := gen.RandBytes(100, 1), gen.RandBytes(60, 2)
		id1, id2 := desync.ChunkID(sumWith("", d1)), desync.ChunkID(sumWith("", d2))
		ms := dx.NewMemStore("hold")
		ms.Put(id1, d1)
		ms.Put(id2, d2)
		for _, alias := range []bool{false, true} {
			var s desync.Store = ms
			if alias {
				s = &aliasStore{Store: ms}
			}
			h := &holder{}
			ch, err := s.GetChunk(id1)
			h.keep("self-test", id1, ch, err)
			n := h.followUp("self-test", s, []desync.ChunkID{id2}, []desync.ChunkID{{1}})
			var o hx.Outcome
			h.recheck(&o, "self", "self-test", n)
			if h.count() != 2 || n != 2 {
				fail("holder: %d held, %d follow-ups", h.count(), n)
			}
			if flagged := len(o.Violations) > 0; flagged != alias {
				fail("holder: aliasing store=%v but flagged=%v", alias, flagged)
			}
			if alias && o.Violations[0].Sig != "C03:self:held-chunk-altered" {
				fail("holder signature %q", o.Violations[0].Sig)
			}
		}
	}

	// retry after a refusal: silent when the retries fail or deliver the blob, loud when the
	// victim's range is served with the bytes of its (equal-size) predecessor
	{
		p := &Pipe{Consumer: cReadSeeker, Fixed: 64, Victim: 0, N: 1,
			Chunks: []ChunkSpec{{Kind: "rand", Seed: 1}, {Kind: "rand", Seed: 2}, {Kind: "zero"}, {Kind: "zero"}}}
		pd := buildPipe(p)
		if pd.victim != 1 || len(pd.blob) != 4*64 || bytes.Equal(pd.items[2].data, pd.items[3].data) {
			fail("fixed-size layout: victim %d, %d bytes", pd.victim, len(pd.blob))
		}
		v := pd.idx.Chunks[pd.victim]
		refuse := func(b []byte, off int64) (int, error) {
			n := 0
			for n < len(b) && uint64(off)+uint64(n) < v.Start {
				b[n] = pd.blob[off+int64(n)]
				n++
			}
			return n, desync.ChunkInvalid{ID: v.ID}
		}
		honest := func(b []byte, off int64) (int, error) { return copy(b, pd.blob[off:]), nil }
		stale := func(b []byte, off int64) (int, error) {
			for i := range b {
				o := off + int64(i)
				if uint64(o) >= v.Start && uint64(o) < v.Start+v.Size {
					o -= int64(v.Size) // the predecessor's bytes
				}
				b[i] = pd.blob[o]
			}
			return len(b), nil
		}
		if d := pd.retryAfterRefusal(refuse); d != "" || !pd.retried || !pd.retriedSameSize {
			fail("retryAfterRefusal on a refusing reader: %q retried=%v same=%v", d, pd.retried, pd.retriedSameSize)
		}
		if d := pd.retryAfterRefusal(honest); d != "" {
			fail("retryAfterRefusal on an honest reader: %q", d)
		}
		if d := pd.retryAfterRefusal(stale); d == "" {
			fail("retryAfterRefusal did not notice the predecessor's bytes served for the victim")
		}
	}

	// repair shapes
	for shape, want := range map[string]bool{
		"repairable>cache-l": true, "wdedup>repairable>swapw>cache-l>dedup": true, "repairable": false,
		"cache-l": false, "dedup>repairable>cache-l": false, "repairable>router1>cache-l": false} {
		var s []string
		for _, x := range bytes.Split([]byte(shape), []byte(">")) {
			s = append(s, string(x))
		}
		if repairDemanded(s) != want {
			fail("repairDemanded(%s) != %v", shape, want)
		}
	}

	// consumers: silent on a healthy store, loud on a store that lies about one chunk
	for _, consumer := range []string{cAssemble, cReadSeeker, cUnTarIndex} {
		for _, pre := range []string{"", "junk"} {
			p := &Pipe{Consumer: consumer, N: 2, Victim: 1, Pre: pre, Tiling: []int{170, 64, 300, 17}, // chunk 1 lies inside the first file's payload
				Chunks: []ChunkSpec{{Kind: "text", Len: 200, Seed: 1}, {Kind: "rand", Len: 333, Seed: 2}, {Kind: "zero", Len: 50}}}
			pd := buildPipe(p)
			if consumer == cUnTarIndex {
				// put chunk 1 inside the first file's payload
				p.Tiling[0] = bytes.Index(pd.blob, p.Chunks[0].bytes()) + 3
				pd = buildPipe(p)
			}
			ms := dx.NewMemStore("self")
			for _, it := range pd.items {
				ms.Put(it.id, it.data)
			}
			if err, diff := consume(p, pd, ms); err != nil || diff != "" {
				fail("%s on a healthy store: err=%v diff=%q", consumer, err, diff)
			}
			v := pd.items[pd.victim]
			lie := append([]byte(nil), v.data...)
			lie[len(lie)/2] ^= 0x40
			if err, diff := consume(p, pd, lyingStore{ms, v.id, lie}); err != nil || diff == "" {
				fail("%s fed a same-length foreign chunk: the oracle saw err=%v diff=%q, want a difference", consumer, err, diff)
			}
			// and the inconsistent-index builder really produces an index that cannot be right
			pd2 := buildPipe(p)
			claimed := pd2.skew(-3)
			if claimed == uint64(len(pd2.items[pd2.victim].data)) || pd2.idx.Length() == int64(len(pd2.blob)) {
				fail("skew did not change the index")
			}
		}
	}

	// the verdict function end to end: a backend that verifies nothing in front of nothing
	// that verifies is unasserted; the same with a verifying client hop is asserted
	for _, tc := range []struct {
		b    Backend
		want bool
	}{{Backend{Kind: bLocal, Skip: true}, false}, {Backend{Kind: bLocal}, true},
		{Backend{Kind: bHTTP, Skip: true, CSkip: false}, true}, {Backend{Kind: bHTTP, Skip: true, CSkip: true}, false},
		{Backend{Kind: bProtoServer, Skip: true}, true}} {
		lf := openLeaf(tc.b, desync.ChunkID{})
		got := lf.anyVerify()
		lf.close()
		if got != tc.want {
			fail("anyVerify(%+v) = %v", tc.b, got)
		}
	}
}
