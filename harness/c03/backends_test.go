package c03

import (
	"context"
	"encoding/binary"
	"fmt"
	"io"
	"net"
	"net/http"
	"net/http/httptest"
	"net/url"
	"os"
	"path/filepath"
	"sync"
	"sync/atomic"
	"time"

	"github.com/folbricht/desync"

	"verifharness/internal/fakes3"
	"verifharness/internal/fakessh"
	"verifharness/internal/hx"
)

// Backend selects and configures the store that holds the poisoned object.
type Backend struct {
	Kind  string `json:"kind"`             // local http httpraw s3 sftp proto-script proto-server ssh
	Unc   bool   `json:"unc"`              // format of the slot holding the object (uncompressed?)
	Skip  bool   `json:"skip"`             // SkipVerify of the store that reads the object (the server-side store for http, proto-server)
	CSkip bool   `json:"cskip,omitempty"`  // http: SkipVerify of the RemoteHTTP client
	HUnc  bool   `json:"hunc,omitempty"`   // http: format spoken between handler and client
	HdrID string `json:"hdr_id,omitempty"` // proto-script: id in the CHUNK header: req | other | zero
	Enc   int    `json:"enc,omitempty"`    // encoder variant of valid planted objects
}

const (
	bLocal       = "local"
	bHTTP        = "http"
	bHTTPRaw     = "httpraw"
	bS3          = "s3"
	bSFTP        = "sftp"
	bProtoScript = "proto-script"
	bProtoServer = "proto-server"
	bSSH         = "ssh"
)

var quickBackends = []string{bLocal, bHTTP, bHTTPRaw, bS3, bSFTP, bProtoScript, bProtoServer}

func fmtName(unc bool) string {
	if unc {
		return "uncompressed"
	}
	return "compressed"
}

// hop is one verifying-or-not station between the stored object and the caller.
type hop struct {
	name string
	skip bool
}

// leaf is an opened backend: the store under test, its back door, and what is known about it.
type leaf struct {
	kind     string
	unc      bool
	store    desync.Store
	writable bool
	hops     []hop // from the stored object towards the caller
	// repairs: a ChunkInvalid produced by this backend reaches the caller as such and a
	// StoreChunk through it replaces the poisoned slot (precondition of the repair clause)
	repairs bool
	plant   func(id desync.ChunkID, obj []byte)
	stored  func(id desync.ChunkID) ([]byte, bool)
	close   func()
}

func (l *leaf) anyVerify() bool {
	for _, h := range l.hops {
		if !h.skip {
			return true
		}
	}
	return false
}

func (l *leaf) hopString() string {
	s := ""
	for i, h := range l.hops {
		if i > 0 {
			s += ">"
		}
		s += h.name
		if h.skip {
			s += "(skip)"
		} else {
			s += "(verify)"
		}
	}
	return s
}

func infra(format string, a ...any) {
	panic(fmt.Sprintf("C03 harness: "+format, a...))
}

// chunkPath is casync's store layout: <base>/<first 4 hex>/<id>[.cacnk]
func chunkRel(id desync.ChunkID, unc bool) string {
	s := id.String()
	p := s[:4] + "/" + s
	if !unc {
		p += ".cacnk"
	}
	return p
}

func dirDoor(dir string, unc bool) (plant func(desync.ChunkID, []byte), stored func(desync.ChunkID) ([]byte, bool)) {
	plant = func(id desync.ChunkID, obj []byte) {
		p := filepath.Join(dir, filepath.FromSlash(chunkRel(id, unc)))
		if err := os.MkdirAll(filepath.Dir(p), 0o755); err != nil {
			infra("%v", err)
		}
		if err := os.WriteFile(p, obj, 0o644); err != nil {
			infra("%v", err)
		}
	}
	stored = func(id desync.ChunkID) ([]byte, bool) {
		b, err := os.ReadFile(filepath.Join(dir, filepath.FromSlash(chunkRel(id, unc))))
		return b, err == nil
	}
	return
}

func emptyDir(dir string) {
	ents, err := os.ReadDir(dir)
	if err != nil {
		infra("readdir %s: %v", dir, err)
	}
	for _, e := range ents {
		if err := os.RemoveAll(filepath.Join(dir, e.Name())); err != nil {
			infra("cleaning %s: %v", dir, err)
		}
	}
}

func clientOptions(unc, skip bool) desync.StoreOptions {
	return desync.StoreOptions{N: 1, Uncompressed: unc, SkipVerify: skip, ErrorRetry: 0, ErrorRetryBaseInterval: time.Microsecond}
}

func converters(unc bool) desync.Converters {
	if unc {
		return nil
	}
	return desync.Converters{desync.Compressor{}}
}

var serverCounter uint32

// startServer starts an HTTP server for one case on its own loopback address
// (127.<16+shard>.x.y): the closed connections of earlier cases sit in TIME_WAIT for a minute
// and binding a fresh port on an address shared with thousands of them gets slow. Keep-alive is
// off: nothing of a case stays behind in a connection pool. The address influences no verdict.
func startServer(h http.Handler) *httptest.Server {
	k := atomic.AddUint32(&serverCounter, 1)
	l, err := net.Listen("tcp", fmt.Sprintf("127.%d.%d.%d:0", 16+hx.Shard()%100, (k/250)%256, 1+k%250))
	if err != nil {
		if l, err = net.Listen("tcp", "127.0.0.1:0"); err != nil {
			infra("listen: %v", err)
		}
	}
	srv := &httptest.Server{Listener: l, Config: &http.Server{Handler: h}}
	srv.Config.SetKeepAlivesEnabled(false)
	srv.Start()
	return srv
}

func mustURL(srv *httptest.Server) *url.URL {
	u, err := url.Parse(srv.URL + "/")
	if err != nil {
		infra("%v", err)
	}
	return u
}

// openLeaf opens the backend of a case. other is the ID of the second chunk of the case
// (proto-script header games).
func openLeaf(b Backend, other desync.ChunkID) *leaf {
	switch b.Kind {
	case bHTTP:
		return openHTTP(b)
	case bHTTPRaw:
		return openHTTPRaw(b)
	case bS3:
		return openS3(b)
	case bSFTP:
		return openSFTP(b)
	case bProtoScript:
		return openProtoScript(b, other)
	case bProtoServer:
		return openProtoServer(b)
	case bSSH:
		if fakessh.HavePull() {
			return openSSH(b)
		}
	}
	return openLocal(b)
}

// ---------------------------------------------------------------- local

func openLocal(b Backend) *leaf {
	dir := hx.Scratch("c03l")
	s, err := desync.NewLocalStore(dir, desync.StoreOptions{Uncompressed: b.Unc, SkipVerify: b.Skip})
	if err != nil {
		infra("NewLocalStore: %v", err)
	}
	l := &leaf{kind: bLocal, unc: b.Unc, store: s, writable: true, repairs: true,
		hops: []hop{{"LocalStore", b.Skip}}, close: func() { os.RemoveAll(dir) }}
	l.plant, l.stored = dirDoor(dir, b.Unc)
	return l
}

// ---------------------------------------------------------------- RemoteHTTP <-> HTTPHandler <-> LocalStore

func openHTTP(b Backend) *leaf {
	dir := hx.Scratch("c03h")
	up, err := desync.NewLocalStore(dir, desync.StoreOptions{Uncompressed: b.Unc, SkipVerify: b.Skip})
	if err != nil {
		infra("NewLocalStore: %v", err)
	}
	srv := startServer(desync.NewHTTPHandler(up, true, false, converters(b.HUnc), ""))
	s, err := desync.NewRemoteHTTPStore(mustURL(srv), clientOptions(b.HUnc, b.CSkip))
	if err != nil {
		srv.Close()
		infra("NewRemoteHTTPStore: %v", err)
	}
	l := &leaf{kind: bHTTP, unc: b.Unc, store: s, writable: true,
		// not "repairs": a bad object detected (or not decodable) on the server side comes back
		// as an HTTP error, not as ChunkInvalid
		hops:  []hop{{"LocalStore@server", b.Skip}, {"RemoteHTTP", b.CSkip}},
		close: func() { srv.Close(); os.RemoveAll(dir) }}
	l.plant, l.stored = dirDoor(dir, b.Unc)
	return l
}

// ---------------------------------------------------------------- RemoteHTTP <-> plain file server

func openHTTPRaw(b Backend) *leaf {
	dir := hx.Scratch("c03r")
	srv := startServer(http.FileServer(http.Dir(dir)))
	s, err := desync.NewRemoteHTTPStore(mustURL(srv), clientOptions(b.Unc, b.Skip))
	if err != nil {
		srv.Close()
		infra("NewRemoteHTTPStore: %v", err)
	}
	l := &leaf{kind: bHTTPRaw, unc: b.Unc, store: s, writable: false,
		hops: []hop{{"RemoteHTTP", b.Skip}}, close: func() { srv.Close(); os.RemoveAll(dir) }}
	l.plant, l.stored = dirDoor(dir, b.Unc)
	return l
}

// ---------------------------------------------------------------- S3 (one fake server and four stores per process)

const s3Bucket = "c03store"

var s3Shared struct {
	mu      sync.Mutex
	srv     *fakes3.Server
	stores  map[[2]bool]desync.S3Store
	restore func()
}

func openS3(b Backend) *leaf {
	sh := &s3Shared
	sh.mu.Lock()
	defer sh.mu.Unlock()
	if sh.srv == nil {
		sh.srv = fakes3.New()
		sh.restore = fakes3.NoRetry()
		sh.stores = map[[2]bool]desync.S3Store{}
	}
	key := [2]bool{b.Unc, b.Skip}
	s, ok := sh.stores[key]
	if !ok {
		var err error
		if s, err = fakes3.ChunkStore(sh.srv, s3Bucket, "", clientOptions(b.Unc, b.Skip)); err != nil {
			infra("fakes3.ChunkStore: %v", err)
		}
		sh.stores[key] = s
	}
	srv := sh.srv
	clear := func() {
		for _, k := range srv.Keys(s3Bucket) {
			srv.Delete(s3Bucket, k)
		}
	}
	clear()
	unc := b.Unc
	return &leaf{kind: bS3, unc: unc, store: s, writable: true, repairs: true,
		hops:   []hop{{"S3Store", b.Skip}},
		plant:  func(id desync.ChunkID, obj []byte) { srv.Put(s3Bucket, fakes3.ChunkKey("", id, unc), obj) },
		stored: func(id desync.ChunkID) ([]byte, bool) { return srv.Get(s3Bucket, fakes3.ChunkKey("", id, unc)) },
		close:  clear}
}

func closeS3() {
	sh := &s3Shared
	sh.mu.Lock()
	defer sh.mu.Unlock()
	if sh.srv != nil {
		sh.srv.Close()
		sh.restore()
		sh.srv, sh.stores = nil, nil
	}
}

// ---------------------------------------------------------------- SFTP (one store = one child per mode and process)

type sftpEntry struct {
	s   *desync.SFTPStore
	dir string
}

var sftpShared struct {
	mu     sync.Mutex
	stores map[[2]bool]sftpEntry
}

func openSFTP(b Backend) *leaf {
	sh := &sftpShared
	sh.mu.Lock()
	defer sh.mu.Unlock()
	if sh.stores == nil {
		sh.stores = map[[2]bool]sftpEntry{}
	}
	key := [2]bool{b.Unc, b.Skip}
	e, ok := sh.stores[key]
	if !ok {
		wrap := hx.Scratch("c03ssh")
		dir := hx.Scratch("c03sftp")
		cleanup, err := fakessh.Setup(wrap)
		if err != nil {
			infra("fakessh.Setup: %v", err)
		}
		s, err := fakessh.SFTPStore(dir, desync.StoreOptions{N: 1, Uncompressed: b.Unc, SkipVerify: b.Skip})
		cleanup() // the session is running: restore $CASYNC_SSH_PATH, drop the wrapper
		os.RemoveAll(wrap)
		if err != nil {
			infra("cannot open SFTPStore through fakessh: %v", err)
		}
		e = sftpEntry{s, dir}
		sh.stores[key] = e
	}
	emptyDir(e.dir)
	l := &leaf{kind: bSFTP, unc: b.Unc, store: e.s, writable: true, repairs: true,
		hops: []hop{{"SFTPStore", b.Skip}}, close: func() { emptyDir(e.dir) }}
	l.plant, l.stored = dirDoor(e.dir, b.Unc)
	return l
}

func closeSFTP() {
	sh := &sftpShared
	sh.mu.Lock()
	defer sh.mu.Unlock()
	for k, e := range sh.stores {
		e.s.Close()
		os.RemoveAll(e.dir)
		delete(sh.stores, k)
	}
}

func closeShared() {
	closeSFTP()
	closeS3()
}

// ---------------------------------------------------------------- casync protocol

// protoStore makes a desync.Protocol session usable as a Store, the way RemoteSSH does it
// (one session, requests serialised).
type protoStore struct {
	mu   sync.Mutex
	p    *desync.Protocol
	name string
}

func (s *protoStore) GetChunk(id desync.ChunkID) (*desync.Chunk, error) {
	s.mu.Lock()
	defer s.mu.Unlock()
	return s.p.RequestChunk(id)
}

func (s *protoStore) HasChunk(id desync.ChunkID) (bool, error) {
	if _, err := s.GetChunk(id); err != nil {
		return false, err
	}
	return true, nil
}
func (s *protoStore) Close() error   { return nil }
func (s *protoStore) String() string { return s.name }

// scripted peer: answers every REQUEST with a CHUNK message whose body is whatever the back
// door holds for the ID (MISSING if nothing). Framing is written here with encoding/binary.
type scriptPeer struct {
	mu    sync.Mutex
	objs  map[desync.ChunkID][]byte
	hdrID string
	other desync.ChunkID
}

func writeMsg(w io.Writer, typ uint64, body []byte) error {
	b := make([]byte, 16, 16+len(body))
	binary.LittleEndian.PutUint64(b[0:], uint64(16+len(body)))
	binary.LittleEndian.PutUint64(b[8:], typ)
	_, err := w.Write(append(b, body...))
	return err
}

func readMsg(r io.Reader) (typ uint64, body []byte, err error) {
	var h [16]byte
	if _, err = io.ReadFull(r, h[:]); err != nil {
		return 0, nil, err
	}
	l := binary.LittleEndian.Uint64(h[0:])
	if l < 16 || l > 1<<26 {
		return 0, nil, fmt.Errorf("bad message length %d", l)
	}
	body = make([]byte, l-16)
	_, err = io.ReadFull(r, body)
	return binary.LittleEndian.Uint64(h[8:]), body, err
}

func (p *scriptPeer) serve(r io.Reader, w io.Writer) {
	var flags [8]byte
	binary.LittleEndian.PutUint64(flags[:], desync.CaProtocolReadableStore)
	if err := writeMsg(w, desync.CaProtocolHello, flags[:]); err != nil {
		return
	}
	if typ, _, err := readMsg(r); err != nil || typ != desync.CaProtocolHello {
		return
	}
	for {
		typ, body, err := readMsg(r)
		if err != nil || typ != desync.CaProtocolRequest || len(body) < 40 {
			return
		}
		var id desync.ChunkID
		copy(id[:], body[8:40])
		p.mu.Lock()
		obj, ok := p.objs[id]
		p.mu.Unlock()
		if !ok {
			if writeMsg(w, desync.CaProtocolMissing, id[:]) != nil {
				return
			}
			continue
		}
		hdr := id
		switch p.hdrID {
		case "other":
			hdr = p.other
		case "zero":
			hdr = desync.ChunkID{}
		}
		out := make([]byte, 40, 40+len(obj))
		binary.LittleEndian.PutUint64(out, desync.CaProtocolChunkCompressed)
		copy(out[8:], hdr[:])
		if writeMsg(w, desync.CaProtocolChunk, append(out, obj...)) != nil {
			return
		}
	}
}

func openProtoScript(b Backend, other desync.ChunkID) *leaf {
	peer := &scriptPeer{objs: map[desync.ChunkID][]byte{}, hdrID: b.HdrID, other: other}
	c2sR, c2sW := io.Pipe()
	s2cR, s2cW := io.Pipe()
	done := make(chan struct{})
	go func() {
		peer.serve(c2sR, s2cW)
		c2sR.Close()
		s2cW.Close()
		close(done)
	}()
	client := desync.NewProtocol(s2cR, c2sW)
	if _, err := client.Initialize(desync.CaProtocolPullChunks); err != nil {
		c2sW.Close()
		s2cR.Close()
		<-done
		infra("handshake with the scripted peer: %v", err)
	}
	return &leaf{kind: bProtoScript, unc: false, store: &protoStore{p: client, name: "proto-script"},
		hops: []hop{{"Protocol", false}},
		plant: func(id desync.ChunkID, obj []byte) {
			peer.mu.Lock()
			peer.objs[id] = append([]byte(nil), obj...)
			peer.mu.Unlock()
		},
		stored: func(id desync.ChunkID) ([]byte, bool) {
			peer.mu.Lock()
			defer peer.mu.Unlock()
			o, ok := peer.objs[id]
			return o, ok
		},
		close: func() {
			c2sW.Close()
			s2cR.Close()
			c2sR.Close()
			s2cW.Close()
			<-done
		}}
}

func openProtoServer(b Backend) *leaf {
	dir := hx.Scratch("c03p")
	up, err := desync.NewLocalStore(dir, desync.StoreOptions{Uncompressed: b.Unc, SkipVerify: b.Skip})
	if err != nil {
		infra("NewLocalStore: %v", err)
	}
	c2sR, c2sW := io.Pipe()
	s2cR, s2cW := io.Pipe()
	done := make(chan struct{})
	go func() {
		// a server process that returns from Serve exits: its ends of the pipes close
		desync.NewProtocolServer(c2sR, s2cW, up).Serve(context.Background())
		c2sR.Close()
		s2cW.Close()
		close(done)
	}()
	closeAll := func() {
		c2sW.Close()
		s2cR.Close()
		c2sR.Close()
		s2cW.Close()
		<-done
		os.RemoveAll(dir)
	}
	client := desync.NewProtocol(s2cR, c2sW)
	if _, err := client.Initialize(desync.CaProtocolPullChunks); err != nil {
		closeAll()
		infra("handshake with ProtocolServer: %v", err)
	}
	l := &leaf{kind: bProtoServer, unc: b.Unc, store: &protoStore{p: client, name: "proto-server"},
		hops: []hop{{"LocalStore@server", b.Skip}, {"Protocol", false}}, close: closeAll}
	l.plant, l.stored = dirDoor(dir, b.Unc)
	return l
}

// ---------------------------------------------------------------- RemoteSSH through fakessh -> `desync pull` (thorough)

func openSSH(b Backend) *leaf {
	wrap := hx.Scratch("c03sshw")
	dir := hx.Scratch("c03sshd")
	cleanup, err := fakessh.Setup(wrap)
	if err != nil {
		infra("fakessh.Setup: %v", err)
	}
	s, err := fakessh.RemoteSSHStore(dir, desync.StoreOptions{N: 3}) // three sessions (three `desync pull` children)
	cleanup()
	os.RemoveAll(wrap)
	if err != nil {
		infra("cannot open RemoteSSH through fakessh: %v", err)
	}
	// `desync pull` serves a compressed local store with SkipVerify forced on
	l := &leaf{kind: bSSH, unc: false, store: s,
		hops:  []hop{{"LocalStore@pull", true}, {"Protocol", false}},
		close: func() { s.Close(); os.RemoveAll(dir) }}
	l.plant, l.stored = dirDoor(dir, false)
	return l
}
