package c03

import "testing"

// TestZZClose runs last (file order): the per-process shared servers and sftp sessions end here.
func TestZZClose(t *testing.T) { closeShared() }
