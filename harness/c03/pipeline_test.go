package c03

import (
	"archive/tar"
	"bytes"
	"context"
	"crypto/sha512"
	"fmt"
	"io"
	"os"
	"path"
	"path/filepath"
	"runtime"
	"runtime/debug"
	"sort"
	"strings"
	"sync"
	"syscall"
	"time"

	"github.com/folbricht/desync"
	"pgregory.net/rapid"

	"verifharness/internal/catar"
	"verifharness/internal/dx"
	"verifharness/internal/gen"
	"verifharness/internal/hx"
)

const (
	cAssemble   = "assemble"
	cReadSeeker = "readseeker"
	cSparse     = "sparse" // the copy-on-read sparse file behind mount-sparse: one ReadAt over a range
	cUnTarIndex = "untarindex"
)

// Pipe describes the indexed stream of a pipeline case and the consumer that reads it.
type Pipe struct {
	Consumer string      `json:"consumer"`
	Chunks   []ChunkSpec `json:"chunks"`           // the index chunks (assemble, readseeker) or the file contents (untarindex)
	Tiling   []int       `json:"tiling,omitempty"` // untarindex: chunk lengths over the catar stream
	Victim   int         `json:"victim"`           // which chunk is poisoned / has the wrong index size
	N        int         `json:"n"`                // workers
	Pre      string      `json:"pre,omitempty"`    // assemble: state of the target before: "" (absent) | junk | partial
	Seek     int         `json:"seek,omitempty"`   // readseeker: >0: seek into the stream first (selector)
	Delta    int         `json:"delta,omitempty"`  // inconsistent: index size = true size + Delta
	Fixed    int         `json:"fixed,omitempty"`  // >0: every chunk has this length (fixed-size chunking / runs of max-size chunks)
	Tree     string      `json:"tree,omitempty"`   // untarindex: "" files plus a directory and a link | meta: directories, links, empty files only | mixed
	Drain    string      `json:"drain,omitempty"`  // readseeker: how the reader is drained: "" explicit Read calls | io.Copy | io.CopyBuffer
}

const (
	treeMeta  = "meta"
	treeMixed = "mixed"

	drainRead       = "read"
	drainCopy       = "io.Copy"
	drainCopyBuffer = "io.CopyBuffer"
)

func genPipe(t *rapid.T, inconsistent bool) *Pipe { return genPipeFor(t, "", inconsistent) }

func genPipeFor(t *rapid.T, consumer string, inconsistent bool) *Pipe {
	p := &Pipe{Consumer: consumer}
	if consumer == "" {
		p.Consumer = rapid.SampledFrom([]string{cAssemble, cReadSeeker, cUnTarIndex, cSparse}).Draw(t, "consumer")
	}
	n := rapid.IntRange(1, 8).Draw(t, "nchunks")
	for i := 0; i < n; i++ {
		limit := 3000
		if rapid.IntRange(0, 7).Draw(t, "big") == 0 {
			limit = 70000
		}
		p.Chunks = append(p.Chunks, genChunkSpec(t, "pc", limit))
	}
	if p.Consumer == cUnTarIndex {
		// archives with long stretches without payload (directories, links, empty files) cut
		// into small chunks: many chunks then hold nothing but metadata
		p.Tree = rapid.SampledFrom([]string{"", "", treeMeta, treeMixed}).Draw(t, "tree")
		maxTile := 700
		if p.Tree != "" {
			maxTile = rapid.SampledFrom([]int{40, 100, 300}).Draw(t, "maxtile")
		}
		for i, k := 0, rapid.IntRange(1, 30).Draw(t, "ntiles"); i < k; i++ {
			p.Tiling = append(p.Tiling, rapid.IntRange(1, maxTile).Draw(t, "tile"))
		}
	}
	if p.Consumer == cReadSeeker {
		p.Drain = rapid.SampledFrom([]string{drainRead, drainCopy, drainCopy, drainCopyBuffer}).Draw(t, "drain")
	}
	if p.Consumer != cUnTarIndex && rapid.IntRange(0, 2).Draw(t, "fixedsize") == 0 {
		// equal-size neighbours: what a reader that keeps a decoded chunk around can confuse
		p.Fixed = rapid.SampledFrom([]int{1, 2, 48, 100, 1024, 4096}).Draw(t, "fixed")
		if rapid.Bool().Draw(t, "fixedany") {
			p.Fixed = rapid.IntRange(1, 3000).Draw(t, "fixedlen")
		}
		if len(p.Chunks) < 2 {
			p.Chunks = append(p.Chunks, genChunkSpec(t, "pc", 3000))
		}
	}
	p.Victim = rapid.IntRange(0, 1<<16).Draw(t, "victim")
	p.N = rapid.IntRange(1, 4).Draw(t, "n")
	if p.Consumer == cAssemble {
		p.Pre = rapid.SampledFrom([]string{"", "", "junk", "partial"}).Draw(t, "pre")
	}
	if p.Consumer == cReadSeeker && rapid.IntRange(0, 2).Draw(t, "doseek") == 0 {
		p.Seek = rapid.IntRange(1, 1<<20).Draw(t, "seek")
	}
	if p.Consumer == cSparse {
		p.Seek = rapid.IntRange(0, 1<<20).Draw(t, "range")
	}
	if inconsistent {
		p.Pre = ""
		d := rapid.SampledFrom([]int{1, 1, 2, 7, 100, 5000}).Draw(t, "delta")
		// (the seekable reader is asked rarely for a chunk shorter than its entry: see the findings)
		if rapid.Bool().Draw(t, "claimless") || (p.Consumer == cReadSeeker && rapid.IntRange(0, 3).Draw(t, "rarely") > 0) {
			d = -d
		}
		p.Delta = d
	}
	return p
}

type item struct {
	id   desync.ChunkID
	data []byte
}

// pipeData is the materialised stream of a pipeline case.
type pipeData struct {
	blob   []byte
	items  []item
	idx    desync.Index
	tree   *catar.Node // untarindex
	victim int
	skewed bool // the index was made inconsistent
	// untarindex: the victim chunk holds no byte of any file's payload
	victimMetaOnly bool

	// filled by the consumer: after a refused read the same reader/handle was asked again
	retried         bool
	retriedSameSize bool // ... and the chunk read just before the refusal has the victim's size
}

func realID(b []byte) desync.ChunkID { return desync.ChunkID(sha512.Sum512_256(b)) }

func buildTree(files [][]byte, kind string) *catar.Node {
	const mtime = 1_600_000_000_000_000_000
	const sec = 1_000_000_000
	root := &catar.Node{Mode: catar.S_IFDIR | 0o755, MTimeNs: mtime, UID: 1000, GID: 100}
	sub := &catar.Node{Name: "dir", Mode: catar.S_IFDIR | 0o750, MTimeNs: mtime + 7*sec, UID: 1001, GID: 101}
	if kind != treeMeta {
		for i, f := range files {
			n := &catar.Node{Name: fmt.Sprintf("file%02d", i), Mode: catar.S_IFREG | 0o644, MTimeNs: mtime + uint64(i+10)*sec, UID: uint64(2000 + i), GID: 50, Data: f}
			if i%3 == 2 {
				sub.Children = append(sub.Children, n)
			} else {
				root.Children = append(root.Children, n)
			}
		}
	}
	root.Children = append(root.Children, sub)
	target := "file00"
	if kind == treeMeta {
		target = "dir"
	}
	root.Children = append(root.Children, &catar.Node{Name: "link", Mode: catar.S_IFLNK | 0o777, MTimeNs: mtime + 3*sec, UID: 3, GID: 4, Target: target})
	if kind != "" {
		// a long stretch without any payload: nested directories, links and empty files
		// (their number follows the number of chunk specs of the case)
		k := 4 + 3*len(files)
		parent := root
		for i := 0; i < k; i++ {
			t := mtime + uint64(100+i)*sec
			switch i % 4 {
			case 0:
				d := &catar.Node{Name: fmt.Sprintf("m%02d-dir", i), Mode: catar.S_IFDIR | 0o711, MTimeNs: t, UID: 7, GID: 8}
				parent.Children = append(parent.Children, d)
				if i%8 == 0 {
					parent = d // go one level down
				}
			case 1:
				parent.Children = append(parent.Children, &catar.Node{Name: fmt.Sprintf("m%02d-link", i), Mode: catar.S_IFLNK | 0o777, MTimeNs: t, UID: 9, GID: 9, Target: fmt.Sprintf("../somewhere/else/%d", i)})
			case 2:
				parent.Children = append(parent.Children, &catar.Node{Name: fmt.Sprintf("m%02d-empty", i), Mode: catar.S_IFREG | 0o600, MTimeNs: t, UID: 11, GID: 12})
			default:
				parent.Children = append(parent.Children, &catar.Node{Name: fmt.Sprintf("m%02d-edir", i), Mode: catar.S_IFDIR | 0o700, MTimeNs: t, UID: 13, GID: 14})
			}
		}
	}
	sortTree(root)
	return root
}

// sortTree puts the children of every directory into name order (what casync writes).
func sortTree(n *catar.Node) {
	sort.SliceStable(n.Children, func(i, j int) bool { return n.Children[i].Name < n.Children[j].Name })
	for _, c := range n.Children {
		sortTree(c)
	}
}

// invertPayloads returns a copy of the tree with every file's bytes inverted. The two
// encodings differ exactly in the payload bytes.
func invertPayloads(n *catar.Node) *catar.Node {
	c := *n
	c.Data = flipped(n.Data)
	if len(n.Data) == 0 {
		c.Data = nil
	}
	c.Children = nil
	for _, ch := range n.Children {
		c.Children = append(c.Children, invertPayloads(ch))
	}
	return &c
}

func buildPipe(p *Pipe) *pipeData {
	pd := &pipeData{}
	var contents [][]byte
	seen := map[string]bool{}
	for i, cs := range p.Chunks {
		if p.Fixed > 0 {
			cs.Len = p.Fixed
		}
		b := cs.bytes()
		for k := i + 1; seen[string(b)]; k++ { // keep chunk contents distinct (and their lengths as drawn)
			b = append([]byte(nil), b...)
			b[len(b)-1] ^= byte(k)
			if k > i+300 {
				b = append(b, byte(i+1))
			}
		}
		seen[string(b)] = true
		contents = append(contents, b)
	}
	if len(contents) == 0 {
		contents = [][]byte{{0x42}}
	}
	var pieces [][]byte
	if p.Consumer == cUnTarIndex {
		pd.tree = buildTree(contents, p.Tree)
		pd.blob = catar.Encode(pd.tree, catar.EncodeOptions{})
		rest := pd.blob
		for _, l := range p.Tiling {
			if len(rest) == 0 {
				break
			}
			if l < 1 {
				l = 1
			}
			l = min(l, len(rest))
			pieces = append(pieces, rest[:l])
			rest = rest[l:]
		}
		for i := 0; len(rest) > 0; i++ {
			l := min(4096, len(rest))
			if p.Tree != "" && len(p.Tiling) > 0 && len(pieces) < 120 {
				// small chunks all the way through
				l = min(max(p.Tiling[i%len(p.Tiling)], 1), len(rest))
			}
			pieces = append(pieces, rest[:l])
			rest = rest[l:]
		}
		// equal pieces (runs of zeros in the archive) are fine for the poison class; the victim
		// is moved to a piece that occurs once
	} else {
		pieces = contents
		for _, c := range contents {
			pd.blob = append(pd.blob, c...)
		}
	}
	v := p.Victim
	if v < 0 {
		v = -v
	}
	v %= len(pieces)
	if p.Fixed > 0 && len(pieces) > 1 {
		v = 1 + v%(len(pieces)-1) // a victim with a predecessor
	}
	count := map[string]int{}
	for _, pc := range pieces {
		count[string(pc)]++
	}
	for k := 0; k < len(pieces) && count[string(pieces[v])] > 1; k++ {
		v = (v + 1) % len(pieces)
	}
	pd.victim = v
	if pd.tree != nil {
		other := catar.Encode(invertPayloads(pd.tree), catar.EncodeOptions{})
		start := 0
		for _, pc := range pieces[:v] {
			start += len(pc)
		}
		pd.victimMetaOnly = len(other) == len(pd.blob) && bytes.Equal(other[start:start+len(pieces[v])], pieces[v])
	}
	var pos, maxLen uint64
	for _, pc := range pieces {
		it := item{id: realID(pc), data: pc}
		pd.items = append(pd.items, it)
		pd.idx.Chunks = append(pd.idx.Chunks, desync.IndexChunk{ID: it.id, Start: pos, Size: uint64(len(pc))})
		pos += uint64(len(pc))
		maxLen = max(maxLen, uint64(len(pc)))
	}
	pd.idx.Index = desync.FormatIndex{
		FormatHeader: desync.FormatHeader{Size: 48, Type: desync.CaFormatIndex},
		FeatureFlags: desync.CaFormatExcludeNoDump | desync.CaFormatSHA512256,
		ChunkSizeMin: 1, ChunkSizeAvg: max(maxLen/2, 1), ChunkSizeMax: maxLen + 1,
	}
	return pd
}

// skew makes the index inconsistent: entry v claims size true+delta (at least 1, never the
// true size); the offsets of the later chunks move along, as they would in an index file.
func (pd *pipeData) skew(delta int) (claimed uint64) {
	v := pd.victim
	trueLen := int(pd.idx.Chunks[v].Size)
	n := trueLen + delta
	if n < 1 {
		n = 1
	}
	if n == trueLen {
		n = trueLen + 1
	}
	pd.skewed = true
	pd.idx.Chunks[v].Size = uint64(n)
	pos := pd.idx.Chunks[v].Start + uint64(n)
	for i := v + 1; i < len(pd.idx.Chunks); i++ {
		pd.idx.Chunks[i].Start = pos
		pos += pd.idx.Chunks[i].Size
	}
	if uint64(n) >= pd.idx.Index.ChunkSizeMax {
		pd.idx.Index.ChunkSizeMax = uint64(n) + 1
	}
	return uint64(n)
}

// countStore records which IDs a consumer asked for.
type countStore struct {
	desync.Store
	mu   sync.Mutex
	seen map[desync.ChunkID]int
	hold *holder // every good chunk the consumer was given stays held here
}

func (c *countStore) GetChunk(id desync.ChunkID) (*desync.Chunk, error) {
	c.mu.Lock()
	c.seen[id]++
	c.mu.Unlock()
	ch, err := c.Store.GetChunk(id)
	if c.hold != nil {
		c.hold.keep("the consumer", id, ch, err)
	}
	return ch, err
}

func (c *countStore) asked(id desync.ChunkID) int {
	c.mu.Lock()
	defer c.mu.Unlock()
	return c.seen[id]
}

// tarEntry is what is compared of an unpacked tree.
type tarEntry struct {
	name, typ, link string
	size            int
	sum             string
	perm            int64
	uid, gid        int
	mtime           int64 // seconds (the GNU tar header keeps no more)
}

func nodeMeta(n *catar.Node, e tarEntry) tarEntry {
	e.perm, e.uid, e.gid, e.mtime = int64(n.Mode&0o777), int(n.UID), int(n.GID), int64(n.MTimeNs/1_000_000_000)
	return e
}

func expectedEntries(n *catar.Node, dir string, out *[]tarEntry) {
	name := path.Join(dir, n.Name)
	if name == "" {
		name = "."
	}
	switch n.Kind() {
	case catar.S_IFDIR:
		*out = append(*out, nodeMeta(n, tarEntry{name: name, typ: "dir"}))
		for _, c := range n.Children {
			expectedEntries(c, name, out)
		}
	case catar.S_IFREG:
		*out = append(*out, nodeMeta(n, tarEntry{name: name, typ: "file", size: len(n.Data), sum: hx.Hash8(n.Data)}))
	case catar.S_IFLNK:
		*out = append(*out, nodeMeta(n, tarEntry{name: name, typ: "symlink", link: n.Target}))
	}
}

func parseTar(b []byte) ([]tarEntry, error) {
	var out []tarEntry
	tr := tar.NewReader(bytes.NewReader(b))
	for {
		h, err := tr.Next()
		if err == io.EOF {
			return out, nil
		}
		if err != nil {
			return out, err
		}
		e := tarEntry{name: path.Clean(h.Name), perm: h.Mode & 0o777, uid: h.Uid, gid: h.Gid, mtime: h.ModTime.Unix()}
		switch h.Typeflag {
		case tar.TypeDir:
			e.typ = "dir"
		case tar.TypeReg:
			e.typ = "file"
			data, err := io.ReadAll(tr)
			if err != nil {
				return out, err
			}
			e.size, e.sum = len(data), hx.Hash8(data)
		case tar.TypeSymlink:
			e.typ, e.link = "symlink", h.Linkname
		default:
			e.typ = fmt.Sprintf("type-%c", h.Typeflag)
		}
		out = append(out, e)
	}
}

func diffEntries(want, got []tarEntry) string {
	for i := 0; i < len(want) || i < len(got); i++ {
		switch {
		case i >= len(got):
			return fmt.Sprintf("entry %d %+v is missing (%d of %d entries written)", i, want[i], len(got), len(want))
		case i >= len(want):
			return fmt.Sprintf("unexpected extra entry %d %+v", i, got[i])
		case want[i] != got[i]:
			return fmt.Sprintf("entry %d: want %+v got %+v", i, want[i], got[i])
		}
	}
	return ""
}

// spinBudget is the processor time one consumer call may burn before it is declared to be
// spinning (a healthy call needs a few milliseconds). Processor time, not wall time: a
// consumer that is merely starved by a busy machine is waited for (the 60 s case watchdog of
// hx is the last resort for one that blocks without spinning).
const spinBudget = 1500 * time.Millisecond

func cpuTime() time.Duration {
	var ru syscall.Rusage
	if err := syscall.Getrusage(syscall.RUSAGE_SELF, &ru); err != nil {
		return 0
	}
	return time.Duration(ru.Utime.Nano() + ru.Stime.Nano())
}

// consume runs the consumer over (idx, store) and returns its error and, if it reported
// success, a description of how its output differs from the expectation ("" = equal).
// errHang: the consumer spun without returning.
func consume(p *Pipe, pd *pipeData, store desync.Store) (err error, diff string) {
	type result struct {
		err  error
		diff string
	}
	done := make(chan result, 1)
	var rs *desync.IndexPos
	if p.Consumer == cReadSeeker {
		rs = desync.NewIndexReadSeeker(pd.idx, store)
	}
	go func() {
		var r result
		defer func() {
			if x := recover(); x != nil {
				r.err, r.diff = errPanic, fmt.Sprintf("%v\n%s", x, debug.Stack())
			}
			done <- r
		}()
		r.err, r.diff = consumeNow(p, pd, store, rs)
	}()
	start := cpuTime()
	tick := time.NewTicker(5 * time.Millisecond)
	defer tick.Stop()
	hung := false
	for {
		select {
		case r := <-done:
			if hung {
				return errHang, ""
			}
			return r.err, r.diff
		case <-tick.C:
			if cpuTime()-start < spinBudget {
				continue
			}
			if hung || rs == nil {
				buf := make([]byte, 1<<16)
				buf = buf[:runtime.Stack(buf, true)]
				return errHang, string(buf) // the goroutine cannot be stopped; it is left behind
			}
			// IndexPos.Read spins while the current chunk is used up and is not the last of
			// the index: end the index after the victim so that the loop exits and the
			// goroutine can finish. (Only the length of the slice changes.)
			hung = true
			start = cpuTime()
			rs.Index.Chunks = rs.Index.Chunks[:pd.victim+1]
		}
	}
}

func consumeNow(p *Pipe, pd *pipeData, store desync.Store, rs *desync.IndexPos) (err error, diff string) {
	n := p.N
	if n < 1 {
		n = 1
	}
	if n > 8 {
		n = 8
	}
	switch p.Consumer {
	case cAssemble:
		dir := hx.Scratch("c03a")
		defer os.RemoveAll(dir)
		target := filepath.Join(dir, "out")
		switch p.Pre {
		case "junk":
			dx.WriteFile(dir, "out", gen.RandBytes(len(pd.blob), 99))
		case "partial":
			b := gen.RandBytes(len(pd.blob), 98)
			copy(b, pd.blob[:len(pd.blob)/2])
			dx.WriteFile(dir, "out", b)
		}
		if _, err := desync.AssembleFile(context.Background(), target, pd.idx, store, nil, desync.AssembleOptions{N: n}); err != nil {
			return err, ""
		}
		out, rerr := os.ReadFile(target)
		if rerr != nil {
			return nil, "AssembleFile returned nil but the target cannot be read: " + rerr.Error()
		}
		return nil, diffBytes(pd.blob, out)
	case cReadSeeker:
		want := pd.blob
		if p.Seek > 0 && len(pd.blob) > 0 {
			// into the victim chunk, or anywhere
			c := pd.idx.Chunks[pd.victim]
			off := int64(c.Start) + int64(p.Seek/2)%int64(c.Size)
			if p.Seek%2 == 1 {
				off = int64(p.Seek/2) % int64(len(pd.blob))
			}
			if off > int64(len(pd.blob)) {
				off = int64(len(pd.blob))
			}
			if _, err := rs.Seek(off, io.SeekStart); err != nil {
				return err, ""
			}
			want = pd.blob[off:]
		}
		var buf bytes.Buffer
		var err error
		switch p.Drain {
		case drainCopy:
			// what `desync cat` does: io.Copy picks WriteTo of the source or ReadFrom of the
			// destination when they exist
			_, err = io.Copy(&buf, rs)
		case drainCopyBuffer:
			_, err = io.CopyBuffer(onlyWriter{&buf}, rs, make([]byte, 1+p.N*1000))
		default:
			_, err = io.Copy(onlyWriter{&buf}, onlyReader{rs})
		}
		if err != nil {
			if bad := pd.retryAfterRefusal(func(b []byte, off int64) (int, error) {
				if _, serr := rs.Seek(off, io.SeekStart); serr != nil {
					return 0, serr
				}
				return onlyReader{rs}.Read(b)
			}); bad != "" {
				return errRefusedServed, bad
			}
			return err, ""
		}
		return nil, diffBytes(want, buf.Bytes())
	case cSparse:
		dir := hx.Scratch("c03s")
		defer os.RemoveAll(dir)
		sf, err := desync.NewSparseFile(filepath.Join(dir, "cache"), pd.idx, store, desync.SparseFileOptions{})
		if err != nil {
			return err, ""
		}
		h, err := sf.Open()
		if err != nil {
			return err, ""
		}
		defer h.Close()
		// one read that starts in the chunk before the victim (when there is one) and ends in the
		// chunk after it, or, for odd selectors, the whole blob
		from, to := int64(0), int64(len(pd.blob))
		if p.Seek%2 == 0 && len(pd.idx.Chunks) > 0 {
			v := pd.victim
			lo, hi := v, v
			if v > 0 {
				lo = v - 1
			}
			if v < len(pd.idx.Chunks)-1 {
				hi = v + 1
			}
			a, b := pd.idx.Chunks[lo], pd.idx.Chunks[hi]
			from = int64(a.Start) + int64(p.Seek/2)%int64(a.Size)
			to = int64(b.Start) + 1 + int64(p.Seek/7)%int64(b.Size)
			if to > int64(len(pd.blob)) {
				to = int64(len(pd.blob))
			}
			if from > to {
				from = to
			}
		}
		buf := make([]byte, to-from)
		n, rerr := h.ReadAt(buf, from)
		if rerr != nil && rerr != io.EOF {
			if bad := pd.retryAfterRefusal(func(b []byte, off int64) (int, error) { return h.ReadAt(b, off) }); bad != "" {
				return errRefusedServed, bad
			}
			return rerr, ""
		}
		return nil, diffBytes(pd.blob[from:to], buf[:n])
	case cUnTarIndex:
		var buf bytes.Buffer
		tw := desync.NewTarWriter(&buf)
		if err := desync.UnTarIndex(context.Background(), tw, pd.idx, store, n, desync.NullProgressBar{}); err != nil {
			return err, ""
		}
		tw.Close()
		got, perr := parseTar(buf.Bytes())
		if perr != nil {
			return nil, "UnTarIndex returned nil but the tar stream it wrote is broken: " + perr.Error()
		}
		var want []tarEntry
		expectedEntries(pd.tree, "", &want)
		return nil, diffEntries(want, got)
	}
	return fmt.Errorf("unknown consumer %q", p.Consumer), ""
}

// retryAfterRefusal: a read through a reader or handle was refused (the poisoned chunk). A
// caller like a FUSE mount or http.ServeContent comes back to the same reader: the read that
// runs into the victim from the chunk before it, the victim's first bytes, a range elsewhere
// in the victim - twice. Every one of these must fail or deliver the blob's bytes; whatever
// bytes a read reports (with or without an error) must be the blob's. Returns a description
// of the first read that delivered something else.
func (pd *pipeData) retryAfterRefusal(readAt func(b []byte, off int64) (int, error)) string {
	if pd.skewed || len(pd.blob) == 0 {
		return ""
	}
	type rng struct {
		what   string
		off, n int64
	}
	v := pd.victim
	c := pd.idx.Chunks[v]
	var plan []rng
	if v > 0 {
		pr := pd.idx.Chunks[v-1]
		k := min(int64(pr.Size), 3)
		plan = append(plan, rng{"the end of the chunk before the victim and the victim's first bytes", int64(c.Start) - k, k + min(int64(c.Size), 5)})
	}
	plan = append(plan,
		rng{"the victim's first bytes", int64(c.Start), min(int64(c.Size), 100)},
		rng{"the second half of the victim", int64(c.Start + c.Size/2), int64(c.Size - c.Size/2)})
	pd.retried = true
	pd.retriedSameSize = v > 0 && pd.idx.Chunks[v-1].Size == c.Size
	for round := 1; round <= 2; round++ {
		for _, r := range plan {
			buf := make([]byte, r.n)
			k, err := readAt(buf, r.off)
			if k < 0 || int64(k) > r.n {
				return fmt.Sprintf("retry %d of %s (%d bytes at %d): the read reports %d bytes (err=%v)", round, r.what, r.n, r.off, k, err)
			}
			if !bytes.Equal(buf[:k], pd.blob[r.off:r.off+int64(k)]) {
				j := 0
				for j < k && buf[j] == pd.blob[r.off+int64(j)] {
					j++
				}
				where := "are not the blob's"
				if v > 0 {
					pr := pd.idx.Chunks[v-1]
					if o := r.off + int64(j) - int64(c.Start); o >= 0 && o < int64(pr.Size) && pd.blob[int64(pr.Start)+o] == buf[j] {
						where = "are not the blob's (they are the bytes of the chunk before the victim)"
					}
				}
				return fmt.Sprintf("retry %d of %s (%d bytes at %d) after the refusal: the read delivered %d bytes (err=%v) that %s, first difference at offset %d",
					round, r.what, r.n, r.off, k, err, where, r.off+int64(j))
			}
		}
	}
	return ""
}

// onlyWriter hides every method but Write.
type onlyWriter struct{ w io.Writer }

func (o onlyWriter) Write(p []byte) (int, error) { return o.w.Write(p) }

// onlyReader hides every method but Read; a reader that keeps answering (0, nil) is cut off.
type onlyReader struct{ r io.Reader }

func (o onlyReader) Read(p []byte) (int, error) {
	for i := 0; i < 1000; i++ {
		n, err := o.r.Read(p)
		if n > 0 || err != nil {
			return n, err
		}
	}
	return 0, io.ErrNoProgress
}

const truncatedMark = "output is cut short"

func diffBytes(want, got []byte) string {
	if bytes.Equal(want, got) {
		return ""
	}
	i := 0
	for i < len(want) && i < len(got) && want[i] == got[i] {
		i++
	}
	if i == len(got) {
		return fmt.Sprintf("%s: only the first %d of %d bytes", truncatedMark, len(got), len(want))
	}
	return fmt.Sprintf("output has %d bytes, expected %d; first difference at offset %d", len(got), len(want), i)
}

func runPipeline(c Case) (o hx.Outcome) {
	p := c.Pipe
	if p.Consumer != cAssemble && p.Consumer != cUnTarIndex && p.Consumer != cSparse {
		p.Consumer = cReadSeeker
	}
	inconsistent := c.Mode == mInconsistent
	pd := buildPipe(p)
	_, other := twoChunks(c)
	victim := pd.items[pd.victim]
	if len(pd.items) > 1 {
		other = pd.items[(pd.victim+1)%len(pd.items)].data
	}
	oid := realID(other)

	be := c.Backend
	if be.Kind == bSSH && inconsistent {
		be.Kind = bLocal
	}
	lf := openLeaf(be, oid)
	defer lf.close()
	fmtn := fmtName(lf.unc)
	healthy := dx.NewMemStore("healthy")
	for _, it := range pd.items {
		lf.plant(it.id, wire(it.data, lf.unc, be.Enc))
		healthy.Put(it.id, it.data)
	}
	good := wire(victim.data, lf.unc, be.Enc)
	kind, detail := kNone, "unchanged"
	changed, effective := false, false
	var claimed uint64
	if inconsistent {
		claimed = pd.skew(p.Delta)
	} else {
		var bad []byte
		bad, kind, detail = applyCorr(good, lf.unc, c.Corr, victim.data, other, be.Enc)
		if tooBig(bad, lf) {
			o.Class("skipped:header-declares>16MiB")
			o.Desc = map[string]any{"mode": c.Mode, "skipped": "poisoned object announces a content size above 16 MiB", "corruption": kind, "what": detail}
			return o
		}
		lf.plant(victim.id, bad)
		changed = !bytes.Equal(bad, good)
		effective = changed && !decodesTo(bad, lf.unc, victim.data)
	}
	st := buildStack(lf.store, c.Stack, healthy)
	defer st.close()
	hold := &holder{}
	cs := &countStore{Store: st.top, seen: map[desync.ChunkID]int{}, hold: hold}
	// after the consumer is done: every chunk it was given is still held; all IDs of the index
	// (and one nobody has) are requested once more from the same backend store, then the held
	// chunks are looked at again
	recheckHeld := func(where string) {
		var ids []desync.ChunkID
		for _, it := range pd.items {
			if it.id != victim.id {
				ids = append(ids, it.id)
			}
		}
		n := hold.followUp("a follow-up request to the backend", lf.store, ids, []desync.ChunkID{realID([]byte("nobody has this"))})
		hold.recheck(&o, lf.kind+":"+fmtn, where, n)
	}

	where := fmt.Sprintf("consumer %s (n=%d pre=%q seek=%d), %d chunks / %d bytes, victim chunk %d (%d bytes at %d), backend %s/%s hops %s, stack [%s]",
		p.Consumer, p.N, p.Pre, p.Seek, len(pd.items), len(pd.blob), pd.victim, len(victim.data), pd.idx.Chunks[pd.victim].Start, lf.kind, fmtn, lf.hopString(), st.shapeString())

	o.Class("mode:"+c.Mode, "consumer:"+p.Consumer, "backend:"+lf.kind+":"+fmtn)
	for _, w := range st.shape {
		o.Class("wrap:" + strings.TrimRight(w, "0123456789"))
	}
	desc := map[string]any{"mode": c.Mode, "consumer": p.Consumer, "backend": lf.kind, "format": fmtn, "hops": lf.hopString(), "stack": st.shapeString(),
		"chunks": len(pd.items), "bytes": len(pd.blob), "victim": pd.victim, "victim_len": len(victim.data), "n": p.N, "pre": p.Pre, "seek": p.Seek > 0}
	o.Desc = desc

	if inconsistent {
		dir := "index-claims-more"
		if claimed < uint64(len(victim.data)) {
			dir = "index-claims-less"
		}
		o.Class("inconsistent:"+p.Consumer, "inconsistent:"+dir)
		desc["claimed_len"] = claimed
		where += fmt.Sprintf(", index claims %d bytes for the %d-byte chunk", claimed, len(victim.data))
		err, diff := consume(p, pd, cs)
		fetched := cs.asked(victim.id) > 0
		if err != errHang {
			recheckHeld(where)
		}
		switch {
		case err == errPanic:
			o.Fail("C03:"+p.Consumer+":panic", "the consumer panicked on an index entry whose size differs from the (valid) chunk: %s — %s", clip(diff), where)
		case err == errHang:
			o.Fail("C03:"+p.Consumer+":hang", "the consumer spun for %s of processor time without returning on an index entry whose size differs from the (valid) chunk — %s", spinBudget, where)
		case err == nil && (p.Consumer == cReadSeeker || p.Consumer == cSparse) && !fetched:
			// the reader was positioned behind the victim and never loaded it: it cannot know,
			// and what it returned is consistent with every chunk it did see
			o.Class("inconsistent:victim-not-read")
		case err == nil && p.Consumer == cReadSeeker:
			o.Fail("C03:readseeker:shifted-stream", "a valid chunk whose length differs from its index entry was accepted: the reader returned nil (%s) — %s", diff, where)
		case err == nil:
			o.Fail("C03:"+p.Consumer+":inconsistent-index-accepted", "a valid chunk whose length differs from its index entry was accepted: the consumer returned nil (%s) — %s", diff, where)
		default:
			o.Class("result:error")
		}
		o.Nontrivial = fetched || err == errHang || err == errPanic
		o.Key = fmt.Sprintf("inconsistent/%s/%s/%s/%s/%s", p.Consumer, lf.kind, fmtn, dir, st.shapeString())
		return o
	}

	o.Class("corr:" + kind)
	desc["corruption"], desc["what"], desc["effective"] = kind, detail, effective
	where += fmt.Sprintf(", corruption %s (%s)", kind, detail)
	o.Key = fmt.Sprintf("pipeline/%s/%s/%s/%s/%s", p.Consumer, lf.kind, fmtn, kind, st.shapeString())
	if !lf.anyVerify() {
		// every hop has SkipVerify: nothing is promised for what the consumer is fed
		o.Class("unasserted:all-hops-skipverify", "pipeline:not-run(skipverify)")
		return o
	}
	o.Class("asserted")
	err, diff := consume(p, pd, cs)
	fetched := cs.asked(victim.id) > 0
	if err != errHang {
		recheckHeld(where)
	}
	switch {
	case err == errRefusedServed:
		o.Fail("C03:"+p.Consumer+":refused-chunk-served", "a read of the poisoned chunk was refused, but when the same reader was asked again %s — %s", diff, where)
	case err == errPanic:
		o.Fail("C03:"+p.Consumer+":panic", "the consumer panicked: %s — %s", clip(diff), where)
	case err == errHang:
		o.Fail("C03:"+p.Consumer+":hang", "the consumer spun for %s of processor time without returning — %s\n%s", spinBudget, where, diff)
	case err != nil:
		o.Class("result:error")
	case diff != "":
		sig := "wrong-output"
		if p.Consumer == cUnTarIndex {
			sig = "wrong-tree"
		} else if strings.HasPrefix(diff, truncatedMark) {
			sig = "truncated-output" // a proper prefix of the stream was delivered as if it were all
		}
		o.Fail("C03:"+p.Consumer+":"+sig, "the consumer reported success but %s — %s", diff, where)
	default:
		o.Class("result:good-data")
	}
	if pd.retried && effective {
		o.Class("consumer:retry-after-refusal", "consumer:retry-after-refusal:"+p.Consumer)
		if pd.retriedSameSize {
			o.Class("consumer:retry-after-refusal:same-size-predecessor")
		}
	}
	desc["fixed"] = p.Fixed
	if p.Consumer == cReadSeeker {
		drain := p.Drain
		if drain != drainCopy && drain != drainCopyBuffer {
			drain = drainRead
		}
		desc["drain"] = drain
		if effective && fetched {
			o.Class("consumer:readseeker:" + drain)
		}
	}
	if p.Consumer == cUnTarIndex {
		desc["tree"] = p.Tree
		if effective && fetched {
			o.Class("consumer:untarindex:tree:" + map[string]string{"": "files", treeMeta: treeMeta, treeMixed: treeMixed}[p.Tree])
			if pd.victimMetaOnly {
				o.Class("consumer:untarindex:victim-chunk-metadata-only")
			}
		}
	}
	if effective {
		o.Class("effective")
		if fetched {
			o.Class("pipeline:" + p.Consumer + ":poisoned-fetch")
		}
	} else if changed {
		o.Class("changed-but-still-decodes")
	}
	desc["victim_fetched"] = fetched
	o.Nontrivial = effective && fetched
	return o
}
