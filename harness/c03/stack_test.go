package c03

import (
	"fmt"
	"os"
	"strings"

	"github.com/folbricht/desync"

	"verifharness/internal/dx"
	"verifharness/internal/hx"
)

// Wrap is one wrapper put around the store built so far (which contains the backend).
type Wrap struct {
	Kind string `json:"k"`           // cache cache-l repairable router failover dedup wdedup swap swapw
	Pos  int    `json:"p,omitempty"` // arrangement selector (router, failover, swap)
	Skip bool   `json:"s,omitempty"` // cache: SkipVerify of the cache's own store
	Mem  bool   `json:"m,omitempty"` // cache: the cache's store is a MemStore instead of a LocalStore
	Rep  bool   `json:"r,omitempty"` // cache: the cache's store is wrapped in a RepairableCache
}

const (
	wCache      = "cache"      // NewCache(cur, fresh store)
	wCacheL     = "cache-l"    // NewCache(healthy upstream, cur): the poisoned store is the cache
	wRepairable = "repairable" // NewRepairableCache(cur)
	wRouter     = "router"
	wFailover   = "failover"
	wDedup      = "dedup"
	wWDedup     = "wdedup"
	wSwap       = "swap"
	wSwapW      = "swapw"
)

var allWraps = []string{wCache, wCacheL, wRepairable, wRouter, wFailover, wDedup, wWDedup, wSwap, wSwapW}

// cacheInfo describes the local side of a Cache that sits above the poisoned store.
type cacheInfo struct {
	skip bool
	rep  bool // behind a RepairableCache: an invalid entry reads as "missing", the call goes on inwards
	has  func(id desync.ChunkID) bool
}

type stack struct {
	top      desync.Store
	shape    []string     // effective wrapper kinds, innermost first
	caches   []*cacheInfo // outermost first
	cleanups []func()
}

func (s *stack) close() {
	for i := len(s.cleanups) - 1; i >= 0; i-- {
		s.cleanups[i]()
	}
}

func (s *stack) shapeString() string {
	if len(s.shape) == 0 {
		return "-"
	}
	return strings.Join(s.shape, ">")
}

// buildStack wraps cur. healthy holds every chunk of the case in valid form (the "healthy
// upstream" and the second member of routers and failover groups).
func buildStack(cur desync.Store, wraps []Wrap, healthy *dx.MemStore) *stack {
	st := &stack{}
	empty := func() *dx.MemStore { return dx.NewMemStore("empty") }
	failing := func() *dx.MemStore {
		f := dx.NewMemStore("failing")
		f.FailAll("get", true)
		f.FailAll("has", true)
		return f
	}
	for _, w := range wraps {
		ws, writable := cur.(desync.WriteStore)
		kind := w.Kind
		// wrappers that need a WriteStore degrade to their read-only relatives
		if !writable {
			switch kind {
			case wCacheL, wRepairable:
				kind = wCache
			case wWDedup:
				kind = wDedup
			case wSwapW:
				kind = wSwap
			}
		}
		pos := w.Pos
		if pos < 0 {
			pos = -pos
		}
		switch kind {
		case wCache:
			var l desync.WriteStore
			ci := &cacheInfo{skip: w.Skip}
			if w.Mem {
				m := dx.NewMemStore("cache")
				m.SkipVerify = w.Skip
				ci.has = func(id desync.ChunkID) bool { _, ok := m.Raw(id); return ok }
				l = m
			} else {
				dir := hx.Scratch("c03c")
				st.cleanups = append(st.cleanups, func() { os.RemoveAll(dir) })
				ls, err := desync.NewLocalStore(dir, desync.StoreOptions{SkipVerify: w.Skip, Uncompressed: w.Pos%2 == 1})
				if err != nil {
					infra("NewLocalStore: %v", err)
				}
				_, stored := dirDoor(dir, w.Pos%2 == 1)
				ci.has = func(id desync.ChunkID) bool { _, ok := stored(id); return ok }
				l = ls
			}
			label := wCache
			if w.Rep {
				l = desync.NewRepairableCache(l)
				ci.rep = true
				label += "+rep"
			}
			st.caches = append([]*cacheInfo{ci}, st.caches...)
			cur = desync.NewCache(cur, l)
			st.shape = append(st.shape, label)
		case wCacheL:
			cur = desync.NewCache(healthy, ws)
			st.shape = append(st.shape, wCacheL)
		case wRepairable:
			cur = desync.NewRepairableCache(ws)
			st.shape = append(st.shape, wRepairable)
		case wRouter:
			var members []desync.Store
			switch pos % 5 {
			case 0:
				members = []desync.Store{cur}
			case 1:
				members = []desync.Store{empty(), cur}
			case 2:
				members = []desync.Store{cur, healthy}
			case 3:
				members = []desync.Store{empty(), cur, healthy}
			default:
				members = []desync.Store{healthy, cur}
			}
			cur = desync.NewStoreRouter(members...)
			st.shape = append(st.shape, fmt.Sprintf("%s%d", wRouter, pos%5))
		case wFailover:
			var members []desync.Store
			switch pos % 4 {
			case 0:
				members = []desync.Store{cur}
			case 1:
				members = []desync.Store{cur, healthy}
			case 2:
				members = []desync.Store{healthy, cur}
			default:
				members = []desync.Store{failing(), cur}
			}
			cur = desync.NewFailoverGroup(members...)
			st.shape = append(st.shape, fmt.Sprintf("%s%d", wFailover, pos%4))
		case wDedup:
			cur = desync.NewDedupQueue(cur)
			st.shape = append(st.shape, wDedup)
		case wWDedup:
			cur = desync.NewWriteDedupQueue(ws)
			st.shape = append(st.shape, wWDedup)
		case wSwap, wSwapW:
			var sw interface {
				desync.Store
				Swap(desync.Store) error
			}
			first := cur
			if pos%2 == 1 { // start with a placeholder and swap the real store in
				if writable {
					first = empty()
				} else {
					first = dx.ReadOnlyStore{S: empty()}
				}
			}
			if kind == wSwapW {
				sw = desync.NewSwapWriteStore(first)
			} else {
				sw = desync.NewSwapStore(first)
			}
			if pos%2 == 1 {
				if err := sw.Swap(cur); err != nil {
					infra("Swap: %v", err)
				}
			}
			cur = sw
			st.shape = append(st.shape, kind)
		default:
			// unknown wrapper in a hand-written case: ignore
		}
	}
	st.top = cur
	return st
}

// decidedBy tells whether the result of the next GetChunk(id) through the stack is subject to
// the oracle: walking from the outermost cache inwards, the first cache that holds an entry
// for id answers the call (verified or not, by its own option); if none does, the answer
// comes up from the backend and is verified iff one of its hops verifies.
func decidedBy(st *stack, l *leaf, id desync.ChunkID) (asserted bool, by string) {
	for i, c := range st.caches {
		if c.has(id) {
			if c.skip {
				return false, fmt.Sprintf("cache#%d(skip)", i)
			}
			if c.rep {
				continue // a valid entry is good data, an invalid one is passed over
			}
			return true, fmt.Sprintf("cache#%d(verify)", i)
		}
	}
	if l.anyVerify() {
		return true, "backend"
	}
	return false, "backend(all hops skip)"
}
