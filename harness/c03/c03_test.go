// C03 — No chunk is delivered that does not hash to the requested ID.
//
// A case plants valid objects in a backend through its back door, poisons one of them (bit
// flips by frame region, truncations, garbage, foreign objects, format mix-ups, appended
// data), wraps the backend in a stack of up to three of desync's store wrappers and then asks
// for the poisoned chunk: through GetChunk, or through one of the consumers (AssembleFile,
// the seekable index reader, UnTarIndex; in the thorough tier also the extract / cat /
// untar -i commands and RemoteSSH served by `desync pull`). Every answer must be an error or
// data that hashes (SHA512/256 computed here) to the requested ID, unless every store on the
// way from the poisoned object to the caller had SkipVerify set.
package c03

import (
	"bytes"
	"errors"
	"fmt"
	"os"
	"strings"
	"sync"
	"testing"
	"time"

	"github.com/folbricht/desync"
	"pgregory.net/rapid"

	"verifharness/internal/dx"
	"verifharness/internal/fakessh"
	"verifharness/internal/hx"
)

type Case struct {
	Mode    string    `json:"mode"` // get | pipeline | inconsistent | cli
	Backend Backend   `json:"backend"`
	Chunk   ChunkSpec `json:"chunk"` // the chunk whose object is poisoned (get mode)
	Other   ChunkSpec `json:"other"` // a second chunk of the store
	Corr    Corr      `json:"corr"`
	Stack   []Wrap    `json:"stack,omitempty"` // innermost first
	Calls   int       `json:"calls,omitempty"` // sequential GetChunk calls (1..3)
	Conc    int       `json:"conc,omitempty"`  // >1: the first call is made by this many goroutines at once
	Digest  string    `json:"digest,omitempty"`
	Pipe    *Pipe     `json:"pipe,omitempty"`
	CLI     *CLI      `json:"cli,omitempty"`
}

const (
	mGet          = "get"
	mPipeline     = "pipeline"
	mInconsistent = "inconsistent"
	mCLI          = "cli"
)

func maxChunk() int { return hx.Pick(64<<10, 256<<10) }

func genChunkSpec(t *rapid.T, label string, limit int) ChunkSpec {
	kind := rapid.SampledFrom([]string{"rand", "rand", "text", "text", "zero"}).Draw(t, label+"kind")
	var n int
	switch rapid.IntRange(0, 9).Draw(t, label+"lenclass") {
	case 0:
		n = rapid.IntRange(1, 3).Draw(t, label+"len")
	case 1, 2, 3:
		n = rapid.IntRange(1, 300).Draw(t, label+"len")
	case 4, 5, 6:
		n = rapid.IntRange(300, 5000).Draw(t, label+"len")
	case 7, 8:
		n = rapid.IntRange(4000, 70000).Draw(t, label+"len")
	default:
		n = rapid.IntRange(1, maxChunk()).Draw(t, label+"len")
		if rapid.Bool().Draw(t, label+"atmax") {
			n = maxChunk()
		}
	}
	if n > limit {
		n = 1 + n%limit
	}
	return ChunkSpec{Kind: kind, Len: n, Seed: rapid.Uint64().Draw(t, label+"seed")}
}

func genBackend(t *rapid.T, kinds []string) Backend {
	var b Backend
	b.Kind = rapid.SampledFrom(kinds).Draw(t, "backend")
	b.Unc = rapid.Bool().Draw(t, "unc")
	b.Skip = rapid.IntRange(0, 3).Draw(t, "skip") == 0
	b.Enc = rapid.IntRange(0, 3).Draw(t, "enc")
	switch b.Kind {
	case bHTTP:
		// the chunk server's default is SkipVerify on the server-side store
		b.Skip = rapid.Bool().Draw(t, "srvskip")
		b.CSkip = rapid.IntRange(0, 3).Draw(t, "cskip") == 0
		b.HUnc = b.Unc
		if rapid.IntRange(0, 2).Draw(t, "convert") == 0 {
			b.HUnc = !b.Unc
		}
	case bProtoServer:
		b.Skip = rapid.Bool().Draw(t, "srvskip") // `desync pull` forces SkipVerify on
	case bProtoScript:
		b.Unc, b.Skip = false, false
		b.HdrID = rapid.SampledFrom([]string{"req", "req", "other", "zero"}).Draw(t, "hdrid")
	case bSSH:
		b.Unc, b.Skip = false, true
	}
	return b
}

func genCorr(t *rapid.T, unc bool) Corr {
	kinds := kindsCompressed
	if unc {
		kinds = kindsUncompressed
	}
	return Corr{
		Kind: rapid.SampledFrom(kinds).Draw(t, "corr"),
		Pos:  rapid.IntRange(0, 1<<20).Draw(t, "pos"),
		Bit:  rapid.IntRange(0, 7).Draw(t, "bit"),
		Len:  rapid.IntRange(0, 4096).Draw(t, "glen"),
		Seed: rapid.Uint64().Draw(t, "gseed"),
	}
}

func genWrap(t *rapid.T) Wrap {
	return Wrap{
		Kind: rapid.SampledFrom(allWraps).Draw(t, "wrap"),
		Pos:  rapid.IntRange(0, 19).Draw(t, "wpos"),
		Skip: rapid.IntRange(0, 2).Draw(t, "wskip") == 0,
		Mem:  rapid.Bool().Draw(t, "wmem"),
		Rep:  rapid.IntRange(0, 3).Draw(t, "wrep") == 0,
	}
}

func genStack(t *rapid.T, maxDepth int) []Wrap {
	var ws []Wrap
	for i, n := 0, rapid.IntRange(0, maxDepth).Draw(t, "depth"); i < n; i++ {
		ws = append(ws, genWrap(t))
	}
	return ws
}

func genCase(t *rapid.T) Case {
	var c Case
	kinds := quickBackends
	if hx.Thorough() && fakessh.HavePull() {
		kinds = append(append([]string(nil), quickBackends...), bSSH)
	}
	modes := []string{mGet, mGet, mGet, mGet, mGet, mGet, mPipeline, mPipeline, mPipeline, mInconsistent}
	if os.Getenv("VERIF_DESYNC_BIN") != "" {
		modes = append(modes, mCLI)
		if hx.Thorough() {
			modes = append(modes, mCLI)
		}
	}
	c.Mode = rapid.SampledFrom(modes).Draw(t, "mode")
	if c.Mode == mCLI {
		c.CLI = genCLI(t)
		c.Pipe = genPipeFor(t, map[string]string{"extract": cAssemble, "cat": cReadSeeker, "untar": cUnTarIndex}[c.CLI.Cmd], false)
		c.Backend = Backend{Kind: bLocal, Unc: rapid.Bool().Draw(t, "unc"), Enc: rapid.IntRange(0, 3).Draw(t, "enc")}
		c.Corr = genCorr(t, c.Backend.Unc)
		c.Other = genChunkSpec(t, "o", 5000)
		return c
	}
	c.Backend = genBackend(t, kinds)
	c.Chunk = genChunkSpec(t, "c", maxChunk())
	c.Other = genChunkSpec(t, "o", 5000)
	c.Corr = genCorr(t, c.Backend.Unc)
	switch c.Mode {
	case mGet:
		c.Calls = rapid.IntRange(1, 3).Draw(t, "calls")
		if rapid.IntRange(0, 4).Draw(t, "concurrent") == 0 {
			c.Conc = rapid.IntRange(2, 4).Draw(t, "conc")
		}
		if rapid.IntRange(0, 7).Draw(t, "weak") == 0 && c.Backend.Kind != bSSH {
			c.Digest = rapid.SampledFrom([]string{digestWeakPrefix, digestWeakSuffix}).Draw(t, "digest")
			// a foreign chunk is the corruption that a partial comparison lets through
			if rapid.Bool().Draw(t, "weak-other") {
				c.Corr.Kind = kOtherChunk
			}
		}
		if rapid.IntRange(0, 5).Draw(t, "repair-shape") == 0 {
			// the shape of `-c <cache>` with cache repair: Cache(healthy, RepairableCache(backend))
			c.Stack = nil
			if rapid.IntRange(0, 2).Draw(t, "inner") == 0 {
				c.Stack = append(c.Stack, Wrap{Kind: rapid.SampledFrom([]string{wWDedup, wSwapW}).Draw(t, "innerk"), Pos: rapid.IntRange(0, 1).Draw(t, "ip")})
			}
			c.Stack = append(c.Stack, Wrap{Kind: wRepairable})
			if rapid.IntRange(0, 2).Draw(t, "mid") == 0 {
				c.Stack = append(c.Stack, Wrap{Kind: rapid.SampledFrom([]string{wWDedup, wSwapW}).Draw(t, "midk"), Pos: rapid.IntRange(0, 1).Draw(t, "mp")})
			}
			c.Stack = append(c.Stack, Wrap{Kind: wCacheL})
			if rapid.Bool().Draw(t, "outer") {
				c.Stack = append(c.Stack, genWrap(t))
			}
			if rapid.IntRange(0, 3).Draw(t, "keepskip") > 0 {
				c.Backend.Skip, c.Backend.CSkip = false, false
				if c.Backend.Kind == bHTTP {
					c.Backend.Skip = true
				}
			}
		} else {
			c.Stack = genStack(t, 3)
		}
	case mPipeline:
		c.Pipe = genPipe(t, false)
		c.Stack = genStack(t, 2)
		// a pipeline is only run when some hop verifies: make that the common case
		if rapid.IntRange(0, 9).Draw(t, "allowskip") > 0 {
			if c.Backend.Kind == bHTTP {
				c.Backend.CSkip = false
			} else {
				c.Backend.Skip = false
			}
		}
	case mInconsistent:
		c.Pipe = genPipe(t, true)
		c.Stack = genStack(t, 1)
		c.Corr = Corr{Kind: kNone}
	}
	return c
}

// ---------------------------------------------------------------- result classification

const (
	resError     = "error"
	resGood      = "good-data"
	resNilChunk  = "nil-chunk"
	resUndecoded = "undecodable-chunk-returned"
	resWrongData = "wrong-data-returned"
)

// classifyGet applies the statement to one GetChunk result: an error, or data whose digest
// (computed here) is the requested ID.
func classifyGet(ch *desync.Chunk, err error, id desync.ChunkID, digest string) (res, detail string) {
	if err != nil {
		return resError, err.Error()
	}
	if ch == nil {
		return resNilChunk, "nil chunk with nil error"
	}
	b, derr := ch.Data()
	if derr != nil {
		return resUndecoded, "chunk returned without error but Data() fails: " + derr.Error()
	}
	if sum := sumWith(digest, b); sum != [32]byte(id) {
		return resWrongData, fmt.Sprintf("%d bytes hashing to %x… were returned for %s", len(b), sum[:6], id.String())
	}
	return resGood, ""
}

func isBad(res string) bool { return res != resError && res != resGood }

func clip(s string) string {
	if len(s) > 300 {
		return s[:300] + "…"
	}
	return s
}

// silence diverts os.Stderr (the HTTP handler reports every failed request there).
func silence() func() {
	old := os.Stderr
	if f, err := os.OpenFile(os.DevNull, os.O_WRONLY, 0); err == nil {
		os.Stderr = f
		return func() { os.Stderr = old; f.Close() }
	}
	return func() {}
}

// repairDemanded: the wrappers (innermost first) put the backend behind a RepairableCache
// that is the local side of a Cache with a healthy upstream; only WriteStore-preserving
// wrappers in between.
func repairDemanded(shape []string) bool {
	i := 0
	skipW := func() {
		for i < len(shape) && (shape[i] == wWDedup || shape[i] == wSwapW) {
			i++
		}
	}
	skipW()
	if i >= len(shape) || shape[i] != wRepairable {
		return false
	}
	i++
	skipW()
	return i < len(shape) && shape[i] == wCacheL
}

// ---------------------------------------------------------------- run

func run(c Case) (o hx.Outcome) {
	defer silence()()
	switch c.Mode {
	case mPipeline, mInconsistent:
		if c.Pipe != nil {
			return runPipeline(c)
		}
	case mCLI:
		if c.CLI != nil && c.Pipe != nil {
			return runCLI(c)
		}
	}
	return runGet(c)
}

func twoChunks(c Case) (data, other []byte) {
	data, other = c.Chunk.bytes(), c.Other.bytes()
	if bytes.Equal(data, other) {
		other = append(other, 0x5a)
	}
	return
}

func runGet(c Case) (o hx.Outcome) {
	defer installDigest(c.Digest)()
	data, other := twoChunks(c)
	id, oid := desync.ChunkID(sumWith(c.Digest, data)), desync.ChunkID(sumWith(c.Digest, other))

	lf := openLeaf(c.Backend, oid)
	defer lf.close()
	fmtn := fmtName(lf.unc)
	good := wire(data, lf.unc, c.Backend.Enc)
	lf.plant(id, good)
	lf.plant(oid, wire(other, lf.unc, c.Backend.Enc))

	// further valid chunks for the requests that follow the ones under test: one of the
	// poisoned chunk's length, a one-byte one, and IDs nobody has
	hold := &holder{digest: c.Digest}
	var extraIDs, missingIDs []desync.ChunkID
	extras := map[desync.ChunkID][]byte{}
	for _, d := range [][]byte{flipped(data), {data[0] ^ 0xa5}, flipped(other)} {
		eid := desync.ChunkID(sumWith(c.Digest, d))
		if _, dup := extras[eid]; dup || eid == id || eid == oid {
			continue
		}
		extras[eid] = d
		extraIDs = append(extraIDs, eid)
		lf.plant(eid, wire(d, lf.unc, c.Backend.Enc))
	}
	for i := 0; i < 2; i++ {
		missingIDs = append(missingIDs, desync.ChunkID(sumWith(c.Digest, []byte{'n', 'o', 'b', 'o', 'd', 'y', byte(i)})))
	}

	// the setup itself must work: the valid object is served as the chunk
	if ch, err := lf.store.GetChunk(id); err != nil {
		o.Fail("C03:setup:"+lf.kind+":healthy-get-failed", "before poisoning, GetChunk on the %s backend (%s) failed: %v", lf.kind, lf.hopString(), err)
	} else if res, detail := classifyGet(ch, nil, id, c.Digest); res != resGood {
		o.Fail("C03:setup:"+lf.kind+":healthy-get-failed", "before poisoning, GetChunk on the %s backend (%s) returned %s: %s", lf.kind, lf.hopString(), res, detail)
	} else {
		hold.keep("the backend before poisoning", id, ch, nil)
	}

	bad, kind, detail := applyCorr(good, lf.unc, c.Corr, data, other, c.Backend.Enc)
	if tooBig(bad, lf) {
		o.Class("skipped:header-declares>16MiB")
		o.Desc = map[string]any{"mode": mGet, "skipped": "poisoned object announces a content size above 16 MiB", "corruption": kind, "what": detail}
		return o
	}
	lf.plant(id, bad)
	changed := !bytes.Equal(bad, good)
	effective := changed && !decodesTo(bad, lf.unc, data)

	healthy := dx.NewMemStore("healthy")
	healthy.Put(id, data)
	healthy.Put(oid, other)
	st := buildStack(lf.store, c.Stack, healthy)
	defer st.close()

	demanded := repairDemanded(st.shape) && lf.repairs && lf.anyVerify()

	calls := c.Calls
	if calls < 1 {
		calls = 1
	}
	if calls > 4 {
		calls = 4
	}
	where := fmt.Sprintf("backend %s/%s hops %s, stack [%s], corruption %s (%s), chunk %d bytes, digest %q",
		lf.kind, fmtn, lf.hopString(), st.shapeString(), kind, detail, len(data), c.Digest)
	anyAsserted := false
	var results []string
	judge := func(call string, asserted bool, by string, ch *desync.Chunk, err error) {
		res, rdetail := classifyGet(ch, err, id, c.Digest)
		hold.keep(call+" through the stack", id, ch, err)
		tag := res
		if !asserted {
			tag += "(unasserted)"
		}
		results = append(results, tag)
		if asserted {
			anyAsserted = true
			o.Class("result:" + res)
			if isBad(res) {
				who := lf.kind + ":" + fmtn
				if strings.HasPrefix(by, "cache#") {
					who = "cache-entry"
				}
				o.Fail("C03:"+who+":"+res, "%s: GetChunk(%s) answered by %s: %s — %s", call, id.String(), by, clip(rdetail), where)
			}
		} else if isBad(res) {
			o.Class("unverified-poison-delivered")
		}
		if demanded && effective && res != resGood {
			o.Fail("C03:repairable-cache:not-repaired", "%s: a poisoned entry behind RepairableCache with a healthy upstream must be replaced and the call succeed; got %s: %s — %s",
				call, res, clip(rdetail), where)
		}
	}

	for k := 0; k < calls; k++ {
		asserted, by := decidedBy(st, lf, id)
		if k == 0 && c.Conc > 1 {
			n := min(c.Conc, 4)
			type result struct {
				ch  *desync.Chunk
				err error
			}
			out := make([]result, n)
			var wg sync.WaitGroup
			for g := 0; g < n; g++ {
				wg.Add(1)
				go func(g int) {
					defer wg.Done()
					out[g].ch, out[g].err = st.top.GetChunk(id)
				}(g)
			}
			wg.Wait()
			for g := range out {
				judge(fmt.Sprintf("call 1 (goroutine %d of %d)", g+1, n), asserted, by, out[g].ch, out[g].err)
			}
			o.Class("concurrent-first-call")
			continue
		}
		ch, err := st.top.GetChunk(id)
		judge(fmt.Sprintf("call %d", k+1), asserted, by, ch, err)
	}

	reached := true // a healthy store in front answers before the cache is asked at all
	for _, w := range st.shape {
		if w == wRouter+"4" || w == wFailover+"2" {
			reached = false
		}
	}
	if demanded && effective {
		o.Class("repair:demanded")
	}
	if demanded && effective && reached {
		if obj, ok := lf.stored(id); !ok || !decodesTo(obj, lf.unc, data) {
			o.Fail("C03:repairable-cache:not-repaired", "after the calls the slot of %s still does not hold the chunk (present=%v, %d bytes) — %s", id.String(), ok, len(obj), where)
		} else {
			o.Class("repair:replaced")
		}
	}

	// the other, untouched chunk of the store must not have been harmed by what was done for
	// the poisoned one (a store that answers with errors after a bad object is fine, wrong data is not)
	if ch, err := st.top.GetChunk(oid); err == nil {
		if res, rdetail := classifyGet(ch, nil, oid, c.Digest); isBad(res) {
			o.Fail("C03:"+lf.kind+":"+fmtn+":"+res, "GetChunk of the untouched chunk %s: %s — %s", oid.String(), clip(rdetail), where)
		}
		hold.keep("the request for the untouched chunk", oid, ch, nil)
	}

	// every chunk handed out as good so far is still held; now other IDs are requested through
	// the same stack and straight from the same backend store (more requests than the store
	// has connections: SFTP and the protocol stores run one session here), then the held
	// chunks are looked at again
	// (absent IDs last: a casync protocol server ends its session after answering MISSING)
	// several callers at once, each asking the backend store about ANOTHER good chunk, presence checks and reads
	// mixed (stores keep per-store state: sessions, buffers, remembered answers): what a read returns must be the
	// chunk that was asked for
	if c.Conc > 1 {
		good := append([]desync.ChunkID{oid}, extraIDs...)
		type mix struct {
			id  desync.ChunkID
			res string
			det string
		}
		var mmu sync.Mutex
		var bad []mix
		var wg sync.WaitGroup
		for g := 0; g < 4; g++ {
			wg.Add(1)
			go func(g int) {
				defer wg.Done()
				for r := 0; r < 6; r++ {
					id := good[(g+r)%len(good)]
					if (g+r)%2 == 0 {
						lf.store.HasChunk(good[(g+r+1)%len(good)])
					}
					ch, err := lf.store.GetChunk(id)
					if err != nil {
						continue
					}
					if res, det := classifyGet(ch, nil, id, c.Digest); isBad(res) {
						mmu.Lock()
						bad = append(bad, mix{id, res, det})
						mmu.Unlock()
					}
				}
			}(g)
		}
		wg.Wait()
		o.Class("concurrent-mixed-ids")
		if len(bad) > 0 {
			o.Fail("C03:"+lf.kind+":"+fmtn+":"+bad[0].res+":concurrent-mixed-ids", "4 callers reading and probing %d different good chunks of the backend at once: GetChunk(%s): %s (%d such answers) — %s",
				len(good), bad[0].id.String(), clip(bad[0].det), len(bad), where)
		}
	}
	followUps := hold.followUp("a follow-up request through the stack", st.top, extraIDs, nil)
	followUps += hold.followUp("a follow-up request to the backend", lf.store, append([]desync.ChunkID{oid}, extraIDs...), nil)
	followUps += hold.followUp("a follow-up request through the stack", st.top, nil, missingIDs[:1])
	followUps += hold.followUp("a follow-up request to the backend", lf.store, nil, missingIDs[1:])
	hold.recheck(&o, lf.kind+":"+fmtn, where, followUps)

	o.Class("mode:get", "backend:"+lf.kind+":"+fmtn, "corr:"+kind, fmt.Sprintf("depth:%d", len(st.shape)))
	for _, w := range st.shape {
		o.Class("wrap:" + strings.TrimRight(w, "0123456789"))
	}
	if effective {
		o.Class("effective")
	} else if changed {
		o.Class("changed-but-still-decodes")
	} else {
		o.Class("unchanged")
	}
	if anyAsserted {
		o.Class("asserted")
	} else {
		o.Class("unasserted:all-hops-skipverify")
	}
	if len(lf.hops) > 1 && lf.hops[0].skip && !lf.hops[len(lf.hops)-1].skip {
		o.Class("hops:server-skip+client-verify")
	}
	if c.Digest != "" {
		o.Class("digest:" + c.Digest)
	}
	if lf.kind == bHTTP && c.Backend.HUnc != c.Backend.Unc {
		o.Class("http:server-side-conversion")
	}
	o.Nontrivial = effective && anyAsserted
	o.Desc = map[string]any{"mode": mGet, "backend": lf.kind, "format": fmtn, "hops": lf.hopString(), "corruption": kind, "what": detail,
		"chunk": fmt.Sprintf("%s:%d", c.Chunk.Kind, len(data)), "object_len": len(good), "poisoned_len": len(bad), "stack": st.shapeString(),
		"calls": strings.Join(results, ","), "digest": c.Digest, "effective": effective}
	o.Key = fmt.Sprintf("get/%s/%s/%s/%s/%s", lf.kind, fmtn, kind, st.shapeString(), c.Digest)
	return o
}

// tooBig: the poisoned object would be handed to the zstd decoder with a header announcing
// more than maxDeclared bytes.
func tooBig(bad []byte, lf *leaf) bool {
	if declaredSize(bad) <= maxDeclared {
		return false
	}
	// in an uncompressed slot the bytes are data, nobody decodes them
	return !lf.unc
}

// ---------------------------------------------------------------- spec

var requiredClasses = func() []string {
	req := []string{"mode:get", "mode:pipeline", "mode:inconsistent", "asserted", "unasserted:all-hops-skipverify", "effective",
		"changed-but-still-decodes", "result:error", "result:good-data", "hops:server-skip+client-verify", "http:server-side-conversion",
		"repair:demanded", "repair:replaced", "held-rechecked", "consumer:retry-after-refusal", "consumer:retry-after-refusal:same-size-predecessor",
		"consumer:retry-after-refusal:" + cReadSeeker, "consumer:retry-after-refusal:" + cSparse, "concurrent-first-call", "concurrent-mixed-ids", "digest:" + digestWeakPrefix, "digest:" + digestWeakSuffix,
		"consumer:" + cAssemble, "consumer:" + cReadSeeker, "consumer:" + cUnTarIndex, "consumer:" + cSparse,
		"pipeline:" + cAssemble + ":poisoned-fetch", "pipeline:" + cReadSeeker + ":poisoned-fetch", "pipeline:" + cUnTarIndex + ":poisoned-fetch", "pipeline:" + cSparse + ":poisoned-fetch",
		"inconsistent:" + cAssemble, "inconsistent:" + cReadSeeker, "inconsistent:" + cUnTarIndex, "inconsistent:" + cSparse,
		"inconsistent:index-claims-more", "inconsistent:index-claims-less"}
	req = append(req, "consumer:readseeker:"+drainRead, "consumer:readseeker:"+drainCopy, "consumer:readseeker:"+drainCopyBuffer,
		"consumer:untarindex:tree:"+treeMeta, "consumer:untarindex:tree:"+treeMixed, "consumer:untarindex:victim-chunk-metadata-only")
	if os.Getenv("VERIF_DESYNC_BIN") != "" { // the commands themselves (the registered plan builds the binary)
		req = append(req, "mode:cli", "consumer:cli-cat:whole", "consumer:cli-cat:window", "consumer:cli-cat:stdout", "consumer:cli-cat:file",
			"consumer:cli-untar:gnu-tar", "consumer:cli-untar:disk", "consumer:cli-untar:victim-chunk-metadata-only",
			"consumer:cli-untar:gnu-tar:victim-chunk-metadata-only", "consumer:cli-extract",
			"cli:option:none", "cli:option:"+optTrustInsecure, "cli:option:"+optErrorRetry, "cli:option:"+optRetryInterval, "cli:option:"+optVerbose,
			"cli:option:"+optCfgSkipOther, "cli:option:"+optCfgSkipThis, "cli:option:"+optPrintStats, "cli:option:"+optInPlace,
			"cli:option:"+optCfgSkipOther+":url-case", "cli-role:http", "cli:unverified-run-succeeded", "cli:option:"+optCfgAmbiguous, "cli:role:failover-group-second-member")
	}
	for _, b := range quickBackends {
		req = append(req, "backend:"+b+":compressed")
		if b != bProtoScript {
			req = append(req, "backend:"+b+":uncompressed")
		}
	}
	for _, k := range allKinds {
		req = append(req, "corr:"+k)
	}
	for _, w := range allWraps {
		req = append(req, "wrap:"+w)
	}
	return req
}()

var spec = &hx.Spec[Case]{
	ID:    "C03",
	Level: "exploration",
	Rule: "cases = (chunk data 1 B..max rand/zero/text) x backend (LocalStore; RemoteHTTP<->HTTPHandler<->LocalStore with optional server-side format conversion; RemoteHTTP<->plain file server; " +
		"S3Store<->fake S3; SFTPStore<->sftp server child; Protocol client<->scripted peer and <->ProtocolServer; thorough: RemoteSSH<->`desync pull`, extract/cat/untar -i commands) x compressed/uncompressed x " +
		"corruption of the stored object (bit flip in magic/frame header/block header/payload/checksum, truncation to 0/1/header/mid/len-1, garbage, other chunk's object, valid frame of other data, raw<->compressed slot mix-up, appended frame/bytes) x " +
		"SkipVerify per hop x stack of up to 3 wrappers (Cache, Cache with the backend as cache, RepairableCache, StoreRouter, FailoverGroup, DedupQueue, WriteDedupQueue, SwapStore, SwapWriteStore) x consumer (GetChunk 1..3 calls, optionally concurrent; AssembleFile; index read-seeker; UnTarIndex) " +
		"plus the inconsistent-index class (valid chunk, index entry of another length); " +
		"non-trivial = the corruption changed the stored bytes, the object no longer decodes to the chunk, and at least one hop between the object and the caller verifies (for the inconsistent-index class: always); " +
		"distinct by (mode/consumer, backend, format, corruption kind, stack shape)",
	Assumptions: []string{
		"IDs are SHA512/256 computed with crypto/sha512 (in the weak-digest classes: the same with 16 constant bytes, installed as desync.Digest for the case)",
		"valid objects are written through the back door with an independent klauspost/zstd encoder (4 option sets); 'still decodes' is decided with an independent decoder instance",
		"nothing is asserted for a call answered only through stores whose SkipVerify is set",
		"every chunk returned as good is held (with a private copy of its data) while at least 4 further requests for other present and absent IDs go through the same stack and the same backend store object (shared per process for SFTP and S3, one session each), and must then be unchanged",
		"HTTP is plain HTTP/1.1 on loopback; S3 is the in-process fake; SFTP is pkg/sftp's server in a child process; real ssh, TLS and GCS are not in the loop",
		"the default (klauspost) build of desync is tested",
	},
	Required: requiredClasses,
	Gen:      genCase,
	Run:      run,
	Journal:  true,
	Watchdog: 60 * time.Second,
}

func TestMain(m *testing.M) {
	fakessh.MaybeServe() // a child started through the fake-ssh wrapper serves its session and exits here
	hx.Main(m)
}

func TestRegress(t *testing.T) { hx.Regress(t, spec) }
func TestKnown(t *testing.T)   { hx.Known(t, spec) }
func TestReplay(t *testing.T)  { hx.Replay(t, spec); closeShared() }

func TestSelf(t *testing.T) { selfTest(t) }
func TestEnum(t *testing.T) { enumTest(t) }
func TestProp(t *testing.T) { hx.Prop(t, spec) }

var (
	errHang  = errors.New("consumer did not return")
	errPanic = errors.New("consumer panicked")
	// errRefusedServed: a retry after a refused read delivered bytes that are not the blob's
	errRefusedServed = errors.New("refused chunk served on retry")
)
