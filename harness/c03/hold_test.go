package c03

import (
	"bytes"
	"fmt"
	"sync"

	"github.com/folbricht/desync"

	"verifharness/internal/hx"
)

// A chunk that was returned as good must stay good while its holder uses it: later requests
// served by the same store (connection, buffer, queue) must not change what Data() yields.
// The holder keeps every chunk that was classified good, together with a private copy of its
// data; after further GetChunk calls for other IDs went through the same store objects, each
// held chunk is looked at again.
type heldChunk struct {
	id   desync.ChunkID
	ch   *desync.Chunk
	snap []byte
	from string
}

type holder struct {
	mu     sync.Mutex
	digest string
	items  []heldChunk
}

// keep holds ch if it is good data for id (the verdict on chunks that are not is made elsewhere).
func (h *holder) keep(from string, id desync.ChunkID, ch *desync.Chunk, err error) {
	if err != nil || ch == nil {
		return
	}
	h.mu.Lock()
	defer h.mu.Unlock()
	b, derr := ch.Data()
	if derr != nil || sumWith(h.digest, b) != [32]byte(id) {
		return
	}
	h.items = append(h.items, heldChunk{id: id, ch: ch, snap: append([]byte(nil), b...), from: from})
}

func (h *holder) count() int {
	h.mu.Lock()
	defer h.mu.Unlock()
	return len(h.items)
}

// followUp asks s for the given IDs (present ones first, then IDs no store has) and holds
// what comes back good. It returns the number of requests made.
func (h *holder) followUp(from string, s desync.Store, present, missing []desync.ChunkID) int {
	n := 0
	for _, id := range append(append([]desync.ChunkID(nil), present...), missing...) {
		ch, err := s.GetChunk(id)
		h.keep(from, id, ch, err)
		n++
	}
	return n
}

// recheck looks at every held chunk again: Data() must succeed, be byte-identical to what it
// was when the chunk was returned, and hash to the ID the chunk was requested under.
func (h *holder) recheck(o *hx.Outcome, who, where string, followUps int) {
	h.mu.Lock()
	defer h.mu.Unlock()
	if len(h.items) == 0 {
		return
	}
	o.Class("held-rechecked")
	for i, it := range h.items {
		b, err := it.ch.Data()
		var what string
		switch {
		case err != nil:
			what = "Data() now fails: " + err.Error()
		case !bytes.Equal(b, it.snap):
			j := 0
			for j < len(b) && j < len(it.snap) && b[j] == it.snap[j] {
				j++
			}
			what = fmt.Sprintf("Data() changed (%d bytes then, %d now, first difference at %d)", len(it.snap), len(b), j)
			if sum := sumWith(h.digest, b); sum != [32]byte(it.id) {
				what += fmt.Sprintf(" and now hashes to %x…", sum[:6])
			}
		case sumWith(h.digest, b) != [32]byte(it.id):
			what = "Data() no longer hashes to the requested ID"
		default:
			continue
		}
		o.Fail("C03:"+who+":held-chunk-altered", "chunk %s (held chunk %d of %d, obtained by %s) was returned as good, then %d further requests went through the same store: %s — %s",
			it.id.String(), i+1, len(h.items), it.from, followUps, what, where)
		return // one report per case
	}
}

// flipped returns data with every byte inverted: same length, so that a store that reuses a
// buffer in place overwrites all of an earlier chunk of this length.
func flipped(data []byte) []byte {
	out := make([]byte, len(data))
	for i, b := range data {
		out[i] = ^b
	}
	return out
}
