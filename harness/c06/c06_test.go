// C06 — Bulk writes (make, chop, cache, tar -i) are complete when they report success, and a
// store failure at any point makes them report an error.
//
// Library level (both tiers): IndexFromFile+ChopFile (= make), ChopFile with a reference-built
// index, Copy(src -> dst), ChunkStream (= the tar -i back end) and ChunkStorage used directly,
// all against dx.MemStore targets with a fault schedule "the k-th HasChunk / StoreChunk /
// GetChunk fails". TestEnum enumerates every single k; TestProp draws subsets, prefilled
// targets, perturbation vectors and the mismatched-file class.
// CLI level (thorough tier, cli_test.go): the four commands against an HTTP chunk server of the
// harness that answers 500 at scripted request numbers.
package c06

import (
	"bytes"
	"context"
	"errors"
	"fmt"
	"os"
	"path/filepath"
	"runtime"
	"sort"
	"strings"
	"sync"
	"testing"
	"time"

	"github.com/folbricht/desync"
	"pgregory.net/rapid"

	"verifharness/internal/dx"
	"verifharness/internal/gen"
	"verifharness/internal/hx"
	"verifharness/internal/ref"
	"verifharness/internal/sched"
)

// Fault is one scheduled failure: the K-th (1-based) call of Kind on the given store fails.
// Library ops: store "dst" kinds has/store, store "src" kind get (Copy only).
// CLI ops: K counts HEAD (has) / PUT (store) / GET (get) requests seen by that server.
type Fault struct {
	Store string `json:"store"` // dst | src
	Kind  string `json:"kind"`  // has | store | get
	K     int    `json:"k"`
}

// Case is the replay file.
type Case struct {
	Op     string      `json:"op"` // make | chop | copy | stream | storage | cli-make | cli-chop | cli-cache | cli-tar
	Pieces []gen.Piece `json:"pieces"`
	Sizes  gen.Sizes   `json:"sizes"`
	N      int         `json:"n"`
	Faults []Fault     `json:"faults,omitempty"`

	// chunks whose ordinal i satisfies i % PrefillEvery == PrefillRem % PrefillEvery are in the
	// target before the operation starts (0 = target starts empty, 1 = everything present)
	PrefillEvery int `json:"prefill_every,omitempty"`
	PrefillRem   int `json:"prefill_rem,omitempty"`
	// copy / cli-cache: ordinals (mod chunk count) of chunks the source does not have
	SrcMissing []int `json:"src_missing,omitempty"`

	// chop / cli-chop: one bit of the file is flipped after indexing
	Flip    bool `json:"flip,omitempty"`
	FlipDup bool `json:"flip_dup,omitempty"` // prefer a chunk whose ID occurs more than once
	FlipSel int  `json:"flip_sel,omitempty"`
	FlipOff int  `json:"flip_off,omitempty"`
	FlipBit int  `json:"flip_bit,omitempty"`

	Perturb []int `json:"perturb,omitempty"` // hook-site perturbation vector (sched.Perturb)
	Rounds  int   `json:"rounds,omitempty"`  // storage: passes over the chunk list (retries)
	IndexK  int   `json:"index_k,omitempty"` // index: the index output accepts this many bytes, then fails (-1: /dev/full through LocalIndexStore)
	// index: "" = an io.Writer that fails after IndexK bytes; "http" = RemoteHTTPIndex -> scripted faults -> desync.NewHTTPIndexHandler ->
	// LocalIndexStore; "http-plain" = RemoteHTTPIndex -> scripted handler keeping the uploaded bytes; "s3", "sftp", "local".
	// IndexFaults = numbers of the PUT requests that are faulted (http), IndexMode = how (500 | 503 | 500-early | reset;
	// s3: initiate | part | complete; local: overwrite-longer | dir-in-the-way; sftp: readonly)
	IndexTarget string `json:"index_target,omitempty"`
	IndexMode   string `json:"index_mode,omitempty"`
	IndexFaults []int  `json:"index_faults,omitempty"`
	CacheSelf   bool   `json:"cache_self,omitempty"` // cli-cache: the target store is also the (only) source: -s X -c X
	Retry       int    `json:"retry,omitempty"` // cli: --error-retry value; s3/http targets: StoreOptions.ErrorRetry
	// Refuse: http / http-plain targets: status with which a faulted PUT is answered instead of 500 (0 = 500). A 4xx
	// refusal (the server did not store the object) is final: no retry budget covers it
	Refuse int `json:"refuse,omitempty"`

	// the target store of chop/make/copy/stream: "" or "mem" (dx.MemStore), "local" (desync.LocalStore
	// in a scratch directory), "s3" (desync.S3Store through internal/fakes3), "http" (desync.RemoteHTTP
	// against desync.NewHTTPHandler over a LocalStore). Faults of kind has/store are HEAD/PUT requests there.
	Target string `json:"target,omitempty"`
	Unc    bool   `json:"unc,omitempty"` // local, s3: uncompressed store
	// copy: the source store. "" = dx.MemStore (chunks carry plain data only); "local" = desync.LocalStore
	// (chunks arrive in storage form: compressed, or plain when SrcUnc); SrcSkip = the source does not
	// verify, so the plain form of a chunk is not materialised before it is handed to the target
	Src     string `json:"src,omitempty"`
	SrcUnc  bool   `json:"src_unc,omitempty"`
	SrcSkip bool   `json:"src_skip,omitempty"`
	// local: the prefix directory of chunk BlockSel (mod count) is a regular file, so that the
	// store cannot create the chunk (MkdirAll / Stat fail with ENOTDIR)
	Block    bool `json:"block,omitempty"`
	BlockSel int  `json:"block_sel,omitempty"`
	// local: run the operation in a child process under RLIMIT_FSIZE = Fsize (chunk file writes are cut short)
	ShortWrite bool `json:"short_write,omitempty"`
	Fsize      int  `json:"fsize,omitempty"`
}

// targetMix: the target store of a generated chop/make/copy/stream case. "short" = LocalStore in a
// child process under RLIMIT_FSIZE. Real stores are kept at a low rate (they cost 10..50 ms a case).
var targetMix = func() []string {
	var m []string
	for i := 0; i < 100; i++ {
		switch {
		case i%20 == 3 || i == 53:
			m = append(m, "local")
		case i%25 == 7:
			m = append(m, "s3")
		case i%25 == 12:
			m = append(m, "http")
		case i%25 == 18:
			m = append(m, "http-plain")
		case i%50 == 21:
			m = append(m, "short")
		default:
			m = append(m, "mem")
		}
	}
	return m
}()

// the commands' own plumbing (which chunks are handed to the store, option handling) is only reached through
// the binary: both tiers drive it, the quick tier for a smaller share of its cases
// refusals: statuses with which an HTTP object store says "not stored" (WebDAV answers 409 for a missing parent
// collection, 507 when full, 423 for a locked resource, proxies answer 403/413/429)
var refusals = []int{400, 401, 403, 404, 405, 409, 409, 410, 412, 413, 423, 429, 451}

func cliEnabled() bool { return os.Getenv("VERIF_DESYNC_BIN") != "" }

// ------------------------------------------------------------------ generators

// dupBlob draws a blob description in which the same chunk occurs many times: constant runs of
// k*max bytes (k identical max-size chunks) and repeats of earlier content (identical chunks
// once the content-defined cut points have re-synchronised).
func dupBlob(t *rapid.T, sz gen.Sizes, maxLen int) []gen.Piece {
	mn, mx := int(sz.Min), int(sz.Max)
	shape := rapid.IntRange(0, 7).Draw(t, "dupshape")
	switch {
	case shape <= 1:
		return gen.Pieces(t, maxLen, mn, mx)
	case shape == 2: // nothing but one value: every chunk but the last is the same
		k := rapid.IntRange(0, 24).Draw(t, "k")
		l := k*mx + rapid.IntRange(-2, 2).Draw(t, "d")
		if l < 0 {
			l = 0
		}
		if l > maxLen {
			l = maxLen
		}
		kind := rapid.SampledFrom([]string{"zero", "const"}).Draw(t, "kind")
		return []gen.Piece{{Kind: kind, Len: l, B: 0xa5}}
	}
	unit := 1 + gen.Around(t, "unit", 6*mx, mn, mx)
	if unit > maxLen && maxLen > 0 {
		unit = maxLen
	}
	ps := []gen.Piece{{Kind: "rand", Len: unit, Seed: rapid.Uint64().Draw(t, "useed")}}
	left := maxLen - unit
	m := rapid.IntRange(1, 6).Draw(t, "more")
	for i := 0; i < m && left > 0; i++ {
		var p gen.Piece
		switch rapid.SampledFrom([]string{"repeat", "repeat", "repeat", "zero", "const", "rand"}).Draw(t, "pk") {
		case "repeat":
			p = gen.Piece{Kind: "repeat", Len: unit*rapid.IntRange(1, 4).Draw(t, "reps") + rapid.IntRange(-1, 1).Draw(t, "rd")}
			if rapid.IntRange(0, 3).Draw(t, "offz") > 0 {
				p.Off = 0
			} else {
				p.Off = rapid.IntRange(0, 1<<20).Draw(t, "off")
			}
		case "zero":
			p = gen.Piece{Kind: "zero", Len: rapid.IntRange(1, 6).Draw(t, "zk")*mx + rapid.IntRange(-1, 1).Draw(t, "zd")}
		case "const":
			p = gen.Piece{Kind: "const", B: byte(rapid.IntRange(1, 255).Draw(t, "b")), Len: rapid.IntRange(1, 6).Draw(t, "ck")*mx + rapid.IntRange(-1, 1).Draw(t, "cd")}
		default:
			p = gen.Piece{Kind: "rand", Len: gen.Around(t, "rl", 4*mx, mn, mx), Seed: rapid.Uint64().Draw(t, "rseed")}
		}
		if p.Len < 0 {
			p.Len = 0
		}
		if p.Len > left {
			p.Len = left
		}
		left -= p.Len
		ps = append(ps, p)
	}
	return ps
}

// largeSizes: chunk-size triples whose max lies above 256 KiB (desync's default max), with a min
// large enough that random data really yields chunks above 256 KiB.
var largeSizes = []gen.Sizes{
	{Min: 270_000, Avg: 300_000, Max: 524_288},
	{Min: 64 * 1024, Avg: 256 * 1024, Max: 1024 * 1024},
	{Min: 262_145, Avg: 262_145, Max: 400_000},
	{Min: 500_000, Avg: 800_000, Max: 1024 * 1024},
}

const kib256 = 256 * 1024

// largeMix: one generated case in 50 uses sizes above 256 KiB (inputs of up to ~4 chunks).
var largeMix = func() []bool { m := make([]bool, 50); m[17] = true; return m }()

func genSizes(t *rapid.T) gen.Sizes {
	switch rapid.IntRange(0, 5).Draw(t, "szc") {
	case 0, 1:
		return gen.Sizes{Min: 48, Avg: 64, Max: 256}
	case 2:
		return gen.Sizes{Min: 64, Avg: 256, Max: 1024}
	case 3:
		return gen.Sizes{Min: 2048, Avg: 4096, Max: 8192}
	default:
		mn := uint64(rapid.IntRange(48, 400).Draw(t, "min"))
		avg := mn + uint64(rapid.IntRange(0, 400).Draw(t, "davg"))
		return gen.Sizes{Min: mn, Avg: avg, Max: avg + uint64(rapid.IntRange(1, 1200).Draw(t, "dmax"))}
	}
}

func genK(t *rapid.T, label string) int {
	switch rapid.IntRange(0, 5).Draw(t, label+"c") {
	case 0:
		return 1
	case 1, 2:
		return rapid.IntRange(1, 6).Draw(t, label+"s")
	case 3, 4:
		return rapid.IntRange(1, 40).Draw(t, label+"m")
	default:
		return rapid.IntRange(1, 600).Draw(t, label+"l")
	}
}

func genFaults(t *rapid.T, op string) []Fault {
	var kinds []Fault // templates
	switch op {
	case "copy", "cli-cache":
		kinds = []Fault{{Store: "dst", Kind: "has"}, {Store: "dst", Kind: "store"}, {Store: "src", Kind: "get"}}
	default:
		kinds = []Fault{{Store: "dst", Kind: "has"}, {Store: "dst", Kind: "store"}}
	}
	nf := rapid.SampledFrom([]int{0, 1, 1, 1, 1, 2, 2, 3}).Draw(t, "nfaults")
	var fs []Fault
	for i := 0; i < nf; i++ {
		f := rapid.SampledFrom(kinds).Draw(t, "fkind")
		f.K = genK(t, "k")
		fs = append(fs, f)
	}
	return fs
}

func genCase(t *rapid.T) Case {
	if cliEnabled() && rapid.IntRange(0, hx.Pick(29, 7)).Draw(t, "cli") == 0 {
		if rapid.IntRange(0, 5).Draw(t, "cliindex") == 0 {
			return genCLIIndex(t)
		}
		return genCLI(t)
	}
	var c Case
	c.Op = rapid.SampledFrom([]string{"chop", "chop", "chop", "make", "make", "copy", "copy", "stream", "stream", "storage", "index"}).Draw(t, "op")
	if c.Op == "index" {
		c.IndexK = rapid.IntRange(-1, 6000).Draw(t, "indexk")
		genIndexTarget(t, &c)
	}
	if rapid.Bool().Draw(t, "nsmall") {
		c.N = rapid.SampledFrom([]int{1, 2, 2, 3, 4, 4, 8, 16}).Draw(t, "n")
	} else {
		c.N = rapid.IntRange(1, 16).Draw(t, "nany")
	}
	c.Sizes = genSizes(t)
	maxLen := int(c.Sizes.Avg) * rapid.IntRange(1, hx.Pick(250, 1200)).Draw(t, "mult")
	if lim := hx.Pick(160_000, 1_500_000); maxLen > lim {
		maxLen = lim
	}
	large := rapid.SampledFrom(largeMix).Draw(t, "large")
	if large {
		c.Sizes = rapid.SampledFrom(largeSizes).Draw(t, "lsizes")
		maxLen = int(c.Sizes.Max)*rapid.IntRange(1, 2).Draw(t, "lmult") + rapid.IntRange(0, 70_000).Draw(t, "lrest")
	}
	if c.Op == "chop" || c.Op == "make" || c.Op == "copy" || c.Op == "stream" {
		c.Target = rapid.SampledFrom(targetMix).Draw(t, "target")
	}
	if c.Op == "copy" && rapid.IntRange(0, 3).Draw(t, "srckind") == 0 {
		c.Src = "local"
		c.SrcUnc = rapid.Bool().Draw(t, "srcunc")
		c.SrcSkip = rapid.IntRange(0, 2).Draw(t, "srcskip") == 0
	}
	if c.Src != "" && (c.Target == "" || c.Target == "mem") && !large {
		// a LocalStore source costs a file per chunk
		if lim := int(c.Sizes.Avg) * rapid.IntRange(1, 40).Draw(t, "smult"); maxLen > lim {
			maxLen = lim
		}
	}
	if c.Target != "" && c.Target != "mem" {
		// real stores cost a file or a request per chunk: keep these inputs small
		if lim := int(c.Sizes.Avg) * rapid.IntRange(1, 40).Draw(t, "tmult"); maxLen > lim && !large {
			maxLen = lim
		}
		c.Unc = c.Target != "http" && rapid.Bool().Draw(t, "unc")
		if c.Target == "http-plain" { // the compressed naming is the default and the interesting one
			c.Unc = rapid.IntRange(0, 3).Draw(t, "punc") == 0
		}
		c.Retry = rapid.SampledFrom([]int{0, 0, 1, 3}).Draw(t, "retry")
		if (c.Target == "http" || c.Target == "http-plain") && rapid.Bool().Draw(t, "refuse") {
			c.Refuse = rapid.SampledFrom(refusals).Draw(t, "refusal")
		}
	}
	if c.Target == "short" {
		c.Target, c.ShortWrite = "local", true
		c.Unc = rapid.IntRange(0, 3).Draw(t, "swunc") > 0
		c.Fsize = rapid.SampledFrom([]int{0, 1, int(c.Sizes.Min) - 1, int(c.Sizes.Min), int(c.Sizes.Avg), int(c.Sizes.Max) - 1, int(c.Sizes.Max),
			rapid.IntRange(0, int(c.Sizes.Max)+64).Draw(t, "fsany")}).Draw(t, "fsize")
	}
	if c.Target == "local" && !c.ShortWrite && rapid.IntRange(0, 3).Draw(t, "block") == 0 {
		c.Block = true
		c.BlockSel = rapid.IntRange(0, 1<<16).Draw(t, "blocksel")
	}
	c.Pieces = dupBlob(t, c.Sizes, maxLen)
	if !large && c.Op != "index" && c.Op != "storage" && (c.Target == "" || c.Target == "mem") && rapid.IntRange(0, 39).Draw(t, "manychunks") == 0 {
		// more chunks than the usual initial capacities of the lists that collect them (1024, 2048, 4096), all distinct,
		// several workers: about k chunks of 48..96 bytes
		k := rapid.SampledFrom([]int{1000, 1024, 1025, 1100, 1500, 2048, 2049, 2100, 3000, hx.Pick(2500, 4097), hx.Pick(1200, 5000)}).Draw(t, "manyk")
		c.Sizes = gen.Sizes{Min: 48, Avg: 64, Max: 96}
		c.Pieces = []gen.Piece{{Kind: "rand", Len: k * 80, Seed: rapid.Uint64().Draw(t, "manyseed")}}
		c.N = rapid.SampledFrom([]int{2, 4, 8, 8, 16}).Draw(t, "manyn")
		c.Target = ""
	}
	c.Faults = genFaults(t, c.Op)
	if c.Refuse != 0 { // a refusal needs a faulted PUT among the first few
		c.Faults = append(c.Faults, Fault{Store: "dst", Kind: "store", K: rapid.IntRange(1, 4).Draw(t, "refusek")})
	}
	if rapid.IntRange(0, 9).Draw(t, "prefill") < 4 {
		c.PrefillEvery = rapid.SampledFrom([]int{1, 2, 2, 3, 5, 17}).Draw(t, "pevery")
		c.PrefillRem = rapid.IntRange(0, 16).Draw(t, "prem")
	}
	switch c.Op {
	case "copy":
		if rapid.IntRange(0, 9).Draw(t, "srcmiss") == 0 {
			for i, m := 0, rapid.IntRange(1, 3).Draw(t, "nmiss"); i < m; i++ {
				c.SrcMissing = append(c.SrcMissing, rapid.IntRange(0, 1<<16).Draw(t, "miss"))
			}
		}
	case "chop":
		if rapid.IntRange(0, 3).Draw(t, "flip") == 0 {
			c.Flip = true
			c.FlipDup = rapid.IntRange(0, 2).Draw(t, "flipdup") > 0
			c.FlipSel = rapid.IntRange(0, 1<<16).Draw(t, "flipsel")
			c.FlipOff = rapid.IntRange(0, 1<<16).Draw(t, "flipoff")
			c.FlipBit = rapid.IntRange(0, 7).Draw(t, "flipbit")
		}
	case "storage":
		c.Rounds = rapid.IntRange(1, 3).Draw(t, "rounds")
	}
	c.Perturb = sched.Vector(t, "pv")
	return c
}

// ------------------------------------------------------------------ oracle

type occurrence struct {
	count int
	first int
}

// judged is everything the verdict of a library-level operation depends on.
type judged struct {
	op        string
	blob      []byte
	must      []desync.IndexChunk // chunks that must be in the target after success (given or produced index)
	produced  *desync.Index       // index made by the operation (make, stream), nil otherwise
	reference desync.Index        // what the reference chunker says
	err       error
	delivered []string // injected failures that really happened, "dst:has#3"
	mustFail  string   // "" or the reason why success is wrong regardless of store faults
	mayFail   string   // "" or a reason that makes an error legitimate without a delivered fault
	view      view     // back door onto what the target really holds
	tag       string   // "" for the in-memory target, else "local:" / "s3:" / "http:" (part of the signature)
	target    string   // description of the target for messages
	// real targets: whether the delivered faults certainly failed a request / were certainly all
	// absorbed by retries (both false = the retry policy leaves it open). In-memory target: derived
	// from delivered.
	certainFail, certainOK bool
}

func shortID(id [32]byte) string { return fmt.Sprintf("%x", id[:4]) }

// judge applies the C06 statement to one finished operation.
func judge(o *hx.Outcome, j judged) {
	p := "C06:" + j.op + ":" + j.tag
	if j.tag == "" {
		j.certainFail, j.certainOK = len(j.delivered) > 0, len(j.delivered) == 0
		if j.target == "" {
			j.target = "MemStore"
		}
	}
	entries := j.view.all()
	if j.err == nil {
		if j.certainFail {
			o.Fail(p+"success-after-delivered-failure", "%s into %s returned nil although injected store failure(s) were delivered and not absorbed by a retry: %v", j.op, j.target, j.delivered)
		}
		if j.mustFail != "" {
			o.Fail(p+"success-on-"+j.mustFail, "%s returned nil although %s", j.op, j.mustFail)
		}
		missing, invalid := 0, 0
		seen := map[desync.ChunkID]bool{}
		for i, ch := range j.must {
			if seen[ch.ID] {
				continue
			}
			seen[ch.ID] = true
			raw, ok, derr := j.view.get(ch.ID)
			switch {
			case !ok:
				if missing == 0 {
					o.Fail(p+"missing-chunk-after-success", "%s into %s returned nil but chunk %d (%s, [%d,+%d)) of the index is not in the backing store (%d chunks in the index, %d entries in the store, delivered %v)",
						j.op, j.target, i, shortID(ch.ID), ch.Start, ch.Size, len(j.must), len(entries), j.delivered)
				}
				missing++
			case derr != nil || ref.ID(raw, false) != [32]byte(ch.ID):
				if invalid == 0 {
					o.Fail(p+"invalid-chunk-after-success", "%s into %s returned nil but the backing store holds %d bytes under %s (chunk %d) that do not hash to it (decode error: %v)", j.op, j.target, len(raw), shortID(ch.ID), i, derr)
				}
				invalid++
			}
		}
		if j.produced != nil {
			judgeIndex(o, p, j)
		}
	} else if j.certainOK && j.mustFail == "" && j.mayFail == "" {
		o.Fail(p+"error-without-fault", "%s into %s failed although no store failure was delivered (or every one was absorbed by a retry: %v) and the input was sound: %v", j.op, j.target, j.delivered, j.err)
	}
	// whatever was returned: the target never holds data under an ID it does not hash to
	for _, e := range entries {
		if e.err != nil || ref.ID(e.plain, false) != [32]byte(e.id) {
			o.Fail(p+"store-holds-invalid-data", "after %s into %s (err=%v) the backing store holds %d bytes under %s that do not hash to it (decode error: %v)", j.op, j.target, j.err, len(e.plain), shortID(e.id), e.err)
			break
		}
	}
}

// judgeIndex: a freshly produced index describes its input exactly.
func judgeIndex(o *hx.Outcome, p string, j judged) {
	idx := j.produced
	if got := idx.Length(); got != int64(len(j.blob)) {
		o.Fail(p+"index-length", "produced index has length %d, input has %d bytes", got, len(j.blob))
	}
	var pos uint64
	for i, ch := range idx.Chunks {
		if ch.Start != pos {
			o.Fail(p+"index-gap-or-overlap", "produced index chunk %d starts at %d, previous ended at %d", i, ch.Start, pos)
			break
		}
		if ch.Start+ch.Size > uint64(len(j.blob)) {
			o.Fail(p+"index-range-beyond-input", "produced index chunk %d [%d,+%d) exceeds the input (%d bytes)", i, ch.Start, ch.Size, len(j.blob))
			break
		}
		if ref.ID(j.blob[ch.Start:ch.Start+ch.Size], false) != [32]byte(ch.ID) {
			o.Fail(p+"index-range-id", "produced index chunk %d [%d,+%d) does not hash to its ID %s", i, ch.Start, ch.Size, shortID(ch.ID))
			break
		}
		pos += ch.Size
	}
	want := j.reference.Chunks
	same := len(want) == len(idx.Chunks)
	at := -1
	for i := 0; same && i < len(want); i++ {
		if want[i] != idx.Chunks[i] {
			same, at = false, i
		}
	}
	if !same {
		o.Fail(p+"index-differs-from-reference", "produced index (%d chunks) differs from the reference chunker's (%d chunks) at chunk %d", len(idx.Chunks), len(want), at)
	}
	fi := idx.Index
	if fi.ChunkSizeMin != j.reference.Index.ChunkSizeMin || fi.ChunkSizeAvg != j.reference.Index.ChunkSizeAvg || fi.ChunkSizeMax != j.reference.Index.ChunkSizeMax {
		o.Fail(p+"index-wrong-params", "produced index records sizes %d/%d/%d", fi.ChunkSizeMin, fi.ChunkSizeAvg, fi.ChunkSizeMax)
	}
}

func deliveredOf(name string, s *dx.MemStore) []string {
	var out []string
	for _, c := range s.Log() {
		if c.Fail {
			out = append(out, fmt.Sprintf("%s:%s#%d(%s)", name, c.Kind, c.N, shortID(c.ID)))
		}
	}
	return out
}

// ------------------------------------------------------------------ run

func clamp(v, lo, hi int) int {
	if v < lo {
		return lo
	}
	if v > hi {
		return hi
	}
	return v
}

func run(c Case) (o hx.Outcome) {
	if c.Op == "cli-index" {
		return runCLIIndex(c)
	}
	if strings.HasPrefix(c.Op, "cli-") {
		return runCLI(c)
	}
	if c.Op == "index" {
		return runIndexWrite(c)
	}
	if c.ShortWrite {
		return runShortWrite(c)
	}
	blob := gen.Expand(c.Pieces)
	sz := c.Sizes
	if sz.Min < 48 || sz.Avg < sz.Min || sz.Max <= sz.Avg { // hand-edited replay: keep the precondition
		sz = gen.Sizes{Min: 48, Avg: 64, Max: 256}
	}
	spans := ref.Chunk(blob, sz.Min, sz.Avg, sz.Max, false)
	idx := dx.BuildIndex(blob, spans, sz, false)
	nch := len(spans)
	n := clamp(c.N, 1, 64)
	op := c.Op

	occ := map[desync.ChunkID]*occurrence{}
	for i, ch := range idx.Chunks {
		if e := occ[ch.ID]; e != nil {
			e.count++
		} else {
			occ[ch.ID] = &occurrence{count: 1, first: i}
		}
	}
	distinct := len(occ)

	dst, src := dx.NewMemStore("dst"), dx.NewMemStore("src")
	yield := func(kind string, _ int, _ desync.ChunkID) {
		if h := desync.VerifHook; h != nil {
			h("store." + kind)
		}
	}
	dst.OnCall, src.OnCall = yield, yield
	realTarget := (c.Target == "local" || c.Target == "s3" || c.Target == "http" || c.Target == "http-plain") && op != "storage"
	var tdir string
	if realTarget {
		tdir = hx.Scratch("c06t")
		defer os.RemoveAll(tdir)
	} else {
		c.Target = "mem"
	}
	tg := newTarget(c, tdir, dst)
	defer tg.close()
	// a regular file where the store wants a directory: no chunk with that prefix can be stored
	blocked := false
	var blockedID desync.ChunkID
	if c.Block && tg.kind == "local" && nch > 0 {
		blockedID = idx.Chunks[c.BlockSel%nch].ID
		dx.WriteFile(filepath.Join(tdir, "store"), blockedID.String()[:4], []byte("not a directory"))
		blocked = true
	}
	prefilled := map[desync.ChunkID]bool{}
	if c.PrefillEvery > 0 {
		for i, ch := range idx.Chunks {
			if blocked && ch.ID.String()[:4] == blockedID.String()[:4] {
				continue
			}
			if i%c.PrefillEvery == ((c.PrefillRem%c.PrefillEvery)+c.PrefillEvery)%c.PrefillEvery {
				tg.put(ch.ID, blob[ch.Start:ch.Start+ch.Size])
				prefilled[ch.ID] = true
			}
		}
	}
	scheduled := map[string]bool{}
	for _, f := range c.Faults {
		if f.K < 1 {
			continue
		}
		switch {
		case f.Store == "src" && f.Kind == "get" && op == "copy":
			src.FailAt("get", f.K)
		case f.Store != "src" && tg.failAt(f.Kind, f.K):
		default:
			continue
		}
		scheduled[f.Kind] = true
	}

	// the file (chop, make): possibly damaged after indexing
	file := blob
	flipped, flipChunk := false, -1
	if c.Flip && op == "chop" && nch > 0 {
		var cand []int
		if c.FlipDup {
			for i, ch := range idx.Chunks {
				if occ[ch.ID].count > 1 {
					cand = append(cand, i)
				}
			}
		}
		if len(cand) > 0 {
			flipChunk = cand[c.FlipSel%len(cand)]
		} else {
			flipChunk = c.FlipSel % nch
		}
		s := spans[flipChunk]
		pos := int(s.Start) + c.FlipOff%int(s.Len)
		file = append([]byte(nil), blob...)
		file[pos] ^= 1 << uint(c.FlipBit&7)
		flipped = true
	}

	ctx := context.Background()
	j := judged{op: op, blob: blob, must: idx.Chunks, reference: idx, view: tg.view, tag: tg.tag, target: tg.desc}
	ws := tg.store
	base := runtime.NumGoroutine()
	un := sched.Perturb(c.Perturb)
	restore := func() map[string]int { sched.Quiesce(base); return un() }
	var hits map[string]int

	switch op {
	case "chop", "make":
		dir := hx.Scratch("c06")
		defer os.RemoveAll(dir)
		path := dx.WriteFile(dir, "blob", file)
		chunks := idx.Chunks
		if op == "make" {
			got, _, err := desync.IndexFromFile(ctx, path, n, sz.Min, sz.Avg, sz.Max, desync.NullProgressBar{})
			if err != nil {
				hits = restore()
				o.Fail("C06:make:index-from-file-error", "IndexFromFile(n=%d) failed on a readable file: %v", n, err)
				j.must = nil
				j.err = err
				j.mayFail = "indexing failed"
				break
			}
			chunks = got.Chunks
			j.produced = &got
			j.must = got.Chunks
		}
		j.err = desync.ChopFile(ctx, path, chunks, ws, n, desync.NullProgressBar{})
		hits = restore()
		if flipped {
			j.mustFail = "mismatched-file"
		}
	case "copy":
		missing := map[desync.ChunkID]bool{}
		if nch > 0 {
			for _, m := range c.SrcMissing {
				missing[idx.Chunks[((m%nch)+nch)%nch].ID] = true
			}
		}
		ids := make([]desync.ChunkID, 0, nch)
		for _, ch := range idx.Chunks {
			ids = append(ids, ch.ID)
			if !missing[ch.ID] {
				src.Put(ch.ID, blob[ch.Start:ch.Start+ch.Size])
			}
		}
		var from desync.Store = src
		srcFmt := "plain"
		if c.Src == "local" {
			sdir := hx.Scratch("c06src")
			defer os.RemoveAll(sdir)
			sv := dirView{dir: sdir, unc: c.SrcUnc}
			for _, ch := range idx.Chunks {
				if !missing[ch.ID] {
					sv.put(ch.ID, blob[ch.Start:ch.Start+ch.Size])
				}
			}
			ls, err := desync.NewLocalStore(sdir, desync.StoreOptions{Uncompressed: c.SrcUnc, SkipVerify: c.SrcSkip})
			if err != nil {
				panic(err)
			}
			from = frontedSource{front: src, inner: ls}
			srcFmt = map[bool]string{false: "compressed", true: "uncompressed"}[c.SrcUnc]
			if c.SrcSkip {
				o.Class("copy:src-storage-only")
			}
		}
		dstFmt := map[bool]string{false: "compressed", true: "uncompressed"}[c.Unc && tg.kind != "http"]
		if tg.kind == "mem" {
			dstFmt = "plain"
		}
		o.Class("copy:src-"+srcFmt+":dst-"+dstFmt, "copy:src-"+srcFmt+":dst-"+dstFmt+":"+tg.kind)
		if srcFmt != "plain" && dstFmt != "plain" && srcFmt != dstFmt {
			o.Class("copy:src-format≠dst-format")
		}
		for id := range missing {
			// S3Store.HasChunk answers "absent" when its HEAD fails: with a scheduled HEAD fault a
			// prefilled chunk may be fetched from the source all the same
			if !prefilled[id] || (tg.kind == "s3" && scheduled["has"]) {
				j.mayFail = "the source lacks a chunk the target needs"
			}
		}
		if len(missing) > 0 {
			o.Class("src-missing")
		}
		j.err = desync.Copy(ctx, ids, from, ws, n, desync.NullProgressBar{})
		hits = restore()
	case "stream":
		ck, err := desync.NewChunker(bytes.NewReader(blob), sz.Min, sz.Avg, sz.Max)
		if err != nil {
			hits = restore()
			o.Fail("C06:stream:chunker-rejects-sizes", "NewChunker(%v): %v", sz, err)
			return o
		}
		got, err := desync.ChunkStream(ctx, ck, ws, n)
		hits = restore()
		j.err = err
		if err == nil {
			j.produced = &got
			j.must = got.Chunks
		}
	case "storage":
		hits = runStorage(&o, c, blob, idx, dst, n, restore)
	default:
		un()
		o.Desc = map[string]any{"op": op, "unknown": true}
		return o
	}

	tgDelivered, tgFail, tgOK := tg.verdict()
	srcDelivered := deliveredOf("src", src)
	if op != "storage" {
		j.delivered = append(append([]string(nil), tgDelivered...), srcDelivered...)
		j.certainFail = tgFail || len(srcDelivered) > 0
		j.certainOK = tgOK && len(srcDelivered) == 0
		if blocked {
			j.mustFail = "a-prefix-directory-that-is-a-file"
		}
		judge(&o, j)
	}
	// the statement's "can be read back": also through desync's own read path of the target
	readBack := 0
	if realTarget && op != "storage" && j.err == nil {
		readBack = readBackThrough(&o, "C06:"+op+":"+tg.tag, tg.desc, tg.store, j.must, blob)
	}
	delivered := len(tgDelivered) + len(srcDelivered)

	// two workers that asked the target about the same ID (visible for Copy only: ChunkStorage
	// filters duplicates before they reach the store)
	sameIDTwice := false
	if op == "copy" {
		seen := map[desync.ChunkID]bool{}
		for _, cl := range dst.Log() {
			if cl.Kind == "has" {
				if seen[cl.ID] {
					sameIDTwice = true
					break
				}
				seen[cl.ID] = true
			}
		}
	}
	dupRace := n >= 2 && distinct < nch

	// ---- classification
	o.Class("op:"+op, "target:"+tg.kind)
	if nch > 1024 {
		o.Class("chunks>1024", "chunks>1024:"+op)
		if nch > 2048 {
			o.Class("chunks>2048")
		}
	}
	if realTarget {
		if c.Unc && tg.kind != "http" {
			o.Class("target:uncompressed")
		}
		if tg.kind == "s3" || tg.kind == "http" || tg.kind == "http-plain" {
			o.Class(fmt.Sprintf("%s:error-retry=%d", tg.kind, clamp(c.Retry, 0, 5)))
			if len(tgDelivered) > 0 {
				o.Class(tg.kind + ":fault-delivered")
				if strings.Contains(tgDelivered[len(tgDelivered)-1], ":refused-") {
					o.Class("http:put-refused-4xx", fmt.Sprintf("http:put-refused-%d", c.Refuse))
				}
				switch {
				case tgFail:
					o.Class(tg.kind + ":fault-not-absorbed")
				case tgOK:
					o.Class(tg.kind + ":fault-absorbed-by-retry")
				}
			}
		}
		if blocked {
			o.Class("local:blocked-dir")
		}
	}
	for k := range scheduled {
		o.Class("fault:" + k)
	}
	if delivered > 0 {
		o.Class("delivered>=1")
	}
	if delivered > 1 {
		o.Class("delivered>=2")
	}
	if len(scheduled) > 0 && delivered == 0 {
		o.Class("scheduled-not-delivered")
	}
	if distinct < nch {
		o.Class("dup-ids")
	}
	if dupRace {
		o.Class("dup-race-possible")
	}
	if sameIDTwice {
		o.Class("same-id-asked-twice")
	}
	if flipped {
		o.Class("flip")
		if occ[idx.Chunks[flipChunk].ID].count > 1 {
			o.Class("flip-in-duplicated-chunk")
		}
	}
	if len(prefilled) > 0 {
		o.Class("prefilled")
		if len(prefilled) == distinct {
			o.Class("prefilled-all")
		}
	}
	if nch == 0 {
		o.Class("empty-index")
	}
	if n >= 2 {
		o.Class("n>=2")
	}
	if op != "storage" {
		if j.err == nil {
			o.Class("success")
		} else {
			o.Class("error-returned")
		}
	}
	bigChunks := 0
	for _, ch := range idx.Chunks {
		if ch.Size > kib256 {
			bigChunks++
		}
	}
	if sz.Max > kib256 {
		o.Class("sizes:max>256KiB")
	}
	if bigChunks > 0 {
		o.Class("chunk>256KiB")
	}
	if readBack > 0 {
		o.Class("readback:desync-getchunk", "readback:"+tg.kind)
		if bigChunks > 0 {
			if tg.kind == "http" || !c.Unc {
				o.Class("chunk>256KiB:compressed-target", "chunk>256KiB:compressed-target:"+tg.kind)
			} else {
				o.Class("chunk>256KiB:uncompressed-target")
			}
		}
	}
	jobSite := map[string]string{"chop": "chop.job", "make": "chop.job", "copy": "copy.job", "stream": "chunkstream.job", "storage": "storage.job"}[op]
	if len(c.Perturb) > 0 && hits[jobSite] > 0 {
		o.Class("perturbed:" + jobSite)
	}
	o.Nontrivial = delivered >= 1 || dupRace || sameIDTwice || flipped || blocked || (realTarget && nch > len(prefilled))
	var fdesc []string
	for _, f := range c.Faults {
		fdesc = append(fdesc, fmt.Sprintf("%s:%s#%d", f.Store, f.Kind, f.K))
	}
	sort.Strings(fdesc)
	o.Desc = map[string]any{"op": op, "target": tg.desc, "len": len(blob), "shape": gen.Shape(c.Pieces), "sizes": sz, "chunks": nch, "distinct": distinct, "n": n,
		"faults": fdesc, "delivered": delivered, "prefill_every": c.PrefillEvery, "flip_chunk": flipChunk, "err": j.err != nil}
	o.Key = fmt.Sprintf("%s/%d/%s/%v/%d/%v/%d/%d/%d/%v/%s/%v", op, len(blob), hx.Hash8(blob), sz, n, fdesc, delivered, c.PrefillEvery, flipChunk, c.SrcMissing, tg.desc, blocked)
	return o
}

// readBackThrough reads every chunk of the index through the store under test itself (GetChunk
// with verification on, Data) and compares the bytes with the input range. Returns the number
// of chunks read.
func readBackThrough(o *hx.Outcome, p, target string, st desync.Store, must []desync.IndexChunk, blob []byte) int {
	seen := map[desync.ChunkID]bool{}
	n, failed, differs := 0, 0, 0
	for i, ch := range must {
		if seen[ch.ID] || ch.Start+ch.Size > uint64(len(blob)) {
			continue
		}
		seen[ch.ID] = true
		n++
		chunk, err := st.GetChunk(ch.ID)
		var data []byte
		if err == nil {
			data, err = chunk.Data()
		}
		switch {
		case err != nil:
			if failed == 0 {
				o.Fail(p+"readback-fails", "the operation into %s reported success but chunk %d (%s, %d bytes) cannot be read back through the store's GetChunk: %v", target, i, shortID(ch.ID), ch.Size, err)
			}
			failed++
		case !bytes.Equal(data, blob[ch.Start:ch.Start+ch.Size]):
			if differs == 0 {
				o.Fail(p+"readback-differs", "the operation into %s reported success but GetChunk of chunk %d (%s) returns %d bytes that differ from the input range [%d,+%d)", target, i, shortID(ch.ID), len(data), ch.Start, ch.Size)
			}
			differs++
		}
	}
	return n
}

// runStorage drives desync.ChunkStorage directly: Rounds passes over the chunk list by n
// goroutines that do not stop at an error (a caller that retries).
//
//   - reported: a delivered failure is returned by the call it hit (count of errors == delivered),
//     and an ID for which no call ever failed is in the store at the end of each pass;
//   - retried (from the documented unmark-on-error mechanism, not from the statement): after a
//     failed ws.StoreChunk the ID is eligible again, so a later pass in which every call for it
//     returns nil must have stored it. The same masking after a failed ws.HasChunk is only
//     counted (class), because no command re-uses a ChunkStorage after an error.
func runStorage(o *hx.Outcome, c Case, blob []byte, idx desync.Index, dst *dx.MemStore, n int, restore func() map[string]int) map[string]int {
	cs := desync.NewChunkStorage(dst)
	rounds := clamp(c.Rounds, 1, 4)
	nch := len(idx.Chunks)
	everErr := map[desync.ChunkID]bool{}
	reported := map[string]bool{}
	nerr := 0
	for r := 0; r < rounds; r++ {
		errs := make([]error, nch)
		jobs := make(chan int)
		var wg sync.WaitGroup
		for w := 0; w < n; w++ {
			wg.Add(1)
			go func() {
				defer wg.Done()
				for i := range jobs {
					if h := desync.VerifHook; h != nil {
						h("storage.job")
					}
					ch := idx.Chunks[i]
					errs[i] = cs.StoreChunk(desync.NewChunk(blob[ch.Start : ch.Start+ch.Size]))
				}
			}()
		}
		for i := 0; i < nch; i++ {
			jobs <- i
		}
		close(jobs)
		wg.Wait()

		roundErr := map[desync.ChunkID]bool{}
		for i, e := range errs {
			if e != nil {
				nerr++
				roundErr[idx.Chunks[i].ID] = true
				everErr[idx.Chunks[i].ID] = true
			}
		}
		hasFault := map[desync.ChunkID]bool{}
		for _, cl := range dst.Log() {
			if cl.Fail && cl.Kind == "has" {
				hasFault[cl.ID] = true
			}
		}
		for i, ch := range idx.Chunks {
			if roundErr[ch.ID] {
				continue
			}
			if _, ok := dst.Raw(ch.ID); ok {
				continue
			}
			switch {
			case !everErr[ch.ID]:
				if !reported["a"] {
					o.Fail("C06:storage:missing-chunk-never-reported", "pass %d: every ChunkStorage.StoreChunk call for chunk %d (%s) returned nil in all passes, but it is not in the store", r+1, i, shortID(ch.ID))
					reported["a"] = true
				}
			case hasFault[ch.ID]:
				o.Class("observed:has-failure-leaves-processed-marker")
			default:
				if !reported["b"] {
					o.Fail("C06:storage:retry-skips-unstored-chunk", "pass %d: StoreChunk for chunk %d (%s) returned nil after its earlier ws.StoreChunk failure, but the chunk is not in the store (marker not cleared)", r+1, i, shortID(ch.ID))
					reported["b"] = true
				}
			}
		}
	}
	hits := restore()
	delivered := dst.Delivered()
	if nerr < delivered {
		o.Fail("C06:storage:delivered-failure-not-returned", "%d injected failures were delivered %v but only %d StoreChunk calls returned an error", delivered, deliveredOf("dst", dst), nerr)
	}
	if nerr > delivered {
		o.Fail("C06:storage:error-without-fault", "%d StoreChunk calls returned an error but only %d failures were injected", nerr, delivered)
	}
	for _, id := range dst.IDs() {
		raw, _ := dst.Raw(id)
		if ref.ID(raw, false) != [32]byte(id) {
			o.Fail("C06:storage:store-holds-invalid-data", "the target holds %d bytes under %s that do not hash to it", len(raw), shortID(id))
			break
		}
	}
	if rounds > 1 && delivered > 0 {
		o.Class("storage:retry-after-failure")
	}
	return hits
}

// ------------------------------------------------------------------ spec and tests

var spec = &hx.Spec[Case]{
	ID:    "C06",
	Level: "fault_enumeration",
	Rule: "cases = (blob with many duplicate chunks: constant runs of k*max, repeats of earlier content; (min,avg,max); n in 1..16; operation in {make = IndexFromFile+ChopFile, ChopFile with a reference-built index, " +
		"Copy over the index's IDs incl. duplicates, ChunkStream, ChunkStorage used directly with retries; thorough: desync make/chop/cache/tar -i against a harness HTTP store}; target optionally prefilled; " +
		"target store of chop/make/copy/stream in {MemStore; desync.LocalStore in a scratch directory (compressed/uncompressed; optionally with a regular file in place of a prefix directory; optionally in a child process under RLIMIT_FSIZE so that chunk file writes are cut short); " +
		"desync.S3Store through the in-process fake S3 (compressed/uncompressed, ErrorRetry 0/1/3, scripted 403 on the k-th PUT/HEAD); desync.RemoteHTTP -> desync.NewHTTPHandler -> LocalStore (ErrorRetry 0/1/3, scripted 500 on the k-th PUT/HEAD; in 1 case of 2 with such a target a faulted PUT is answered with a 4xx refusal instead - 400 401 403 404 405 409 410 412 413 423 429 451 - which is final whatever the retry budget)}, judged on the backing files/objects read through a back door and, after success, by reading every chunk back through the store's own GetChunk (bytes == input range); " +
		"Copy sources: MemStore (plain chunks) or LocalStore compressed/uncompressed, verifying or not (storage form only), x every target format incl. an HTTP object store that keeps PUT bodies verbatim (compressed or uncompressed naming); " +
		"chunk sizes incl. triples with max above 256 KiB (512 KiB..1 MiB, inputs of a few chunks) so that chunks larger than desync's default maximum are stored and read back; " +
		"index op: the reference index written through an io.Writer failing after k bytes, or through RemoteHTTPIndex (desync's HTTPIndexHandler over LocalIndexStore / a plain handler; faulted PUT attempts x ErrorRetry 0/1/3 x fault mode), S3IndexStore, SFTPIndexStore, LocalIndexStore; nil => stored bytes decode to exactly that index, unabsorbed fault => error, nothing partial under the name after an error; " +
		"fault schedule = set of (store, call kind has/store/get, call number k) that fail (CLI: the k-th HEAD/PUT/GET answers 500); ChopFile also on a file with one bit flipped after indexing; perturbation vector for chop.job/copy.job/chunkstream.job and the store callbacks); " +
		"TestEnum: every single k (1..calls+1) x every call kind x every operation x several n for inputs of <= 40 chunks, and a bit flip in every chunk; " +
		"oracle: nil => every ID of the given/produced index is in the target and hashes to it (crypto/sha512 directly), produced index == reference chunker, Length == len(input); >= 1 delivered failure => error; flipped file => error; the target never holds bytes under a foreign ID; " +
		"non-trivial = >= 1 delivered failure, or duplicate IDs with n >= 2 (workers can race on one ID; for Copy: the same ID asked twice in the target's call log), or a flipped file; distinct by (op, blob hash, sizes, n, schedule, delivered count, prefill, flip position)",
	Assumptions: []string{
		"in-memory targets keep exactly what they are given; an injected failure has no side effect (the failing call stores nothing)",
		"real targets: backing files/objects are decoded with klauspost/zstd and hashed with crypto/sha512 by the harness; S3 is the in-process fake of internal/fakes3 (path-style, V2 credentials, keep-alive off, minio.MaxRetry=1, faults are final 403s); HTTP is plain HTTP/1.1 on loopback without keep-alive",
		"retry policies of S3Store/RemoteHTTP are modelled only in their unambiguous zone (a request faulted on more attempts than ErrorRetry permits has failed; fewer faults than attempts on every request is recovered); a faulted HEAD on S3 is absorbed by design (S3Store.HasChunk maps every error to absent)",
		"index stores: RemoteHTTPIndex over plain HTTP/1.1 on loopback without keep-alive, the k-th PUT faulted (500/503 after reading the body, 500 at once, TCP reset); one upload = one logical request, attempt k = k-th PUT; S3IndexStore through the fake (multipart, faults are final 403s); SFTPIndexStore through internal/fakessh (fixed grid only); stored bytes decoded with the reference index codec",
		"short writes: RLIMIT_FSIZE in a re-exec'd child of the test binary; the set of chunk files that cannot be written is known exactly only for uncompressed stores",
		"a scheduled failure whose call number is never reached is 'not delivered'; success is then legitimate",
		"contexts are never cancelled here (C07)",
		"ChunkStorage ops cannot show two store calls for one ID in the call log (duplicates are filtered before the store); the race is provoked by duplicate-rich inputs, n >= 2 and yields inside the store callbacks, not observed directly",
		"sub-check 'storage:retry-skips-unstored-chunk' comes from the unmark-on-error mechanism documented in chunkstorage.go, not from the statement",
		"schedules are sampled by perturbation, not enumerated",
		"CLI tier: plain HTTP on loopback, compressed chunks, LocalStore backing directory; retry policy modelled only in its unambiguous zone",
	},
	Required: []string{"op:make", "op:chop", "op:copy", "op:stream", "op:storage", "op:index", "index:write-fault-delivered", "index:fault-in-last-buffered-part", "index:dev-full", "fault:has", "fault:store", "fault:get", "delivered>=1", "delivered>=2",
		"scheduled-not-delivered", "dup-race-possible", "same-id-asked-twice", "flip", "flip-in-duplicated-chunk", "prefilled", "prefilled-all", "src-missing", "success", "error-returned",
		"perturbed:chop.job", "perturbed:copy.job", "perturbed:chunkstream.job", "storage:retry-after-failure", "empty-index",
		"target:mem", "target:local", "target:s3", "target:http", "target:uncompressed", "s3:error-retry=0", "s3:error-retry=1", "s3:error-retry=3", "http:error-retry=0", "http:error-retry=3",
		"target:http-plain", "readback:http-plain", "copy:src-uncompressed:dst-compressed:http-plain", "copy:src-compressed:dst-uncompressed:http-plain", "copy:src-uncompressed:dst-compressed:http",
		"copy:src-uncompressed:dst-compressed", "copy:src-compressed:dst-uncompressed", "copy:src-compressed:dst-compressed", "copy:src-uncompressed:dst-uncompressed", "copy:src-plain:dst-compressed",
		"copy:src-format≠dst-format", "copy:src-storage-only",
		"sizes:max>256KiB", "chunk>256KiB", "readback:desync-getchunk", "readback:local", "readback:s3", "readback:http", "chunk>256KiB:compressed-target",
		"chunk>256KiB:compressed-target:local", "chunk>256KiB:compressed-target:s3", "chunk>256KiB:compressed-target:http", "chunk>256KiB:uncompressed-target",
		"index-target:http", "index-target:http-plain", "index-target:s3", "index-target:local", "index-target:sftp", "index-target:http:first-put-fails-then-ok", "index-target:http:all-attempts-fail",
		"index-target:http:error-retry=0", "index-target:http:error-retry=3", "index-target:s3:fault-delivered", "index-target:local:dir-in-the-way", "index:stored", "index:store-error",
		"s3:fault-not-absorbed", "s3:fault-absorbed-by-retry", "http:fault-not-absorbed", "http:fault-absorbed-by-retry", "local:blocked-dir", "local:short-write", "local:short-write-delivered", "http:put-refused-4xx", "http:put-refused-409", "chunks>1024", "chunks>2048", "chunks>1024:stream", "chunks>1024:make", "chunks>1024:chop", "chunks>1024:copy"},
	Gen:      genCase,
	Run:      run,
	Journal:  true,
	Watchdog: 60 * time.Second,
}

func TestMain(m *testing.M) {
	if job := os.Getenv("VERIF_C06_CHILD"); job != "" {
		childMain(job) // never returns
	}
	if cliEnabled() {
		spec.Required = append(spec.Required, "op:cli-make", "op:cli-chop", "op:cli-cache", "op:cli-tar", "cli:readback", "cli:null-chunk", "cli-cache:source-is-target:chunk-missing", "op:cli-index", "cli:delivered-500", "cli:exit-0", "cli:exit-nonzero")
		if hx.Thorough() {
			spec.Required = append(spec.Required, "cli:chunk>256KiB", "cli-index:first-put-fails-then-ok")
		}
	}
	hx.Main(m)
}

func TestRegress(t *testing.T) { hx.Regress(t, spec) }
func TestKnown(t *testing.T)   { hx.Known(t, spec) }
func TestReplay(t *testing.T)  { hx.Replay(t, spec) }

// enumBlobs are the inputs of the exhaustive part: at most 40 chunks, most of them duplicates.
func enumBlobs() []Case {
	small := gen.Sizes{Min: 48, Avg: 64, Max: 256}
	return []Case{
		// unit, zero run (identical max-size chunks), the unit again, constant run
		{Sizes: small, Pieces: []gen.Piece{{Kind: "rand", Len: 500, Seed: 11}, {Kind: "zero", Len: 256 * 5}, {Kind: "repeat", Len: 1000, Off: 0}, {Kind: "const", Len: 256*4 + 7, B: 0x33}}},
		// only one distinct chunk plus a tail
		{Sizes: small, Pieces: []gen.Piece{{Kind: "zero", Len: 256*12 + 5}}},
		// three copies of one random unit
		{Sizes: gen.Sizes{Min: 64, Avg: 128, Max: 512}, Pieces: []gen.Piece{{Kind: "rand", Len: 1300, Seed: 5}, {Kind: "repeat", Len: 2600, Off: 0}}},
		// no duplicates at all
		{Sizes: small, Pieces: []gen.Piece{{Kind: "rand", Len: 1500, Seed: 77}}},
	}
}

// TestEnum: every single failing call number, for every call kind, operation and several n.
// The (input, n, operation) slots are dealt round-robin to the shards of a run; every shard
// enumerates its slots completely, so the merged evidence covers the whole grid.
// TestEnumIndex: every byte count at which the index output can fail, for each enumeration input.
// TestEnumIndexTargets: every (ErrorRetry, set of faulted first attempts, fault mode) for the two
// HTTP index servers, every S3 multipart step faulted, local and SFTP variants; dealt to the shards.
func TestEnumIndexTargets(t *testing.T) {
	slot, cases := 0, 0
	mine := func() bool { slot++; return (slot-1)%hx.Shards() == hx.Shard() }
	try := func(c Case) bool {
		if !mine() {
			return true
		}
		cases++
		return hx.Case(t, spec, c)
	}
	blobs := enumBlobs()
	for bi, b := range []Case{blobs[0], {Sizes: blobs[0].Sizes, Pieces: nil}} { // bi == 1: the empty index
		for _, tgt := range []string{"http", "http-plain"} {
			for _, retry := range []int{0, 1, 3} {
				for _, mode := range []string{"500", "503", "500-early", "reset"} {
					for _, faults := range [][]int{nil, {1}, {1, 2}, {1, 2, 3}, {1, 2, 3, 4}, {2}} {
						if bi == 1 && (mode != "503" || len(faults) > 1) {
							continue
						}
						if !try(Case{Op: "index", Pieces: b.Pieces, Sizes: b.Sizes, IndexTarget: tgt, Retry: retry, IndexMode: mode, IndexFaults: faults}) {
							return
						}
					}
				}
			}
		}
	}
	b := blobs[0]
	for _, mode := range []string{"", "initiate", "part", "complete"} {
		if !try(Case{Op: "index", Pieces: b.Pieces, Sizes: b.Sizes, IndexTarget: "s3", IndexMode: mode, IndexFaults: []int{1}}) {
			return
		}
	}
	for _, mode := range []string{"", "overwrite-longer", "dir-in-the-way"} {
		if !try(Case{Op: "index", Pieces: b.Pieces, Sizes: b.Sizes, IndexTarget: "local", IndexMode: mode}) {
			return
		}
	}
	for _, mode := range []string{"", "readonly"} {
		if !try(Case{Op: "index", Pieces: b.Pieces, Sizes: b.Sizes, IndexTarget: "sftp", IndexMode: mode}) {
			return
		}
	}
	hx.AddNote("enum_index_target_cases", cases)
	hx.Exhaustive("index upload over HTTP: ErrorRetry {0,1,3} x faulted attempts {none, 1, 1-2, 1-3, 1-4, 2} x fault mode {500, 503, 500 before the body, reset} x {desync's index handler, plain handler}")
}

func TestEnumIndex(t *testing.T) {
	if hx.Shard() != 0 {
		t.Skip()
	}
	n := 0
	for _, b := range enumBlobs() {
		blob := gen.Expand(b.Pieces)
		size := 48 + 16 + 40*len(ref.Chunk(blob, b.Sizes.Min, b.Sizes.Avg, b.Sizes.Max, false)) + 40
		for k := -1; k <= size; k++ {
			n++
			if !hx.Case(t, spec, Case{Op: "index", Pieces: b.Pieces, Sizes: b.Sizes, IndexK: k}) {
				return
			}
		}
	}
	hx.AddNote("enum_index_write_points", n)
	hx.Exhaustive("every byte count at which the index output fails, for the enumeration inputs")
}

// TestEnumTargets: a fixed grid over the real target stores (every store kind x retry setting x
// operation x a few single faults, and the short-write limits around the chunk sizes), dealt
// round-robin to the shards.
func TestEnumTargets(t *testing.T) {
	b := enumBlobs()[0]
	slot, cases := 0, 0
	mine := func() bool { slot++; return (slot-1)%hx.Shards() == hx.Shard() }
	type tcfg struct {
		target string
		unc    bool
		retry  int
	}
	cfgs := []tcfg{{"local", false, 0}, {"local", true, 0}, {"s3", false, 0}, {"s3", true, 1}, {"s3", false, 3}, {"http", false, 0}, {"http", false, 1}, {"http", false, 3}}
	faults := [][]Fault{nil, {{Store: "dst", Kind: "store", K: 1}}, {{Store: "dst", Kind: "store", K: 3}, {Store: "dst", Kind: "store", K: 4}}, {{Store: "dst", Kind: "has", K: 2}}}
	for _, cfg := range cfgs {
		for _, op := range []string{"chop", "make", "copy", "stream"} {
			for fi, fs := range faults {
				if cfg.target == "local" && fi > 0 {
					continue
				}
				if !mine() {
					continue
				}
				c := Case{Op: op, Pieces: b.Pieces, Sizes: b.Sizes, N: 1 + 2*(fi%2), Target: cfg.target, Unc: cfg.unc, Retry: cfg.retry, Faults: fs, PrefillEvery: []int{0, 3}[fi%2]}
				cases++
				if !hx.Case(t, spec, c) {
					return
				}
				if cfg.target == "local" {
					c.Block, c.BlockSel = true, 1
					cases++
					if !hx.Case(t, spec, c) {
						return
					}
				}
			}
		}
	}
	// Copy: every source format x every target format
	type scfg struct {
		src       string
		unc, skip bool
	}
	for si, sc := range []scfg{{"", false, false}, {"local", false, false}, {"local", false, true}, {"local", true, false}, {"local", true, true}} {
		for ti, cfg := range []tcfg{{"local", false, 0}, {"local", true, 0}, {"s3", false, 1}, {"s3", true, 0}, {"http", false, 0}, {"http-plain", false, 3}, {"http-plain", true, 0}, {"mem", false, 0}} {
			if !mine() {
				continue
			}
			c := Case{Op: "copy", Pieces: b.Pieces, Sizes: b.Sizes, N: 1 + (si+ti)%3, Target: cfg.target, Unc: cfg.unc, Retry: cfg.retry, Src: sc.src, SrcUnc: sc.unc, SrcSkip: sc.skip, PrefillEvery: []int{0, 0, 3}[(si+ti)%3]}
			cases++
			if !hx.Case(t, spec, c) {
				return
			}
		}
	}
	// http-plain target for the other operations
	for i, op := range []string{"chop", "make", "stream"} {
		for _, unc := range []bool{false, true} {
			if !mine() {
				continue
			}
			c := Case{Op: op, Pieces: b.Pieces, Sizes: b.Sizes, N: 1 + i, Target: "http-plain", Unc: unc, Retry: []int{0, 3}[i%2], Faults: [][]Fault{nil, {{Store: "dst", Kind: "store", K: 2}}}[i%2]}
			cases++
			if !hx.Case(t, spec, c) {
				return
			}
		}
	}
	// chunks above 256 KiB (sizes 270000:300000:524288; random, an all-zero run of two max-size chunks, a repeat) into every real target
	big := []gen.Piece{{Kind: "rand", Len: 650_000, Seed: 41}, {Kind: "zero", Len: 2 * 524_288}, {Kind: "repeat", Len: 400_000, Off: 0}}
	for i, cfg := range []tcfg{{"local", false, 0}, {"local", true, 0}, {"s3", false, 3}, {"s3", true, 0}, {"http", false, 3}, {"local", false, 0}, {"s3", false, 1}, {"http", false, 0}} {
		if !mine() {
			continue
		}
		c := Case{Op: []string{"chop", "make", "copy", "stream"}[i%4], Pieces: big, Sizes: largeSizes[0], N: 1 + i%3, Target: cfg.target, Unc: cfg.unc, Retry: cfg.retry}
		cases++
		if !hx.Case(t, spec, c) {
			return
		}
	}
	// short writes: limits at and around the chunk sizes of the input (max = 256)
	for i, fsize := range []int{0, 1, 47, 100, 255, 256, 2000} {
		for _, unc := range []bool{true, false} {
			if !mine() {
				continue
			}
			c := Case{Op: []string{"chop", "stream", "make", "copy"}[i%4], Pieces: b.Pieces, Sizes: b.Sizes, N: 1 + i%3, Target: "local", Unc: unc, ShortWrite: true, Fsize: fsize, PrefillEvery: []int{0, 4}[i%2]}
			cases++
			if !hx.Case(t, spec, c) {
				return
			}
		}
	}
	hx.AddNote("enum_target_cases", cases)
}

func TestEnum(t *testing.T) {
	vecs := [][]int{nil, {1, 0, 2, 0, 0, 3}, {0, 0, 2, 0, 0, 0, 1, 0, 0, 0, 0, 0, 4}} // the last one sleeps at every 13th site
	cases, slot := 0, 0
	mine := func() bool { slot++; return (slot-1)%hx.Shards() == hx.Shard() }
	for bi, b := range enumBlobs() {
		blob := gen.Expand(b.Pieces)
		nch := len(ref.Chunk(blob, b.Sizes.Min, b.Sizes.Avg, b.Sizes.Max, false))
		if nch > 40 || nch < 4 {
			fmt.Println("SELFTEST-FAILURE: enumeration input has an unexpected chunk count")
			t.Fatalf("enum blob %d has %d chunks", bi, nch)
		}
		for _, n := range hx.Pick([]int{1, 2, 4}, []int{1, 2, 3, 4, 8, 16}) {
			for _, op := range []string{"chop", "make", "copy", "stream", "storage"} {
				if !mine() {
					continue
				}
				kinds := []Fault{{Store: "dst", Kind: "has"}, {Store: "dst", Kind: "store"}}
				if op == "copy" {
					kinds = append(kinds, Fault{Store: "src", Kind: "get"})
				}
				for _, prefill := range []int{0, 2} {
					for _, f := range kinds {
						for k := 1; k <= nch+1; k++ {
							f.K = k
							c := Case{Op: op, Pieces: b.Pieces, Sizes: b.Sizes, N: n, Faults: []Fault{f}, PrefillEvery: prefill, Perturb: vecs[(k+n)%len(vecs)], Rounds: 2}
							cases++
							if !hx.Case(t, spec, c) {
								return
							}
						}
					}
				}
			}
			if !mine() {
				continue
			}
			// one flipped bit in every chunk: first byte, last byte (-1, resolved by fixFlipOff), an inner byte
			for ci := 0; ci < nch; ci++ {
				c := Case{Op: "chop", Pieces: b.Pieces, Sizes: b.Sizes, N: n, Flip: true, FlipSel: ci, FlipOff: []int{0, -1, 17}[ci%3], FlipBit: ci % 8, Perturb: vecs[ci%len(vecs)]}
				cases++
				if !hx.Case(t, spec, fixFlipOff(c)) {
					return
				}
			}
		}
	}
	hx.AddNote("enum_cases", cases)
	hx.Exhaustive("single failing call: every k in 1..chunks+1 x {HasChunk, StoreChunk on the target; GetChunk on the source (Copy)} x {make, chop, copy, stream, storage} x listed n x {empty, half-prefilled target} for the 4 listed inputs (<= 40 chunks)")
	hx.Exhaustive("one flipped bit in every chunk of the 4 listed inputs x listed n (ChopFile)")
}

// fixFlipOff maps FlipOff -1 ("last byte of the chunk") to a concrete offset.
func fixFlipOff(c Case) Case {
	if c.FlipOff >= 0 {
		return c
	}
	blob := gen.Expand(c.Pieces)
	spans := ref.Chunk(blob, c.Sizes.Min, c.Sizes.Avg, c.Sizes.Max, false)
	c.FlipOff = int(spans[c.FlipSel%len(spans)].Len) - 1
	return c
}

// TestSelf: the oracle must flag hand-made wrong outcomes and accept a correct one.
func TestSelf(t *testing.T) {
	sz := gen.Sizes{Min: 48, Avg: 64, Max: 256}
	blob := gen.Expand([]gen.Piece{{Kind: "rand", Len: 900, Seed: 3}, {Kind: "zero", Len: 600}})
	idx := dx.BuildIndex(blob, ref.Chunk(blob, sz.Min, sz.Avg, sz.Max, false), sz, false)
	full := func() *dx.MemStore { s := dx.NewMemStore("dst"); dx.FillStore(s, blob, idx); return s }
	sigs := func(j judged) string {
		var o hx.Outcome
		judge(&o, j)
		var s []string
		for _, v := range o.Violations {
			s = append(s, v.Sig)
		}
		return strings.Join(s, ",")
	}
	fail := func(what, got, want string) {
		fmt.Println("SELFTEST-FAILURE: C06 oracle:", what)
		t.Fatalf("%s: got %q want %q", what, got, want)
	}
	base := judged{op: "chop", blob: blob, must: idx.Chunks, reference: idx}

	j := base
	j.view = memView{full()}
	if got := sigs(j); got != "" {
		fail("complete store after success flagged", got, "")
	}
	j = base
	fs := full()
	fs.Delete(idx.Chunks[2].ID)
	j.view = memView{fs}
	if got := sigs(j); got != "C06:chop:missing-chunk-after-success" {
		fail("missing chunk after success", got, "C06:chop:missing-chunk-after-success")
	}
	j = base
	fs = full()
	fs.Put(idx.Chunks[1].ID, []byte("other bytes"))
	j.view = memView{fs}
	if got := sigs(j); got != "C06:chop:invalid-chunk-after-success,C06:chop:store-holds-invalid-data" {
		fail("invalid chunk after success", got, "invalid-chunk-after-success,store-holds-invalid-data")
	}
	j = base
	j.view = memView{full()}
	j.delivered = []string{"dst:has#1"}
	if got := sigs(j); got != "C06:chop:success-after-delivered-failure" {
		fail("success after a delivered failure", got, "C06:chop:success-after-delivered-failure")
	}
	j = base
	j.view = memView{dx.NewMemStore("dst")}
	j.err = dx.ErrInjected
	j.delivered = []string{"dst:has#1"}
	if got := sigs(j); got != "" {
		fail("error after a delivered failure flagged", got, "")
	}
	j = base
	j.view = memView{dx.NewMemStore("dst")}
	j.err = dx.ErrInjected
	if got := sigs(j); got != "C06:chop:error-without-fault" {
		fail("error without fault", got, "C06:chop:error-without-fault")
	}
	j = base
	j.view = memView{full()}
	j.mustFail = "mismatched-file"
	if got := sigs(j); got != "C06:chop:success-on-mismatched-file" {
		fail("mismatched file accepted", got, "C06:chop:success-on-mismatched-file")
	}
	// produced index: wrong ID in one row, and a short index
	bad := idx
	bad.Chunks = append([]desync.IndexChunk(nil), idx.Chunks...)
	bad.Chunks[0].ID[0] ^= 1
	j = base
	j.op = "stream"
	fs = full()
	fs.Put(bad.Chunks[0].ID, blob[:bad.Chunks[0].Size]) // present, but not valid under that ID
	j.view = memView{fs}
	j.produced, j.must = &bad, bad.Chunks
	if got := sigs(j); !strings.Contains(got, "C06:stream:index-range-id") || !strings.Contains(got, "C06:stream:index-differs-from-reference") {
		fail("wrong ID in a produced index", got, "index-range-id + index-differs-from-reference")
	}
	short := idx
	short.Chunks = idx.Chunks[:len(idx.Chunks)-1]
	j = base
	j.op = "make"
	j.view = memView{full()}
	j.produced, j.must = &short, short.Chunks
	if got := sigs(j); !strings.Contains(got, "C06:make:index-length") {
		fail("short produced index", got, "index-length")
	}
	// the fault schedule of the store itself: k-th call fails, others do not, Delivered counts it
	ms := dx.NewMemStore("x")
	ms.FailAt("has", 2)
	_, e1 := ms.HasChunk(idx.Chunks[0].ID)
	_, e2 := ms.HasChunk(idx.Chunks[0].ID)
	_, e3 := ms.HasChunk(idx.Chunks[0].ID)
	if e1 != nil || e2 == nil || e3 != nil || ms.Delivered() != 1 {
		fail("MemStore fault schedule", fmt.Sprint(e1, e2, e3, ms.Delivered()), "nil, error, nil, 1")
	}
}

func TestProp(t *testing.T) { hx.Prop(t, spec) }

// failAfter accepts n bytes and then fails every write (a full disk, a quota, a closed pipe).
type failAfter struct {
	n       int
	written int
	failed  bool
}

func (f *failAfter) Write(p []byte) (int, error) {
	room := f.n - f.written
	if room >= len(p) {
		f.written += len(p)
		return len(p), nil
	}
	if room < 0 {
		room = 0
	}
	f.written += room
	f.failed = true
	return room, errors.New("injected: no space left on the index output")
}

// runIndexWrite: the last store operation of make / tar -i is writing the index. If the index
// output fails at any byte the operation must report it, and an index it reports as written
// must be complete.
func runIndexWrite(c Case) (o hx.Outcome) {
	if c.IndexTarget != "" {
		return runIndexStore(c)
	}
	blob := gen.Expand(c.Pieces)
	sz := c.Sizes
	if sz.Min < 48 || sz.Avg < sz.Min || sz.Max <= sz.Avg {
		sz = gen.Sizes{Min: 48, Avg: 64, Max: 256}
	}
	idx := dx.BuildIndex(blob, ref.Chunk(blob, sz.Min, sz.Avg, sz.Max, false), sz, false)
	full := ref.EncodeIndex(ref.IndexFile{Flags: idx.Index.FeatureFlags, Min: sz.Min, Avg: sz.Avg, Max: sz.Max, Items: func() []ref.IndexItem {
		var it []ref.IndexItem
		for _, ch := range idx.Chunks {
			it = append(it, ref.IndexItem{End: ch.Start + ch.Size, ID: ch.ID})
		}
		return it
	}()})
	o.Class("op:index")
	if c.IndexK < 0 {
		// through the local index store onto a device that accepts no data
		st, err := desync.NewLocalIndexStore("/dev")
		if err != nil {
			o.Desc = map[string]any{"op": "index", "skipped": err.Error()}
			return o
		}
		err = st.StoreIndex("full", idx)
		o.Class("index:dev-full")
		if err == nil {
			o.Fail("C06:index:write-failure-not-reported", "StoreIndex onto /dev/full (every write fails with ENOSPC) reported success for an index of %d bytes", len(full))
		}
		o.Nontrivial = true
		o.Desc = map[string]any{"op": "index", "via": "LocalIndexStore(/dev/full)", "index_bytes": len(full)}
		o.Key = fmt.Sprintf("index/devfull/%d", len(full))
		return o
	}
	w := &failAfter{n: c.IndexK}
	_, err := idx.WriteTo(w)
	delivered := w.failed
	switch {
	case delivered && err == nil:
		o.Fail("C06:index:write-failure-not-reported", "the index output failed after %d of %d bytes but Index.WriteTo returned nil", c.IndexK, len(full))
	case !delivered && err != nil:
		o.Fail("C06:index:error-without-fault", "Index.WriteTo failed although the output accepted everything: %v", err)
	case !delivered && w.written != len(full):
		o.Fail("C06:index:short-index", "Index.WriteTo returned nil after writing %d of %d bytes", w.written, len(full))
	}
	if delivered {
		o.Class("index:write-fault-delivered")
		if c.IndexK > len(full)-4096 {
			o.Class("index:fault-in-last-buffered-part")
		}
	} else {
		o.Class("index:complete")
	}
	o.Nontrivial = delivered
	o.Desc = map[string]any{"op": "index", "index_bytes": len(full), "fail_after": c.IndexK, "delivered": delivered}
	o.Key = fmt.Sprintf("index/%d/%d", len(full), c.IndexK)
	return o
}
