package c06

// Real target stores for the library operations: desync.LocalStore in a scratch directory,
// desync.S3Store through internal/fakes3, desync.RemoteHTTP against desync.NewHTTPHandler over a
// LocalStore. The oracle never asks the store under test what it holds: it looks at the backing
// state through a back door (files of the directory / objects of the fake, decoded with
// klauspost/zstd and hashed with crypto/sha512 directly).
//
// LocalStore has one more fault: the operation runs in a re-exec'd child of the test binary
// under a lowered RLIMIT_FSIZE, so that the write of a chunk file is cut short.

import (
	"bytes"
	"context"
	"encoding/json"
	"fmt"
	"io"
	"net/http"
	"net/url"
	"os"
	"os/exec"
	"os/signal"
	"path/filepath"
	"sort"
	"strconv"
	"strings"
	"sync"
	"syscall"
	"time"

	"github.com/folbricht/desync"
	"github.com/klauspost/compress/zstd"
	"golang.org/x/sys/unix"

	"verifharness/internal/dx"
	"verifharness/internal/fakes3"
	"verifharness/internal/gen"
	"verifharness/internal/hx"
	"verifharness/internal/ref"
)

var zstdEnc, _ = zstd.NewWriter(nil)

// entry is one thing a backing store keeps under a chunk name.
type entry struct {
	id    desync.ChunkID
	plain []byte
	err   error // stored bytes cannot be decoded
}

// view is the oracle's back door onto what a target really holds.
type view interface {
	get(id desync.ChunkID) (plain []byte, present bool, err error)
	all() []entry
}

type memView struct{ s *dx.MemStore }

func (v memView) get(id desync.ChunkID) ([]byte, bool, error) {
	b, ok := v.s.Raw(id)
	return b, ok, nil
}

func (v memView) all() []entry {
	var out []entry
	for _, id := range v.s.IDs() {
		b, _ := v.s.Raw(id)
		out = append(out, entry{id: id, plain: b})
	}
	return out
}

func decodeStored(b []byte, unc bool) ([]byte, error) {
	if unc {
		return b, nil
	}
	return zstdDec.DecodeAll(b, nil)
}

func encodeStored(b []byte, unc bool) []byte {
	if unc {
		return append([]byte(nil), b...)
	}
	return zstdEnc.EncodeAll(b, nil)
}

func chunkExt(unc bool) string {
	if unc {
		return ""
	}
	return ".cacnk"
}

// idFromName parses "<64 hex><ext>"; anything else (temp files, strays) is not a chunk name.
func idFromName(base string, unc bool) (desync.ChunkID, bool) {
	if !unc {
		if !strings.HasSuffix(base, ".cacnk") {
			return desync.ChunkID{}, false
		}
		base = strings.TrimSuffix(base, ".cacnk")
	}
	if len(base) != 64 {
		return desync.ChunkID{}, false
	}
	id, err := desync.ChunkIDFromString(base)
	return id, err == nil
}

// dirView reads a LocalStore directory without LocalStore.
type dirView struct {
	dir string
	unc bool
}

func (v dirView) path(id desync.ChunkID) string {
	s := id.String()
	return filepath.Join(v.dir, s[:4], s+chunkExt(v.unc))
}

func (v dirView) get(id desync.ChunkID) ([]byte, bool, error) {
	b, err := os.ReadFile(v.path(id))
	if err != nil {
		return nil, false, nil
	}
	p, err := decodeStored(b, v.unc)
	return p, true, err
}

func (v dirView) all() []entry {
	var out []entry
	filepath.Walk(v.dir, func(p string, info os.FileInfo, err error) error {
		if err != nil || info.IsDir() {
			return nil
		}
		id, ok := idFromName(filepath.Base(p), v.unc)
		if !ok {
			return nil
		}
		b, err := os.ReadFile(p)
		if err != nil {
			return nil
		}
		plain, derr := decodeStored(b, v.unc)
		out = append(out, entry{id: id, plain: plain, err: derr})
		return nil
	})
	return out
}

func (v dirView) put(id desync.ChunkID, plain []byte) {
	p := v.path(id)
	os.MkdirAll(filepath.Dir(p), 0o755)
	if err := os.WriteFile(p, encodeStored(plain, v.unc), 0o644); err != nil {
		panic(err)
	}
}

// s3View reads the fake's object map.
type s3View struct {
	srv            *fakes3.Server
	bucket, prefix string
	unc            bool
}

func (v s3View) get(id desync.ChunkID) ([]byte, bool, error) {
	b, ok := v.srv.Get(v.bucket, fakes3.ChunkKey(v.prefix, id, v.unc))
	if !ok {
		return nil, false, nil
	}
	p, err := decodeStored(b, v.unc)
	return p, true, err
}

func (v s3View) all() []entry {
	var out []entry
	for _, k := range v.srv.Keys(v.bucket) {
		id, ok := idFromName(k[strings.LastIndex(k, "/")+1:], v.unc)
		if !ok {
			continue
		}
		b, _ := v.srv.Get(v.bucket, k)
		plain, derr := decodeStored(b, v.unc)
		out = append(out, entry{id: id, plain: plain, err: derr})
	}
	return out
}

// plainObjects is a dumb HTTP object store (WebDAV / bucket behind a proxy): PUT bodies are kept
// exactly as they arrive and served back on GET; nothing is decoded or validated.
type plainObjects struct {
	mu   sync.Mutex
	objs map[string][]byte
	unc  bool
}

func (ps *plainObjects) ServeHTTP(w http.ResponseWriter, r *http.Request) {
	switch r.Method {
	case "PUT":
		b, err := io.ReadAll(r.Body)
		if err != nil {
			w.WriteHeader(http.StatusBadRequest)
			return
		}
		ps.mu.Lock()
		ps.objs[r.URL.Path] = b
		ps.mu.Unlock()
		w.WriteHeader(http.StatusOK)
	case "GET", "HEAD":
		ps.mu.Lock()
		b, ok := ps.objs[r.URL.Path]
		ps.mu.Unlock()
		if !ok {
			w.WriteHeader(http.StatusNotFound)
			return
		}
		w.Header().Set("Content-Length", strconv.Itoa(len(b)))
		w.WriteHeader(http.StatusOK)
		if r.Method == "GET" {
			w.Write(b)
		}
	default:
		w.WriteHeader(http.StatusMethodNotAllowed)
	}
}

func (ps *plainObjects) path(id desync.ChunkID) string {
	s := id.String()
	return "/" + s[:4] + "/" + s + chunkExt(ps.unc)
}

func (ps *plainObjects) get(id desync.ChunkID) ([]byte, bool, error) {
	ps.mu.Lock()
	b, ok := ps.objs[ps.path(id)]
	ps.mu.Unlock()
	if !ok {
		return nil, false, nil
	}
	p, err := decodeStored(b, ps.unc)
	return p, true, err
}

func (ps *plainObjects) all() []entry {
	ps.mu.Lock()
	defer ps.mu.Unlock()
	var out []entry
	for k, b := range ps.objs {
		id, ok := idFromName(k[strings.LastIndex(k, "/")+1:], ps.unc)
		if !ok {
			continue
		}
		plain, derr := decodeStored(b, ps.unc)
		out = append(out, entry{id: id, plain: plain, err: derr})
	}
	sort.Slice(out, func(i, j int) bool { return bytes.Compare(out[i].id[:], out[j].id[:]) < 0 })
	return out
}

func (ps *plainObjects) put(id desync.ChunkID, plain []byte) {
	ps.mu.Lock()
	ps.objs[ps.path(id)] = encodeStored(plain, ps.unc)
	ps.mu.Unlock()
}

// frontedSource is the source of a Copy: every GetChunk passes the in-memory front first (call
// log, scheduled GetChunk faults, missing chunks), the chunk itself comes from the real store, in
// that store's storage format.
type frontedSource struct {
	front *dx.MemStore
	inner desync.Store
}

func (f frontedSource) GetChunk(id desync.ChunkID) (*desync.Chunk, error) {
	if _, err := f.front.GetChunk(id); err != nil {
		return nil, err
	}
	return f.inner.GetChunk(id)
}
func (f frontedSource) HasChunk(id desync.ChunkID) (bool, error) { return f.inner.HasChunk(id) }
func (f frontedSource) Close() error                             { return f.inner.Close() }
func (f frontedSource) String() string                           { return "fronted:" + f.inner.String() }

// target is one store under test plus the harness' handles on it.
type target struct {
	kind    string // mem | local | s3 | http
	tag     string // "" for mem, else "local:" "s3:" "http:" (part of the signatures)
	desc    string
	store   desync.WriteStore
	view    view
	put     func(id desync.ChunkID, plain []byte) // back-door prefill
	failAt  func(kind string, k int) bool         // schedule a fault; false = this target has no such fault
	verdict func() (delivered []string, certainFail, certainOK bool)
	close   func()
}

// retryVerdict is the retry policy in its unambiguous zone: a request whose every permitted
// attempt was faulted has certainly failed; fewer faults than attempts on every request means
// every request got through.
func retryVerdict(retry, worst int) (certainFail, certainOK bool) {
	attempts := retry
	if attempts < 1 {
		attempts = 1
	}
	return worst >= attempts+1 || (retry <= 1 && worst >= 1), worst < attempts
}

const s3Bucket, s3Prefix = "c06-chunks", "stores/a"

func newTarget(c Case, dir string, mem *dx.MemStore) *target {
	retry := clamp(c.Retry, 0, 5)
	opt := desync.StoreOptions{Uncompressed: c.Unc, ErrorRetry: retry, ErrorRetryBaseInterval: time.Microsecond}
	switch c.Target {
	case "local":
		sdir := filepath.Join(dir, "store")
		os.MkdirAll(sdir, 0o755)
		ls, err := desync.NewLocalStore(sdir, opt)
		if err != nil {
			panic(err)
		}
		v := dirView{dir: sdir, unc: c.Unc}
		return &target{kind: "local", tag: "local:", desc: fmt.Sprintf("LocalStore(unc=%v)", c.Unc), store: ls, view: v, put: v.put,
			failAt:  func(string, int) bool { return false },
			verdict: func() ([]string, bool, bool) { return nil, false, true },
			close:   func() {}}
	case "s3":
		srv := fakes3.New()
		undo := fakes3.NoRetry()
		st, err := fakes3.ChunkStore(srv, s3Bucket, s3Prefix, opt)
		if err != nil {
			panic(err)
		}
		v := s3View{srv: srv, bucket: s3Bucket, prefix: s3Prefix, unc: c.Unc}
		return &target{kind: "s3", tag: "s3:", desc: fmt.Sprintf("S3Store(unc=%v, error-retry=%d)", c.Unc, retry), store: st, view: v,
			put: func(id desync.ChunkID, plain []byte) {
				srv.Put(s3Bucket, fakes3.ChunkKey(s3Prefix, id, c.Unc), encodeStored(plain, c.Unc))
			},
			failAt: func(kind string, k int) bool {
				switch kind {
				case "store":
					srv.FailAt(fakes3.KPut, k, fakes3.M403)
				case "has":
					srv.FailAt(fakes3.KHead, k, fakes3.M403)
				default:
					return false
				}
				return true
			},
			verdict: func() ([]string, bool, bool) {
				// S3Store.HasChunk maps every error to "absent" (then the chunk is uploaded): a
				// faulted HEAD is absorbed by design, only PUT faults can fail the operation
				var del []string
				per := map[string]int{}
				worst := 0
				for _, r := range srv.Log() {
					if r.Fault == fakes3.MNone {
						continue
					}
					del = append(del, fmt.Sprintf("s3:%s#%d", r.Kind, r.N))
					if r.Kind == fakes3.KPut {
						per[r.Key]++
						if per[r.Key] > worst {
							worst = per[r.Key]
						}
					}
				}
				f, ok := retryVerdict(retry, worst)
				return del, f, ok
			},
			close: func() { undo(); srv.Close() }}
	case "http-plain":
		ps := &plainObjects{objs: map[string][]byte{}, unc: c.Unc}
		fs := &faultServer{counts: map[string]int{}, failAt: map[string]map[int]bool{}, perKey: map[string]int{}}
		fs.refuse = c.Refuse
		fs.start(ps)
		fs.srv.Config.SetKeepAlivesEnabled(false)
		u, _ := url.Parse(fs.url())
		st, err := desync.NewRemoteHTTPStore(u, opt)
		if err != nil {
			panic(err)
		}
		return &target{kind: "http-plain", tag: "http-plain:", desc: fmt.Sprintf("RemoteHTTP(unc=%v, error-retry=%d) -> object store keeping PUT bodies verbatim", c.Unc, retry), store: st, view: ps, put: ps.put,
			failAt: func(kind string, k int) bool {
				if kind != "has" && kind != "store" {
					return false
				}
				fs.fail(kind, k)
				return true
			},
			verdict: func() ([]string, bool, bool) {
				fs.mu.Lock()
				var del []string
				for _, d := range fs.delivered {
					del = append(del, "http-plain:"+d)
				}
				refused := fs.refused
				fs.mu.Unlock()
				if refused > 0 { // a 4xx refusal of a PUT is final whatever the retry budget
					return append(del, fmt.Sprintf("http-plain:refused-%d", fs.refuse)), true, false
				}
				f, ok := retryVerdict(retry, fs.maxPerKey())
				return del, f, ok
			},
			close: func() { st.Close(); fs.srv.Close() }}
	case "http":
		fs := newFaultServer(filepath.Join(dir, "httpstore"), true)
		fs.refuse = c.Refuse
		fs.srv.Config.SetKeepAlivesEnabled(false) // connection goroutines end with their request
		u, _ := url.Parse(fs.url())
		opt.Uncompressed = false
		st, err := desync.NewRemoteHTTPStore(u, opt)
		if err != nil {
			panic(err)
		}
		v := dirView{dir: fs.dir}
		return &target{kind: "http", tag: "http:", desc: fmt.Sprintf("RemoteHTTP(error-retry=%d) -> HTTPHandler -> LocalStore", retry), store: st, view: v, put: v.put,
			failAt: func(kind string, k int) bool {
				if kind != "has" && kind != "store" {
					return false
				}
				fs.fail(kind, k)
				return true
			},
			verdict: func() ([]string, bool, bool) {
				fs.mu.Lock()
				var del []string
				for _, d := range fs.delivered {
					del = append(del, "http:"+d)
				}
				refused := fs.refused
				fs.mu.Unlock()
				if refused > 0 {
					return append(del, fmt.Sprintf("http:refused-%d", fs.refuse)), true, false
				}
				f, ok := retryVerdict(retry, fs.maxPerKey())
				return del, f, ok
			},
			close: func() { st.Close(); fs.srv.Close() }}
	}
	return &target{kind: "mem", desc: "MemStore", store: mem, view: memView{mem}, put: mem.Put,
		failAt: func(kind string, k int) bool {
			if kind != "has" && kind != "store" {
				return false
			}
			mem.FailAt(kind, k)
			return true
		},
		verdict: func() ([]string, bool, bool) {
			d := deliveredOf("dst", mem)
			return d, len(d) > 0, len(d) == 0
		},
		close: func() {}}
}

// ------------------------------------------------------------------ short write (child process)

type childJob struct {
	Case  Case   `json:"case"`
	Store string `json:"store"` // LocalStore directory
	Blob  string `json:"blob"`  // the input file (written by the parent, before the limit applies)
}

type childResult struct {
	Done bool   `json:"done"`
	Err  string `json:"err,omitempty"`
}

// childMain is the body of the re-exec'd test binary ($VERIF_C06_CHILD = path of the job file).
func childMain(jobPath string) {
	unix.Prctl(unix.PR_SET_PDEATHSIG, uintptr(syscall.SIGKILL), 0, 0, 0)
	signal.Ignore(syscall.SIGXFSZ)
	b, err := os.ReadFile(jobPath)
	var job childJob
	if err == nil {
		err = json.Unmarshal(b, &job)
	}
	if err != nil {
		fmt.Println("C06-CHILD-INFRA:", err)
		os.Exit(3)
	}
	c := job.Case
	blob := gen.Expand(c.Pieces)
	sz := c.Sizes
	idx := dx.BuildIndex(blob, ref.Chunk(blob, sz.Min, sz.Avg, sz.Max, false), sz, false)
	ls, err := desync.NewLocalStore(job.Store, desync.StoreOptions{Uncompressed: c.Unc})
	if err != nil {
		fmt.Println("C06-CHILD-INFRA:", err)
		os.Exit(3)
	}
	src := dx.NewMemStore("src")
	dx.FillStore(src, blob, idx)
	var lim syscall.Rlimit
	syscall.Getrlimit(unix.RLIMIT_FSIZE, &lim)
	lim.Cur = uint64(c.Fsize)
	if err := syscall.Setrlimit(unix.RLIMIT_FSIZE, &lim); err != nil {
		fmt.Println("C06-CHILD-INFRA: setrlimit:", err)
		os.Exit(3)
	}
	ctx := context.Background()
	n := clamp(c.N, 1, 64)
	var opErr error
	switch c.Op {
	case "chop":
		opErr = desync.ChopFile(ctx, job.Blob, idx.Chunks, ls, n, desync.NullProgressBar{})
	case "make":
		var got desync.Index
		got, _, opErr = desync.IndexFromFile(ctx, job.Blob, n, sz.Min, sz.Avg, sz.Max, desync.NullProgressBar{})
		if opErr == nil {
			opErr = desync.ChopFile(ctx, job.Blob, got.Chunks, ls, n, desync.NullProgressBar{})
		}
	case "copy":
		ids := make([]desync.ChunkID, 0, len(idx.Chunks))
		for _, ch := range idx.Chunks {
			ids = append(ids, ch.ID)
		}
		opErr = desync.Copy(ctx, ids, src, ls, n, desync.NullProgressBar{})
	default: // stream
		ck, err := desync.NewChunker(bytes.NewReader(blob), sz.Min, sz.Avg, sz.Max)
		if err != nil {
			fmt.Println("C06-CHILD-INFRA:", err)
			os.Exit(3)
		}
		_, opErr = desync.ChunkStream(ctx, ck, ls, n)
	}
	res := childResult{Done: true}
	if opErr != nil {
		res.Err = opErr.Error()
		if res.Err == "" {
			res.Err = "(error with empty text)"
		}
	}
	out, _ := json.Marshal(res)
	fmt.Println("C06-CHILD-RESULT:" + string(out))
	os.Exit(0)
}

// runShortWrite: the operation writes into a LocalStore while no file may grow beyond Fsize
// bytes. Success with a partial file under a chunk name is the violation.
func runShortWrite(c Case) (o hx.Outcome) {
	op := c.Op
	if op != "chop" && op != "make" && op != "copy" && op != "stream" {
		op = "chop"
		c.Op = op
	}
	blob := gen.Expand(c.Pieces)
	sz := c.Sizes
	if sz.Min < 48 || sz.Avg < sz.Min || sz.Max <= sz.Avg {
		sz = gen.Sizes{Min: 48, Avg: 64, Max: 256}
		c.Sizes = sz
	}
	if c.Fsize < 0 {
		c.Fsize = 0
	}
	c.Target, c.Faults, c.Flip, c.SrcMissing, c.Block = "local", nil, false, nil, false
	idx := dx.BuildIndex(blob, ref.Chunk(blob, sz.Min, sz.Avg, sz.Max, false), sz, false)
	p := "C06:" + op + ":local:"

	dir := hx.Scratch("c06sw")
	defer os.RemoveAll(dir)
	sdir := filepath.Join(dir, "store")
	os.MkdirAll(sdir, 0o755)
	v := dirView{dir: sdir, unc: c.Unc}
	prefilled := map[desync.ChunkID]bool{}
	if c.PrefillEvery > 0 {
		for i, ch := range idx.Chunks {
			if i%c.PrefillEvery == ((c.PrefillRem%c.PrefillEvery)+c.PrefillEvery)%c.PrefillEvery {
				v.put(ch.ID, blob[ch.Start:ch.Start+ch.Size])
				prefilled[ch.ID] = true
			}
		}
	}
	// which chunk files cannot be written completely (known exactly for uncompressed stores)
	tooBig, needed := 0, 0
	var largest uint64
	for _, ch := range idx.Chunks {
		if prefilled[ch.ID] {
			continue
		}
		needed++
		if ch.Size > uint64(c.Fsize) {
			tooBig++
		}
		if ch.Size > largest {
			largest = ch.Size
		}
	}
	certainFail := c.Unc && tooBig > 0
	certainOK := (c.Unc && tooBig == 0) || uint64(c.Fsize) >= largest+1024 // zstd never adds that much

	job := childJob{Case: c, Store: sdir, Blob: dx.WriteFile(dir, "blob", blob)}
	jb, _ := json.Marshal(job)
	jobPath := dx.WriteFile(dir, "job.json", jb)
	ctx, cancel := context.WithTimeout(context.Background(), 120*time.Second)
	defer cancel()
	cmd := exec.CommandContext(ctx, os.Args[0], "-test.run=^$")
	cmd.Env = append(os.Environ(), "VERIF_C06_CHILD="+jobPath)
	cmd.Dir = dir
	out, runErr := cmd.CombinedOutput()

	o.Class("op:"+op, "target:local", "local:short-write")
	if c.Unc {
		o.Class("target:uncompressed")
	}
	o.Desc = map[string]any{"op": op, "target": "local", "short_write": true, "fsize": c.Fsize, "unc": c.Unc, "len": len(blob), "chunks": len(idx.Chunks),
		"needed": needed, "too_big": tooBig, "n": c.N, "prefill_every": c.PrefillEvery}
	o.Key = fmt.Sprintf("sw/%s/%d/%s/%v/%d/%v/%d/%d", op, len(blob), hx.Hash8(blob), sz, c.N, c.Unc, c.Fsize, c.PrefillEvery)
	var res childResult
	if i := bytes.Index(out, []byte("C06-CHILD-RESULT:")); i >= 0 {
		line := out[i+len("C06-CHILD-RESULT:"):]
		if j := bytes.IndexByte(line, '\n'); j >= 0 {
			line = line[:j]
		}
		json.Unmarshal(line, &res)
	}
	tail := string(out)
	if len(tail) > 800 {
		tail = tail[len(tail)-800:]
	}
	if !res.Done {
		if ctx.Err() != nil || bytes.Contains(out, []byte("C06-CHILD-INFRA:")) {
			o.Class("local:short-write-child-inconclusive")
		} else {
			o.Fail(p+"child-died", "the child running %s under RLIMIT_FSIZE=%d died without a result (%v): %s", op, c.Fsize, runErr, tail)
		}
	} else {
		if certainFail {
			o.Class("local:short-write-delivered")
		}
		if res.Err == "" {
			o.Class("success")
			if ls, e := desync.NewLocalStore(sdir, desync.StoreOptions{Uncompressed: c.Unc}); e == nil {
				if readBackThrough(&o, p, fmt.Sprintf("LocalStore(unc=%v) under RLIMIT_FSIZE=%d", c.Unc, c.Fsize), ls, idx.Chunks, blob) > 0 {
					o.Class("readback:desync-getchunk", "readback:local")
				}
			}
			if certainFail {
				o.Fail(p+"success-after-delivered-failure", "%s returned nil although %d needed chunk files are larger than RLIMIT_FSIZE=%d (uncompressed store: their writes were cut short)", op, tooBig, c.Fsize)
			}
			missing, invalid := 0, 0
			seen := map[desync.ChunkID]bool{}
			for i, ch := range idx.Chunks {
				if seen[ch.ID] {
					continue
				}
				seen[ch.ID] = true
				plain, ok, derr := v.get(ch.ID)
				switch {
				case !ok:
					if missing == 0 {
						o.Fail(p+"missing-chunk-after-success", "%s under RLIMIT_FSIZE=%d returned nil but chunk %d (%s, %d bytes) has no file in the store directory", op, c.Fsize, i, shortID(ch.ID), ch.Size)
					}
					missing++
				case derr != nil || ref.ID(plain, false) != [32]byte(ch.ID):
					if invalid == 0 {
						o.Fail(p+"invalid-chunk-after-success", "%s under RLIMIT_FSIZE=%d returned nil but the file of chunk %d (%s, %d bytes) holds %d decodable bytes that do not hash to it (decode error: %v)", op, c.Fsize, i, shortID(ch.ID), ch.Size, len(plain), derr)
					}
					invalid++
				}
			}
		} else {
			o.Class("error-returned")
			if certainOK {
				o.Fail(p+"error-without-fault", "%s failed although every chunk file fits into RLIMIT_FSIZE=%d: %s", op, c.Fsize, res.Err)
			}
		}
	}
	// whatever was returned: no partial or foreign data under a chunk name
	var bad []string
	for _, e := range v.all() {
		if e.err != nil || ref.ID(e.plain, false) != [32]byte(e.id) {
			bad = append(bad, shortID(e.id))
		}
	}
	if len(bad) > 0 {
		sort.Strings(bad)
		o.Fail(p+"store-holds-invalid-data", "after %s under RLIMIT_FSIZE=%d (err=%q) the store directory holds %d chunk files that do not hash to their name: %v", op, c.Fsize, res.Err, len(bad), bad)
	}
	o.Nontrivial = certainFail || (!certainOK && res.Err != "")
	return o
}
