package c06

// Thorough tier: the commands themselves (`desync make -s`, `chop`, `cache`, `tar -i`) against
// HTTP chunk servers run by the harness: desync.NewHTTPHandler over a LocalStore, wrapped so
// that the k-th HEAD / PUT / GET request answers 500 without reaching the store.

import (
	"bytes"
	"context"
	"fmt"
	"io"
	"net"
	"net/http"
	"net/http/httptest"
	"net/url"
	"os"
	"os/exec"
	"path/filepath"
	"sort"
	"strconv"
	"strings"
	"sync"
	"sync/atomic"
	"time"

	"github.com/folbricht/desync"
	"github.com/klauspost/compress/zstd"
	"pgregory.net/rapid"

	"verifharness/internal/dx"
	"verifharness/internal/gen"
	"verifharness/internal/hx"
	"verifharness/internal/ref"
)

var cliLargeSizes = gen.Sizes{Min: 264 * 1024, Avg: 300 * 1024, Max: 512 * 1024}

var cliSizes = gen.Sizes{Min: 1024, Avg: 2048, Max: 4096} // -m 1:2:4 (the CLI takes KiB)

func genCLI(t *rapid.T) Case {
	var c Case
	c.Op = rapid.SampledFrom([]string{"cli-make", "cli-chop", "cli-cache", "cli-tar"}).Draw(t, "cliop")
	c.Sizes = cliSizes
	c.N = rapid.SampledFrom([]int{1, 2, 4, 10, 16}).Draw(t, "n")
	c.Pieces = dupBlob(t, c.Sizes, int(c.Sizes.Max)*rapid.IntRange(1, 40).Draw(t, "mult"))
	if rapid.SampledFrom(largeMix[:25]).Draw(t, "large") { // -m 264:300:512: every chunk but the last is above 256 KiB
		c.Sizes = cliLargeSizes
		c.Pieces = dupBlob(t, c.Sizes, int(c.Sizes.Max)*rapid.IntRange(1, 3).Draw(t, "lmult")+rapid.IntRange(0, 70_000).Draw(t, "lrest"))
	}
	c.Retry = rapid.SampledFrom([]int{1, 1, 1, 0, 3}).Draw(t, "retry")
	c.Faults = genFaults(t, c.Op)
	if rapid.IntRange(0, 9).Draw(t, "prefill") < 3 {
		c.PrefillEvery = rapid.SampledFrom([]int{1, 2, 3}).Draw(t, "pevery")
		c.PrefillRem = rapid.IntRange(0, 2).Draw(t, "prem")
	}
	if c.Op == "cli-chop" && rapid.IntRange(0, 4).Draw(t, "flip") == 0 {
		c.Flip = true
		c.FlipDup = rapid.Bool().Draw(t, "flipdup")
		c.FlipSel = rapid.IntRange(0, 1<<16).Draw(t, "flipsel")
		c.FlipOff = rapid.IntRange(0, 1<<16).Draw(t, "flipoff")
		c.FlipBit = rapid.IntRange(0, 7).Draw(t, "flipbit")
	}
	if c.Op == "cli-cache" && rapid.IntRange(0, 4).Draw(t, "cacheself") == 0 {
		// the store given as source and as target: what it lacks cannot come from anywhere
		c.CacheSelf = true
		c.PrefillEvery = rapid.SampledFrom([]int{1, 1, 2, 3}).Draw(t, "cspevery")
		c.PrefillRem = rapid.IntRange(0, 2).Draw(t, "csprem")
		c.Faults = nil
	}
	if c.Op == "cli-cache" && rapid.IntRange(0, 9).Draw(t, "srcmiss") == 0 {
		c.SrcMissing = []int{rapid.IntRange(0, 1<<16).Draw(t, "miss")}
	}
	return c
}

// faultServer is one chunk server: LocalStore directory + handler + scripted 500s.
type faultServer struct {
	dir   string
	store desync.LocalStore
	srv   *httptest.Server

	mu        sync.Mutex
	counts    map[string]int
	failAt    map[string]map[int]bool
	delivered []string
	perKey    map[string]int // "METHOD path" -> number of 500s answered
	refuse    int            // status for faulted PUTs instead of 500 (4xx: final)
	refused   int            // PUTs answered with it
}

var serverCounter uint32

// zstdDec decodes chunk files independently of desync's own decompression path.
var zstdDec, _ = zstd.NewReader(nil)

func newFaultServer(dir string, writable bool) *faultServer {
	if err := os.MkdirAll(dir, 0o755); err != nil {
		panic(err)
	}
	ls, err := desync.NewLocalStore(dir, desync.StoreOptions{})
	if err != nil {
		panic(err)
	}
	fs := &faultServer{dir: dir, store: ls, counts: map[string]int{}, failAt: map[string]map[int]bool{}, perKey: map[string]int{}}
	fs.start(desync.NewHTTPHandler(ls, writable, false, desync.Converters{desync.Compressor{}}, ""))
	return fs
}

// start serves next behind the fault script.
func (fs *faultServer) start(next http.Handler) {
	h := http.HandlerFunc(func(w http.ResponseWriter, r *http.Request) {
		kind := map[string]string{"HEAD": "has", "PUT": "store", "GET": "get"}[r.Method]
		fs.mu.Lock()
		fs.counts[kind]++
		k := fs.counts[kind]
		fail := fs.failAt[kind][k]
		if fail {
			fs.delivered = append(fs.delivered, fmt.Sprintf("%s#%d", kind, k))
			fs.perKey[r.Method+" "+r.URL.Path]++
		}
		fs.mu.Unlock()
		if fail {
			io.Copy(io.Discard, r.Body)
			status := http.StatusInternalServerError
			if fs.refuse >= 400 && fs.refuse < 500 && r.Method == "PUT" {
				status = fs.refuse
				fs.mu.Lock()
				fs.refused++
				fs.mu.Unlock()
			}
			http.Error(w, "injected failure", status)
			return
		}
		next.ServeHTTP(w, r)
	})
	k := atomic.AddUint32(&serverCounter, 1)
	l, err := net.Listen("tcp", fmt.Sprintf("127.%d.%d.%d:0", 16+hx.Shard()%100, (k/250)%256, 1+k%250))
	if err != nil {
		if l, err = net.Listen("tcp", "127.0.0.1:0"); err != nil {
			panic(err)
		}
	}
	fs.srv = &httptest.Server{Listener: l, Config: &http.Server{Handler: h}}
	fs.srv.Start()
}

func (fs *faultServer) fail(kind string, k int) {
	if fs.failAt[kind] == nil {
		fs.failAt[kind] = map[int]bool{}
	}
	fs.failAt[kind][k] = true
}

func (fs *faultServer) url() string { return fs.srv.URL + "/" }

// maxPerKey is the largest number of 500s any single (method, path) received.
func (fs *faultServer) maxPerKey() int {
	fs.mu.Lock()
	defer fs.mu.Unlock()
	m := 0
	for _, v := range fs.perKey {
		if v > m {
			m = v
		}
	}
	return m
}

// chunkData reads a chunk from the backing directory and returns its plain bytes.
func (fs *faultServer) chunkData(id desync.ChunkID) ([]byte, error) {
	sid := id.String()
	b, err := os.ReadFile(filepath.Join(fs.dir, sid[:4], sid+".cacnk"))
	if err != nil {
		return nil, err
	}
	return zstdDec.DecodeAll(b, nil)
}

// invalidEntries lists chunk files of the backing store whose content does not hash to their name.
func (fs *faultServer) invalidEntries() []string {
	var bad []string
	filepath.Walk(fs.dir, func(p string, info os.FileInfo, err error) error {
		if err != nil || info.IsDir() || !strings.HasSuffix(p, ".cacnk") {
			return nil
		}
		id, err := desync.ChunkIDFromString(strings.TrimSuffix(filepath.Base(p), ".cacnk"))
		if err != nil {
			return nil
		}
		data, err := fs.chunkData(id)
		if err != nil || ref.ID(data, false) != [32]byte(id) {
			bad = append(bad, filepath.Base(p))
		}
		return nil
	})
	sort.Strings(bad)
	return bad
}

func (fs *faultServer) put(b []byte) {
	if err := fs.store.StoreChunk(desync.NewChunk(b)); err != nil {
		panic(err)
	}
}

func runCLI(c Case) (o hx.Outcome) {
	bin := os.Getenv("VERIF_DESYNC_BIN")
	op := c.Op
	o.Desc = map[string]any{"op": op}
	if bin == "" {
		o.Class("cli-skipped-no-binary")
		return o
	}
	sz := cliSizes
	if c.Sizes.Max > cliSizes.Max && c.Sizes.Min%1024 == 0 && c.Sizes.Avg%1024 == 0 && c.Sizes.Max%1024 == 0 && c.Sizes.Min >= 1024 && c.Sizes.Avg >= c.Sizes.Min && c.Sizes.Max > c.Sizes.Avg {
		sz = c.Sizes
	}
	mArg := fmt.Sprintf("%d:%d:%d", sz.Min/1024, sz.Avg/1024, sz.Max/1024)
	blob := gen.Expand(c.Pieces)
	n := clamp(c.N, 1, 64)
	retry := clamp(c.Retry, 0, 5)
	attempts := retry // RemoteHTTPBase gives up when attempt >= ErrorRetry
	if attempts < 1 {
		attempts = 1
	}

	dir := hx.Scratch("c06cli")
	defer os.RemoveAll(dir)
	home := filepath.Join(dir, "home")
	os.MkdirAll(home, 0o755)

	dst := newFaultServer(filepath.Join(dir, "dst"), true)
	defer dst.srv.Close()
	var src *faultServer
	if op == "cli-cache" {
		src = newFaultServer(filepath.Join(dir, "src"), false)
		defer src.srv.Close()
	}
	for _, f := range c.Faults {
		if f.K < 1 {
			continue
		}
		switch {
		case f.Store == "src" && f.Kind == "get" && src != nil:
			src.fail("get", f.K)
		case f.Store != "src" && (f.Kind == "has" || f.Kind == "store"):
			dst.fail(f.Kind, f.K)
		}
	}

	spans := ref.Chunk(blob, sz.Min, sz.Avg, sz.Max, false)
	idx := dx.BuildIndex(blob, spans, sz, false)
	nch := len(spans)
	occ := map[desync.ChunkID]int{}
	for _, ch := range idx.Chunks {
		occ[ch.ID]++
	}

	// reference-built index file for chop / cache
	refIndexFile := func() string {
		f := ref.IndexFile{Flags: ref.FlagExcludeNoDump | ref.FlagSHA512256, Min: sz.Min, Avg: sz.Avg, Max: sz.Max}
		for _, ch := range idx.Chunks {
			f.Items = append(f.Items, ref.IndexItem{End: ch.Start + ch.Size, ID: ch.ID})
		}
		return dx.WriteFile(dir, "in.caibx", ref.EncodeIndex(f))
	}
	prefilled := map[desync.ChunkID]bool{}
	prefill := func() {
		if c.PrefillEvery <= 0 {
			return
		}
		for i, ch := range idx.Chunks {
			if i%c.PrefillEvery == ((c.PrefillRem%c.PrefillEvery)+c.PrefillEvery)%c.PrefillEvery {
				dst.put(blob[ch.Start : ch.Start+ch.Size])
				prefilled[ch.ID] = true
			}
		}
	}

	common := []string{"-n", strconv.Itoa(n), "-e", strconv.Itoa(retry), "-b", "1ms"}
	var args []string
	var outIndex string
	mustFail, mayFail := "", ""
	flipChunk := -1
	var catar []byte // cli-tar: the archive the index must describe
	switch op {
	case "cli-make":
		prefill()
		dx.WriteFile(dir, "blob", blob)
		outIndex = filepath.Join(dir, "out.caibx")
		args = append([]string{"make", "-m", mArg, "-s", dst.url()}, common...)
		args = append(args, outIndex, filepath.Join(dir, "blob"))
	case "cli-chop":
		prefill()
		file := blob
		if c.Flip && nch > 0 {
			var cand []int
			if c.FlipDup {
				for i, ch := range idx.Chunks {
					if occ[ch.ID] > 1 {
						cand = append(cand, i)
					}
				}
			}
			if len(cand) > 0 {
				flipChunk = cand[c.FlipSel%len(cand)]
			} else {
				flipChunk = c.FlipSel % nch
			}
			s := spans[flipChunk]
			file = append([]byte(nil), blob...)
			file[int(s.Start)+c.FlipOff%int(s.Len)] ^= 1 << uint(c.FlipBit&7)
			mustFail = "mismatched-file"
		}
		dx.WriteFile(dir, "blob", file)
		args = append([]string{"chop", "-s", dst.url()}, common...)
		args = append(args, refIndexFile(), filepath.Join(dir, "blob"))
	case "cli-cache":
		prefill()
		missing := map[desync.ChunkID]bool{}
		if nch > 0 {
			for _, m := range c.SrcMissing {
				missing[idx.Chunks[((m%nch)+nch)%nch].ID] = true
			}
		}
		for _, ch := range idx.Chunks {
			if !missing[ch.ID] {
				src.put(blob[ch.Start : ch.Start+ch.Size])
			}
		}
		for id := range missing {
			if !prefilled[id] {
				mayFail = "the source lacks a chunk the target needs"
			}
		}
		if c.CacheSelf {
			mayFail = ""
			for _, ch := range idx.Chunks {
				if !prefilled[ch.ID] {
					mayFail = "the store lacks a chunk of the index and is its own only source"
				}
			}
			o.Class("cli-cache:source-is-target")
			if mayFail != "" {
				o.Class("cli-cache:source-is-target:chunk-missing")
			}
			args = append([]string{"cache", "-s", dst.url(), "-c", dst.url()}, common...)
		} else {
			args = append([]string{"cache", "-s", src.url(), "-c", dst.url()}, common...)
		}
		args = append(args, refIndexFile())
	case "cli-tar":
		tree := filepath.Join(dir, "tree")
		os.MkdirAll(filepath.Join(tree, "sub"), 0o755)
		third := len(blob) / 3
		dx.WriteFile(tree, "a.bin", blob[:third])
		dx.WriteFile(tree, "b.bin", blob[third:2*third])
		dx.WriteFile(filepath.Join(tree, "sub"), "c.bin", blob[2*third:])
		outIndex = filepath.Join(dir, "out.caidx")
		args = append([]string{"tar", "-i", "-m", mArg, "-s", dst.url()}, common...)
		args = append(args, outIndex, tree)
	default:
		o.Desc = map[string]any{"op": op, "unknown": true}
		return o
	}

	runBin := func(args ...string) (exit int, out string, timedOut bool) {
		ctx, cancel := context.WithTimeout(context.Background(), 180*time.Second)
		defer cancel()
		cmd := exec.CommandContext(ctx, bin, args...)
		cmd.Env = []string{"HOME=" + home, "PATH=" + os.Getenv("PATH"), "TMPDIR=" + dir}
		cmd.Dir = dir
		var buf bytes.Buffer
		cmd.Stdout, cmd.Stderr = &buf, &buf
		err := cmd.Run()
		if ctx.Err() != nil {
			return -1, buf.String(), true
		}
		if err == nil {
			return 0, buf.String(), false
		}
		if ee, ok := err.(*exec.ExitError); ok {
			code := ee.ExitCode()
			if code == 0 {
				code = -1
			}
			return code, buf.String(), false
		}
		panic(fmt.Sprintf("cannot run %s: %v", bin, err))
	}

	exit, out, timedOut := runBin(args...)
	o.Class("op:" + op)
	if timedOut {
		o.Class("cli:timeout-inconclusive")
		return o
	}
	if len(out) > 600 {
		out = out[:600] + "…"
	}
	p := "C06:" + op + ":"
	if strings.Contains(out, "panic:") || strings.Contains(out, "fatal error:") {
		o.Fail(p+"crash", "desync %v crashed (exit %d): %s", args, exit, out)
	}

	var delivered []string
	for _, d := range dst.delivered {
		delivered = append(delivered, "dst:"+d)
	}
	worst := dst.maxPerKey()
	if src != nil {
		for _, d := range src.delivered {
			delivered = append(delivered, "src:"+d)
		}
		if m := src.maxPerKey(); m > worst {
			worst = m
		}
	}
	// retry model, unambiguous zone only: a request that got 500 on more attempts than the
	// client may make has certainly failed; fewer than `attempts` on every request means every
	// request got through eventually.
	certainlyFailed := worst >= attempts+1 || (retry <= 1 && worst >= 1)
	certainlyRecovered := worst < attempts

	if exit == 0 {
		if certainlyFailed {
			o.Fail(p+"success-after-delivered-500", "desync %s exited 0 although a request was answered 500 on every attempt (error-retry %d, delivered %v)", op[4:], retry, delivered)
		}
		if mustFail != "" {
			o.Fail(p+"success-on-"+mustFail, "desync %s exited 0 although the file does not match the index (chunk %d damaged)", op[4:], flipChunk)
		}
		must := idx.Chunks
		var produced *ref.IndexFile
		if outIndex != "" {
			b, err := os.ReadFile(outIndex)
			if err != nil {
				o.Fail(p+"no-index-after-success", "desync %s exited 0 but wrote no index: %v", op[4:], err)
			} else if f, err := ref.ParseIndex(b); err != nil {
				o.Fail(p+"index-unparsable", "index written by desync %s does not parse: %v", op[4:], err)
			} else {
				produced = &f
				must = nil
				var last uint64
				for _, it := range f.Items {
					must = append(must, desync.IndexChunk{ID: it.ID, Start: last, Size: it.End - last})
					last = it.End
				}
			}
		}
		if op == "cli-tar" && produced != nil {
			// the archive the index must describe: the same tree packed once more, to a file
			cat := filepath.Join(dir, "ref.catar")
			if e2, out2, to := runBin("tar", cat, filepath.Join(dir, "tree")); to {
				o.Class("cli:timeout-inconclusive")
			} else if e2 != 0 {
				o.Fail(p+"plain-tar-failed", "desync tar (no index) failed on the same tree: %s", out2)
			} else {
				catar, _ = os.ReadFile(cat)
			}
		}
		missing, invalid := 0, 0
		seen := map[desync.ChunkID]bool{}
		for i, ch := range must {
			if seen[ch.ID] {
				continue
			}
			seen[ch.ID] = true
			if ch.Size == c.Sizes.Max && ch.ID == desync.NewNullChunk(c.Sizes.Max).ID {
				o.Class("cli:null-chunk") // readers synthesise this one; the store has to hold it all the same
			}
			data, err := dst.chunkData(ch.ID)
			switch {
			case err != nil:
				if missing == 0 {
					o.Fail(p+"missing-chunk-after-success", "desync %s exited 0 but chunk %d (%s) of the index cannot be read from the backing store: %v (delivered %v)", op[4:], i, shortID(ch.ID), err, delivered)
				}
				missing++
			case ref.ID(data, false) != [32]byte(ch.ID) || uint64(len(data)) != ch.Size:
				if invalid == 0 {
					o.Fail(p+"invalid-chunk-after-success", "desync %s exited 0 but the backing store holds %d bytes under %s (chunk %d, size %d in the index) that do not match", op[4:], len(data), shortID(ch.ID), i, ch.Size)
				}
				invalid++
			}
		}
		// read back through desync's own path: RemoteHTTP -> HTTPHandler -> LocalStore
		rbInput := blob
		if op == "cli-tar" {
			rbInput = catar
		}
		if u, e := url.Parse(dst.url()); e == nil {
			if rs, e := desync.NewRemoteHTTPStore(u, desync.StoreOptions{}); e == nil {
				if readBackThrough(&o, p, "the HTTP chunk server", rs, must, rbInput) > 0 {
					o.Class("readback:desync-getchunk", "cli:readback")
					for _, ch := range must {
						if ch.Size > kib256 {
							o.Class("chunk>256KiB:compressed-target", "cli:chunk>256KiB")
							break
						}
					}
				}
				rs.Close()
			}
		}
		if produced != nil {
			input := blob
			if op == "cli-tar" {
				input = catar
			}
			if input != nil || op == "cli-make" {
				var last uint64
				for i, it := range produced.Items {
					if it.End <= last || it.End > uint64(len(input)) {
						o.Fail(p+"index-range-beyond-input", "index item %d ends at %d (previous %d, input %d bytes)", i, it.End, last, len(input))
						break
					}
					if ref.ID(input[last:it.End], false) != it.ID {
						o.Fail(p+"index-range-id", "index item %d [%d,%d) does not hash to its ID", i, last, it.End)
						break
					}
					last = it.End
				}
				if last != uint64(len(input)) && len(o.Violations) == 0 {
					o.Fail(p+"index-length", "index describes %d bytes, input has %d", last, len(input))
				}
			}
			if op == "cli-make" {
				same := len(produced.Items) == nch
				for i := 0; same && i < nch; i++ {
					same = produced.Items[i].End == idx.Chunks[i].Start+idx.Chunks[i].Size && produced.Items[i].ID == [32]byte(idx.Chunks[i].ID)
				}
				if !same {
					o.Fail(p+"index-differs-from-reference", "index written by desync make (%d chunks) differs from the reference chunker's (%d chunks)", len(produced.Items), nch)
				}
			}
		}
		o.Class("cli:exit-0")
	} else {
		o.Class("cli:exit-nonzero")
		if certainlyRecovered && mustFail == "" && mayFail == "" {
			o.Fail(p+"error-without-fault", "desync %v exited %d although every request got through within the permitted attempts (error-retry %d, delivered %v): %s", args, exit, retry, delivered, out)
		}
	}
	if bad := dst.invalidEntries(); len(bad) > 0 {
		o.Fail(p+"store-holds-invalid-data", "after desync %s (exit %d) the backing store holds chunk files that do not hash to their name: %v", op[4:], exit, bad)
	}

	if len(delivered) > 0 {
		o.Class("cli:delivered-500")
	}
	if len(c.Faults) > 0 && len(delivered) == 0 {
		o.Class("cli:scheduled-not-delivered")
	}
	if retry > 1 && len(delivered) > 0 && exit == 0 {
		o.Class("cli:recovered-by-retry")
	}
	if mustFail != "" {
		o.Class("cli:flip")
	}
	if len(occ) < nch {
		o.Class("cli:dup-ids")
	}
	o.Nontrivial = len(delivered) > 0 || mustFail != "" || (n >= 2 && len(occ) < nch)
	var fdesc []string
	for _, f := range c.Faults {
		fdesc = append(fdesc, fmt.Sprintf("%s:%s#%d", f.Store, f.Kind, f.K))
	}
	sort.Strings(fdesc)
	o.Desc = map[string]any{"op": op, "len": len(blob), "shape": gen.Shape(c.Pieces), "chunks": nch, "distinct": len(occ), "n": n, "retry": retry,
		"faults": fdesc, "delivered": len(delivered), "exit": exit, "prefill_every": c.PrefillEvery, "flip_chunk": flipChunk}
	o.Key = fmt.Sprintf("%s/%d/%s/%d/%d/%v/%d/%d/%d", op, len(blob), hx.Hash8(blob), n, retry, fdesc, len(delivered), c.PrefillEvery, flipChunk)
	return o
}
