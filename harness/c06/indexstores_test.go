package c06

// The `index` operation against REAL index stores: the last store operation of make / tar -i is
// writing the index, through desync.RemoteHTTPIndex (against desync's own NewHTTPIndexHandler
// over a LocalIndexStore, and against a plain scripted handler that keeps the uploaded bytes as
// they came), desync.S3IndexStore (internal/fakes3), desync.SFTPIndexStore (internal/fakessh)
// and desync.LocalIndexStore. The oracle reads the backing bytes (file, object, what the plain
// handler received) and decodes them with ref.ParseIndex.

import (
	"bytes"
	"context"
	"fmt"
	"io"
	"net"
	"net/http"
	"net/http/httptest"
	"net/url"
	"os"
	"os/exec"
	"path/filepath"
	"sort"
	"strconv"
	"strings"
	"sync"
	"sync/atomic"
	"time"

	"github.com/folbricht/desync"
	"pgregory.net/rapid"

	"verifharness/internal/dx"
	"verifharness/internal/fakes3"
	"verifharness/internal/fakessh"
	"verifharness/internal/gen"
	"verifharness/internal/hx"
	"verifharness/internal/ref"
)

const indexName = "out.caibx"

// idxServer is an HTTP index server with a fault script on PUT requests: the k-th PUT is
// answered 500/503 (after the body was read, or at once) or the connection is reset.
type idxServer struct {
	srv  *httptest.Server
	next http.Handler // nil: keep the uploaded bytes as they came; else desync's handler
	mode string       // 500 | 503 | 500-early | reset

	mu       sync.Mutex
	puts     int
	faulted  []int
	accepted int
	failAt   map[int]bool
	stored   map[string][]byte
}

func newIdxServer(next http.Handler, mode string, faults []int) *idxServer {
	s := &idxServer{next: next, mode: mode, failAt: map[int]bool{}, stored: map[string][]byte{}}
	for _, k := range faults {
		s.failAt[k] = true
	}
	k := atomic.AddUint32(&serverCounter, 1)
	l, err := net.Listen("tcp", fmt.Sprintf("127.%d.%d.%d:0", 16+hx.Shard()%100, (k/250)%256, 1+k%250))
	if err != nil {
		if l, err = net.Listen("tcp", "127.0.0.1:0"); err != nil {
			panic(err)
		}
	}
	s.srv = &httptest.Server{Listener: l, Config: &http.Server{Handler: http.HandlerFunc(s.serve)}}
	s.srv.Config.SetKeepAlivesEnabled(false)
	s.srv.Start()
	return s
}

func (s *idxServer) serve(w http.ResponseWriter, r *http.Request) {
	if r.Method != "PUT" {
		if s.next != nil {
			s.next.ServeHTTP(w, r)
			return
		}
		s.mu.Lock()
		b, ok := s.stored[r.URL.Path]
		s.mu.Unlock()
		if !ok {
			w.WriteHeader(http.StatusNotFound)
			return
		}
		w.Write(b)
		return
	}
	s.mu.Lock()
	s.puts++
	k := s.puts
	fail := s.failAt[k]
	if fail {
		s.faulted = append(s.faulted, k)
	} else {
		s.accepted++
	}
	s.mu.Unlock()
	if fail {
		switch s.mode {
		case "reset":
			if hj, ok := w.(http.Hijacker); ok {
				if c, _, err := hj.Hijack(); err == nil {
					if tc, ok := c.(*net.TCPConn); ok {
						tc.SetLinger(0)
					}
					c.Close()
					return
				}
			}
			w.WriteHeader(http.StatusInternalServerError)
		case "500-early":
			w.WriteHeader(http.StatusInternalServerError)
		case "503":
			io.Copy(io.Discard, r.Body)
			w.WriteHeader(http.StatusServiceUnavailable)
		default:
			io.Copy(io.Discard, r.Body)
			w.WriteHeader(http.StatusInternalServerError)
		}
		return
	}
	if s.next != nil {
		s.next.ServeHTTP(w, r)
		return
	}
	b, err := io.ReadAll(r.Body)
	if err != nil {
		w.WriteHeader(http.StatusBadRequest)
		return
	}
	s.mu.Lock()
	s.stored[r.URL.Path] = b
	s.mu.Unlock()
	w.WriteHeader(http.StatusOK)
}

func (s *idxServer) get(path string) ([]byte, bool) {
	s.mu.Lock()
	defer s.mu.Unlock()
	b, ok := s.stored[path]
	return b, ok
}

// putVerdict: one logical request (the index upload), attempt k is the k-th PUT. The first
// attempt that is not faulted decides; the retry policy is judged in its unambiguous zone.
func putVerdict(retry int, faults []int) (firstOK int, certainFail, certainOK bool) {
	f := map[int]bool{}
	for _, k := range faults {
		f[k] = true
	}
	firstOK = 1
	for f[firstOK] {
		firstOK++
	}
	attempts := retry
	if attempts < 1 {
		attempts = 1
	}
	return firstOK, firstOK > attempts+1 || (retry <= 1 && firstOK > 1), firstOK <= attempts
}

func refIndexOf(idx desync.Index) ref.IndexFile {
	f := ref.IndexFile{Flags: idx.Index.FeatureFlags, Min: idx.Index.ChunkSizeMin, Avg: idx.Index.ChunkSizeAvg, Max: idx.Index.ChunkSizeMax}
	for _, ch := range idx.Chunks {
		f.Items = append(f.Items, ref.IndexItem{End: ch.Start + ch.Size, ID: ch.ID})
	}
	return f
}

// sameIndex compares a parsed stored index with what was to be written.
func sameIndex(got, want ref.IndexFile) string {
	if got.Flags != want.Flags || got.Min != want.Min || got.Avg != want.Avg || got.Max != want.Max {
		return fmt.Sprintf("header %x %d/%d/%d, want %x %d/%d/%d", got.Flags, got.Min, got.Avg, got.Max, want.Flags, want.Min, want.Avg, want.Max)
	}
	if len(got.Items) != len(want.Items) {
		return fmt.Sprintf("%d chunks, want %d", len(got.Items), len(want.Items))
	}
	for i := range got.Items {
		if got.Items[i] != want.Items[i] {
			return fmt.Sprintf("chunk %d differs", i)
		}
	}
	return ""
}

// judgeStoredIndex applies the oracle to the backing bytes of an index store.
//
//	stored/present: what lies under the index name afterwards; atomic: the store promises that
//	nothing partial appears under the name.
func judgeStoredIndex(o *hx.Outcome, p, what string, err error, stored []byte, present bool, want ref.IndexFile, certainFail, certainOK, atomic bool, delivered string) {
	if err == nil {
		if certainFail {
			o.Fail(p+"success-after-delivered-failure", "%s reported success although every permitted attempt was faulted (%s)", what, delivered)
		}
		switch {
		case !present:
			o.Fail(p+"missing-index-after-success", "%s reported success but nothing is stored under the index name (%s)", what, delivered)
		default:
			got, perr := ref.ParseIndex(stored)
			if perr != nil {
				o.Fail(p+"stored-index-unparsable", "%s reported success but the %d bytes stored under the index name do not decode (want %d bytes): %v (%s)", what, len(stored), ref.IndexLen(len(want.Items)), perr, delivered)
			} else if d := sameIndex(got, want); d != "" {
				o.Fail(p+"stored-index-differs", "%s reported success but the stored index is not the one that was to be written: %s (%s)", what, d, delivered)
			}
		}
		return
	}
	if certainOK {
		o.Fail(p+"error-without-fault", "%s failed although no fault was delivered or a permitted retry was accepted (%s): %v", what, delivered, err)
	}
	if atomic && present {
		got, perr := ref.ParseIndex(stored)
		if perr != nil || sameIndex(got, want) != "" {
			o.Fail(p+"partial-index-after-error", "%s failed (%v) and left %d bytes under the index name that are not the complete index (decode: %v)", what, err, len(stored), perr)
		}
	}
}

func genIndexTarget(t *rapid.T, c *Case) {
	c.IndexTarget = rapid.SampledFrom([]string{"", "", "", "", "", "", "", "", "http", "http", "http", "http", "http-plain", "http-plain", "http-plain", "http-plain", "http-plain", "local", "local", "local", "", "", "", "s3"}).Draw(t, "itarget")
	switch c.IndexTarget {
	case "http", "http-plain":
		c.Retry = rapid.SampledFrom([]int{0, 1, 3, 3, 3}).Draw(t, "iretry")
		c.IndexMode = rapid.SampledFrom([]string{"500", "503", "503", "500", "500-early", "reset"}).Draw(t, "imode")
		switch rapid.IntRange(0, 5).Draw(t, "ifaults") {
		case 0:
		case 1, 2:
			c.IndexFaults = []int{1}
		case 3:
			c.IndexFaults = []int{1, 2}
		case 4:
			c.IndexFaults = []int{1, 2, 3, 4}
		default:
			c.IndexFaults = []int{rapid.IntRange(1, 4).Draw(t, "ifk")}
		}
	case "s3":
		c.IndexMode = rapid.SampledFrom([]string{"", "", "initiate", "part", "complete"}).Draw(t, "imode")
		if c.IndexMode != "" {
			c.IndexFaults = []int{1}
		}
	case "local":
		c.IndexMode = rapid.SampledFrom([]string{"", "overwrite-longer", "dir-in-the-way"}).Draw(t, "imode")
	}
}

// runIndexStore writes the reference index of the case through a real index store.
func runIndexStore(c Case) (o hx.Outcome) {
	blob := gen.Expand(c.Pieces)
	sz := c.Sizes
	if sz.Min < 48 || sz.Avg < sz.Min || sz.Max <= sz.Avg {
		sz = gen.Sizes{Min: 48, Avg: 64, Max: 256}
	}
	idx := dx.BuildIndex(blob, ref.Chunk(blob, sz.Min, sz.Avg, sz.Max, false), sz, false)
	want := refIndexOf(idx)
	tgt := c.IndexTarget
	retry := clamp(c.Retry, 0, 5)
	opt := desync.StoreOptions{ErrorRetry: retry, ErrorRetryBaseInterval: time.Microsecond}
	p := "C06:index:" + tgt + ":"
	o.Class("op:index", "index-target:"+tgt)
	dir := hx.Scratch("c06idx")
	defer os.RemoveAll(dir)

	var (
		err                    error
		stored                 []byte
		present                bool
		certainFail, certainOK bool
		atomic                 = true
		delivered              string
		what                   string
	)
	switch tgt {
	case "http", "http-plain":
		var next http.Handler
		bdir := filepath.Join(dir, "indexes")
		if tgt == "http" {
			os.MkdirAll(bdir, 0o755)
			lis, e := desync.NewLocalIndexStore(bdir)
			if e != nil {
				panic(e)
			}
			next = desync.NewHTTPIndexHandler(lis, true, "")
		}
		mode := c.IndexMode
		if mode == "" {
			mode = "500"
		}
		srv := newIdxServer(next, mode, c.IndexFaults)
		defer srv.srv.Close()
		u, _ := url.Parse(srv.srv.URL + "/")
		st, e := desync.NewRemoteHTTPIndexStore(u, opt)
		if e != nil {
			panic(e)
		}
		err = st.StoreIndex(indexName, idx)
		st.Close()
		if tgt == "http" {
			stored, e = os.ReadFile(filepath.Join(bdir, indexName))
			present = e == nil
		} else {
			stored, present = srv.get("/" + indexName)
		}
		var firstOK int
		firstOK, certainFail, certainOK = putVerdict(retry, c.IndexFaults)
		srv.mu.Lock()
		delivered = fmt.Sprintf("error-retry %d, mode %s, faulted PUTs %v of %d seen, %d accepted", retry, mode, srv.faulted, srv.puts, srv.accepted)
		nf := len(srv.faulted)
		srv.mu.Unlock()
		what = "RemoteHTTPIndex.StoreIndex"
		o.Class(fmt.Sprintf("index-target:http:error-retry=%d", retry))
		if nf > 0 {
			o.Class("index-target:http:put-fault-delivered", "index-target:http:mode="+mode)
			if certainOK {
				o.Class("index-target:http:first-put-fails-then-ok")
			}
			if certainFail {
				o.Class("index-target:http:all-attempts-fail")
			}
		}
		_ = firstOK
		o.Nontrivial = nf > 0
	case "s3":
		srv := fakes3.New()
		defer srv.Close()
		undo := fakes3.NoRetry()
		defer undo()
		st, e := fakes3.IndexStore(srv, s3Bucket, "indexes", opt)
		if e != nil {
			panic(e)
		}
		kind := map[string]fakes3.Kind{"initiate": fakes3.KInitiate, "part": fakes3.KPart, "complete": fakes3.KComplete}[c.IndexMode]
		if kind != "" {
			srv.FailAt(kind, 1, fakes3.M403)
		}
		err = st.StoreIndex(indexName, idx)
		for _, k := range srv.Keys(s3Bucket) {
			if strings.HasSuffix(k, indexName) {
				stored, present = srv.Get(s3Bucket, k)
			}
		}
		certainFail, certainOK = srv.Delivered() > 0, srv.Delivered() == 0
		delivered = fmt.Sprintf("fault on %q, %d delivered", c.IndexMode, srv.Delivered())
		what = "S3IndexStore.StoreIndex"
		if srv.Delivered() > 0 {
			o.Class("index-target:s3:fault-delivered")
		}
		o.Nontrivial = true
	case "sftp":
		bdir := filepath.Join(dir, "indexes")
		os.MkdirAll(bdir, 0o755)
		var opts []fakessh.Option
		ro := c.IndexMode == "readonly"
		if ro {
			opts = append(opts, fakessh.ReadOnly())
		}
		cleanup, e := fakessh.Setup(dir, opts...)
		if e != nil {
			panic(e)
		}
		defer cleanup()
		st, e := fakessh.SFTPIndexStore(bdir, opt)
		if e != nil {
			o.Class("index-target:sftp:unavailable")
			o.Desc = map[string]any{"op": "index", "target": tgt, "skipped": e.Error()}
			return o
		}
		err = st.StoreIndex(indexName, idx)
		st.Close()
		stored, e = os.ReadFile(filepath.Join(bdir, indexName))
		present = e == nil
		certainFail, certainOK = ro, !ro
		delivered = fmt.Sprintf("read-only server: %v", ro)
		what = "SFTPIndexStore.StoreIndex"
		if ro {
			o.Class("index-target:sftp:read-only")
		}
		o.Nontrivial = true
	default: // local
		tgt = "local"
		bdir := filepath.Join(dir, "indexes")
		os.MkdirAll(bdir, 0o755)
		switch c.IndexMode {
		case "overwrite-longer": // an older, longer file under the same name must be replaced, not patched
			dx.WriteFile(bdir, indexName, append(ref.EncodeIndex(want), gen.RandBytes(4000, 9)...))
		case "dir-in-the-way":
			os.MkdirAll(filepath.Join(bdir, indexName), 0o755)
			certainFail = true
		}
		st, e := desync.NewLocalIndexStore(bdir)
		if e != nil {
			panic(e)
		}
		err = st.StoreIndex(indexName, idx)
		if fi, e := os.Stat(filepath.Join(bdir, indexName)); e == nil && !fi.IsDir() {
			stored, e = os.ReadFile(filepath.Join(bdir, indexName))
			present = e == nil
		}
		certainOK = !certainFail
		atomic = false // os.Create + write: no promise
		delivered = "mode " + c.IndexMode
		what = "LocalIndexStore.StoreIndex"
		if c.IndexMode != "" {
			o.Class("index-target:local:" + c.IndexMode)
		}
		o.Nontrivial = true
	}
	judgeStoredIndex(&o, p, what, err, stored, present, want, certainFail, certainOK, atomic, delivered)
	if err == nil {
		o.Class("index:stored")
	} else {
		o.Class("index:store-error")
	}
	o.Desc = map[string]any{"op": "index", "target": tgt, "mode": c.IndexMode, "faults": c.IndexFaults, "retry": retry, "chunks": len(idx.Chunks), "index_bytes": ref.IndexLen(len(idx.Chunks)), "err": err != nil}
	o.Key = fmt.Sprintf("index/%s/%s/%v/%d/%d/%s", tgt, c.IndexMode, c.IndexFaults, retry, len(idx.Chunks), hx.Hash8(blob))
	return o
}

// ------------------------------------------------------------------ CLI: desync make with an HTTP index location

func genCLIIndex(t *rapid.T) Case {
	var c Case
	c.Op = "cli-index"
	c.Sizes = cliSizes
	c.N = rapid.SampledFrom([]int{1, 4, 10}).Draw(t, "n")
	c.Pieces = dupBlob(t, c.Sizes, int(c.Sizes.Max)*rapid.IntRange(1, 30).Draw(t, "mult"))
	c.IndexTarget = "http-plain"
	genIndexTarget(t, &c)
	c.IndexTarget = "http-plain"
	if c.IndexMode == "" || c.IndexMode == "overwrite-longer" || c.IndexMode == "dir-in-the-way" || c.IndexMode == "initiate" || c.IndexMode == "part" || c.IndexMode == "complete" {
		c.IndexMode = "503"
	}
	if c.Retry == 0 && len(c.IndexFaults) == 0 {
		c.Retry, c.IndexFaults = 3, []int{1}
	}
	return c
}

// runCLIIndex: `desync make -s <local store> <http index url> <file>` against the scripted
// index server. Exit 0 => the server holds the index of the file.
func runCLIIndex(c Case) (o hx.Outcome) {
	bin := os.Getenv("VERIF_DESYNC_BIN")
	o.Desc = map[string]any{"op": c.Op}
	if bin == "" {
		o.Class("cli-skipped-no-binary")
		return o
	}
	sz := cliSizes
	blob := gen.Expand(c.Pieces)
	idx := dx.BuildIndex(blob, ref.Chunk(blob, sz.Min, sz.Avg, sz.Max, false), sz, false)
	want := refIndexOf(idx)
	retry := clamp(c.Retry, 0, 5)
	mode := c.IndexMode
	if mode == "" {
		mode = "503"
	}
	dir := hx.Scratch("c06cliidx")
	defer os.RemoveAll(dir)
	home := filepath.Join(dir, "home")
	sdir := filepath.Join(dir, "store")
	os.MkdirAll(home, 0o755)
	os.MkdirAll(sdir, 0o755)
	srv := newIdxServer(nil, mode, c.IndexFaults)
	defer srv.srv.Close()
	file := dx.WriteFile(dir, "blob", blob)

	args := []string{"make", "-m", "1:2:4", "-s", sdir, "-n", strconv.Itoa(clamp(c.N, 1, 64)), "-e", strconv.Itoa(retry), "-b", "1ms", srv.srv.URL + "/" + indexName, file}
	ctx, cancel := context.WithTimeout(context.Background(), 180*time.Second)
	defer cancel()
	cmd := exec.CommandContext(ctx, bin, args...)
	cmd.Env = []string{"HOME=" + home, "PATH=" + os.Getenv("PATH"), "TMPDIR=" + dir}
	cmd.Dir = dir
	var buf bytes.Buffer
	cmd.Stdout, cmd.Stderr = &buf, &buf
	runErr := cmd.Run()
	o.Class("op:cli-index")
	if ctx.Err() != nil {
		o.Class("cli:timeout-inconclusive")
		return o
	}
	out := buf.String()
	if len(out) > 600 {
		out = out[:600] + "…"
	}
	p := "C06:cli-index:"
	if strings.Contains(out, "panic:") || strings.Contains(out, "fatal error:") {
		o.Fail(p+"crash", "desync %v crashed: %s", args, out)
	}
	var err error
	if runErr != nil {
		err = fmt.Errorf("exit: %v: %s", runErr, out)
	}
	stored, present := srv.get("/" + indexName)
	_, certainFail, certainOK := putVerdict(retry, c.IndexFaults)
	srv.mu.Lock()
	delivered := fmt.Sprintf("error-retry %d, mode %s, faulted PUTs %v of %d seen, %d accepted", retry, mode, srv.faulted, srv.puts, srv.accepted)
	nf := len(srv.faulted)
	srv.mu.Unlock()
	judgeStoredIndex(&o, p, "desync make <http index>", err, stored, present, want, certainFail, certainOK, true, delivered)
	if nf > 0 {
		o.Class("cli-index:put-fault-delivered")
		if certainOK {
			o.Class("cli-index:first-put-fails-then-ok")
		}
	}
	if err == nil {
		o.Class("cli:exit-0")
	} else {
		o.Class("cli:exit-nonzero")
	}
	o.Nontrivial = nf > 0
	fs := append([]int(nil), c.IndexFaults...)
	sort.Ints(fs)
	o.Desc = map[string]any{"op": c.Op, "len": len(blob), "chunks": len(idx.Chunks), "retry": retry, "mode": mode, "faults": fs, "exit0": err == nil}
	o.Key = fmt.Sprintf("cli-index/%d/%s/%d/%s/%v", len(blob), hx.Hash8(blob), retry, mode, fs)
	return o
}
