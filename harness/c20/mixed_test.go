package c20

// Mixed prefix directories. Next to the files of the case's chunk ID, the prefix directory of a
// store can hold other things: damaged chunks of either format under IDs that sort before and
// after it, a leftover temp file, a file that is no chunk at all. A client verifies and repairs
// ITS OWN damaged chunks wherever they sort among the files that are none of its business
// (`+junk` < `.tmp-cacnk.N` < `<low id>.cacnk` < `<low id>` < `<id>` < `<id>.cacnk` <
// `<high id>.cacnk` < `<high id>`), and never mentions, removes or rewrites the others.
// Damaged chunks are planted under chosen IDs (first four hex digits of the case's ID, then
// 0…/f…): a damaged chunk needs no content that hashes to its name.

import (
	"bytes"
	"sort"
	"strings"

	"verifharness/internal/gen"
	"verifharness/internal/hx"
)

// neighbour is one planted file of a prefix directory.
type neighbour struct {
	name    string // slash path relative to the store base
	sid     string // hex ID for damaged chunks
	damaged bool   // a damaged chunk of format unc
	unc     bool
	tmp     bool // leftover temp file (Prune of either client may remove it)
	bytes   []byte
	present bool
}

var neighbourKinds = []string{"lo", "hi", "tmp", "junk"}

func normNeighbours(in []string) []string {
	var out []string
	for _, k := range neighbourKinds {
		for _, x := range in {
			if x == k {
				out = append(out, k)
				break
			}
		}
	}
	return out
}

// plantNeighbours writes the neighbours into the prefix directory of the model's ID.
func (m *model) plantNeighbours(base string, kinds []string, seed uint64, frameOfOtherData bool) {
	dir := m.sid[:4] + "/"
	idOf := func(fill, last string) string { return m.sid[:4] + strings.Repeat(fill, 59) + last }
	damagedCacnk := func(s uint64) []byte {
		if frameOfOtherData {
			return other.Compress(gen.RandBytes(50, s)) // a proper frame, of other data
		}
		return append([]byte{0}, gen.RandBytes(30, s)...)
	}
	for _, k := range normNeighbours(kinds) {
		switch k {
		case "lo", "hi":
			fill := map[string]string{"lo": "0", "hi": "f"}[k]
			c, u := idOf(fill, "c"), idOf(fill, "d")
			if c == m.sid || u == m.sid {
				continue
			}
			m.nbr = append(m.nbr,
				&neighbour{name: dir + c + ".cacnk", sid: c, damaged: true, unc: false, bytes: damagedCacnk(seed ^ 0x10)},
				&neighbour{name: dir + u, sid: u, damaged: true, unc: true, bytes: gen.RandBytes(40, seed^0x20)})
		case "tmp":
			m.nbr = append(m.nbr, &neighbour{name: dir + ".tmp-cacnk.123456", tmp: true, bytes: gen.RandBytes(10, seed^0x30)})
		case "junk":
			m.nbr = append(m.nbr, &neighbour{name: dir + "+junk", bytes: []byte("not a chunk\n")})
		}
	}
	for _, nb := range m.nbr {
		mustWrite(base+"/"+nb.name, nb.bytes)
		nb.present = true
	}
}

// foreignTo: the file is none of the business of a client of format unc.
func (nb *neighbour) foreignTo(unc bool) bool { return !nb.damaged || nb.unc != unc }

// verifyNeighbours judges the output of Verify of the client of format unc with respect to
// the neighbours and returns the output without the lines about its own damaged neighbours.
func (m *model) verifyNeighbours(o *hx.Outcome, base string, unc bool, repair bool, demand bool, out, where string) string {
	if len(m.nbr) == 0 {
		return out
	}
	// what sorts in front of what, as a directory walk sees it
	names := []string{}
	for _, nb := range m.nbr {
		if nb.present {
			names = append(names, nb.name)
		}
	}
	for _, f := range []bool{false, true} {
		if m.present(f) {
			names = append(names, m.path[f])
		}
	}
	sort.Strings(names)
	foreignBefore := func(name string) (kinds []string) {
		for _, n := range names {
			if n >= name {
				break
			}
			switch {
			case n == m.path[!unc]:
				kinds = append(kinds, "other-format-twin")
			case n == m.path[unc]:
			default:
				for _, nb := range m.nbr {
					if nb.name == n && nb.foreignTo(unc) {
						kinds = append(kinds, map[bool]string{true: "tmp-leftover", false: map[bool]string{true: "other-format-chunk", false: "non-chunk-file"}[nb.damaged]}[nb.tmp])
					}
				}
			}
		}
		return kinds
	}
	var kept []string
	for _, line := range strings.Split(out, "\n") {
		mine := false
		for _, nb := range m.nbr {
			if nb.damaged && nb.unc == unc && strings.Contains(line, nb.sid) {
				mine = true
			}
		}
		if !mine {
			kept = append(kept, line)
		}
	}
	snapNow := snapshot(base)
	for _, nb := range m.nbr {
		if !nb.present || !nb.damaged {
			continue
		}
		if nb.unc != unc {
			if !demand {
				o.Class("coexist:verify:skip-verify:damaged-other-format-neighbour")
			}
			if strings.Contains(out, nb.sid) {
				o.Fail("C20:coexist:verified-other-format", "%s: Verify mentions %s, a %s file: %q", where, nb.name, modeName(nb.unc), out)
			}
			continue
		}
		if !demand {
			// a SkipVerify client checks nothing of its own (nothing is demanded); follow what happened
			o.Class("coexist:verify:skip-verify:own-damaged-chunk-not-demanded")
			if _, still := snapNow.files[nb.name]; !still {
				nb.present = false
			}
			continue
		}
		before := foreignBefore(nb.name)
		o.Class("coexist:verify:damaged-own-chunk")
		if len(before) > 0 {
			o.Class("coexist:verify:damaged-own-chunk-after-foreign-file")
			for _, k := range before {
				o.Class("coexist:verify:damaged-own-chunk-after-" + k)
			}
		} else {
			o.Class("coexist:verify:damaged-own-chunk-first-in-directory")
		}
		if !strings.Contains(out, nb.sid) {
			o.Fail("C20:coexist:verify-missed-damaged-own-chunk", "%s: Verify(repair=%v) does not report its own damaged chunk file %s (files of no concern to this client that sort before it: %v); output: %q", where, repair, nb.name, before, out)
		}
		if repair {
			o.Class("coexist:verify:repair-damaged-own-chunk")
			if _, still := snapNow.files[nb.name]; still {
				o.Fail("C20:coexist:verify-repair-left-damaged-own-chunk", "%s: Verify with repair left its own damaged chunk file %s in place (files of no concern to this client that sort before it: %v)", where, nb.name, before)
			} else {
				nb.present = false
			}
		}
	}
	return strings.Join(kept, "\n")
}

// compareNeighbours is the neighbours' part of model.compare.
func (m *model) compareNeighbours(o *hx.Outcome, s snap, whoActed bool, op string) {
	for _, nb := range m.nbr {
		b, there := s.files[nb.name]
		switch {
		case !nb.present:
			if there {
				o.Fail("C20:layout:extra-file", "%s store: file %s reappeared during %s of the %s client", m.label, nb.name, op, modeName(whoActed))
			}
		case !there:
			nb.present = false
			switch {
			case nb.tmp && op == "prune": // Prune clears temp files (C16)
			case !nb.foreignTo(whoActed) && op == "prune": // not in the keep set
			case !nb.foreignTo(whoActed): // verify without repair removed its own damaged chunk: C16's subject
			case op == "prune":
				o.Fail("C20:coexist:pruned-other-format", "%s store: prune of the %s client removed %s, which is none of its files", m.label, modeName(whoActed), nb.name)
			default:
				o.Fail("C20:coexist:verify-removed-other-format", "%s store: verify of the %s client removed %s, which is none of its files", m.label, modeName(whoActed), nb.name)
			}
		case !bytes.Equal(b, nb.bytes):
			o.Fail("C20:coexist:file-modified", "%s store: %s of the %s client changed the content of %s", m.label, op, modeName(whoActed), nb.name)
			nb.bytes = b
		}
	}
}

func (m *model) isNeighbour(name string) bool {
	for _, nb := range m.nbr {
		if nb.name == name {
			return true
		}
	}
	return false
}

func mixedRequired() []string {
	return []string{
		"coexist:verify:damaged-own-chunk", "coexist:verify:damaged-own-chunk-after-foreign-file", "coexist:verify:damaged-own-chunk-first-in-directory",
		"coexist:verify:damaged-own-chunk-after-other-format-twin", "coexist:verify:damaged-own-chunk-after-other-format-chunk",
		"coexist:verify:damaged-own-chunk-after-tmp-leftover", "coexist:verify:damaged-own-chunk-after-non-chunk-file",
		"coexist:verify:repair-damaged-own-chunk",
		"mixed:lo", "mixed:hi", "mixed:tmp", "mixed:junk", "mixed:none",
	}
}
