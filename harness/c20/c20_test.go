// C20 — Local chunk stores use casync's on-disk format; both formats coexist.
//
// The package is built and run twice by the driver: with tags `verif` (desync = klauspost zstd,
// harness-side "other" implementation = reference libzstd through cgo) and with tags
// `verif datadog` (desync = libzstd, other = klauspost). See other_*_test.go.
package c20

import (
	"bytes"
	"context"
	"crypto/sha512"
	"encoding/hex"
	"fmt"
	"io/fs"
	"net/http"
	"net/http/httptest"
	"os"
	"path/filepath"
	"runtime/debug"
	"sort"
	"strings"
	"sync"
	"testing"
	"time"

	"github.com/folbricht/desync"
	"pgregory.net/rapid"

	"verifharness/internal/gen"
	"verifharness/internal/hx"
)

const (
	chunkMax = 256 << 10 // desync's default maximum chunk size (16:64:256 KiB)
	chunkBig = 1 << 20
)

// Case is the replay file. All content is expanded from (Size, Fill, Len, Seed).
type Case struct {
	Size    string `json:"size"`    // one small block max big   (label; Len is authoritative)
	Fill    string `json:"fill"`    // zero rand text mixed
	Len     int    `json:"len"`     // chunk length in bytes, 1 .. 1 MiB
	Seed    uint64 `json:"seed"`    // content seed
	Mode    string `json:"mode"`    // compressed | uncompressed : the desync client that writes first (store 1)
	Cacnk   string `json:"cacnk"`   // store 2, file <id>.cacnk : absent oneshot stream corrupt
	Raw     string `json:"raw"`     // store 2, file <id>       : absent valid corrupt
	Corrupt string `json:"corrupt"` // how corrupt files are made: otherdata garbage empty truncated
	First   string `json:"first"`   // compressed | uncompressed : client that acts first in the coexistence checks
	N       int    `json:"n"`       // Verify workers
	Repair  bool   `json:"repair"`  // Verify with repair
	Keep    bool   `json:"keep"`    // Prune with keep set {id} instead of the empty set
	// where the chunk of the first / second StoreChunk into store 1 comes from (prov_test.go)
	Prov [2]ProvSpec `json:"prov"`
	// additionally run one command of the desync binary on a store whose config key and
	// command-line argument are spelled differently (cli_test.go; needs $VERIF_DESYNC_BIN)
	CLI *CLICase `json:"cli,omitempty"`
	// only the command line part (the enumeration of spellings)
	CLIOnly bool `json:"cli_only,omitempty"`
	// other files in the prefix directory of both stores before the coexistence checks:
	// lo hi (damaged chunks of both formats under lower / higher IDs), tmp, junk (mixed_test.go)
	Neighbours []string `json:"neighbours,omitempty"`
	// the compressed / the uncompressed client of the coexistence checks is opened with SkipVerify
	SkipC bool `json:"skip_verify_compressed,omitempty"`
	SkipU bool `json:"skip_verify_uncompressed,omitempty"`
	// StoreChunk of both formats in a child process whose files cannot grow beyond a limit (short_test.go)
	Short *ShortCase `json:"short,omitempty"`
	// what an interrupted writer left in the prefix directory of store 1 (store_test.go)
	Leftovers []Leftover `json:"leftovers,omitempty"`
	// additionally: clients storing one ID into one directory at the same time (store_test.go)
	Conc *ConcCase `json:"conc,omitempty"`
}

func genLen(t *rapid.T, size string) int {
	switch size {
	case "one":
		return 1
	case "small":
		if rapid.IntRange(0, 2).Draw(t, "magic") == 0 { // 255/256: klauspost's content-size field appears
			return rapid.SampledFrom([]int{2, 3, 255, 256, 257, 1024, 4096}).Draw(t, "lenm")
		}
		return rapid.IntRange(2, 4096).Draw(t, "len")
	case "block": // around the 128 KiB zstd block limit: one block vs. two
		if rapid.IntRange(0, 2).Draw(t, "atblock") == 0 {
			return blockSizeMax + rapid.IntRange(-2, 3).Draw(t, "dblock")
		}
		return rapid.IntRange(4097, blockSizeMax+4096).Draw(t, "len")
	case "max":
		return chunkMax
	default: // big: above the default maximum, up to 1 MiB
		if rapid.IntRange(0, 2).Draw(t, "at1m") == 0 {
			return chunkBig
		}
		return rapid.IntRange(chunkMax+1, chunkBig).Draw(t, "len")
	}
}

func genCase(t *rapid.T) Case {
	var c Case
	sizes := hx.Pick(
		[]string{"one", "small", "small", "small", "small", "small", "small", "block", "block", "block", "max", "big"},
		[]string{"one", "small", "small", "small", "small", "block", "block", "block", "max", "max", "big", "big"})
	c.Size = rapid.SampledFrom(sizes).Draw(t, "size")
	c.Fill = rapid.SampledFrom([]string{"zero", "rand", "rand", "text", "text", "mixed", "mixed"}).Draw(t, "fill")
	c.Len = genLen(t, c.Size)
	if c.Len < 1 {
		c.Len = 1
	}
	c.Seed = rapid.Uint64().Draw(t, "seed")
	c.Mode = rapid.SampledFrom([]string{"compressed", "uncompressed"}).Draw(t, "mode")
	c.Cacnk = rapid.SampledFrom([]string{"oneshot", "stream", "oneshot", "stream", "absent", "corrupt"}).Draw(t, "cacnk")
	c.Raw = rapid.SampledFrom([]string{"valid", "absent", "corrupt"}).Draw(t, "raw")
	if c.Cacnk == "absent" && c.Raw == "absent" {
		c.Raw = "valid"
	}
	c.Corrupt = rapid.SampledFrom([]string{"otherdata", "garbage", "empty", "truncated"}).Draw(t, "corrupt")
	c.First = rapid.SampledFrom([]string{"compressed", "uncompressed"}).Draw(t, "first")
	c.N = rapid.IntRange(1, 4).Draw(t, "n")
	c.Repair = rapid.Bool().Draw(t, "repair")
	c.Keep = rapid.IntRange(0, 3).Draw(t, "keep") == 0
	c.Prov[0] = genProv(t, "prov0")
	c.Prov[1] = genProv(t, "prov1")
	if rapid.IntRange(0, 7).Draw(t, "cli") == 0 {
		c.CLI = genCLI(t)
	}
	c.Leftovers = genLeftovers(t)
	for _, k := range neighbourKinds {
		if rapid.Bool().Draw(t, "neighbour."+k) {
			c.Neighbours = append(c.Neighbours, k)
		}
	}
	c.SkipC = rapid.Bool().Draw(t, "skipc1") && rapid.Bool().Draw(t, "skipc2")
	c.SkipU = rapid.Bool().Draw(t, "skipu1") && rapid.Bool().Draw(t, "skipu2")
	short := true // 1 in 32 (thorough: 8): a child process per case
	for i := 0; i < hx.Pick(5, 3); i++ {
		if !rapid.Bool().Draw(t, "short") {
			short = false
		}
	}
	if short {
		c.Short = genShort(t)
	}
	// 1 in 32 (thorough: 8), by fair single-bit draws (rapid favours the ends of integer ranges)
	conc := true
	for i := 0; i < hx.Pick(5, 3); i++ {
		if !rapid.Bool().Draw(t, "conc") {
			conc = false
		}
	}
	if conc {
		c.Conc = genConc(t)
	}
	return c
}

// ---------------------------------------------------------------- content

var words = strings.Fields(`the of and to in is that it was for on are as with his they at be this from have or by
one had not but what all were when we there can an your which their said if do will each about how up out them then
she many some so these would other into has more her two like him see time could no make than first been its who now
people my made over did down only way find use may water long little very after words called just where most know
chunk store index archive casync desync zstd frame block`)

func textBytes(n int, seed uint64) []byte {
	r := gen.RandBytes(n/2+16, seed)
	out := make([]byte, 0, n+16)
	for i := 0; len(out) < n; i++ {
		b := r[i%len(r)]
		out = append(out, words[int(b)%len(words)]...)
		if b&0xC0 == 0xC0 {
			out = append(out, '\n')
		} else {
			out = append(out, ' ')
		}
	}
	return out[:n]
}

// mixedBytes: stretches of zero / random / text / copies of earlier content.
func mixedBytes(n int, seed uint64) []byte {
	r := gen.RandBytes(256, seed^0x5bd1e995)
	out := make([]byte, 0, n)
	for i := 0; len(out) < n; i++ {
		a, b := int(r[(2*i)%256]), int(r[(2*i+1)%256])
		l := 1 + (a*131+b)%(n/3+1)
		if l > n-len(out) {
			l = n - len(out)
		}
		switch b % 4 {
		case 0:
			out = append(out, make([]byte, l)...)
		case 1:
			out = append(out, gen.RandBytes(l, seed+uint64(i))...)
		case 2:
			out = append(out, textBytes(l, seed+uint64(i))...)
		default:
			if len(out) == 0 {
				out = append(out, gen.RandBytes(l, seed+uint64(i))...)
				break
			}
			off := (a * 7919) % len(out)
			for k := 0; k < l; k++ {
				out = append(out, out[off+k%(len(out)-off)])
			}
		}
	}
	return out
}

func content(c Case) []byte {
	n := c.Len
	if n < 1 {
		n = 1
	}
	if n > chunkBig {
		n = chunkBig
	}
	switch c.Fill {
	case "zero":
		return make([]byte, n)
	case "text":
		return textBytes(n, c.Seed)
	case "mixed":
		return mixedBytes(n, c.Seed)
	default:
		return gen.RandBytes(n, c.Seed)
	}
}

func sizeClass(n int) string {
	switch {
	case n == 1:
		return "size:1"
	case n < blockSizeMax:
		return "size:<128K"
	case n == blockSizeMax:
		return "size:=128K"
	case n < chunkMax:
		return "size:128K..max"
	case n == chunkMax:
		return "size:=max"
	case n < chunkBig:
		return "size:>max"
	default:
		return "size:=1MiB"
	}
}

// ---------------------------------------------------------------- store observation

type snap struct {
	files map[string][]byte // regular files, slash-separated path relative to the store base
	dirs  []string
	odd   []string // anything that is neither a directory nor a regular file
}

func snapshot(base string) snap {
	s := snap{files: map[string][]byte{}}
	filepath.WalkDir(base, func(p string, d fs.DirEntry, err error) error {
		if err != nil || p == base {
			return nil
		}
		rel, _ := filepath.Rel(base, p)
		rel = filepath.ToSlash(rel)
		switch {
		case d.IsDir():
			s.dirs = append(s.dirs, rel)
		case d.Type().IsRegular():
			b, err := os.ReadFile(p)
			if err != nil {
				s.odd = append(s.odd, rel+" (unreadable)")
				return nil
			}
			s.files[rel] = b
		default:
			s.odd = append(s.odd, rel)
		}
		return nil
	})
	return s
}

func (s snap) names() []string {
	var n []string
	for k := range s.files {
		n = append(n, k)
	}
	sort.Strings(n)
	return n
}

type syncBuf struct {
	mu sync.Mutex
	b  bytes.Buffer
}

func (w *syncBuf) Write(p []byte) (int, error) {
	w.mu.Lock()
	defer w.mu.Unlock()
	return w.b.Write(p)
}

func (w *syncBuf) String() string {
	w.mu.Lock()
	defer w.mu.Unlock()
	return w.b.String()
}

var (
	devNullOnce sync.Once
	devNull     *os.File
)

// quietStderr silences desync's HTTP handler, which prints every 500 to os.Stderr.
func quietStderr() (restore func()) {
	devNullOnce.Do(func() { devNull, _ = os.OpenFile(os.DevNull, os.O_WRONLY, 0) })
	old := os.Stderr
	if devNull != nil {
		os.Stderr = devNull
	}
	return func() { os.Stderr = old }
}

func httpDo(h http.Handler, method, path string) (int, []byte) {
	rec := httptest.NewRecorder()
	h.ServeHTTP(rec, httptest.NewRequest(method, path, nil))
	return rec.Code, rec.Body.Bytes()
}

func modeName(uncompressed bool) string {
	if uncompressed {
		return "uncompressed"
	}
	return "compressed"
}

func ext(uncompressed bool) string {
	if uncompressed {
		return ""
	}
	return ".cacnk"
}

func short(b []byte) string {
	if len(b) > 24 {
		return fmt.Sprintf("%x… (%d bytes)", b[:24], len(b))
	}
	return fmt.Sprintf("%x (%d bytes)", b, len(b))
}

// ---------------------------------------------------------------- the model of one store directory

const (
	absent  = "absent"
	valid   = "valid"
	corrupt = "corrupt"
)

// model is what the harness knows to be in a store directory for the one chunk ID of the case.
type model struct {
	label    string          // "desync-written" | "casync-written"
	state    map[bool]string // key: uncompressed? -> absent | valid | corrupt
	origin   map[bool]string // for signatures: how the valid file was made
	bytes    map[bool][]byte // the file's bytes as written
	path     map[bool]string // relative path of the format's file
	sid      string          // hex id
	id       desync.ChunkID  // same, binary
	data     []byte          // the chunk
	everBoth bool
	ignore   map[string]bool // planted leftovers: theirs to stay or go
	nbr      []*neighbour    // other files in the prefix directory (mixed_test.go)
	skip     map[bool]bool   // the client of that format is opened with SkipVerify
}

func (m *model) opts(unc bool) desync.StoreOptions {
	return desync.StoreOptions{Uncompressed: unc, SkipVerify: m.skip[unc]}
}

func (m *model) present(unc bool) bool { return m.state[unc] != absent }

// compare checks the store directory against the model. whoActed is the client (by its
// uncompressed flag) whose operation op ("verify"/"prune") just ran.
func (m *model) compare(o *hx.Outcome, base string, whoActed bool, op string) {
	s := snapshot(base)
	for _, unc := range []bool{false, true} {
		b, there := s.files[m.path[unc]]
		foreign := unc != whoActed
		switch {
		case m.present(unc) && !there:
			if foreign {
				sig := "C20:coexist:pruned-other-format"
				if op == "verify" {
					sig = "C20:coexist:verify-removed-other-format"
				}
				o.Fail(sig, "%s store: %s of the %s client removed the %s file %s", m.label, op, modeName(whoActed), modeName(unc), m.path[unc])
			} else {
				o.Fail("C20:"+op+":removed-own-unexpectedly", "%s store: %s of the %s client removed its own file %s although it had to stay", m.label, op, modeName(whoActed), m.path[unc])
			}
			m.state[unc] = absent
		case m.present(unc) && !bytes.Equal(b, m.bytes[unc]):
			o.Fail("C20:coexist:file-modified", "%s store: %s of the %s client changed the content of %s", m.label, op, modeName(whoActed), m.path[unc])
			m.bytes[unc] = b
		case !m.present(unc) && there:
			if op == "prune" && !foreign {
				o.Fail("C20:coexist:prune-kept-own", "%s store: Prune(empty keep set) of the %s client left its own file %s in place", m.label, modeName(whoActed), m.path[unc])
				m.state[unc] = corrupt // unknown; do not reason about it any further
				m.bytes[unc] = b
			} else {
				o.Fail("C20:layout:extra-file", "%s store: file %s appeared during %s of the %s client", m.label, m.path[unc], op, modeName(whoActed))
			}
		}
	}
	m.compareNeighbours(o, s, whoActed, op)
	for name := range s.files {
		if name != m.path[false] && name != m.path[true] && !m.ignore[name] && !m.isNeighbour(name) {
			o.Fail("C20:layout:extra-file", "%s store: unexpected file %s after %s of the %s client", m.label, name, op, modeName(whoActed))
		}
	}
	for _, name := range s.odd {
		o.Fail("C20:layout:extra-file", "%s store: unexpected non-regular entry %s", m.label, name)
	}
}

func converters(unc bool) desync.Converters {
	if unc {
		return desync.Converters{}
	}
	return desync.Converters{desync.Compressor{}}
}

// readSig is the signature used when a client cannot read a valid file of its own format.
func (m *model) readSig(unc bool) string {
	return "C20:read:" + m.origin[unc]
}

// observe runs the read-side checks (HasChunk, GetChunk, HTTP handler, Verify) of one client.
func (m *model) observe(o *hx.Outcome, base string, unc bool, n int, repair bool) {
	me, them := modeName(unc), modeName(!unc)
	own, foreign := m.state[unc], m.state[!unc]
	st, err := desync.NewLocalStore(base, m.opts(unc))
	if err != nil {
		o.Fail("C20:store:open", "NewLocalStore(%s): %v", me, err)
		return
	}
	where := fmt.Sprintf("%s store {.cacnk:%s raw:%s}, %s client", m.label, m.state[false], m.state[true], me)
	if m.skip[unc] {
		where += " opened with SkipVerify"
		o.Class("coexist:skip-verify-client", "coexist:verify:skip-verify-store", "coexist:verify:skip-verify+"+me)
		if m.state[!unc] == corrupt {
			o.Class("coexist:verify:skip-verify+" + me + ":other-format-file-damaged")
		}
	}

	// HasChunk
	has, err := st.HasChunk(m.id)
	switch {
	case err != nil:
		o.Fail("C20:read:haschunk-error", "%s: HasChunk: %v", where, err)
	case has && own == absent:
		o.Fail("C20:coexist:saw-other-format", "%s: HasChunk == true although only the %s file exists", where, them)
	case !has && own != absent:
		o.Fail("C20:read:haschunk-false", "%s: HasChunk == false although %s exists", where, m.path[unc])
	}

	// GetChunk
	var got []byte
	ch, err := st.GetChunk(m.id)
	if err == nil {
		got, err = ch.Data()
	}
	switch own {
	case absent:
		if _, missing := err.(desync.ChunkMissing); !missing {
			if err == nil {
				o.Fail("C20:coexist:saw-other-format", "%s: GetChunk returned %d bytes (equal to the chunk: %v) although only the %s file exists", where, len(got), bytes.Equal(got, m.data), them)
			} else {
				o.Fail("C20:coexist:saw-other-format", "%s: GetChunk must report ChunkMissing, got %T: %v", where, err, err)
			}
		}
	case valid:
		if err != nil {
			o.Fail(m.readSig(unc), "%s: GetChunk of a valid %s file (%s, %s) failed: %v", where, me, m.origin[unc], short(m.bytes[unc]), err)
		} else if !bytes.Equal(got, m.data) {
			o.Fail(m.readSig(unc)+":wrong-data", "%s: GetChunk of a valid %s file (%s) returned %d bytes that differ from the %d-byte chunk", where, me, m.origin[unc], len(got), len(m.data))
		}
	case corrupt:
		// a SkipVerify client hands out what it finds unchecked; only the other format's data is none of its business
		if err == nil && (!m.skip[unc] || bytes.Equal(got, m.data)) {
			sig := "C20:read:corrupt-accepted"
			if foreign == valid {
				sig = "C20:coexist:saw-other-format"
			}
			o.Fail(sig, "%s: own file is corrupt (%s) but GetChunk succeeded with %d bytes (equal to the chunk: %v)", where, short(m.bytes[unc]), len(got), bytes.Equal(got, m.data))
		}
	}

	// HTTP handler of the same mode on top of this client
	h := desync.NewHTTPHandler(st, false, false, converters(unc), "")
	ownURL := "/" + m.sid[:4] + "/" + m.sid + ext(unc)
	otherURL := "/" + m.sid[:4] + "/" + m.sid + ext(!unc)
	code, body := httpDo(h, "GET", ownURL)
	switch own {
	case absent:
		if code == http.StatusOK {
			o.Fail("C20:http:served-other-format", "%s: GET %s answered 200 with %d bytes although only the %s file exists", where, ownURL, len(body), them)
		} else if code != http.StatusNotFound {
			o.Fail("C20:http:missing-not-404", "%s: GET %s answered %d, expected 404", where, ownURL, code)
		}
	case valid:
		ok := code == http.StatusOK
		if ok && unc {
			ok = bytes.Equal(body, m.data)
		} else if ok {
			_, werr := walkFrame(body)
			dec, derr := other.Decompress(body)
			ok = werr == nil && derr == nil && bytes.Equal(dec, m.data)
		}
		if !ok {
			o.Fail("C20:http:own-not-served", "%s: GET %s answered %d with %s, which is not the %s form of the chunk", where, ownURL, code, short(body), me)
		}
	case corrupt:
		if code == http.StatusOK && !m.skip[unc] {
			sig := "C20:http:served-corrupt"
			if foreign == valid {
				sig = "C20:http:served-other-format"
			}
			o.Fail(sig, "%s: own file is corrupt but GET %s answered 200 with %s", where, ownURL, short(body))
		}
	}
	code, _ = httpDo(h, "HEAD", ownURL)
	switch {
	case own == absent && code == http.StatusOK:
		o.Fail("C20:http:served-other-format", "%s: HEAD %s answered 200 although only the %s file exists", where, ownURL, them)
	case own == absent && code != http.StatusNotFound:
		o.Fail("C20:http:missing-not-404", "%s: HEAD %s answered %d, expected 404", where, ownURL, code)
	case own != absent && code != http.StatusOK:
		o.Fail("C20:http:own-not-served", "%s: HEAD %s answered %d although the file exists", where, ownURL, code)
	}
	for _, method := range []string{"GET", "HEAD"} {
		if code, body = httpDo(h, method, otherURL); code >= 200 && code < 300 {
			o.Fail("C20:http:served-other-format", "%s: %s %s (the %s name) answered %d with %d bytes", where, method, otherURL, them, code, len(body))
		}
	}

	// Verify
	var w syncBuf
	err = st.Verify(context.Background(), n, repair, &w)
	if err != nil {
		o.Fail("C20:verify:error", "%s: Verify(n=%d, repair=%v): %v", where, n, repair, err)
	}
	if out := strings.TrimSpace(m.verifyNeighbours(o, base, unc, repair, !m.skip[unc], w.String(), where)); out != "" && own != corrupt {
		sig := "C20:read:verify-complains"
		if own == absent || foreign == corrupt {
			sig = "C20:coexist:verified-other-format"
		}
		o.Fail(sig, "%s: Verify(n=%d, repair=%v) has nothing of its own to complain about but printed %q", where, n, repair, out)
	}
	if own == corrupt && repair {
		// what verify does with its own bad file belongs to C16; follow the real outcome
		if _, err := os.Stat(filepath.Join(base, filepath.FromSlash(m.path[unc]))); err != nil {
			m.state[unc] = absent
		}
	}
	m.compare(o, base, unc, "verify")
}

// prune runs Prune of one client and checks what is left.
func (m *model) prune(o *hx.Outcome, base string, unc bool, keep bool) {
	me := modeName(unc)
	st, err := desync.NewLocalStore(base, m.opts(unc))
	if err != nil {
		o.Fail("C20:store:open", "NewLocalStore(%s): %v", me, err)
		return
	}
	ids := map[desync.ChunkID]struct{}{}
	if keep {
		ids[m.id] = struct{}{}
	}
	where := fmt.Sprintf("%s store {.cacnk:%s raw:%s}, %s client", m.label, m.state[false], m.state[true], me)
	if err := st.Prune(context.Background(), ids); err != nil {
		o.Fail("C20:prune:error", "%s: Prune(keep=%v): %v", where, keep, err)
	}
	if !keep {
		m.state[unc] = absent
	}
	m.compare(o, base, unc, "prune")
	if !keep {
		if has, _ := st.HasChunk(m.id); has {
			o.Fail("C20:coexist:saw-other-format", "%s: HasChunk == true after its own Prune(empty keep set)", where)
		}
	}
}

// exercise runs both clients over one store directory.
func (m *model) exercise(o *hx.Outcome, base string, c Case) {
	first := c.First == "uncompressed"
	n := c.N
	if n < 1 {
		n = 1
	}
	if n > 16 {
		n = 16
	}
	if m.present(false) && m.present(true) {
		m.everBoth = true
	}
	for _, unc := range []bool{first, !first} {
		m.observe(o, base, unc, n, c.Repair)
	}
	for _, unc := range []bool{first, !first} {
		m.prune(o, base, unc, c.Keep)
	}
}

func newModel(label, sid string, id desync.ChunkID, data []byte) *model {
	return &model{
		label:  label,
		state:  map[bool]string{false: absent, true: absent},
		origin: map[bool]string{false: "", true: "raw-file"},
		bytes:  map[bool][]byte{},
		path:   map[bool]string{false: sid[:4] + "/" + sid + ".cacnk", true: sid[:4] + "/" + sid},
		sid:    sid, id: id, data: data,
	}
}

// judgeStore is the layout oracle for one StoreChunk into the desync-written store: exactly one
// new file, at <id[0:4]>/<id> + (.cacnk | nothing); raw bytes for the uncompressed format; for
// the compressed format exactly one standard zstd frame that the other implementation decodes
// to the chunk. It is the same for every provenance of the chunk (via is for messages only).
// ok: the file exists under the right name; fi: the walked frame of a well-formed .cacnk file;
// cross: the other implementation decoded an entropy-coded frame.
func judgeStore(o *hx.Outcome, m1 *model, before, after snap, unc bool, data []byte, fill, via string) (ok bool, dfi *frameInfo, cross bool) {
	me := modeName(unc) + " store, chunk " + via
	sid := m1.sid
	var fresh []string
	for _, name := range after.names() {
		old, was := before.files[name]
		if !was {
			fresh = append(fresh, name)
		} else if !bytes.Equal(old, after.files[name]) {
			o.Fail("C20:coexist:file-modified", "StoreChunk (%s) changed the existing file %s", me, name)
		}
	}
	for name := range before.files {
		if _, still := after.files[name]; !still {
			o.Fail("C20:coexist:store-removed-other-format", "StoreChunk (%s) removed the existing file %s", me, name)
		}
	}
	want := m1.path[unc]
	if len(fresh) != 1 {
		o.Fail("C20:layout:file-count", "StoreChunk (%s) created %d files %v, expected exactly one: %s", me, len(fresh), fresh, want)
	}
	if len(after.odd) > 0 {
		o.Fail("C20:layout:extra-file", "StoreChunk (%s) left non-regular entries %v", me, after.odd)
	}
	file, ok := after.files[want]
	if !ok {
		o.Fail("C20:layout:path", "StoreChunk (%s) did not create %s; new files: %v", me, want, fresh)
		if len(fresh) != 1 {
			return false, nil, false
		}
		file = after.files[fresh[0]] // still look at the content
	} else if len(after.dirs) != 1 || after.dirs[0] != sid[:4] {
		o.Fail("C20:layout:dir", "store directories after StoreChunk (%s): %v, expected only %s", me, after.dirs, sid[:4])
	}
	if ok {
		m1.state[unc], m1.bytes[unc] = valid, file
	}
	if unc {
		if !bytes.Equal(file, data) {
			o.Fail("C20:layout:raw-bytes", "uncompressed chunk file (%s) holds %s, the chunk is %s", me, short(file), short(data))
		}
		return ok, nil, false
	}
	fi, werr := walkFrame(file)
	if werr != nil {
		fe := werr.(*frameErr)
		sig := "C20:layout:bad-frame:" + fe.Reason
		if fe.notSingleFrame() {
			sig = "C20:layout:not-single-frame"
		}
		o.Fail(sig, ".cacnk file written by desync (%s; %s) for a %d-byte %s chunk is not exactly one standard zstd frame: %v; file: %s", desyncImpl, me, len(data), fill, werr, short(file))
	} else {
		dfi = &fi
		if fi.HasFCS && fi.FCS != uint64(len(data)) {
			o.Fail("C20:layout:frame-content-size", "frame header declares %d bytes of content, the chunk has %d (%s)", fi.FCS, len(data), me)
		}
		if fi.Compressed == 0 && fi.KnownRegen != uint64(len(data)) {
			o.Fail("C20:layout:frame-content-size", "raw/rle blocks regenerate %d bytes, the chunk has %d (%s)", fi.KnownRegen, len(data), me)
		}
	}
	dec, derr := other.Decompress(file)
	switch {
	case derr != nil:
		o.Fail("C20:decode:other-impl-fails", "%s cannot decode the .cacnk file written by desync (%s; %s) for a %d-byte %s chunk: %v; file: %s", other.Name(), desyncImpl, me, len(data), fill, derr, short(file))
	case !bytes.Equal(dec, data):
		o.Fail("C20:decode:other-impl-differs", "%s decodes the .cacnk file written by desync (%s; %s) to %d bytes that differ from the %d-byte chunk", other.Name(), desyncImpl, me, len(dec), len(data))
	case werr == nil && fi.Compressed > 0:
		cross = true
	}
	return ok, dfi, cross
}

// ---------------------------------------------------------------- one case

func run(c Case) (o hx.Outcome) {
	defer quietStderr()()
	// keep what was collected before a panic (hx would report the panic alone)
	defer func() {
		if r := recover(); r != nil {
			o.Fail("panic", "[build %s: desync=%s other=%s] panic: %v\n%s", buildName, desyncImpl, other.Name(), r, debug.Stack())
		}
	}()
	data := content(c)
	sum := sha512.Sum512_256(data) // independent of desync.Digest
	id := desync.ChunkID(sum)
	sid := hex.EncodeToString(sum[:])

	o.Class("build:desync=" + desyncImpl + ",other=" + other.Name())
	if c.CLIOnly {
		cl := CLICase{}.norm()
		if c.CLI != nil {
			cl = c.CLI.norm()
		}
		if cliBin() != "" {
			c.CLI = &cl
			runCLI(&o, c, data)
			o.Nontrivial = true // the store of a CLI case always holds both formats of one ID
		}
		for i := range o.Violations {
			o.Violations[i].Msg = fmt.Sprintf("[build %s: desync=%s other=%s] %s", buildName, desyncImpl, other.Name(), o.Violations[i].Msg)
		}
		o.Desc = map[string]any{"build": buildName, "len": len(data), "fill": c.Fill, "cli": cl, "n": c.N, "repair": c.Repair}
		o.Key = fmt.Sprintf("%s/cli-only/%d/%s/%+v/%d/%v", buildName, len(data), c.Fill, cl, c.N, c.Repair)
		return o
	}

	root := hx.Scratch("c20")
	defer os.RemoveAll(root)

	o.Class("fill:"+c.Fill, sizeClass(len(data)), "first-writer:"+c.Mode)
	crossEntropy := false

	if got := desync.NewChunk(data).ID(); got != id {
		o.Fail("C20:layout:id", "chunk ID is %s, SHA512/256 of the data is %s", got.String(), sid)
	}

	// ---- store 1: written by desync, first in c.Mode then in the other mode
	base1 := filepath.Join(root, "s1")
	os.Mkdir(base1, 0o755)
	m1 := newModel("desync-written", sid, id, data)
	m1.origin[false] = "desync-written"
	m1.skip = map[bool]bool{false: c.SkipC, true: c.SkipU}
	firstUnc := c.Mode == "uncompressed"
	var desyncFrame *frameInfo
	var provs [2]ProvSpec
	planted := map[string]bool{}
	m1.ignore = planted
	if len(c.Leftovers) == 0 {
		o.Class("store:leftover:none")
	}
	for step, unc := range []bool{firstUnc, !firstUnc} {
		me := modeName(unc)
		for _, lo := range c.Leftovers {
			lo = lo.norm()
			if lo.When != step {
				continue
			}
			name := sid[:4] + "/" + lo.fileName(sid, c.Seed)
			mustWrite(filepath.Join(base1, filepath.FromSlash(name)), lo.bytes(data))
			planted[name] = true
			o.Class(lo.classes()...)
		}
		if step == 0 && len(planted) > 0 {
			seesNothing(&o, base1, id, "desync-written store holding only leftovers of interrupted writers ("+leftoverKey(c.Leftovers)+")")
		}
		st, err := desync.NewLocalStore(base1, m1.opts(unc))
		if err != nil {
			o.Fail("C20:store:open", "NewLocalStore(%s): %v", me, err)
			continue
		}
		p := c.Prov[step].norm()
		provs[step] = p
		o.Class(p.classes(unc)...)
		before := snapshot(base1).without(planted)
		if !storeVia(&o, p, st, unc, filepath.Join(root, fmt.Sprintf("src%d", step)), id, sid, data) {
			continue
		}
		after := snapshot(base1).without(planted)
		via := p.key()
		if len(planted) > 0 {
			via += "; leftovers in the prefix directory: " + leftoverKey(c.Leftovers)
		}
		storedIsVisible(&o, st, unc, id, data, me+" store, chunk "+via)
		ok, fi, cross := judgeStore(&o, m1, before, after, unc, data, c.Fill, via)
		if fi != nil {
			desyncFrame = fi
		}
		crossEntropy = crossEntropy || cross
		if step == 0 && ok {
			// only this format exists: the other client must not see it
			ost, err := desync.NewLocalStore(base1, m1.opts(!unc))
			if err == nil {
				if has, _ := ost.HasChunk(id); has {
					o.Fail("C20:coexist:saw-other-format", "desync-written store with only the %s file: HasChunk of the %s client is true", me, modeName(!unc))
				}
				_, gerr := ost.GetChunk(id)
				if _, missing := gerr.(desync.ChunkMissing); !missing {
					o.Fail("C20:coexist:saw-other-format", "desync-written store with only the %s file: GetChunk of the %s client must report ChunkMissing, got %v", me, modeName(!unc), gerr)
				}
			}
		}
	}
	nbKinds := normNeighbours(c.Neighbours)
	if m1.present(false) && m1.present(true) {
		m1.plantNeighbours(base1, nbKinds, c.Seed, c.Corrupt == "otherdata")
		m1.exercise(&o, base1, c)
	}

	// ---- store 2: written the casync way by the other implementation / by hand
	base2 := filepath.Join(root, "s2")
	os.MkdirAll(filepath.Join(base2, sid[:4]), 0o755)
	m2 := newModel("casync-written", sid, id, data)
	m2.skip = m1.skip
	damaged := append([]byte(nil), data...)
	damaged[int(c.Seed%uint64(len(damaged)))] ^= 0x40
	var otherFrame *frameInfo
	switch c.Cacnk {
	case "oneshot", "stream":
		var f []byte
		if c.Cacnk == "oneshot" {
			f = other.Compress(data)
		} else {
			f = other.CompressStream(data)
		}
		m2.state[false], m2.bytes[false], m2.origin[false] = valid, f, "casync-"+c.Cacnk+"-frame"
		fi, werr := walkFrame(f)
		if werr != nil {
			o.Fail("oracle:walker-rejects-reference-frame", "frame walker rejects a %s frame made by %s for a %d-byte %s chunk: %v", c.Cacnk, other.Name(), len(data), c.Fill, werr)
		} else {
			otherFrame = &fi
			if c.Cacnk == "stream" && fi.HasFCS {
				o.Fail("oracle:stream-frame-has-content-size", "streaming frame of %s carries a content size", other.Name())
			}
		}
	case "corrupt":
		var f []byte
		switch c.Corrupt {
		case "otherdata":
			f = other.Compress(damaged)
		case "garbage":
			f = gen.RandBytes(len(data)/2+9, c.Seed+1)
			f[0] = 0
		case "empty":
			f = []byte{}
		default:
			// cut in the middle: content is lost for certain. (Cutting only the last byte would
			// be wrong as a "corrupt" file: a klauspost frame ends in a 4-byte checksum, and
			// desync's libzstd build accepts a frame whose checksum is incomplete — all data is
			// there and hashes to the ID, so nothing in the statement is broken by that.)
			f = other.Compress(data)
			f = f[:len(f)/2]
		}
		m2.state[false], m2.bytes[false] = corrupt, f
	}
	switch c.Raw {
	case "valid":
		m2.state[true], m2.bytes[true] = valid, data
	case "corrupt":
		var f []byte
		switch c.Corrupt {
		case "otherdata":
			f = damaged
		case "garbage":
			f = gen.RandBytes(len(data)+1, c.Seed+2)
		case "empty":
			f = []byte{}
		default:
			f = data[:len(data)-1]
		}
		m2.state[true], m2.bytes[true] = corrupt, f
	}
	if !m2.present(false) && !m2.present(true) { // inconsistent (hand-made or shrunk) case
		m2.state[true], m2.bytes[true] = valid, data
	}
	for _, unc := range []bool{false, true} {
		if m2.present(unc) {
			if err := os.WriteFile(filepath.Join(base2, filepath.FromSlash(m2.path[unc])), m2.bytes[unc], 0o644); err != nil {
				panic(err)
			}
		}
	}
	cacnk0, raw0 := m2.state[false], m2.state[true]
	violationsBefore := len(o.Violations)
	m2.plantNeighbours(base2, nbKinds, c.Seed+1, c.Corrupt != "otherdata")
	m2.exercise(&o, base2, c)
	if otherFrame != nil && otherFrame.Compressed > 0 && len(o.Violations) == violationsBefore {
		crossEntropy = true // desync decoded (GetChunk, Verify, HTTP) an entropy-coded frame of the other implementation
	}

	for _, k := range nbKinds {
		o.Class("mixed:" + k)
	}
	if len(nbKinds) == 0 {
		o.Class("mixed:none")
	}

	// ---- StoreChunk while files cannot grow beyond a limit
	shortKey := ""
	if c.Short != nil {
		runShort(&o, c, root, data)
		shortKey = fmt.Sprintf("%+v", c.Short.norm())
	}

	// ---- clients storing the same ID at the same time
	concKey := ""
	if c.Conc != nil {
		runConc(&o, c, root)
		concKey = fmt.Sprintf("%+v", c.Conc.norm())
	}

	// ---- the command line tool and its config file
	cliKey, cliRan := "", false
	if c.CLI != nil && cliBin() != "" {
		runCLI(&o, c, data)
		cliRan = true
		cl := c.CLI.norm()
		cliKey = fmt.Sprintf("%s/%s/%s/%s/%v/%s/%d/%v/%v", cl.Cmd, cl.Key, cl.Arg, cl.Cwd, cl.KeyUnc, cl.Extra, cl.Pieces, cl.SrcUnc, cl.KeySkip)
	}

	// ---- evidence
	o.Class("s2:cacnk="+c.Cacnk, "s2:raw="+raw0)
	switch {
	case cacnk0 != absent && raw0 != absent:
		o.Class("coexist:both")
		if cacnk0 == corrupt || raw0 == corrupt {
			o.Class("coexist:both,one-corrupt")
		}
	case cacnk0 != absent:
		o.Class("coexist:only-cacnk")
	default:
		o.Class("coexist:only-raw")
	}
	if c.Keep {
		o.Class("prune:keep-id")
	} else {
		o.Class("prune:keep-nothing")
	}
	frameDesc := func(prefix string, fi *frameInfo) string {
		if fi == nil {
			return ""
		}
		if fi.Compressed > 0 {
			o.Class(prefix + ":has-compressed-block")
		} else {
			o.Class(prefix + ":raw/rle-blocks-only")
		}
		if fi.RLE > 0 {
			o.Class(prefix + ":has-rle-block")
		}
		if fi.Blocks > 1 {
			o.Class(prefix + ":multi-block")
		}
		if fi.HasChecksum {
			o.Class(prefix + ":checksum")
		}
		if fi.HasFCS {
			o.Class(prefix + ":content-size")
		} else {
			o.Class(prefix + ":no-content-size")
		}
		return fmt.Sprintf("blocks=%d raw=%d rle=%d compressed=%d fcs=%v checksum=%v", fi.Blocks, fi.Raw, fi.RLE, fi.Compressed, fi.HasFCS, fi.HasChecksum)
	}
	dfd := frameDesc("desync-frame", desyncFrame)
	ofd := frameDesc("other-frame", otherFrame)
	if crossEntropy {
		o.Class("cross-decode:entropy-coded", "cross-decode:entropy-coded@"+buildName)
	}
	// the replay file does not say which of the two builds failed: put it into every message
	for i := range o.Violations {
		o.Violations[i].Msg = fmt.Sprintf("[build %s: desync=%s other=%s] %s", buildName, desyncImpl, other.Name(), o.Violations[i].Msg)
	}
	o.Nontrivial = crossEntropy || m2.everBoth || cliRan
	o.Desc = map[string]any{"build": buildName, "desync": desyncImpl, "other": other.Name(), "len": len(data), "fill": c.Fill,
		"first_writer": c.Mode, "s2_cacnk": c.Cacnk, "s2_raw": raw0, "corrupt": c.Corrupt, "first": c.First, "n": c.N,
		"repair": c.Repair, "keep": c.Keep, "desync_frame": dfd, "other_frame": ofd,
		"prov_first": provs[0].key(), "prov_second": provs[1].key(), "cli": cliKey,
		"leftovers": leftoverKey(c.Leftovers), "conc": concKey, "neighbours": strings.Join(nbKinds, "+"), "short": shortKey,
		"skip_verify_compressed": c.SkipC, "skip_verify_uncompressed": c.SkipU}
	o.Key = fmt.Sprintf("%s/%d/%s/%s/%s/%s/%s/%s/%v/%v/%s/%s", buildName, len(data), c.Fill, c.Mode, c.Cacnk, raw0, c.Corrupt, c.First, c.Repair, c.Keep, provs[0].key(), provs[1].key()) + "/" + cliKey + "/" + leftoverKey(c.Leftovers) + "/" + concKey + "/" + strings.Join(nbKinds, "+") + "/" + shortKey + fmt.Sprintf("/%v/%v", c.SkipC, c.SkipU)
	return o
}

func required() []string {
	r := []string{
		"fill:zero", "fill:rand", "fill:text", "fill:mixed",
		"size:1", "size:<128K", "size:128K..max", "size:=max", "size:>max", "size:=1MiB",
		"first-writer:compressed", "first-writer:uncompressed",
		"s2:cacnk=oneshot", "s2:cacnk=stream", "s2:cacnk=absent", "s2:cacnk=corrupt",
		"s2:raw=valid", "s2:raw=absent", "s2:raw=corrupt",
		"coexist:both", "coexist:both,one-corrupt", "coexist:only-cacnk", "coexist:only-raw",
		"prune:keep-id", "prune:keep-nothing",
		"desync-frame:has-compressed-block", "desync-frame:raw/rle-blocks-only", "desync-frame:multi-block",
		"other-frame:has-compressed-block", "other-frame:no-content-size", "other-frame:content-size",
		"cross-decode:entropy-coded",
	}
	r = append(r, provRequired()...)
	r = append(r, storeRequired()...)
	r = append(r, mixedRequired()...)
	r = append(r, "coexist:verify:skip-verify-store", "coexist:verify:skip-verify+uncompressed", "coexist:verify:skip-verify+compressed",
		"coexist:verify:skip-verify+uncompressed:other-format-file-damaged", "coexist:verify:skip-verify+compressed:other-format-file-damaged",
		"coexist:verify:skip-verify:damaged-other-format-neighbour", "coexist:verify:skip-verify:own-damaged-chunk-not-demanded")
	r = append(r, shortRequired()...)
	r = append(r, "build:desync="+desyncImpl+",other="+other.Name())
	// (the driver checks the required classes separately for each build)
	return r
}

var spec = &hx.Spec[Case]{
	ID:    "C20",
	Level: "exploration",
	Rule: "cases = (chunk of 1 byte .. 1 MiB: zero/random/text/mixed; desync client that writes first; for each of the two StoreChunk calls into the desync-written store the provenance of the chunk: NewChunk | NewChunkWithID | GetChunk from a source LocalStore | through desync.Cache | through desync.Copy | through RemoteHTTP from a chunk server | PUT to a chunk server over the destination, with source/wire format same as or opposite to the destination, SkipVerify of the source, Data() called before storing or not; 0..3 leftovers of interrupted writers (.tmp-cacnk.<id>, .tmp-cacnk.<id>.cacnk, other IDs, random suffixes; empty, partial or complete content of either format) planted in the prefix directory before the first or the second StoreChunk; in 1 of 32 cases (thorough: 8) additionally a directory into which a compressed and an uncompressed client (or two of each, or three of one format) store one ID at the same time for 6..12 (thorough 40..120) rounds with shifting start offsets; 0..4 other files in the prefix directory of both stores before the coexistence checks (damaged chunks of both formats under IDs sorting below and above the chunk's, a temp leftover, a non-chunk file); each of the two clients of the coexistence checks opened with SkipVerify in 1 of 4 cases; in 1 of 32 cases (thorough: 8) additionally StoreChunk of both formats in a child process under RLIMIT_FSIZE below/at/above the on-disk size of either format; a second store directory holding <id>.cacnk in {absent, one-shot frame, streaming frame without content size, corrupt} written by the other zstd implementation and <id> in {absent, valid, corrupt}; client order, verify workers/repair, prune keep set); " +
		"the package runs once per build (desync=klauspost/other=libzstd and desync=libzstd/other=klauspost); " +
		"non-trivial = a frame with at least one compressed-type block was decoded across implementations (other decodes desync's file, or desync reads the other's file), or the generated store held both formats of the ID (the store of a command-line case always does); " +
		"distinct by (build, length, fill, first writer, .cacnk state, raw state, corruption kind, client order, repair, keep, provenance of both stored chunks)",
	Assumptions: []string{
		"chunk IDs computed with crypto/sha512 (Sum512_256) directly",
		"'one standard zstd frame' is decided by an independent walker of the RFC 8878 framing (no decoding); its self-test accepts frames of both libraries and rejects concatenated, skippable and trailing bytes",
		"casync-written stores are emulated: one frame per .cacnk file made by the other implementation at level 3 / defaults, one-shot (with content size) and streaming (no content size, no checksum from libzstd); real casync binaries are not available",
		"github.com/DataDog/zstd v1.5.2 (bundled libzstd 1.5.2) stands for the reference libzstd",
		"coexistence is checked for LocalStore and desync.NewHTTPHandler on top of it; S3/SFTP stores belong to C16",
		"what Verify prints or removes for a corrupt file of the client's own format is not judged here (C16)",
		"a client opened with SkipVerify hands out and verifies its own files unchecked on the unchanged tree (Verify reports nothing): for such a client nothing is demanded about its own damaged or corrupt files (GetChunk, HTTP GET, Verify), everything about the other format's files stays demanded (never read, served, mentioned, removed)",
		"mixed prefix directories: damaged chunks are planted under chosen IDs (the chunk's first four hex digits, then 0…c/0…d/f…c/f…d); of a client's own damaged chunks only 'reported by Verify' and 'gone after Verify with repair' are demanded, independent of where they sort among files of no concern to it",
		"short writes: RLIMIT_FSIZE in a re-exec'd child of the test binary (SIGXFSZ ignored); the on-disk size of the compressed form is computed with desync.Compress of the same build; leftover temp files after a failed store are not judged",
		"planted leftovers (.tmp-cacnk*) may stay or disappear at any time without a verdict (Prune removes them: C16); they must never be taken for the chunk, and a StoreChunk that returns nil must have produced the client's own object whatever lies in the directory",
		"the concurrent part has no hook inside StoreChunk: overlap of the writers comes from releasing them together, from free-running store/look/remove loops of one client per format, and from start offsets (busy loops, a dummy compression) that shift from round to round; a defect that needs a particular interleaving is found with a probability, not with certainty",
		"source stores of the provenance dimension are written by hand (raw bytes, or one frame made by the other implementation or by desync.Compress), never by the StoreChunk under test; a Chunk's internal state is not observable (unexported fields): 'storage-only' is inferred from SkipVerify of the source and no Data()/ID() call before storing",
		"the chunk server and its client of the http/put provenances are desync.NewHTTPHandler and desync.RemoteHTTP over a loopback httptest server (put with a body of the other implementation: request made in-process)",
	},
	Required: required(),
	Gen:      genCase,
	Run:      run,
	// a case that never returns is a verdict (confirmed by a replay in a fresh process), not a timeout of the run
	Watchdog: hx.Pick(120*time.Second, 300*time.Second),
}

func TestMain(m *testing.M) {
	if job := os.Getenv("VERIF_C20_CHILD"); job != "" {
		shortChild(job) // never returns
	}
	hx.Main(m)
}

func TestRegress(t *testing.T) { hx.Regress(t, spec) }
func TestKnown(t *testing.T)   { hx.Known(t, spec) }
func TestReplay(t *testing.T)  { hx.Replay(t, spec) }

// TestEnum: the full grid of store states for a list of lengths at and around the format's
// boundaries, every fill, both writer orders.
func TestEnum(t *testing.T) {
	lens := hx.Pick([]int{1, 256, blockSizeMax + 1, chunkMax},
		[]int{1, 2, 3, 255, 256, 257, 4096, blockSizeMax - 1, blockSizeMax, blockSizeMax + 1, chunkMax - 1, chunkMax, chunkMax + 1, chunkBig})
	k := 0
	for _, l := range lens {
		for _, fill := range []string{"zero", "rand", "text", "mixed"} {
			for _, cacnk := range []string{"absent", "oneshot", "stream", "corrupt"} {
				for _, raw := range []string{"absent", "valid", "corrupt"} {
					if cacnk == "absent" && raw == "absent" {
						continue
					}
					for _, mode := range []string{"compressed", "uncompressed"} {
						k++
						if k%hx.Shards() != hx.Shard() { // every shard takes its share of the grid
							continue
						}
						c := Case{Size: "enum", Fill: fill, Len: l, Seed: uint64(l)*977 + uint64(k), Mode: mode, Cacnk: cacnk, Raw: raw,
							Corrupt: []string{"otherdata", "garbage", "empty", "truncated"}[k%4],
							First:   []string{"compressed", "uncompressed"}[(k/2)%2], N: 1 + k%3, Repair: k%3 == 0, Keep: k%5 == 0}
						c.SkipU, c.SkipC = k%4 == 1, k%4 == 2 || k%8 == 5
						// every subset of the neighbours of a mixed prefix directory, walking through the grid
						for bi, nk := range neighbourKinds {
							if (k/3)>>bi&1 == 1 {
								c.Neighbours = append(c.Neighbours, nk)
							}
						}
						if !hx.Case(t, spec, c) {
							return
						}
					}
				}
			}
		}
	}
	// every provenance of the stored chunk, into both destination formats in both orders
	grid := provGrid()
	plens := hx.Pick([]int{1, 4096}, []int{1, 255, 4096, blockSizeMax + 1, chunkMax})
	pfills := hx.Pick([]string{"text", "rand"}, []string{"zero", "rand", "text", "mixed"})
	kp := 0
	for gi, p := range grid {
		for li, l := range plens {
			if !hx.Thorough() && li != gi%len(plens) {
				continue // quick: the lengths alternate over the grid
			}
			for _, mode := range []string{"compressed", "uncompressed"} {
				k++
				kp++
				if k%hx.Shards() != hx.Shard() {
					continue
				}
				// first writer: p into the format named by mode; second writer: for a fixed length
				// q walks through the whole grid as well, into the other format
				shift := li
				if !hx.Thorough() {
					shift = 0
				}
				q := grid[(gi+shift+1)%len(grid)]
				c := Case{Size: "enum-prov", Fill: pfills[(gi+li)%len(pfills)], Len: l, Seed: uint64(l)*977 + uint64(k), Mode: mode,
					Cacnk: []string{"oneshot", "stream"}[k%2], Raw: "valid", Corrupt: "otherdata",
					First: []string{"compressed", "uncompressed"}[(k/2)%2], N: 1 + k%3, Repair: k%3 == 0, Keep: k%5 == 0,
					Prov: [2]ProvSpec{p, q}}
				if !hx.Case(t, spec, c) {
					return
				}
			}
		}
	}
	if hx.Shard() == 0 {
		hx.AddNote("enum_cases", k)
		hx.AddNote("enum_provenance_cases", kp)
		hx.AddNote("provenance_grid", len(grid))
	}
	hx.Exhaustive("provenance grid of the stored chunk (kind x source/wire format x SkipVerify x touched) x destination format for the listed lengths")
	hx.Exhaustive("store-state grid {.cacnk: absent/one-shot/stream/corrupt} x {raw: absent/valid/corrupt} x fill x first writer for the listed boundary lengths")
}

// TestEnumStore: every leftover name x content x moment x first writer, and every kind of
// concurrent writers for a few lengths.
func TestEnumStore(t *testing.T) {
	k := 0
	for ni, name := range leftoverNames {
		for ci, content := range leftoverContents {
			for when := 0; when < 2; when++ {
				for _, mode := range []string{"compressed", "uncompressed"} {
					k++
					if k%hx.Shards() != hx.Shard() {
						continue
					}
					c := Case{Size: "enum-store", Fill: []string{"text", "rand", "zero"}[(ni+ci)%3], Len: []int{1, 700, 5000}[(ni+ci+when)%3], Seed: uint64(k) * 104729, Mode: mode,
						Cacnk: "oneshot", Raw: "valid", Corrupt: "otherdata", First: []string{"compressed", "uncompressed"}[k%2], N: 1 + k%3, Repair: k%2 == 0, Keep: k%3 == 0,
						Leftovers: []Leftover{{Name: name, Content: content, When: when}}}
					if !hx.Case(t, spec, c) {
						return
					}
				}
			}
		}
	}
	kc := 0
	for ki, kind := range concKinds {
		for li, l := range hx.Pick([]int{64, 512}, []int{16, 256, 512, 1024}) {
			for rep := 0; rep < hx.Pick(1, 6); rep++ {
				k++
				kc++
				if k%hx.Shards() != hx.Shard() {
					continue
				}
				c := Case{Size: "enum-store", Fill: []string{"rand", "text"}[(ki+li+rep)%2], Len: 100, Seed: uint64(k) * 15485863, Mode: "compressed",
					Cacnk: "absent", Raw: "valid", Corrupt: "otherdata", First: "compressed", N: 1, Keep: true,
					Conc: &ConcCase{Kind: kind, Rounds: hx.Pick(10, 120), LenKiB: l, Spin: 1 + 5*rep + li}}
				if !hx.Case(t, spec, c) {
					return
				}
			}
		}
	}
	// StoreChunk under every kind of file size limit, for both writer orders
	ks := 0
	for li, lim := range shortLimits {
		for _, mode := range []string{"compressed", "uncompressed"} {
			for si, l := range hx.Pick([]int{1, 5000}, []int{1, 300, 5000, blockSizeMax + 1, chunkMax}) {
				k++
				ks++
				if k%hx.Shards() != hx.Shard() {
					continue
				}
				c := Case{Size: "enum-store", Fill: []string{"text", "rand", "zero"}[(li+si)%3], Len: l, Seed: uint64(k) * 32452843, Mode: mode,
					Cacnk: "absent", Raw: "valid", Corrupt: "otherdata", First: "compressed", N: 1, Keep: true,
					Short: &ShortCase{Limit: lim, Delta: []int{1, 3, 64}[(li+si)%3]}}
				if !hx.Case(t, spec, c) {
					return
				}
			}
		}
	}
	if hx.Shard() == 0 {
		hx.AddNote("enum_short_write_cases", ks)
		hx.AddNote("enum_store_cases", k)
		hx.AddNote("enum_concurrent_cases", kc)
	}
	hx.Exhaustive("leftover grid (name x content x before which StoreChunk x first writer)")
}

// TestEnumCLI: every pair (spelling of the config key, spelling of the command-line argument)
// that can be used from one working directory; the command, the additional entry and what the
// entry says rotate over the pairs (thorough: every command for every pair).
func TestEnumCLI(t *testing.T) {
	if cliBin() == "" {
		t.Skip("no desync binary (VERIF_DESYNC_BIN), or not the default build")
	}
	extras := []string{"", "other", "sibling", "parent", "children", "wrongcwd", "dup"}
	cwds := []string{"work", "root", "store", "away"}
	i, k := 0, 0
	for _, ks := range spellings {
		for _, as := range spellings {
			if as.key || (ks.cwd != "" && as.cwd != "" && ks.cwd != as.cwd) {
				continue
			}
			i++
			for ci := range cliCmds {
				if !hx.Thorough() && ci != 0 {
					break
				}
				k++
				if k%hx.Shards() != hx.Shard() {
					continue
				}
				cl := CLICase{Cmd: cliCmds[(i+ci)%len(cliCmds)], Key: ks.id, Arg: as.id, Cwd: cwds[(i/3)%len(cwds)], KeyUnc: i%4 != 3, KeySkip: (i/7)%2 == 1,
					Extra: extras[(i/5+ci)%len(extras)], Pieces: 1 + i%3, SrcUnc: i%2 == 0}
				c := Case{Size: "enum-cli", Fill: []string{"text", "rand", "zero"}[i%3], Len: []int{3000, 1, 70000}[(i/2)%3], Seed: uint64(k) * 7919, Mode: "compressed",
					Cacnk: "oneshot", Raw: "valid", Corrupt: "otherdata", First: "compressed", N: 1 + k%3, Repair: k%2 == 0, Keep: true, CLI: &cl, CLIOnly: true}
				if !hx.Case(t, spec, c) {
					return
				}
			}
		}
	}
	if hx.Shard() == 0 {
		hx.AddNote("enum_cli_cases", k)
		hx.AddNote("enum_cli_spelling_pairs", i)
	}
	hx.Exhaustive("CLI: every feasible pair (config key spelling, command-line spelling) of one local store")
}

func TestProp(t *testing.T) { hx.Prop(t, spec) }
