package c20

import (
	"bytes"
	"fmt"
	"sort"
	"testing"

	"github.com/folbricht/desync"

	"verifharness/internal/gen"
)

func selfFail(t *testing.T, format string, a ...any) {
	t.Helper()
	fmt.Println("SELFTEST-FAILURE: C20: " + fmt.Sprintf(format, a...))
	t.Fatalf(format, a...)
}

// TestSelf validates the oracle pieces: the frame walker on frames of both libraries and on
// hand-made frames, the claim that the streaming frames carry no content size, the codecs
// against each other, and that desync really is built with the implementation this build
// configuration claims.
func TestSelf(t *testing.T) {
	inputs := map[string][]byte{
		"one":      {0x42},
		"zero-1k":  make([]byte, 1000),
		"zero-1M":  make([]byte, chunkBig),
		"rand-1k":  gen.RandBytes(1000, 1),
		"rand-max": gen.RandBytes(chunkMax, 2),
		"text-3":   textBytes(3, 3),
		"text-5k":  textBytes(5000, 3),
		"text-max": textBytes(chunkMax, 4),
		"mixed-1M": mixedBytes(chunkBig, 5),
		"block+1":  textBytes(blockSizeMax+1, 6),
	}
	codecs := []codec{libzstdCodec{}, klauspostCodec{}}
	type made struct {
		name  string
		frame []byte
		data  []byte
	}
	var frames []made
	var names []string
	for name := range inputs {
		names = append(names, name)
	}
	sort.Strings(names)
	for _, name := range names {
		data := inputs[name]
		for _, cd := range codecs {
			frames = append(frames,
				made{name + "/" + cd.Name() + "/oneshot", cd.Compress(data), data},
				made{name + "/" + cd.Name() + "/stream", cd.CompressStream(data), data})
		}
		f, err := desync.Compress(data)
		if err != nil {
			selfFail(t, "desync.Compress(%s): %v", name, err)
		}
		frames = append(frames, made{name + "/desync", f, data})
	}
	sawCompressed, sawRaw, sawRLE, sawMulti, sawChecksum := false, false, false, false, false
	for _, m := range frames {
		fi, err := walkFrame(m.frame)
		if err != nil {
			selfFail(t, "walker rejects %s: %v (%s)", m.name, err, short(m.frame))
		}
		if fi.End != len(m.frame) {
			selfFail(t, "walker consumed %d of %d bytes of %s", fi.End, len(m.frame), m.name)
		}
		if fi.HasFCS && fi.FCS != uint64(len(m.data)) {
			selfFail(t, "%s: walker reads content size %d, data has %d", m.name, fi.FCS, len(m.data))
		}
		if fi.Compressed == 0 && fi.KnownRegen != uint64(len(m.data)) {
			selfFail(t, "%s: raw/rle blocks regenerate %d bytes, data has %d", m.name, fi.KnownRegen, len(m.data))
		}
		stream := bytes.HasSuffix([]byte(m.name), []byte("/stream"))
		if stream && fi.HasFCS {
			selfFail(t, "%s: streaming frame carries a content size; it does not model casync's writer", m.name)
		}
		// (klauspost omits the field for contents below 256 bytes, which the format allows)
		if !stream && !fi.HasFCS && len(m.data) >= 256 {
			selfFail(t, "%s: one-shot frame without content size", m.name)
		}
		sawCompressed = sawCompressed || fi.Compressed > 0
		sawRaw = sawRaw || fi.Raw > fi.EmptyBlocks
		sawRLE = sawRLE || fi.RLE > 0
		sawMulti = sawMulti || fi.Blocks > 1
		sawChecksum = sawChecksum || fi.HasChecksum
		// every codec decodes every frame
		for _, cd := range codecs {
			dec, err := cd.Decompress(m.frame)
			if err != nil || !bytes.Equal(dec, m.data) {
				selfFail(t, "%s does not decode %s: err=%v", cd.Name(), m.name, err)
			}
		}
		// rejections built from accepted frames
		if _, err := walkFrame(append(append([]byte(nil), m.frame...), m.frame...)); err == nil || err.(*frameErr).Reason != "second-frame" {
			selfFail(t, "%s twice: walker says %v, want second-frame", m.name, err)
		}
		if _, err := walkFrame(append(append([]byte(nil), m.frame...), 0)); err == nil || err.(*frameErr).Reason != "trailing-bytes" {
			selfFail(t, "%s + one byte: walker says %v, want trailing-bytes", m.name, err)
		}
		skip := []byte{0x50, 0x2A, 0x4D, 0x18, 3, 0, 0, 0, 'a', 'b', 'c'}
		if _, err := walkFrame(append(append([]byte(nil), skip...), m.frame...)); err == nil || err.(*frameErr).Reason != "skippable-frame" {
			selfFail(t, "skippable + %s: walker says %v, want skippable-frame", m.name, err)
		}
		if _, err := walkFrame(append(append([]byte(nil), m.frame...), skip...)); err == nil || err.(*frameErr).Reason != "skippable-frame" {
			selfFail(t, "%s + skippable: walker says %v, want skippable-frame", m.name, err)
		}
		for _, cutAt := range []int{0, 3, 4, 5, len(m.frame) / 2, len(m.frame) - 1} {
			if cutAt >= len(m.frame) {
				continue
			}
			if _, err := walkFrame(m.frame[:cutAt]); err == nil {
				selfFail(t, "%s cut to %d bytes: walker accepts", m.name, cutAt)
			}
		}
		// the libraries themselves accept the concatenation: that is why the walker exists
	}
	if !sawCompressed || !sawRaw || !sawRLE || !sawMulti || !sawChecksum {
		selfFail(t, "library frames do not cover all block kinds: compressed=%v raw=%v rle=%v multi=%v checksum=%v", sawCompressed, sawRaw, sawRLE, sawMulti, sawChecksum)
	}
	for _, cd := range codecs {
		two := append(cd.Compress([]byte("ab")), cd.Compress([]byte("cd"))...)
		if dec, err := cd.Decompress(two); err != nil || string(dec) != "abcd" {
			t.Logf("note: %s does not decode two concatenated frames (%v)", cd.Name(), err)
		}
	}

	// hand-made frames
	hand := []struct {
		name   string
		b      []byte
		reason string // "" = accept
	}{
		{"raw 1 byte, single segment", []byte{0x28, 0xB5, 0x2F, 0xFD, 0x20, 0x01, 0x09, 0x00, 0x00, 'x'}, ""},
		{"rle 5 bytes, single segment", []byte{0x28, 0xB5, 0x2F, 0xFD, 0x20, 0x05, 0x2B, 0x00, 0x00, 'x'}, ""},
		{"raw 1 byte + checksum", []byte{0x28, 0xB5, 0x2F, 0xFD, 0x24, 0x01, 0x09, 0x00, 0x00, 'x', 1, 2, 3, 4}, ""},
		{"checksum missing", []byte{0x28, 0xB5, 0x2F, 0xFD, 0x24, 0x01, 0x09, 0x00, 0x00, 'x', 1, 2, 3}, "truncated"},
		{"window descriptor, two raw blocks", []byte{0x28, 0xB5, 0x2F, 0xFD, 0x00, 0x00, 0x08, 0x00, 0x00, 'x', 0x09, 0x00, 0x00, 'y'}, ""},
		{"no last block", []byte{0x28, 0xB5, 0x2F, 0xFD, 0x00, 0x00, 0x08, 0x00, 0x00, 'x'}, "truncated"},
		{"reserved block type", []byte{0x28, 0xB5, 0x2F, 0xFD, 0x20, 0x01, 0x0F, 0x00, 0x00, 'x'}, "reserved-block-type"},
		{"reserved header bit", []byte{0x28, 0xB5, 0x2F, 0xFD, 0x28, 0x01, 0x09, 0x00, 0x00, 'x'}, "reserved-bit"},
		{"dictionary id", []byte{0x28, 0xB5, 0x2F, 0xFD, 0x21, 0x07, 0x01, 0x09, 0x00, 0x00, 'x'}, "dictionary-id"},
		{"block larger than window", []byte{0x28, 0xB5, 0x2F, 0xFD, 0x20, 0x01, 0x11, 0x00, 0x00, 'x', 'y'}, "block-too-large"},
		{"wrong magic", []byte{0x28, 0xB5, 0x2F, 0xFE, 0x20, 0x01, 0x09, 0x00, 0x00, 'x'}, "magic"},
		{"legacy v0.7 magic", []byte{0x27, 0xB5, 0x2F, 0xFD, 0x20, 0x01, 0x09, 0x00, 0x00, 'x'}, "magic"},
		{"skippable only", []byte{0x5F, 0x2A, 0x4D, 0x18, 0, 0, 0, 0}, "skippable-frame"},
		{"empty", nil, "empty"},
		{"2-byte content size field", []byte{0x28, 0xB5, 0x2F, 0xFD, 0x60, 0x00, 0x00, 0x09, 0x00, 0x00, 'x'}, ""},
	}
	for _, h := range hand {
		fi, err := walkFrame(h.b)
		switch {
		case h.reason == "" && err != nil:
			selfFail(t, "hand-made frame %q rejected: %v", h.name, err)
		case h.reason != "" && err == nil:
			selfFail(t, "hand-made frame %q accepted, want %s", h.name, h.reason)
		case h.reason != "" && err.(*frameErr).Reason != h.reason:
			selfFail(t, "hand-made frame %q: %v, want %s", h.name, err, h.reason)
		}
		if h.name == "2-byte content size field" && fi.FCS != 256 {
			selfFail(t, "2-byte content size field decodes to %d, want 256", fi.FCS)
		}
	}
	// the first two hand-made frames are real: the libraries decode them
	for _, cd := range codecs {
		if dec, err := cd.Decompress(hand[0].b); err != nil || string(dec) != "x" {
			selfFail(t, "%s does not decode the hand-made raw frame: %v", cd.Name(), err)
		}
		if dec, err := cd.Decompress(hand[1].b); err != nil || string(dec) != "xxxxx" {
			selfFail(t, "%s does not decode the hand-made rle frame: %v", cd.Name(), err)
		}
	}

	// desync is built with the implementation this configuration claims
	probe := textBytes(20000, 99)
	// (discriminator that does not depend on encoder determinism: klauspost's EncodeAll adds a
	// content checksum by default, libzstd's one-shot API does not)
	dz, _ := desync.Compress(probe)
	dfi, err := walkFrame(dz)
	sfi, _ := walkFrame(same.Compress(probe))
	ofi, _ := walkFrame(other.Compress(probe))
	if err != nil || sfi.HasChecksum == ofi.HasChecksum {
		selfFail(t, "cannot tell the implementations apart by their frames (%v)", err)
	}
	if dfi.HasChecksum != sfi.HasChecksum {
		selfFail(t, "desync.Compress does not look like %s's output: the build tags did not select the expected implementation (build %s)", same.Name(), buildName)
	}

	// the run function flags broken layouts: feed the walker-side signatures through a fake file
	if c := content(Case{Fill: "text", Len: 10, Seed: 1}); len(c) != 10 {
		selfFail(t, "content length %d, want 10", len(c))
	}
	for _, fill := range []string{"zero", "rand", "text", "mixed"} {
		for _, l := range []int{1, 2, 3, 100, 4097, chunkBig} {
			if got := len(content(Case{Fill: fill, Len: l, Seed: 7})); got != l {
				selfFail(t, "content(%s,%d) has %d bytes", fill, l, got)
			}
		}
	}
}
