package c20

import (
	"bytes"
	"crypto/sha512"
	"encoding/hex"
	"fmt"
	"sort"
	"strings"
	"testing"

	"github.com/folbricht/desync"

	"verifharness/internal/gen"
	"verifharness/internal/hx"
)

func selfFail(t *testing.T, format string, a ...any) {
	t.Helper()
	fmt.Println("SELFTEST-FAILURE: C20: " + fmt.Sprintf(format, a...))
	t.Fatalf(format, a...)
}

// TestSelf validates the oracle pieces: the frame walker on frames of both libraries and on
// hand-made frames, the claim that the streaming frames carry no content size, the codecs
// against each other, and that desync really is built with the implementation this build
// configuration claims.
func TestSelf(t *testing.T) {
	inputs := map[string][]byte{
		"one":      {0x42},
		"zero-1k":  make([]byte, 1000),
		"zero-1M":  make([]byte, chunkBig),
		"rand-1k":  gen.RandBytes(1000, 1),
		"rand-max": gen.RandBytes(chunkMax, 2),
		"text-3":   textBytes(3, 3),
		"text-5k":  textBytes(5000, 3),
		"text-max": textBytes(chunkMax, 4),
		"mixed-1M": mixedBytes(chunkBig, 5),
		"block+1":  textBytes(blockSizeMax+1, 6),
	}
	codecs := []codec{libzstdCodec{}, klauspostCodec{}}
	type made struct {
		name  string
		frame []byte
		data  []byte
	}
	var frames []made
	var names []string
	for name := range inputs {
		names = append(names, name)
	}
	sort.Strings(names)
	for _, name := range names {
		data := inputs[name]
		for _, cd := range codecs {
			frames = append(frames,
				made{name + "/" + cd.Name() + "/oneshot", cd.Compress(data), data},
				made{name + "/" + cd.Name() + "/stream", cd.CompressStream(data), data})
		}
		f, err := desync.Compress(data)
		if err != nil {
			selfFail(t, "desync.Compress(%s): %v", name, err)
		}
		frames = append(frames, made{name + "/desync", f, data})
	}
	sawCompressed, sawRaw, sawRLE, sawMulti, sawChecksum := false, false, false, false, false
	for _, m := range frames {
		fi, err := walkFrame(m.frame)
		if err != nil {
			selfFail(t, "walker rejects %s: %v (%s)", m.name, err, short(m.frame))
		}
		if fi.End != len(m.frame) {
			selfFail(t, "walker consumed %d of %d bytes of %s", fi.End, len(m.frame), m.name)
		}
		if fi.HasFCS && fi.FCS != uint64(len(m.data)) {
			selfFail(t, "%s: walker reads content size %d, data has %d", m.name, fi.FCS, len(m.data))
		}
		if fi.Compressed == 0 && fi.KnownRegen != uint64(len(m.data)) {
			selfFail(t, "%s: raw/rle blocks regenerate %d bytes, data has %d", m.name, fi.KnownRegen, len(m.data))
		}
		stream := bytes.HasSuffix([]byte(m.name), []byte("/stream"))
		if stream && fi.HasFCS {
			selfFail(t, "%s: streaming frame carries a content size; it does not model casync's writer", m.name)
		}
		// (klauspost omits the field for contents below 256 bytes, which the format allows)
		if !stream && !fi.HasFCS && len(m.data) >= 256 {
			selfFail(t, "%s: one-shot frame without content size", m.name)
		}
		sawCompressed = sawCompressed || fi.Compressed > 0
		sawRaw = sawRaw || fi.Raw > fi.EmptyBlocks
		sawRLE = sawRLE || fi.RLE > 0
		sawMulti = sawMulti || fi.Blocks > 1
		sawChecksum = sawChecksum || fi.HasChecksum
		// every codec decodes every frame
		for _, cd := range codecs {
			dec, err := cd.Decompress(m.frame)
			if err != nil || !bytes.Equal(dec, m.data) {
				selfFail(t, "%s does not decode %s: err=%v", cd.Name(), m.name, err)
			}
		}
		// rejections built from accepted frames
		if _, err := walkFrame(append(append([]byte(nil), m.frame...), m.frame...)); err == nil || err.(*frameErr).Reason != "second-frame" {
			selfFail(t, "%s twice: walker says %v, want second-frame", m.name, err)
		}
		if _, err := walkFrame(append(append([]byte(nil), m.frame...), 0)); err == nil || err.(*frameErr).Reason != "trailing-bytes" {
			selfFail(t, "%s + one byte: walker says %v, want trailing-bytes", m.name, err)
		}
		skip := []byte{0x50, 0x2A, 0x4D, 0x18, 3, 0, 0, 0, 'a', 'b', 'c'}
		if _, err := walkFrame(append(append([]byte(nil), skip...), m.frame...)); err == nil || err.(*frameErr).Reason != "skippable-frame" {
			selfFail(t, "skippable + %s: walker says %v, want skippable-frame", m.name, err)
		}
		if _, err := walkFrame(append(append([]byte(nil), m.frame...), skip...)); err == nil || err.(*frameErr).Reason != "skippable-frame" {
			selfFail(t, "%s + skippable: walker says %v, want skippable-frame", m.name, err)
		}
		for _, cutAt := range []int{0, 3, 4, 5, len(m.frame) / 2, len(m.frame) - 1} {
			if cutAt >= len(m.frame) {
				continue
			}
			if _, err := walkFrame(m.frame[:cutAt]); err == nil {
				selfFail(t, "%s cut to %d bytes: walker accepts", m.name, cutAt)
			}
		}
		// the libraries themselves accept the concatenation: that is why the walker exists
	}
	if !sawCompressed || !sawRaw || !sawRLE || !sawMulti || !sawChecksum {
		selfFail(t, "library frames do not cover all block kinds: compressed=%v raw=%v rle=%v multi=%v checksum=%v", sawCompressed, sawRaw, sawRLE, sawMulti, sawChecksum)
	}
	for _, cd := range codecs {
		two := append(cd.Compress([]byte("ab")), cd.Compress([]byte("cd"))...)
		if dec, err := cd.Decompress(two); err != nil || string(dec) != "abcd" {
			t.Logf("note: %s does not decode two concatenated frames (%v)", cd.Name(), err)
		}
	}

	// hand-made frames
	hand := []struct {
		name   string
		b      []byte
		reason string // "" = accept
	}{
		{"raw 1 byte, single segment", []byte{0x28, 0xB5, 0x2F, 0xFD, 0x20, 0x01, 0x09, 0x00, 0x00, 'x'}, ""},
		{"rle 5 bytes, single segment", []byte{0x28, 0xB5, 0x2F, 0xFD, 0x20, 0x05, 0x2B, 0x00, 0x00, 'x'}, ""},
		{"raw 1 byte + checksum", []byte{0x28, 0xB5, 0x2F, 0xFD, 0x24, 0x01, 0x09, 0x00, 0x00, 'x', 1, 2, 3, 4}, ""},
		{"checksum missing", []byte{0x28, 0xB5, 0x2F, 0xFD, 0x24, 0x01, 0x09, 0x00, 0x00, 'x', 1, 2, 3}, "truncated"},
		{"window descriptor, two raw blocks", []byte{0x28, 0xB5, 0x2F, 0xFD, 0x00, 0x00, 0x08, 0x00, 0x00, 'x', 0x09, 0x00, 0x00, 'y'}, ""},
		{"no last block", []byte{0x28, 0xB5, 0x2F, 0xFD, 0x00, 0x00, 0x08, 0x00, 0x00, 'x'}, "truncated"},
		{"reserved block type", []byte{0x28, 0xB5, 0x2F, 0xFD, 0x20, 0x01, 0x0F, 0x00, 0x00, 'x'}, "reserved-block-type"},
		{"reserved header bit", []byte{0x28, 0xB5, 0x2F, 0xFD, 0x28, 0x01, 0x09, 0x00, 0x00, 'x'}, "reserved-bit"},
		{"dictionary id", []byte{0x28, 0xB5, 0x2F, 0xFD, 0x21, 0x07, 0x01, 0x09, 0x00, 0x00, 'x'}, "dictionary-id"},
		{"block larger than window", []byte{0x28, 0xB5, 0x2F, 0xFD, 0x20, 0x01, 0x11, 0x00, 0x00, 'x', 'y'}, "block-too-large"},
		{"wrong magic", []byte{0x28, 0xB5, 0x2F, 0xFE, 0x20, 0x01, 0x09, 0x00, 0x00, 'x'}, "magic"},
		{"legacy v0.7 magic", []byte{0x27, 0xB5, 0x2F, 0xFD, 0x20, 0x01, 0x09, 0x00, 0x00, 'x'}, "magic"},
		{"skippable only", []byte{0x5F, 0x2A, 0x4D, 0x18, 0, 0, 0, 0}, "skippable-frame"},
		{"empty", nil, "empty"},
		{"2-byte content size field", []byte{0x28, 0xB5, 0x2F, 0xFD, 0x60, 0x00, 0x00, 0x09, 0x00, 0x00, 'x'}, ""},
	}
	for _, h := range hand {
		fi, err := walkFrame(h.b)
		switch {
		case h.reason == "" && err != nil:
			selfFail(t, "hand-made frame %q rejected: %v", h.name, err)
		case h.reason != "" && err == nil:
			selfFail(t, "hand-made frame %q accepted, want %s", h.name, h.reason)
		case h.reason != "" && err.(*frameErr).Reason != h.reason:
			selfFail(t, "hand-made frame %q: %v, want %s", h.name, err, h.reason)
		}
		if h.name == "2-byte content size field" && fi.FCS != 256 {
			selfFail(t, "2-byte content size field decodes to %d, want 256", fi.FCS)
		}
	}
	// the first two hand-made frames are real: the libraries decode them
	for _, cd := range codecs {
		if dec, err := cd.Decompress(hand[0].b); err != nil || string(dec) != "x" {
			selfFail(t, "%s does not decode the hand-made raw frame: %v", cd.Name(), err)
		}
		if dec, err := cd.Decompress(hand[1].b); err != nil || string(dec) != "xxxxx" {
			selfFail(t, "%s does not decode the hand-made rle frame: %v", cd.Name(), err)
		}
	}

	// desync is built with the implementation this configuration claims
	probe := textBytes(20000, 99)
	// (discriminator that does not depend on encoder determinism: klauspost's EncodeAll adds a
	// content checksum by default, libzstd's one-shot API does not)
	dz, _ := desync.Compress(probe)
	dfi, err := walkFrame(dz)
	sfi, _ := walkFrame(same.Compress(probe))
	ofi, _ := walkFrame(other.Compress(probe))
	if err != nil || sfi.HasChecksum == ofi.HasChecksum {
		selfFail(t, "cannot tell the implementations apart by their frames (%v)", err)
	}
	if dfi.HasChecksum != sfi.HasChecksum {
		selfFail(t, "desync.Compress does not look like %s's output: the build tags did not select the expected implementation (build %s)", same.Name(), buildName)
	}

	selfJudge(t)
	selfProv(t)
	selfCLIRule(t)
	selfStore(t)
	selfMixedShort(t)

	if c := content(Case{Fill: "text", Len: 10, Seed: 1}); len(c) != 10 {
		selfFail(t, "content length %d, want 10", len(c))
	}
	for _, fill := range []string{"zero", "rand", "text", "mixed"} {
		for _, l := range []int{1, 2, 3, 100, 4097, chunkBig} {
			if got := len(content(Case{Fill: fill, Len: l, Seed: 7})); got != l {
				selfFail(t, "content(%s,%d) has %d bytes", fill, l, got)
			}
		}
	}
}

// selfJudge feeds the layout oracle with hand-made before/after pictures of a store directory:
// the two correct ones, and the ways a StoreChunk can get the layout wrong (among them what a
// pass-through of a foreign storage representation produces: a zstd frame in the suffix-less
// file, raw bytes in the .cacnk file).
func selfJudge(t *testing.T) {
	data := textBytes(5000, 11)
	sum := sha512.Sum512_256(data)
	sid := hex.EncodeToString(sum[:])
	frame := same.Compress(data)
	raw, cacnk := sid[:4]+"/"+sid, sid[:4]+"/"+sid+".cacnk"
	pic := func(dir string, files map[string][]byte) snap {
		s := snap{files: files}
		if dir != "" {
			s.dirs = []string{dir}
		}
		return s
	}
	tests := []struct {
		name          string
		unc           bool
		before, after snap
		want          []string
		ok, frame     bool
	}{
		{"raw file", true, pic("", nil), pic(sid[:4], map[string][]byte{raw: data}), nil, true, false},
		{"one frame", false, pic("", nil), pic(sid[:4], map[string][]byte{cacnk: frame}), nil, true, true},
		{"second format added", true, pic(sid[:4], map[string][]byte{cacnk: frame}), pic(sid[:4], map[string][]byte{cacnk: frame, raw: data}), nil, true, false},
		{"zstd frame in the suffix-less file", true, pic("", nil), pic(sid[:4], map[string][]byte{raw: frame}), []string{"C20:layout:raw-bytes"}, true, false},
		{"raw bytes in the .cacnk file", false, pic("", nil), pic(sid[:4], map[string][]byte{cacnk: data}), []string{"C20:layout:bad-frame:magic", "C20:decode:other-impl-fails"}, true, false},
		{"two frames", false, pic(sid[:4], map[string][]byte{raw: data}), pic(sid[:4], map[string][]byte{raw: data, cacnk: append(append([]byte(nil), frame...), frame...)}), []string{"C20:layout:not-single-frame", "C20:decode:other-impl-differs"}, true, false}, // the libraries decode both frames
		{"frame of other data", false, pic("", nil), pic(sid[:4], map[string][]byte{cacnk: same.Compress(data[1:])}), []string{"C20:layout:frame-content-size", "C20:decode:other-impl-differs"}, true, true},
		{"swapped suffix", true, pic("", nil), pic(sid[:4], map[string][]byte{cacnk: data}), []string{"C20:layout:path"}, false, false},
		{"two-digit directory", true, pic("", nil), pic(sid[:2], map[string][]byte{sid[:2] + "/" + sid: data}), []string{"C20:layout:path"}, false, false},
		{"second directory", true, pic("", nil), snap{files: map[string][]byte{raw: data}, dirs: []string{sid[:4], "tmp"}}, []string{"C20:layout:dir"}, true, false},
		{"temporary file left", true, pic("", nil), pic(sid[:4], map[string][]byte{raw: data, sid[:4] + "/.tmp-cacnk1": data}), []string{"C20:layout:file-count"}, true, false},
		{"nothing stored", true, pic("", nil), pic("", map[string][]byte{}), []string{"C20:layout:file-count", "C20:layout:path"}, false, false},
		{"other format rewritten", true, pic(sid[:4], map[string][]byte{cacnk: frame}), pic(sid[:4], map[string][]byte{cacnk: data, raw: data}), []string{"C20:coexist:file-modified"}, true, false},
		{"other format removed", true, pic(sid[:4], map[string][]byte{cacnk: frame}), pic(sid[:4], map[string][]byte{raw: data}), []string{"C20:coexist:store-removed-other-format"}, true, false},
	}
	for _, tc := range tests {
		var o hx.Outcome
		m := newModel("self-test", sid, desync.ChunkID(sum), data)
		if tc.before.files == nil {
			tc.before.files = map[string][]byte{}
		}
		ok, fi, _ := judgeStore(&o, m, tc.before, tc.after, tc.unc, data, "text", "self-test")
		var got []string
		for _, v := range o.Violations {
			got = append(got, v.Sig)
		}
		want := append([]string(nil), tc.want...)
		sort.Strings(got)
		sort.Strings(want)
		if fmt.Sprint(got) != fmt.Sprint(want) {
			selfFail(t, "layout oracle on %q: signatures %v, want %v", tc.name, got, want)
		}
		if ok != tc.ok || (fi != nil) != tc.frame {
			selfFail(t, "layout oracle on %q: ok=%v frame=%v, want ok=%v frame=%v", tc.name, ok, fi != nil, tc.ok, tc.frame)
		}
		if ok && m.state[tc.unc] != valid {
			selfFail(t, "layout oracle on %q: the model does not know the stored file", tc.name)
		}
	}
}

// selfProv: the provenance grid is what the rule says, labels are stable under norm, and every
// required class can be produced (otherwise the driver could never be satisfied).
func selfProv(t *testing.T) {
	grid := provGrid()
	// plain 2, withid 4, local/cache/copy 16 each, http 64, put 8
	if len(grid) != 2+4+3*16+64+8 {
		selfFail(t, "provenance grid has %d entries", len(grid))
	}
	keys := map[string]bool{}
	classes := map[string]bool{}
	lazyOpp := 0
	for _, p := range grid {
		if p.norm() != p {
			selfFail(t, "norm is not idempotent on %+v", p)
		}
		if keys[p.key()] {
			selfFail(t, "two grid entries share the key %s", p.key())
		}
		keys[p.key()] = true
		for _, unc := range []bool{false, true} {
			for _, c := range p.classes(unc) {
				classes[c] = true
			}
		}
		if p.lazy() && p.rel() == "opposite" {
			lazyOpp++
		}
	}
	if lazyOpp == 0 {
		selfFail(t, "no grid entry is a storage-only chunk of the opposite format")
	}
	for _, r := range provRequired() {
		if !classes[r] {
			selfFail(t, "required class %q cannot be produced by any provenance", r)
		}
	}
	if (ProvSpec{}).norm().label() != "prov:plain-lazy" {
		selfFail(t, "the zero provenance (old replay files) is %s, want prov:plain-lazy", (ProvSpec{}).norm().label())
	}
	weird := ProvSpec{Kind: "nonsense", Src: "x", Wire: "y", SkipVerify: true, SrvSkipVerify: true, Touch: true, Frame: "z"}.norm()
	if weird != (ProvSpec{Kind: "plain", Touch: true}) {
		selfFail(t, "norm of a nonsense spec: %+v", weird)
	}
}

// selfCLIRule: the lexical model of the documented matching rule reproduces the path rows of
// desync's own table (cmd/desync/location_test.go), every spelling of the store matches every
// other one (apart from the symbolic link), and the keys that name something else match nothing.
func selfCLIRule(t *testing.T) {
	yes := [][2]string{
		{"/path", "/path/../path"}, {"//path", "//path"}, {"//path", "/path"}, {"./path", "./path"}, {"path", "path/"}, {"path/..", "."},
		{"/path*", "/path/../path"}, {"/path*", "/path_1"}, {"/path/*", "/path/to"}, {"/path/*", "/path/to/"}, {"/path/*/", "/path/to/"}, {"/path/*/", "/path/to"},
		{"/path/to/../*", "/path/another"}, {"/*", "/path"}, {"*", "path"}, {"/pat?", "/path"}, {"/pat?/?", "/path/1"}, {"path/*", "path/to"}, {"path/?", "path/1"}, {"?", "a"},
	}
	no := [][2]string{
		{"/path", "path"}, {"/path/to", "path/to"}, {"/path/to", "/path/to/.."},
		{"/path*", "/dir"}, {"/path*", "path"}, {"/path*", "/path/to"}, {"/path/*", "/path"}, {"/path/to/../*", "/path/to/another"}, {"/pat?", "/pat"}, {"/pat?", "/dir"},
	}
	for _, r := range yes {
		if !ruleMatch(r[0], r[1], "/some/cwd") {
			selfFail(t, "matching rule: %q must match %q", r[0], r[1])
		}
	}
	for _, r := range no {
		if ruleMatch(r[0], r[1], "/some/cwd") {
			selfFail(t, "matching rule: %q must not match %q", r[0], r[1])
		}
	}
	l := cliLayout{root: "/r", work: "/r/work", store: "/r/work/st"}
	cwds := map[string]string{"work": l.work, "root": l.root, "store": l.store, "away": "/r/away"}
	pairs := 0
	for _, ks := range spellings {
		for _, as := range spellings {
			if as.key {
				continue
			}
			for name, cwd := range cwds {
				if (ks.cwd != "" && ks.cwd != name) || (as.cwd != "" && as.cwd != name) {
					continue
				}
				pairs++
				key, arg := ks.text(l), as.text(l)
				got := ks.id != "none" && ruleMatch(key, arg, cwd)
				want := ks.id != "none" && !strings.HasPrefix(ks.id, "miss-")
				sym := strings.Contains(key, "lnk") != strings.Contains(arg, "lnk")
				if sym && isGlob(key) {
					continue // a pattern may match the name of the link as well
				}
				if sym {
					want = false // not resolved
					if ks.id != "none" && !strings.HasPrefix(ks.id, "miss-") && !ruleMatch(throughLink(key), throughLink(arg), cwd) {
						selfFail(t, "spellings %s / %s (cwd %s) do not match once the link is resolved", ks.id, as.id, name)
					}
				}
				if got != want {
					selfFail(t, "spellings key %s=%q / argument %s=%q (cwd %s): rule says %v, want %v", ks.id, key, as.id, arg, cwd, got, want)
				}
			}
		}
	}
	if pairs < 300 {
		selfFail(t, "only %d spelling pairs", pairs)
	}
	n := CLICase{Cmd: "x", Key: "rel-deep", Arg: "rel"}.norm()
	if n.Cmd != "chop" || n.Arg != "abs" || n.Cwd != "root" {
		selfFail(t, "norm of a CLI case with conflicting working directories: %+v", n)
	}
	if n.norm() != n {
		selfFail(t, "CLI norm is not idempotent")
	}
}

// selfStore: leftovers are what the rule says (names desync's Prune recognises as temporary,
// inside the chunk's prefix directory, never one of the two chunk names), the picture filter
// hides exactly the planted files, and the required classes can be produced.
func selfStore(t *testing.T) {
	data := textBytes(999, 5)
	sid := sumID(data)
	classes := map[string]bool{"store:leftover:none": true}
	names := map[string]bool{}
	for _, n := range leftoverNames {
		for _, c := range leftoverContents {
			for when := 0; when < 2; when++ {
				l := Leftover{Name: n, Content: c, When: when}
				if l.norm() != l {
					selfFail(t, "leftover norm changes %+v", l)
				}
				fn := l.fileName(sid, 12345)
				if !strings.HasPrefix(fn, ".tmp-cacnk") || strings.Contains(fn, "/") || fn == sid || fn == sid+".cacnk" {
					selfFail(t, "leftover %+v has the name %q", l, fn)
				}
				if l.sameID() != strings.Contains(fn, sid) {
					selfFail(t, "leftover %+v: name %q and sameID()=%v disagree", l, fn, l.sameID())
				}
				names[fn] = true
				b := l.bytes(data)
				if (c == "empty") != (len(b) == 0) || (strings.HasPrefix(c, "partial") && len(b) >= len(data)) {
					selfFail(t, "leftover %+v has %d bytes", l, len(b))
				}
				for _, cl := range l.classes() {
					classes[cl] = true
				}
			}
		}
	}
	if len(names) != len(leftoverNames) {
		selfFail(t, "%d distinct leftover names for %d kinds", len(names), len(leftoverNames))
	}
	for _, k := range concKinds {
		classes["store:concurrent-same-id:"+k] = true
	}
	classes["store:concurrent-same-id:two-formats-at-once"], classes["store:concurrent-same-id:same-format"] = true, true
	for _, r := range storeRequired() {
		if !classes[r] {
			selfFail(t, "required class %q cannot be produced", r)
		}
	}
	pic := snap{files: map[string][]byte{"ab/x": {1}, "ab/.tmp-cacnk.1": {2}}, dirs: []string{"ab"}}
	if got := pic.without(map[string]bool{"ab/.tmp-cacnk.1": true}); len(got.files) != 1 || got.files["ab/x"] == nil || len(pic.files) != 2 {
		selfFail(t, "picture filter: %v", got.names())
	}
	if (Leftover{Name: "?", Content: "?", When: 7}).norm() != (Leftover{Name: "id", Content: "empty"}) {
		selfFail(t, "norm of a nonsense leftover")
	}
	if cc := (ConcCase{Kind: "?", Rounds: -1, LenKiB: 1 << 20, Spin: -3}).norm(); cc != (ConcCase{Kind: "both-formats", Rounds: 1, LenKiB: 1024}) {
		selfFail(t, "norm of a nonsense concurrent case: %+v", cc)
	}
	// the object check tells the three outcomes apart
	dir := t.TempDir()
	if p, _ := objectOK(dir, sid, true, data, true); p != "nil-but-no-object" {
		selfFail(t, "object check on an empty directory: %q", p)
	}
	mustWrite(dir+"/"+sid[:4]+"/"+sid, data)
	mustWrite(dir+"/"+sid[:4]+"/"+sid+".cacnk", data)
	if p, _ := objectOK(dir, sid, true, data, true); p != "" {
		selfFail(t, "object check on a correct raw file: %q", p)
	}
	if p, _ := objectOK(dir, sid, false, data, true); p != "bad-object" {
		selfFail(t, "object check on raw bytes in the .cacnk file: %q", p)
	}
	mustWrite(dir+"/"+sid[:4]+"/"+sid+".cacnk", same.Compress(data))
	if p, _ := objectOK(dir, sid, false, data, true); p != "" {
		selfFail(t, "object check on a correct .cacnk file: %q", p)
	}
}

// selfMixedShort: the limits of the short-write part are where their names say; the planted
// neighbours of a mixed directory sort as the rule text claims, and the neighbours' part of the
// verify oracle tells reported from missed and repaired from left.
func selfMixedShort(t *testing.T) {
	want := map[string]int{"zero": 0, "half-raw": 500, "below-raw": 993, "at-raw": 1000, "above-raw": 1007, "half-frame": 50, "below-frame": 93, "at-frame": 100, "above-frame": 107}
	for _, l := range shortLimits {
		if got := (ShortCase{Limit: l, Delta: 7}).norm().limit(1000, 100); got != want[l] {
			selfFail(t, "limit %s for sizes 1000/100, delta 7: %d, want %d", l, got, want[l])
		}
	}
	if (ShortCase{Limit: "below-raw", Delta: 50}).limit(3, 20) != 0 {
		selfFail(t, "a limit below zero is not clamped")
	}
	data := textBytes(300, 9)
	sid := sumID(data)
	dir := t.TempDir()
	m := newModel("self-test", sid, chunkIDOf(data), data)
	m.state[false], m.state[true] = valid, valid
	m.plantNeighbours(dir, []string{"junk", "hi", "tmp", "lo", "nonsense"}, 3, true)
	if len(m.nbr) != 6 {
		selfFail(t, "%d neighbours planted, want 6", len(m.nbr))
	}
	names := []string{m.path[false], m.path[true]}
	for _, nb := range m.nbr {
		names = append(names, nb.name)
	}
	sort.Strings(names)
	p := sid[:4] + "/"
	z, f := strings.Repeat("0", 59), strings.Repeat("f", 59)
	order := []string{p + "+junk", p + ".tmp-cacnk.123456", p + sid[:4] + z + "c.cacnk", p + sid[:4] + z + "d", m.path[true], m.path[false], p + sid[:4] + f + "c.cacnk", p + sid[:4] + f + "d"}
	if sid[4:] > z && sid[4:] < f && fmt.Sprint(names) != fmt.Sprint(order) {
		selfFail(t, "mixed directory sorts %v, want %v", names, order)
	}
	hiC := sid[:4] + f + "c"
	for _, tc := range []struct {
		out    string
		repair bool
		gone   bool
		want   []string
	}{
		{"chunk id " + sid[:4] + z + "c does not match\nchunk id " + hiC + " does not match", false, false, nil},
		{"chunk id " + sid[:4] + z + "c does not match", false, false, []string{"C20:coexist:verify-missed-damaged-own-chunk"}},
		{"chunk id " + sid[:4] + z + "c x\nchunk id " + hiC + " x\nchunk id " + sid[:4] + f + "d x", false, false, []string{"C20:coexist:verified-other-format"}},
		{"chunk id " + sid[:4] + z + "c: removed\nchunk id " + hiC + ": removed", true, false, []string{"C20:coexist:verify-repair-left-damaged-own-chunk", "C20:coexist:verify-repair-left-damaged-own-chunk"}},
	} {
		var o hx.Outcome
		rest := m.verifyNeighbours(&o, dir, false, tc.repair, true, tc.out, "self-test")
		var got []string
		for _, v := range o.Violations {
			got = append(got, v.Sig)
		}
		sort.Strings(got)
		if fmt.Sprint(got) != fmt.Sprint(tc.want) {
			selfFail(t, "neighbour oracle on %q (repair=%v): %v, want %v", tc.out, tc.repair, got, tc.want)
		}
		if strings.Contains(rest, hiC) {
			selfFail(t, "the line about the client's own damaged neighbour is not filtered: %q", rest)
		}
	}
	classes := map[string]bool{"mixed:none": true}
	var o hx.Outcome
	for _, unc := range []bool{false, true} {
		m.verifyNeighbours(&o, dir, unc, true, true, "", "self-test")
	}
	m2 := newModel("self-test", sid, chunkIDOf(data), data)
	m2.plantNeighbours(t.TempDir(), []string{"lo"}, 3, false)
	m2.verifyNeighbours(&o, dir, false, false, true, "", "self-test")
	var os2 hx.Outcome
	m2.verifyNeighbours(&os2, dir, false, true, false, "", "self-test") // SkipVerify client: nothing of its own demanded
	if len(os2.Violations) != 0 {
		selfFail(t, "neighbour oracle demands something of a SkipVerify client: %v", os2.Violations)
	}
	for _, c := range o.Classes {
		classes[c] = true
	}
	for _, k := range neighbourKinds {
		classes["mixed:"+k] = true
	}
	for _, r := range mixedRequired() {
		if !classes[r] {
			selfFail(t, "required class %q cannot be produced", r)
		}
	}
}
