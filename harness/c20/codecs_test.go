package c20

// The two zstd implementations as seen from the harness. Which of them plays the "other"
// implementation (the one desync is NOT built with) is chosen by other_*_test.go through the
// build tag `datadog`.

import (
	"bytes"
	"sync"

	ddzstd "github.com/DataDog/zstd"
	kpzstd "github.com/klauspost/compress/zstd"
)

// codec is what the check needs from a zstd implementation.
type codec interface {
	Name() string
	// Compress returns one frame made by the one-shot API (content size in the header).
	Compress([]byte) []byte
	// CompressStream returns one frame made by the streaming API without a pledged size:
	// no frame content size field — what casync's streaming writer produces.
	CompressStream([]byte) []byte
	Decompress([]byte) ([]byte, error)
}

// ---- reference libzstd (cgo), level 3 as casync and desync's datadog build use

type libzstdCodec struct{}

func (libzstdCodec) Name() string { return "libzstd" }

func (libzstdCodec) Compress(b []byte) []byte {
	out, err := ddzstd.CompressLevel(nil, b, 3)
	if err != nil {
		panic("libzstd compress: " + err.Error())
	}
	return out
}

func (libzstdCodec) CompressStream(b []byte) []byte {
	var buf bytes.Buffer
	w := ddzstd.NewWriterLevel(&buf, 3)
	// two writes for anything longer than a byte, as a streaming producer would do
	cut := len(b) / 2
	for _, part := range [][]byte{b[:cut], b[cut:]} {
		if len(part) == 0 {
			continue
		}
		if _, err := w.Write(part); err != nil {
			panic("libzstd stream write: " + err.Error())
		}
	}
	if err := w.Close(); err != nil {
		panic("libzstd stream close: " + err.Error())
	}
	return buf.Bytes()
}

// ddBuf spares the binding's 1 MB allocation per call (it sizes the destination at
// min(content size, max(1 MB, 10 x input)) and falls back to its stream reader when that is
// too small). Cases run sequentially; the result is copied out.
var ddBuf = make([]byte, 0, 2<<20)

func (libzstdCodec) Decompress(b []byte) ([]byte, error) {
	out, err := ddzstd.Decompress(ddBuf[:0], b)
	if err != nil {
		return nil, err
	}
	return append([]byte(nil), out...), nil
}

// ---- klauspost/compress/zstd (pure Go), configured exactly as desync's default build does

type klauspostCodec struct{}

var (
	kpOnce sync.Once
	kpEnc  *kpzstd.Encoder
	kpDec  *kpzstd.Decoder
)

func kpInit() {
	kpOnce.Do(func() {
		var err error
		if kpEnc, err = kpzstd.NewWriter(nil); err != nil {
			panic(err)
		}
		if kpDec, err = kpzstd.NewReader(nil); err != nil {
			panic(err)
		}
	})
}

func (klauspostCodec) Name() string { return "klauspost" }

func (klauspostCodec) Compress(b []byte) []byte {
	kpInit()
	return kpEnc.EncodeAll(b, make([]byte, 0, len(b)))
}

func (klauspostCodec) CompressStream(b []byte) []byte {
	var buf bytes.Buffer
	// no checksum: casync's stream writer does not enable it. Flush before Close forces the
	// streaming path (header without content size); otherwise short inputs would be turned
	// into a one-shot frame by the library.
	w, err := kpzstd.NewWriter(&buf, kpzstd.WithEncoderConcurrency(1), kpzstd.WithEncoderCRC(false))
	if err != nil {
		panic(err)
	}
	cut := len(b) / 2
	for _, part := range [][]byte{b[:cut], b[cut:]} {
		if len(part) == 0 {
			continue
		}
		if _, err := w.Write(part); err != nil {
			panic("klauspost stream write: " + err.Error())
		}
		if err := w.Flush(); err != nil {
			panic("klauspost stream flush: " + err.Error())
		}
	}
	if err := w.Close(); err != nil {
		panic("klauspost stream close: " + err.Error())
	}
	return buf.Bytes()
}

func (klauspostCodec) Decompress(b []byte) ([]byte, error) {
	kpInit()
	return kpDec.DecodeAll(b, nil)
}
