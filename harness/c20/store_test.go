package c20

// Two more dimensions of "a store written by desync":
//
// Leftovers. Before a StoreChunk into the desync-written store the prefix directory may already
// hold what an interrupted writer leaves behind: files named `.tmp-cacnk<anything>` — for the ID
// that is about to be stored (`.tmp-cacnk.<id>`, `.tmp-cacnk.<id>.cacnk`), for other IDs, with
// random suffixes (desync's own temp names are `.tmp-cacnk.<uint32>`) — empty, or holding part
// or all of a chunk in either format. They never count as chunks, and a StoreChunk that returns
// nil must still have produced the client's object. (What Prune does with them is C16's subject;
// planted leftovers may stay or go at any time without a verdict here.)
//
// Concurrency. Clients of both formats (and several clients of one format) store the SAME chunk
// ID into one directory at the same time, for many rounds with shifting start offsets. Every
// StoreChunk that returned nil ⇒ right afterwards that client's HasChunk/GetChunk see the chunk
// and the directory holds a well-formed object of that client's format under the right name.

import (
	"bytes"
	"fmt"
	"os"
	"path/filepath"
	"sort"
	"strings"
	"sync"
	"sync/atomic"

	"github.com/folbricht/desync"
	"pgregory.net/rapid"

	"verifharness/internal/gen"
	"verifharness/internal/hx"
)

// ---------------------------------------------------------------- leftovers

// Leftover is part of the replay file.
type Leftover struct {
	Name    string `json:"name"`    // id | id.cacnk | id-nodot | otherid | otherid.cacnk | rand | bare
	Content string `json:"content"` // empty | partial-frame | partial-raw | full-frame | full-raw
	When    int    `json:"when"`    // planted before the first (0) or the second (1) StoreChunk
}

var (
	leftoverNames    = []string{"id", "id.cacnk", "id-nodot", "otherid", "otherid.cacnk", "rand", "bare"}
	leftoverContents = []string{"empty", "partial-frame", "partial-raw", "full-frame", "full-raw"}
)

func (l Leftover) norm() Leftover {
	ok := false
	for _, n := range leftoverNames {
		ok = ok || l.Name == n
	}
	if !ok {
		l.Name = "id"
	}
	ok = false
	for _, n := range leftoverContents {
		ok = ok || l.Content == n
	}
	if !ok {
		l.Content = "empty"
	}
	if l.When != 1 {
		l.When = 0
	}
	return l
}

func (l Leftover) sameID() bool {
	return l.Name == "id" || l.Name == "id.cacnk" || l.Name == "id-nodot"
}

// fileName: the leftover's name inside the prefix directory of the chunk.
func (l Leftover) fileName(sid string, seed uint64) string {
	otherID := sid[:4] + sumID(gen.RandBytes(16, seed^0x1ef7))[4:]
	switch l.Name {
	case "id":
		return ".tmp-cacnk." + sid
	case "id.cacnk":
		return ".tmp-cacnk." + sid + ".cacnk"
	case "id-nodot":
		return ".tmp-cacnk" + sid
	case "otherid":
		return ".tmp-cacnk." + otherID
	case "otherid.cacnk":
		return ".tmp-cacnk." + otherID + ".cacnk"
	case "rand":
		return fmt.Sprintf(".tmp-cacnk.%d", uint32(seed>>7))
	default:
		return ".tmp-cacnk"
	}
}

func (l Leftover) bytes(data []byte) []byte {
	switch l.Content {
	case "partial-frame":
		f := other.Compress(data)
		return f[:len(f)/2]
	case "partial-raw":
		return data[:len(data)/2]
	case "full-frame":
		return other.Compress(data)
	case "full-raw":
		return data
	}
	return []byte{}
}

func (l Leftover) classes() []string {
	cl := []string{"store:leftover:" + l.Content, "store:leftover-name:" + l.Name}
	switch {
	case l.sameID():
		cl = append(cl, "store:leftover-tmp-same-id")
	case l.Name == "otherid" || l.Name == "otherid.cacnk":
		cl = append(cl, "store:leftover-tmp-other-id")
	default:
		cl = append(cl, "store:leftover-tmp-random-suffix")
	}
	if l.When == 0 {
		cl = append(cl, "store:leftover:before-first-store")
	} else {
		cl = append(cl, "store:leftover:between-the-two-formats")
	}
	return cl
}

func genLeftovers(t *rapid.T) []Leftover {
	n := rapid.SampledFrom([]int{0, 0, 0, 1, 1, 2, 3}).Draw(t, "leftovers")
	var ls []Leftover
	for i := 0; i < n; i++ {
		ls = append(ls, Leftover{
			Name:    rapid.SampledFrom([]string{"id", "id", "id.cacnk", "id-nodot", "otherid", "otherid.cacnk", "rand", "bare"}).Draw(t, "leftover.name"),
			Content: rapid.SampledFrom(leftoverContents).Draw(t, "leftover.content"),
			When:    rapid.IntRange(0, 1).Draw(t, "leftover.when"),
		})
	}
	return ls
}

// without returns the picture of the directory minus the planted leftovers: the layout oracle
// and the model judge what desync wrote, not what the harness put there.
func (s snap) without(names map[string]bool) snap {
	if len(names) == 0 {
		return s
	}
	out := snap{files: map[string][]byte{}, dirs: s.dirs, odd: s.odd}
	for k, v := range s.files {
		if !names[k] {
			out.files[k] = v
		}
	}
	return out
}

// seesNothing: neither client takes what is in the directory for the chunk.
func seesNothing(o *hx.Outcome, base string, id desync.ChunkID, what string) {
	for _, unc := range []bool{false, true} {
		st, err := desync.NewLocalStore(base, desync.StoreOptions{Uncompressed: unc})
		if err != nil {
			continue
		}
		if has, _ := st.HasChunk(id); has {
			o.Fail("C20:store:leftover-counted-as-chunk", "%s: HasChunk of the %s client is true", what, modeName(unc))
		}
		if _, gerr := st.GetChunk(id); gerr == nil {
			o.Fail("C20:store:leftover-counted-as-chunk", "%s: GetChunk of the %s client succeeds", what, modeName(unc))
		} else if _, missing := gerr.(desync.ChunkMissing); !missing {
			o.Fail("C20:store:leftover-counted-as-chunk", "%s: GetChunk of the %s client must report ChunkMissing, got %T: %v", what, modeName(unc), gerr, gerr)
		}
	}
}

// storedIsVisible: a StoreChunk that returned nil ⇒ the client sees and reads the chunk.
func storedIsVisible(o *hx.Outcome, st desync.LocalStore, unc bool, id desync.ChunkID, data []byte, what string) {
	has, err := st.HasChunk(id)
	if err != nil || !has {
		o.Fail("C20:store:nil-but-missing", "%s: StoreChunk returned nil, HasChunk of the same %s client says %v (%v)", what, modeName(unc), has, err)
	}
	ch, err := st.GetChunk(id)
	if err != nil {
		sig := "C20:store:nil-but-unreadable"
		if _, missing := err.(desync.ChunkMissing); missing {
			sig = "C20:store:nil-but-missing"
		}
		o.Fail(sig, "%s: StoreChunk returned nil, GetChunk of the same %s client: %v", what, modeName(unc), err)
		return
	}
	if b, err := ch.Data(); err != nil || !bytes.Equal(b, data) {
		o.Fail("C20:store:nil-but-unreadable", "%s: StoreChunk returned nil, GetChunk of the same %s client returns other data (%v)", what, modeName(unc), err)
	}
}

// ---------------------------------------------------------------- concurrent writers of one ID

// ConcCase is part of the replay file.
type ConcCase struct {
	// both-formats : one compressed and one uncompressed client, each looping store/check/remove on its own
	// mixed        : rounds with two clients of each format released together
	// same-compressed, same-uncompressed : rounds with three clients of one format released together
	Kind   string `json:"kind"`
	Rounds int    `json:"rounds"`
	LenKiB int    `json:"len_kib"` // chunk length of this part
	Spin   int    `json:"spin"`    // unit of the start offsets that shift from round to round
}

var concKinds = []string{"both-formats", "mixed", "same-compressed", "same-uncompressed"}

func (cc ConcCase) norm() ConcCase {
	ok := false
	for _, k := range concKinds {
		ok = ok || cc.Kind == k
	}
	if !ok {
		cc.Kind = "both-formats"
	}
	if cc.Rounds < 1 {
		cc.Rounds = 1
	}
	if cc.Rounds > 400 {
		cc.Rounds = 400
	}
	if cc.LenKiB < 1 {
		cc.LenKiB = 1
	}
	if cc.LenKiB > 1024 {
		cc.LenKiB = 1024
	}
	if cc.Spin < 0 {
		cc.Spin = 0
	}
	if cc.Spin > 64 {
		cc.Spin = 64
	}
	return cc
}

func genConc(t *rapid.T) *ConcCase {
	cc := ConcCase{
		Kind:   rapid.SampledFrom([]string{"both-formats", "both-formats", "mixed", "mixed", "same-compressed", "same-uncompressed"}).Draw(t, "conc.kind"),
		Rounds: rapid.IntRange(hx.Pick(6, 40), hx.Pick(12, 120)).Draw(t, "conc.rounds"),
		LenKiB: rapid.SampledFrom(hx.Pick([]int{16, 64, 128, 256, 512}, []int{16, 128, 256, 512, 1024})).Draw(t, "conc.len"),
		Spin:   rapid.IntRange(0, 16).Draw(t, "conc.spin"),
	}.norm()
	return &cc
}

var spinSink atomic.Uint64

func spin(units int) {
	var x uint64
	for i := 0; i < units*2000; i++ {
		x += uint64(i) ^ x>>3
	}
	spinSink.Add(x)
}

var otherMu sync.Mutex // the harness-side decoder shares a buffer

// objectOK: the directory holds a well-formed object of the format under the right name.
func objectOK(base, sid string, unc bool, data []byte, decode bool) (problem, detail string) {
	p := filepath.Join(base, sid[:4], sid+ext(unc))
	f, err := os.ReadFile(p)
	if err != nil {
		return "nil-but-no-object", err.Error()
	}
	if unc {
		if !bytes.Equal(f, data) {
			return "bad-object", "raw file holds " + short(f)
		}
		return "", ""
	}
	if _, werr := walkFrame(f); werr != nil {
		return "bad-object", fmt.Sprintf(".cacnk file is not one standard frame: %v (%s)", werr, short(f))
	}
	if decode {
		otherMu.Lock()
		dec, derr := other.Decompress(f)
		otherMu.Unlock()
		if derr != nil || !bytes.Equal(dec, data) {
			return "bad-object", fmt.Sprintf("%s does not decode the .cacnk file to the chunk (%v)", other.Name(), derr)
		}
	}
	return "", ""
}

type concFinding struct{ sig, msg string }

func runConc(o *hx.Outcome, c Case, root string) {
	cc := c.Conc.norm()
	base := filepath.Join(root, "conc")
	if err := os.Mkdir(base, 0o755); err != nil {
		panic(err)
	}
	data := gen.RandBytes(cc.LenKiB<<10, c.Seed^0xC0C0)
	if c.Fill == "text" || c.Fill == "mixed" {
		data = textBytes(cc.LenKiB<<10, c.Seed^0xC0C0)
	}
	sid := sumID(data)
	id := chunkIDOf(data)
	o.Class("store:concurrent-same-id:"+cc.Kind, fmt.Sprintf("store:concurrent:len=%dKiB", cc.LenKiB))
	if cc.Kind == "both-formats" || cc.Kind == "mixed" {
		o.Class("store:concurrent-same-id:two-formats-at-once")
	} else {
		o.Class("store:concurrent-same-id:same-format")
	}

	var mu sync.Mutex
	found := map[string]string{} // one message per signature
	report := func(sig, format string, a ...any) {
		mu.Lock()
		defer mu.Unlock()
		if _, seen := found[sig]; !seen {
			found[sig] = fmt.Sprintf(format, a...)
		}
	}
	open := func(unc bool) desync.LocalStore {
		st, err := desync.NewLocalStore(base, desync.StoreOptions{Uncompressed: unc})
		if err != nil {
			panic(err)
		}
		return st
	}
	// one store + immediate look by one client
	storeAndLook := func(st desync.LocalStore, unc bool, round int, who string, full bool) {
		if err := st.StoreChunk(desync.NewChunk(data)); err != nil {
			report("C20:store:concurrent:error", "round %d, %s: StoreChunk: %v", round, who, err)
			return
		}
		if has, err := st.HasChunk(id); err != nil || !has {
			report("C20:store:concurrent:nil-but-missing", "round %d, %s: StoreChunk returned nil, HasChunk of the same client right afterwards: %v (%v)", round, who, has, err)
		}
		if full {
			ch, err := st.GetChunk(id)
			if err == nil {
				var b []byte
				if b, err = ch.Data(); err == nil && !bytes.Equal(b, data) {
					err = fmt.Errorf("other data")
				}
			}
			if err != nil {
				sig := "C20:store:concurrent:nil-but-unreadable"
				if _, missing := err.(desync.ChunkMissing); missing {
					sig = "C20:store:concurrent:nil-but-missing"
				}
				report(sig, "round %d, %s: StoreChunk returned nil, GetChunk of the same client right afterwards: %v", round, who, err)
			}
		}
		if problem, detail := objectOK(base, sid, unc, data, full); problem != "" {
			report("C20:store:concurrent:"+problem, "round %d, %s: StoreChunk returned nil, but the directory has no well-formed %s object at %s: %s", round, who, modeName(unc), sid[:4]+"/"+sid+ext(unc), detail)
		}
	}

	var wg sync.WaitGroup
	switch cc.Kind {
	case "both-formats":
		// each client owns its format's file: store, look, remove, again — the two loops drift
		// against each other, and the start of every store is shifted a little more
		for _, unc := range []bool{false, true} {
			unc := unc
			wg.Add(1)
			go func() {
				defer wg.Done()
				st := open(unc)
				who := modeName(unc) + " client"
				for r := 0; r < cc.Rounds; r++ {
					if unc {
						spin((r * cc.Spin) % 97)
					} else {
						spin((r * 3) % 11)
					}
					storeAndLook(st, unc, r, who, r%4 == 0 || r == cc.Rounds-1)
					st.RemoveChunk(id)
				}
			}()
		}
		wg.Wait()
	default:
		formats := map[string][]bool{"mixed": {false, true, false, true}, "same-compressed": {false, false, false}, "same-uncompressed": {true, true, true}}[cc.Kind]
		stores := make([]desync.LocalStore, len(formats))
		for i, unc := range formats {
			stores[i] = open(unc)
		}
		for r := 0; r < cc.Rounds; r++ {
			start := make(chan struct{})
			for i, unc := range formats {
				i, unc := i, unc
				wg.Add(1)
				go func() {
					defer wg.Done()
					<-start
					if unc && r%2 == 1 {
						desync.Compress(data) // about the time a compressed client needs before it creates its file
					}
					spin(((r + 1) * (i + 1) * cc.Spin) % 53)
					storeAndLook(stores[i], unc, r, fmt.Sprintf("%s client #%d of %d", modeName(unc), i, len(formats)), (r+i)%4 == 0)
				}()
			}
			close(start)
			wg.Wait()
			for _, unc := range []bool{false, true} {
				os.Remove(filepath.Join(base, sid[:4], sid+ext(unc)))
			}
		}
	}
	// nothing but (possibly) the prefix directory is left
	s := snapshot(base)
	for _, name := range s.names() {
		report("C20:store:concurrent:extra-file", "after all rounds and the removal of the chunk files the directory still holds %s", name)
	}
	sigs := make([]string, 0, len(found))
	for sig := range found {
		sigs = append(sigs, sig)
	}
	sort.Strings(sigs)
	for _, sig := range sigs {
		o.Fail(sig, "concurrent StoreChunk of one %d-KiB chunk (%s, %d rounds): %s", cc.LenKiB, cc.Kind, cc.Rounds, found[sig])
	}
}

func storeRequired() []string {
	r := []string{
		"store:leftover-tmp-same-id", "store:leftover-tmp-other-id", "store:leftover-tmp-random-suffix",
		"store:leftover:before-first-store", "store:leftover:between-the-two-formats", "store:leftover:none",
		"store:concurrent-same-id:both-formats", "store:concurrent-same-id:mixed", "store:concurrent-same-id:same-compressed", "store:concurrent-same-id:same-uncompressed",
		"store:concurrent-same-id:two-formats-at-once", "store:concurrent-same-id:same-format",
	}
	for _, n := range leftoverNames {
		r = append(r, "store:leftover-name:"+n)
	}
	for _, n := range leftoverContents {
		r = append(r, "store:leftover:"+n)
	}
	return r
}

func leftoverKey(ls []Leftover) string {
	var parts []string
	for _, l := range ls {
		l = l.norm()
		parts = append(parts, fmt.Sprintf("%s:%s@%d", l.Name, l.Content, l.When))
	}
	return strings.Join(parts, ",")
}
