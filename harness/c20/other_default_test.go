//go:build !datadog

package c20

// Default build: desync compresses with klauspost/compress/zstd, so the harness plays
// casync / "the reference libzstd" with github.com/DataDog/zstd (cgo).

const (
	buildName  = "default"
	desyncImpl = "klauspost"
)

var (
	other codec = libzstdCodec{}
	same  codec = klauspostCodec{} // used by the self-test only
)
