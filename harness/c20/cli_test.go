package c20

// CLI tier of C20 (only with $VERIF_DESYNC_BIN, only in the default build): which format the
// desync command line tool uses for a local store is decided by the `store-options` entry of the
// config file whose key names that store. The documented rule (README "store-options",
// cmd/desync/location.go and its test): for local paths key and location are made absolute
// against the working directory (which also removes ".", "..", doubled and trailing slashes) and
// compared with filepath.Match, so keys may be glob patterns; more than one matching key makes
// the configuration invalid; symbolic links are not resolved.
//
// A case spells the SAME store directory in two ways — once as the key of the config entry, once
// as the -s/-c argument of chop, make, cache, verify or prune (absolute, relative to the working
// directory, "./x", "x/", "a/../x", "../w/x", ".", through a symbolic link, glob keys, and keys
// that name something else) — and checks that the format the command really used in the store
// directory is the one configured for that location under the documented rule: new chunks
// appear only in that format's naming and content, files of the other format are neither
// created, rewritten, verified nor pruned.

import (
	"bytes"
	"context"
	"crypto/sha512"
	"encoding/hex"
	"encoding/json"
	"fmt"
	"os"
	"os/exec"
	"path"
	"path/filepath"
	"sort"
	"strings"
	"sync"
	"time"

	"github.com/folbricht/desync"
	"pgregory.net/rapid"

	"verifharness/internal/gen"
	"verifharness/internal/hx"
)

// CLICase is part of the replay file.
type CLICase struct {
	Cmd string `json:"cmd"` // chop make cache verify prune
	Key string `json:"key"` // id of the spelling used as key of the store's config entry; "none": no entry
	Arg string `json:"arg"` // id of the spelling used on the command line
	Cwd string `json:"cwd"` // work | root | store | away : working directory where the spellings leave a choice
	// what the store's entry says
	KeyUnc bool `json:"key_unc"`
	// the store's entry also says "skip-verify": true (as for the cache of a chunk server)
	KeySkip bool `json:"key_skip,omitempty"`
	// one more entry with the opposite setting: "" | other | sibling | parent | children | wrongcwd
	// (none of them names the store) | dup (a second key that does match: invalid configuration)
	Extra  string `json:"extra,omitempty"`
	Pieces int    `json:"pieces,omitempty"`  // chop cache: chunks in the index
	SrcUnc bool   `json:"src_unc,omitempty"` // cache: the source store holds uncompressed chunks (own entry)
}

var (
	cliOnce sync.Once
	cliPath string
)

// cliBin: the desync binary under test. The CLI tier runs in the default build only (the driver
// builds one binary; running it again next to the libzstd build of the library adds nothing).
func cliBin() string {
	if buildName != "default" {
		return ""
	}
	cliOnce.Do(func() { cliPath = os.Getenv("VERIF_DESYNC_BIN") })
	return cliPath
}

// ---------------------------------------------------------------- spellings

type cliLayout struct{ root, work, store string }

type spelling struct {
	id   string
	cwd  string // working directory the spelling needs ("" = any)
	text func(l cliLayout) string
	key  bool // usable as key only (glob patterns and keys that name something else)
}

var spellings = []spelling{
	{"abs", "", func(l cliLayout) string { return l.store }, false},
	{"abs-slash", "", func(l cliLayout) string { return l.store + "/" }, false},
	{"abs-dot", "", func(l cliLayout) string { return l.work + "/./st" }, false},
	{"abs-dotdot", "", func(l cliLayout) string { return l.work + "/a/../st" }, false},
	{"abs-dslash", "", func(l cliLayout) string { return l.work + "//st" }, false},
	{"rel", "work", func(l cliLayout) string { return "st" }, false},
	{"rel-dot", "work", func(l cliLayout) string { return "./st" }, false},
	{"rel-slash", "work", func(l cliLayout) string { return "st/" }, false},
	{"rel-dotdot", "work", func(l cliLayout) string { return "a/../st" }, false},
	{"rel-up", "work", func(l cliLayout) string { return "../work/st" }, false},
	{"rel-deep", "root", func(l cliLayout) string { return "work/st" }, false},
	{"rel-self", "store", func(l cliLayout) string { return "." }, false},
	{"sym-abs", "", func(l cliLayout) string { return l.work + "/lnk" }, false},
	{"sym-rel", "work", func(l cliLayout) string { return "lnk" }, false},
	{"glob-abs-star", "", func(l cliLayout) string { return l.work + "/s*" }, true},
	{"glob-abs-q", "", func(l cliLayout) string { return l.work + "/s?" }, true},
	{"glob-abs-class", "", func(l cliLayout) string { return l.work + "/[r-t]t" }, true},
	{"glob-abs-mid", "", func(l cliLayout) string { return l.root + "/*/st" }, true},
	{"glob-abs-dotdot", "", func(l cliLayout) string { return l.work + "/a/../s*" }, true},
	{"glob-rel-star", "work", func(l cliLayout) string { return "s*" }, true},
	{"glob-rel-deep", "root", func(l cliLayout) string { return "work/*" }, true},
	{"miss-sibling", "", func(l cliLayout) string { return l.work + "/st2" }, true},
	{"miss-parent", "", func(l cliLayout) string { return l.work }, true},
	{"miss-children", "", func(l cliLayout) string { return l.store + "/*" }, true},
	{"miss-prefix-glob", "", func(l cliLayout) string { return l.root + "/work*" }, true},
	{"miss-rel-wrongcwd", "root", func(l cliLayout) string { return "st" }, true},
	{"none", "", func(l cliLayout) string { return "" }, true},
}

func spellingByID(id string) (spelling, bool) {
	for _, s := range spellings {
		if s.id == id {
			return s, true
		}
	}
	return spelling{}, false
}

var cliCmds = []string{"chop", "make", "cache", "verify", "prune"}

// norm makes every value meaningful: unknown ids fall back, a working directory that one of
// the two spellings needs wins, and spellings that need different directories are reconciled
// by replacing the argument with its absolute form.
func (cl CLICase) norm() CLICase {
	ok := false
	for _, k := range cliCmds {
		ok = ok || cl.Cmd == k
	}
	if !ok {
		cl.Cmd = "chop"
	}
	k, found := spellingByID(cl.Key)
	if !found {
		k, _ = spellingByID("abs")
	}
	a, found := spellingByID(cl.Arg)
	if !found || a.key {
		a, _ = spellingByID("abs")
	}
	if k.cwd != "" && a.cwd != "" && k.cwd != a.cwd {
		a, _ = spellingByID("abs")
	}
	cl.Key, cl.Arg = k.id, a.id
	switch {
	case k.cwd != "":
		cl.Cwd = k.cwd
	case a.cwd != "":
		cl.Cwd = a.cwd
	case cl.Cwd != "work" && cl.Cwd != "root" && cl.Cwd != "store" && cl.Cwd != "away":
		cl.Cwd = "work"
	}
	switch cl.Extra {
	case "", "other", "sibling", "parent", "children", "wrongcwd", "dup":
	default:
		cl.Extra = ""
	}
	if cl.Cmd == "chop" || cl.Cmd == "cache" {
		if cl.Pieces < 1 {
			cl.Pieces = 1
		}
		if cl.Pieces > 4 {
			cl.Pieces = 4
		}
	} else {
		cl.Pieces = 0
	}
	if cl.Cmd != "cache" {
		cl.SrcUnc = false
	}
	return cl
}

func genCLI(t *rapid.T) *CLICase {
	var keys, args []string
	for _, s := range spellings {
		keys = append(keys, s.id)
		if !s.key {
			args = append(args, s.id)
		}
	}
	cl := CLICase{
		Cmd:     rapid.SampledFrom([]string{"chop", "chop", "make", "cache", "verify", "verify", "prune", "prune"}).Draw(t, "cli.cmd"),
		Key:     rapid.SampledFrom(keys).Draw(t, "cli.key"),
		Arg:     rapid.SampledFrom(args).Draw(t, "cli.arg"),
		Cwd:     rapid.SampledFrom([]string{"work", "root", "store", "away"}).Draw(t, "cli.cwd"),
		KeyUnc:  rapid.IntRange(0, 3).Draw(t, "cli.keyunc") != 0,
		KeySkip: rapid.Bool().Draw(t, "cli.keyskip"),
		Extra:   rapid.SampledFrom([]string{"", "", "other", "sibling", "parent", "children", "wrongcwd", "dup"}).Draw(t, "cli.extra"),
		Pieces:  rapid.IntRange(1, 4).Draw(t, "cli.pieces"),
		SrcUnc:  rapid.Bool().Draw(t, "cli.srcunc"),
	}
	n := cl.norm()
	return &n
}

// ---------------------------------------------------------------- the documented matching rule

func absLex(p, cwd string) string {
	if !strings.HasPrefix(p, "/") {
		p = cwd + "/" + p
	}
	return path.Clean(p)
}

// ruleMatch: key and location name the same place under the documented rule.
func ruleMatch(key, loc, cwd string) bool {
	m, err := path.Match(absLex(key, cwd), absLex(loc, cwd))
	return err == nil && m
}

type cfgEntry struct {
	key  string
	unc  bool
	skip bool
}

// configured: the format configured for a location. matches > 1: invalid configuration.
func configured(entries []cfgEntry, loc, cwd string) (unc bool, matches int) {
	for _, e := range entries {
		if ruleMatch(e.key, loc, cwd) {
			matches++
			unc = e.unc
		}
	}
	if matches != 1 {
		unc = false
	}
	return unc, matches
}

// throughLink rewrites a spelling as it reads once the symbolic link lnk -> st is resolved.
func throughLink(s string) string {
	parts := strings.Split(s, "/")
	for i, p := range parts {
		if p == "lnk" {
			parts[i] = "st"
		}
	}
	return strings.Join(parts, "/")
}

func isGlob(s string) bool { return strings.ContainsAny(s, "*?[") }

func cliRequired() []string {
	r := []string{"via:cli",
		"cli:config:same-spelling", "cli:config:abs-key-rel-arg", "cli:config:rel-key-abs-arg", "cli:config:abs-key-abs-arg-differently", "cli:config:rel-key-rel-arg-differently",
		"cli:config:glob-key-abs-arg", "cli:config:glob-key-rel-arg", "cli:config:rel-glob-key",
		"cli:config:trailing-slash", "cli:config:dot-or-dotdot", "cli:config:cwd-is-the-store",
		"cli:config:key-names-something-else", "cli:config:no-entry", "cli:config:unrelated-entry-with-other-setting",
		"cli:config:two-keys-match", "cli:config:symlink-both", "cli:config:symlink-one-side-unjudged",
		"cli:expect:uncompressed", "cli:expect:compressed", "cli:expect:compressed-by-explicit-entry", "cli:expect:invalid-config",
		"cli:expect:uncompressed:abs-key-rel-arg", "cli:expect:uncompressed:rel-key-abs-arg",
		"cli:config:skip-verify-entry", "cli:expect:uncompressed+skip-verify", "cli:expect:compressed+skip-verify",
		"cli:cmd:verify:uncompressed+skip-verify", "cli:cmd:verify:compressed+skip-verify",
	}
	for _, k := range cliCmds {
		r = append(r, "cli:cmd:"+k, "cli:cmd:"+k+":uncompressed", "cli:cmd:"+k+":compressed")
	}
	return r
}

func init() {
	if cliBin() == "" {
		return
	}
	spec.Required = append(spec.Required, cliRequired()...)
	spec.Rule += "; with $VERIF_DESYNC_BIN (default build): additionally `desync --config <file> chop|make|cache|verify|prune` on a local store directory whose store-options key and whose -s/-c argument spell the same directory differently " +
		"(absolute, relative, ./x, x/, a/../x, ../w/x, '.', through a symbolic link, glob keys, keys naming something else, a second unrelated or a second matching entry); the format used in the directory must be the one configured for the location under the documented rule (absolute-path equality / filepath.Match, symbolic links not resolved, two matching keys invalid)"
	spec.Assumptions = append(spec.Assumptions,
		"CLI cases: the matching rule is taken from README (store-options) and cmd/desync/location_test.go: paths made absolute against the working directory, compared with filepath.Match; the check computes it lexically with path.Clean/path.Match; when key and argument differ only by going through a symbolic link no particular format is demanded",
		"CLI cases: which of its own files verify reports/removes and prune deletes is C16's subject; here only files of the other format must stay untouched and unmentioned, and a child that does not end within 120 s is reported as violation 'hang'")
}

// ---------------------------------------------------------------- one CLI case

func sumID(b []byte) string {
	s := sha512.Sum512_256(b)
	return hex.EncodeToString(s[:])
}

func chunkIDOf(b []byte) (id desync.ChunkID) {
	id = desync.ChunkID(sha512.Sum512_256(b))
	return id
}

func cliIndex(pieces [][]byte) []byte {
	idx := desync.Index{Index: desync.FormatIndex{
		FormatHeader: desync.FormatHeader{Size: 48, Type: desync.CaFormatIndex},
		FeatureFlags: desync.CaFormatExcludeNoDump | desync.CaFormatSHA512256, ChunkSizeMin: 1, ChunkSizeAvg: 64 << 10, ChunkSizeMax: chunkBig,
	}}
	var pos uint64
	for _, p := range pieces {
		idx.Chunks = append(idx.Chunks, desync.IndexChunk{ID: chunkIDOf(p), Start: pos, Size: uint64(len(p))})
		pos += uint64(len(p))
	}
	var buf bytes.Buffer
	if _, err := idx.WriteTo(&buf); err != nil {
		panic(err)
	}
	return buf.Bytes()
}

func mustWrite(p string, b []byte) {
	if err := os.MkdirAll(filepath.Dir(p), 0o755); err != nil {
		panic(err)
	}
	if err := os.WriteFile(p, b, 0o644); err != nil {
		panic(err)
	}
}

func storeName(id string, unc bool) string { return id[:4] + "/" + id + ext(unc) }

func runCLI(o *hx.Outcome, c Case, data []byte) {
	cl := c.CLI.norm()
	root, err := filepath.EvalSymlinks(hx.Scratch("c20cli"))
	if err != nil {
		panic(err)
	}
	defer os.RemoveAll(root)
	l := cliLayout{root: root, work: root + "/work", store: root + "/work/st"}
	for _, d := range []string{l.store, l.work + "/a", l.work + "/st2", root + "/other", root + "/idx", root + "/src", root + "/home", root + "/away"} {
		if err := os.MkdirAll(d, 0o755); err != nil {
			panic(err)
		}
	}
	if err := os.Symlink("st", l.work+"/lnk"); err != nil {
		panic(err)
	}
	cwd := map[string]string{"work": l.work, "root": l.root, "store": l.store, "away": root + "/away"}[cl.Cwd]
	ks, _ := spellingByID(cl.Key)
	as, _ := spellingByID(cl.Arg)
	key, arg := ks.text(l), as.text(l)

	// ---- config file
	var entries []cfgEntry
	if cl.Key != "none" {
		entries = append(entries, cfgEntry{key, cl.KeyUnc, cl.KeySkip})
	}
	opposite := !cl.KeyUnc || cl.Key == "none"
	extraKey := map[string]string{"other": root + "/other", "sibling": l.work + "/st2", "parent": l.work, "children": l.store + "/*",
		"wrongcwd": "st", "dup": l.work + "/[s]t"}[cl.Extra]
	if cl.Extra == "wrongcwd" && cl.Cwd == "work" {
		extraKey = "work/st" // relative to a directory the command does not run in
	}
	if extraKey != "" && extraKey != key {
		entries = append(entries, cfgEntry{extraKey, opposite, false})
	}
	srcDir := root + "/src"
	if cl.SrcUnc {
		entries = append(entries, cfgEntry{srcDir, true, false})
	}
	so := map[string]any{}
	for _, e := range entries {
		so[e.key] = map[string]any{"uncompressed": e.unc}
		if e.skip {
			so[e.key] = map[string]any{"uncompressed": e.unc, "skip-verify": true}
		}
	}
	cfgJSON, _ := json.Marshal(map[string]any{"store-options": so})
	cfgPath := root + "/idx/desync.json"
	mustWrite(cfgPath, cfgJSON)

	// ---- what the documented rule says
	wantUnc, matches := configured(entries, arg, cwd)
	invalid := matches > 1
	lookups := []string{root + "/idx"} // every index file is named by absolute path below idx
	if cl.Cmd == "cache" {
		lookups = append(lookups, srcDir)
	}
	for _, loc := range lookups {
		if _, m := configured(entries, loc, cwd); m > 1 {
			invalid = true
		}
	}
	var linked []cfgEntry
	for _, e := range entries {
		linked = append(linked, cfgEntry{throughLink(e.key), e.unc, e.skip})
	}
	lu, lm := configured(linked, throughLink(arg), cwd)
	unjudged := !invalid && (lu != wantUnc || lm != matches)

	// ---- store content before the command: one chunk valid in both formats, one bad file per format
	blob := data
	limit := 192 << 10
	if cl.Cmd == "make" {
		limit = 48 << 10
	}
	if len(blob) > limit {
		blob = blob[:limit]
	}
	oldA := gen.RandBytes(64, c.Seed^0xA11)
	idA, idX, idY := sumID(oldA), sumID(gen.RandBytes(32, c.Seed^0xBAD1)), sumID(gen.RandBytes(32, c.Seed^0xBAD2))
	pre := map[string][]byte{
		storeName(idA, false): other.Compress(oldA),
		storeName(idA, true):  oldA,
		storeName(idX, false): append([]byte("this is not a zstd frame "), gen.RandBytes(20, c.Seed)...),
		storeName(idY, true):  gen.RandBytes(40, c.Seed^0x77),
	}
	for name, b := range pre {
		mustWrite(l.store+"/"+name, b)
	}
	badOf := map[bool]string{false: idX, true: idY}

	// ---- the command
	var pieces [][]byte
	args := []string{"--config", cfgPath, cl.Cmd}
	blobPath, idxPath := root+"/idx/blob", root+"/idx/index.caibx"
	switch cl.Cmd {
	case "chop", "cache":
		n := cl.Pieces
		if n > len(blob) {
			n = len(blob)
		}
		for i := 0; i < n; i++ {
			pieces = append(pieces, blob[i*len(blob)/n:(i+1)*len(blob)/n])
		}
		mustWrite(blobPath, blob)
		mustWrite(idxPath, cliIndex(pieces))
		if cl.Cmd == "chop" {
			args = append(args, "-s", arg, idxPath, blobPath)
		} else {
			for _, p := range pieces {
				f := p
				if !cl.SrcUnc {
					f = other.Compress(p)
				}
				mustWrite(srcDir+"/"+storeName(sumID(p), cl.SrcUnc), f)
			}
			args = append(args, "-s", srcDir, "-c", arg, idxPath)
		}
	case "make":
		mustWrite(blobPath, blob)
		args = append(args, "-s", arg, "-m", "1:4:16", idxPath, blobPath)
	case "verify":
		args = append(args, "-s", arg, "-n", fmt.Sprint(c.N))
		if c.Repair {
			args = append(args, "-r")
		}
	case "prune":
		mustWrite(idxPath, cliIndex([][]byte{oldA}))
		args = append(args, "-s", arg, "-y", idxPath)
	}
	before := snapshot(l.store)
	ctx, cancel := context.WithTimeout(context.Background(), 120*time.Second)
	defer cancel()
	cmd := exec.CommandContext(ctx, cliBin(), args...)
	cmd.Env = []string{"HOME=" + root + "/home", "TMPDIR=" + root + "/away", "PATH=/usr/bin:/bin"}
	cmd.Dir = cwd
	var sout, serr bytes.Buffer
	cmd.Stdout, cmd.Stderr = &sout, &serr
	runErr := cmd.Run()
	exit := 0
	if runErr != nil {
		ee, isExit := runErr.(*exec.ExitError)
		switch {
		case ctx.Err() != nil:
			o.Fail("hang", "desync %v (cwd %s) did not end within 120 s", args, cwd)
			return
		case !isExit:
			panic(fmt.Sprintf("cannot run %s: %v", cliBin(), runErr))
		}
		exit = ee.ExitCode()
	}
	after := snapshot(l.store)

	// ---- evidence
	keyAbs, argAbs := strings.HasPrefix(key, "/"), strings.HasPrefix(arg, "/")
	o.Class("via:cli", "cli:cmd:"+cl.Cmd)
	switch {
	case cl.Key == "none":
		o.Class("cli:config:no-entry")
	case strings.HasPrefix(cl.Key, "miss-"):
		o.Class("cli:config:key-names-something-else")
	case isGlob(key):
		o.Class(map[bool]string{true: "cli:config:glob-key-abs-arg", false: "cli:config:glob-key-rel-arg"}[argAbs])
		if !keyAbs {
			o.Class("cli:config:rel-glob-key")
		}
	case key == arg:
		o.Class("cli:config:same-spelling")
	case keyAbs && !argAbs:
		o.Class("cli:config:abs-key-rel-arg")
	case !keyAbs && argAbs:
		o.Class("cli:config:rel-key-abs-arg")
	case keyAbs:
		o.Class("cli:config:abs-key-abs-arg-differently")
	default:
		o.Class("cli:config:rel-key-rel-arg-differently")
	}
	if strings.HasSuffix(key, "/") || strings.HasSuffix(arg, "/") {
		o.Class("cli:config:trailing-slash")
	}
	if strings.Contains(key+"/", "./") || strings.Contains(arg+"/", "./") || arg == "." {
		o.Class("cli:config:dot-or-dotdot")
	}
	if cl.Cwd == "store" {
		o.Class("cli:config:cwd-is-the-store")
	}
	if cl.KeySkip && cl.Key != "none" {
		o.Class("cli:config:skip-verify-entry")
	}
	if cl.Extra != "" && cl.Extra != "dup" {
		o.Class("cli:config:unrelated-entry-with-other-setting")
	}
	if strings.Contains(key, "lnk") && strings.Contains(arg, "lnk") {
		o.Class("cli:config:symlink-both")
	}
	who := fmt.Sprintf("desync %s (cwd %s; store-options %s; key %q [%s], argument %q [%s])", strings.Join(args[2:], " "), cwd, cfgJSON, key, cl.Key, arg, cl.Arg)
	tail := func() string {
		s := strings.TrimSpace(serr.String())
		if len(s) > 300 {
			s = s[:300] + "…"
		}
		return s
	}

	switch {
	case invalid:
		o.Class("cli:config:two-keys-match", "cli:expect:invalid-config")
		if exit == 0 {
			o.Fail("C20:cli:config:two-matching-keys-accepted", "%s: more than one store-options key matches a location of the command, the configuration is invalid, but the command exited 0", who)
		}
		for name, b := range before.files {
			if a, there := after.files[name]; !there || !bytes.Equal(a, b) {
				o.Fail("C20:cli:config:invalid-config-store-changed", "%s: the configuration is invalid but %s was changed or removed", who, name)
			}
		}
		for name := range after.files {
			if _, was := before.files[name]; !was {
				o.Fail("C20:cli:config:invalid-config-store-changed", "%s: the configuration is invalid but %s was created", who, name)
			}
		}
		return
	case unjudged:
		o.Class("cli:config:symlink-one-side-unjudged")
		if exit != 0 {
			o.Fail("C20:cli:"+cl.Cmd+":exit", "%s: exit status %d: %s", who, exit, tail())
		}
		return
	}
	fm := modeName(wantUnc)
	o.Class("cli:expect:"+fm, "cli:cmd:"+cl.Cmd+":"+fm)
	if cl.KeySkip && matches == 1 && ruleMatch(key, arg, cwd) && cl.Key != "none" {
		o.Class("cli:expect:"+fm+"+skip-verify", "cli:cmd:"+cl.Cmd+":"+fm+"+skip-verify")
	}
	if matches == 1 && !wantUnc {
		o.Class("cli:expect:compressed-by-explicit-entry")
	}
	if wantUnc && !isGlob(key) && keyAbs != argAbs {
		o.Class(map[bool]string{true: "cli:expect:uncompressed:abs-key-rel-arg", false: "cli:expect:uncompressed:rel-key-abs-arg"}[keyAbs])
	}
	who += fmt.Sprintf(": the location is configured %s (%d matching key)", fm, matches)
	if exit != 0 {
		o.Fail("C20:cli:"+cl.Cmd+":exit", "%s: exit status %d: %s", who, exit, tail())
	}

	// files that were there before: those of the other format are none of this client's business
	names := make([]string, 0, len(pre))
	for name := range pre {
		names = append(names, name)
	}
	sort.Strings(names)
	writes := cl.Cmd == "chop" || cl.Cmd == "make" || cl.Cmd == "cache"
	for _, name := range names {
		otherFmt := strings.HasSuffix(name, ".cacnk") == wantUnc
		a, there := after.files[name]
		same := there && bytes.Equal(a, pre[name])
		switch {
		case same:
		case otherFmt && cl.Cmd == "prune":
			o.Fail("C20:cli:prune:pruned-other-format", "%s: the %s file %s is gone or changed", who, modeName(!wantUnc), name)
		case otherFmt && cl.Cmd == "verify":
			o.Fail("C20:cli:verify:removed-other-format", "%s: the %s file %s is gone or changed", who, modeName(!wantUnc), name)
		case otherFmt:
			o.Fail("C20:cli:"+cl.Cmd+":touched-other-format", "%s: the %s file %s is gone or changed", who, modeName(!wantUnc), name)
		case writes:
			o.Fail("C20:cli:"+cl.Cmd+":existing-file-changed", "%s: the existing file %s is gone or changed", who, name)
		case cl.Cmd == "verify" && !c.Repair:
			o.Fail("C20:cli:verify:removed-without-repair", "%s: %s is gone or changed", who, name)
		}
	}
	expectNew := map[string]bool{}
	switch cl.Cmd {
	case "verify":
		if strings.Contains(serr.String(), badOf[!wantUnc]) {
			o.Fail("C20:cli:verify:verified-other-format", "%s: verify reports the %s file of %s: %s", who, modeName(!wantUnc), badOf[!wantUnc], tail())
		}
		if strings.Contains(serr.String(), idA) {
			o.Fail("C20:cli:verify:complains-about-valid", "%s: verify reports the valid chunk %s: %s", who, idA, tail())
		}
	case "make":
		f, err := os.Open(idxPath)
		if err != nil {
			o.Fail("C20:cli:make:no-index", "%s: no index file: %v", who, err)
			break
		}
		idx, err := desync.IndexFromReader(f)
		f.Close()
		if err != nil {
			o.Fail("C20:cli:make:no-index", "%s: index file unreadable: %v", who, err)
			break
		}
		pieces = nil
		for _, ch := range idx.Chunks {
			if ch.Start+ch.Size > uint64(len(blob)) {
				o.Fail("C20:cli:make:no-index", "%s: index chunk %d+%d outside the %d-byte input", who, ch.Start, ch.Size, len(blob))
				continue
			}
			pieces = append(pieces, blob[ch.Start:ch.Start+ch.Size])
		}
	}
	for _, p := range pieces {
		id := sumID(p)
		own, foreign := storeName(id, wantUnc), storeName(id, !wantUnc)
		expectNew[own] = true
		if _, there := after.files[foreign]; there {
			o.Fail("C20:cli:"+cl.Cmd+":stored-in-other-format", "%s: the command created %s", who, foreign)
			expectNew[foreign] = true // reported once
		}
		f, there := after.files[own]
		switch {
		case !there:
			o.Fail("C20:cli:"+cl.Cmd+":not-stored-in-configured-format", "%s: %s was not created", who, own)
		case wantUnc && !bytes.Equal(f, p):
			o.Fail("C20:cli:"+cl.Cmd+":bad-content", "%s: %s holds %s, the chunk is %s", who, own, short(f), short(p))
		case !wantUnc:
			_, werr := walkFrame(f)
			dec, derr := other.Decompress(f)
			if werr != nil || derr != nil || !bytes.Equal(dec, p) {
				o.Fail("C20:cli:"+cl.Cmd+":bad-content", "%s: %s (%s) is not one standard zstd frame of the %d-byte chunk (walker: %v, %s: %v)", who, own, short(f), len(p), werr, other.Name(), derr)
			}
		}
	}
	for _, name := range after.names() {
		if _, was := before.files[name]; !was && !expectNew[name] {
			o.Fail("C20:cli:"+cl.Cmd+":extra-file", "%s: unexpected new file %s", who, name)
		}
	}
	for _, name := range after.odd {
		o.Fail("C20:cli:"+cl.Cmd+":extra-file", "%s: unexpected non-regular entry %s", who, name)
	}
}
