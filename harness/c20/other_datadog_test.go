//go:build datadog

package c20

// Build with tag `datadog`: desync compresses with the reference libzstd (cgo), so the
// harness uses klauspost/compress/zstd as the other implementation.

const (
	buildName  = "datadog"
	desyncImpl = "libzstd"
)

var (
	other codec = klauspostCodec{}
	same  codec = libzstdCodec{} // used by the self-test only
)
