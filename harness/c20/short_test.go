package c20

// StoreChunk under write faults. A re-exec'd child of the test binary ($VERIF_C20_CHILD = job
// file) lowers RLIMIT_FSIZE (SIGXFSZ ignored), so that no file can grow beyond the limit: a
// write that would cross it is cut short and the next one fails with EFBIG, while close succeeds
// — what a full disk or a quota does. The child stores the case's chunk with a compressed and
// an uncompressed client. The limit lies below, at or above the on-disk size of either format.
//
// Oracle (the layout oracle, whatever StoreChunk returned): every file under a chunk name is a
// complete well-formed object of that format for that ID; nil ⇒ the object is there; a store
// whose object fits the limit succeeds.

import (
	"bytes"
	"context"
	"encoding/json"
	"fmt"
	"os"
	"os/exec"
	"os/signal"
	"path/filepath"
	"syscall"
	"time"

	"github.com/folbricht/desync"
	"golang.org/x/sys/unix"
	"pgregory.net/rapid"

	"verifharness/internal/hx"
)

// ShortCase is part of the replay file.
type ShortCase struct {
	// zero | half-raw | below-raw | at-raw | above-raw | half-frame | below-frame | at-frame | above-frame
	Limit string `json:"limit"`
	Delta int    `json:"delta"` // distance for below-/above-
}

var shortLimits = []string{"zero", "half-raw", "below-raw", "at-raw", "above-raw", "half-frame", "below-frame", "at-frame", "above-frame"}

func (sc ShortCase) norm() ShortCase {
	ok := false
	for _, l := range shortLimits {
		ok = ok || sc.Limit == l
	}
	if !ok {
		sc.Limit = "below-raw"
	}
	if sc.Delta < 1 {
		sc.Delta = 1
	}
	if sc.Delta > 4096 {
		sc.Delta = 4096
	}
	return sc
}

func genShort(t *rapid.T) *ShortCase {
	sc := ShortCase{Limit: rapid.SampledFrom(shortLimits).Draw(t, "short.limit"),
		Delta: rapid.SampledFrom([]int{1, 1, 2, 7, 64, 1000}).Draw(t, "short.delta")}.norm()
	return &sc
}

func (sc ShortCase) limit(rawSize, frameSize int) int {
	size := rawSize
	switch sc.Limit {
	case "half-frame", "below-frame", "at-frame", "above-frame":
		size = frameSize
	}
	l := size
	switch sc.Limit {
	case "zero":
		l = 0
	case "half-raw", "half-frame":
		l = size / 2
	case "below-raw", "below-frame":
		l = size - sc.Delta
	case "above-raw", "above-frame":
		l = size + sc.Delta
	}
	if l < 0 {
		l = 0
	}
	return l
}

type shortJob struct {
	Case  Case   `json:"case"`
	Store string `json:"store"`
	Limit int    `json:"limit"`
}

type shortStoreResult struct {
	Unc bool   `json:"unc"`
	Err string `json:"err,omitempty"`
	Has bool   `json:"has"`
}

type shortResult struct {
	Done   bool               `json:"done"`
	Stores []shortStoreResult `json:"stores"`
}

// shortChild is the body of the re-exec'd test binary.
func shortChild(jobPath string) {
	unix.Prctl(unix.PR_SET_PDEATHSIG, uintptr(syscall.SIGKILL), 0, 0, 0)
	signal.Ignore(syscall.SIGXFSZ)
	infra := func(err error) {
		fmt.Println("C20-CHILD-INFRA:", err)
		os.Exit(3)
	}
	b, err := os.ReadFile(jobPath)
	var job shortJob
	if err == nil {
		err = json.Unmarshal(b, &job)
	}
	if err != nil {
		infra(err)
	}
	data := content(job.Case)
	id := chunkIDOf(data)
	var lim syscall.Rlimit
	syscall.Getrlimit(unix.RLIMIT_FSIZE, &lim)
	lim.Cur = uint64(job.Limit)
	if err := syscall.Setrlimit(unix.RLIMIT_FSIZE, &lim); err != nil {
		infra(err)
	}
	res := shortResult{Done: true}
	first := job.Case.Mode == "uncompressed"
	for _, unc := range []bool{first, !first} {
		st, err := desync.NewLocalStore(job.Store, desync.StoreOptions{Uncompressed: unc})
		if err != nil {
			infra(err)
		}
		r := shortStoreResult{Unc: unc}
		if err := st.StoreChunk(desync.NewChunk(append([]byte(nil), data...))); err != nil {
			if r.Err = err.Error(); r.Err == "" {
				r.Err = "(error with empty text)"
			}
		}
		r.Has, _ = st.HasChunk(id)
		res.Stores = append(res.Stores, r)
	}
	out, _ := json.Marshal(res)
	fmt.Println("C20-CHILD-RESULT:" + string(out))
	os.Exit(0)
}

func runShort(o *hx.Outcome, c Case, root string, data []byte) {
	sc := c.Short.norm()
	frame, err := desync.Compress(data)
	if err != nil {
		panic(err)
	}
	limit := sc.limit(len(data), len(frame))
	sizes := map[bool]int{true: len(data), false: len(frame)}
	dir := filepath.Join(root, "short")
	store := filepath.Join(dir, "store")
	if err := os.MkdirAll(store, 0o755); err != nil {
		panic(err)
	}
	job := shortJob{Case: c, Store: store, Limit: limit}
	job.Case.Short, job.Case.Conc, job.Case.CLI = nil, nil, nil
	jb, _ := json.Marshal(job)
	jobPath := filepath.Join(dir, "job.json")
	mustWrite(jobPath, jb)
	ctx, cancel := context.WithTimeout(context.Background(), 100*time.Second)
	defer cancel()
	cmd := exec.CommandContext(ctx, os.Args[0], "-test.run=^$")
	cmd.Env = append(os.Environ(), "VERIF_C20_CHILD="+jobPath)
	cmd.Dir = dir
	out, runErr := cmd.CombinedOutput()

	o.Class("store:short-write", "store:short-write:limit:"+sc.Limit)
	var res shortResult
	if i := bytes.Index(out, []byte("C20-CHILD-RESULT:")); i >= 0 {
		line := out[i+len("C20-CHILD-RESULT:"):]
		if j := bytes.IndexByte(line, '\n'); j >= 0 {
			line = line[:j]
		}
		json.Unmarshal(line, &res)
	}
	if !res.Done {
		tail := string(out)
		if len(tail) > 600 {
			tail = tail[len(tail)-600:]
		}
		if ctx.Err() != nil || bytes.Contains(out, []byte("C20-CHILD-INFRA:")) {
			o.Class("store:short-write:child-inconclusive")
		} else {
			o.Fail("C20:store:short-write:child-died", "the child storing a %d-byte chunk under RLIMIT_FSIZE=%d died without a result (%v): %s", len(data), limit, runErr, tail)
		}
		return
	}
	sid := sumID(data)
	s := snapshot(store)
	for _, r := range res.Stores {
		unc := r.Unc
		fm := modeName(unc)
		fault := sizes[unc] > limit
		what := fmt.Sprintf("%s client storing a %d-byte %s chunk (on-disk size %d) under RLIMIT_FSIZE=%d [%s], StoreChunk returned %q", fm, len(data), c.Fill, sizes[unc], limit, sc.Limit, r.Err)
		if fault {
			o.Class("store:short-write:delivered", "store:short-write:"+fm+"-cut")
		} else {
			o.Class("store:short-write:" + fm + "-fits")
		}
		name := sid[:4] + "/" + sid + ext(unc)
		_, there := s.files[name]
		if there {
			if problem, detail := objectOK(store, sid, unc, data, true); problem != "" {
				o.Fail("C20:store:short-write:malformed-object", "%s: the file under the chunk name %s is not a complete %s object of the chunk: %s", what, name, fm, detail)
			}
		}
		switch {
		case r.Err == "" && !there:
			o.Fail("C20:store:short-write:nil-but-no-object", "%s: no file %s", what, name)
		case r.Err == "" && fault:
			o.Fail("C20:store:short-write:nil-after-short-write", "%s: the object cannot have been written completely", what)
		case r.Err != "" && !fault:
			o.Fail("C20:store:short-write:error-without-fault", "%s although the object fits the limit", what)
		}
		if r.Has != there {
			o.Fail("C20:store:short-write:haschunk-disagrees", "%s: HasChunk of the client says %v, the file %s exists: %v", what, r.Has, name, there)
		}
	}
}

func shortRequired() []string {
	r := []string{"store:short-write", "store:short-write:delivered",
		"store:short-write:compressed-cut", "store:short-write:uncompressed-cut", "store:short-write:compressed-fits", "store:short-write:uncompressed-fits"}
	for _, l := range shortLimits {
		r = append(r, "store:short-write:limit:"+l)
	}
	return r
}
