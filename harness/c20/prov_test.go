package c20

// Chunk provenance: where the *desync.Chunk that is handed to LocalStore.StoreChunk of the
// desync-written store comes from. A chunk made with NewChunk holds plain data only; a chunk that
// came from another store holds that store's storage representation plus the converters of THAT
// store's format, and — when the source does not verify — never materialised its plain data.
// Whatever the chunk looks like inside, the destination must end up with casync's layout for the
// destination's own format; the layout oracle (judgeStore) is the same for every provenance.

import (
	"bytes"
	"context"
	"fmt"
	"net/http"
	"net/http/httptest"
	"net/url"
	"os"
	"path/filepath"
	"sync"

	"github.com/folbricht/desync"
	"pgregory.net/rapid"

	"verifharness/internal/hx"
)

// ProvSpec is part of the replay file. "same"/"opposite" are relative to the format of the
// destination store of the step the spec is used for.
type ProvSpec struct {
	// plain  : desync.NewChunk(data)
	// withid : desync.NewChunkWithID(id, data, SkipVerify)
	// local  : GetChunk from a source desync.LocalStore, then dst.StoreChunk(chunk)
	// cache  : desync.NewCache(source LocalStore, dst).GetChunk(id)
	// copy   : desync.Copy(ids, source LocalStore, dst)
	// http   : GetChunk from desync.RemoteHTTP talking to desync.NewHTTPHandler over a source LocalStore
	// put    : PUT to a writable desync.NewHTTPHandler whose upstream store is dst (the chunk server)
	Kind string `json:"kind"`
	// local cache copy http: format of the source LocalStore
	Src string `json:"src,omitempty"`
	// http put: format spoken between client and handler (= format of the chunk that reaches dst)
	Wire string `json:"wire,omitempty"`
	// SkipVerify of whatever creates the chunk that reaches dst: the source LocalStore
	// (local cache copy), the RemoteHTTP client (http), the handler's skipVerifyWrite (put),
	// the argument of NewChunkWithID (withid)
	SkipVerify bool `json:"skip_verify,omitempty"`
	// http: SkipVerify of the LocalStore behind the handler
	SrvSkipVerify bool `json:"srv_skip_verify,omitempty"`
	// Data() (and ID()) is called on the chunk before it is stored
	Touch bool `json:"touch,omitempty"`
	// who made the zstd frame of a compressed source file / PUT body: other | desync.
	// put with "desync" goes through desync.RemoteHTTP.StoreChunk over a real connection,
	// with "other" the request is made by hand with a body of the other implementation.
	Frame string `json:"frame,omitempty"`
}

var provKinds = []string{"plain", "withid", "local", "cache", "copy", "http", "put"}

func (p ProvSpec) usesSrc() bool {
	return p.Kind == "local" || p.Kind == "cache" || p.Kind == "copy" || p.Kind == "http"
}

func (p ProvSpec) usesWire() bool { return p.Kind == "http" || p.Kind == "put" }

func sameOpp(s string) string {
	if s == "opposite" {
		return s
	}
	return "same"
}

// norm maps every value (zero value of old replay files, shrunk or hand-made cases) onto a
// meaningful spec and clears the fields the kind does not use.
func (p ProvSpec) norm() ProvSpec {
	q := ProvSpec{Kind: "plain", Touch: p.Touch}
	for _, k := range provKinds {
		if p.Kind == k {
			q.Kind = k
		}
	}
	if q.usesSrc() {
		q.Src = sameOpp(p.Src)
	}
	if q.usesWire() {
		q.Wire = sameOpp(p.Wire)
	}
	if q.Kind != "plain" {
		q.SkipVerify = p.SkipVerify
	}
	if q.Kind == "http" {
		q.SrvSkipVerify = p.SrvSkipVerify
	}
	if q.Kind == "put" {
		q.Touch = false
	}
	if q.usesSrc() || q.usesWire() {
		q.Frame = "other"
		if p.Frame == "desync" {
			q.Frame = "desync"
		}
	}
	return q
}

// rel is the format of the chunk's storage representation relative to the destination
// ("" = the chunk has no storage representation).
func (p ProvSpec) rel() string {
	switch {
	case p.usesWire():
		return p.Wire
	case p.usesSrc():
		return p.Src
	}
	return ""
}

// lazy: the chunk reaches StoreChunk without its plain data ever having been materialised.
func (p ProvSpec) lazy() bool { return p.rel() != "" && p.SkipVerify && !p.Touch }

func pickFmt(rel string, dstUnc bool) bool {
	if rel == "opposite" {
		return !dstUnc
	}
	return dstUnc
}

func (p ProvSpec) label() string {
	sv, touch := "verify", "lazy"
	if p.SkipVerify {
		sv = "skipverify"
	}
	if p.Touch {
		touch = "touched"
	}
	switch p.Kind {
	case "plain":
		return "prov:plain-" + touch
	case "withid":
		return "prov:withid-" + sv + "-" + touch
	case "put":
		return "prov:put-" + p.Wire + "-" + sv
	default:
		return "prov:" + p.Kind + "-" + p.rel() + "-" + sv + "-" + touch
	}
}

func (p ProvSpec) key() string {
	return fmt.Sprintf("%s,src=%s,srv-sv=%v,frame=%s", p.label(), p.Src, p.SrvSkipVerify, p.Frame)
}

// classes of one step: the generated label, the derived state of the chunk with the direction
// of the format change, and details.
func (p ProvSpec) classes(dstUnc bool) []string {
	cl := []string{p.label()}
	dst := modeName(dstUnc) + "-store"
	switch {
	case p.rel() == "":
		cl = append(cl, "chunk:plain-only->"+dst)
	case p.lazy():
		cl = append(cl, "chunk:storage-only:"+modeName(pickFmt(p.rel(), dstUnc))+"->"+dst)
	default:
		cl = append(cl, "chunk:storage+plain:"+modeName(pickFmt(p.rel(), dstUnc))+"->"+dst)
	}
	if p.Kind == "http" {
		sv := "verify"
		if p.SrvSkipVerify {
			sv = "skipverify"
		}
		cl = append(cl, "prov:http-server:store-"+p.Src+",wire-"+p.Wire+","+sv)
	}
	if p.Kind == "put" {
		cl = append(cl, "prov:put-client:"+map[string]string{"desync": "RemoteHTTP", "other": "hand-made-request"}[p.Frame])
	}
	if (p.usesSrc() && !pickFmt(p.Src, dstUnc)) || (p.Kind == "put" && !pickFmt(p.Wire, dstUnc)) {
		cl = append(cl, "prov:source-frame-by:"+map[string]string{"desync": desyncImpl, "other": other.Name()}[p.Frame])
	}
	return cl
}

func genProv(t *rapid.T, name string) ProvSpec {
	kinds := []string{"plain", "plain", "withid", "local", "local", "local", "local", "cache", "cache", "copy", "copy", "http", "http", "put", "put"}
	p := ProvSpec{Kind: rapid.SampledFrom(kinds).Draw(t, name+".kind")}
	so := []string{"same", "opposite"}
	if p.usesSrc() {
		p.Src = rapid.SampledFrom(so).Draw(t, name+".src")
	}
	if p.usesWire() {
		p.Wire = rapid.SampledFrom(so).Draw(t, name+".wire")
	}
	if p.Kind != "plain" {
		p.SkipVerify = rapid.Bool().Draw(t, name+".skipverify")
	}
	if p.Kind == "http" {
		p.SrvSkipVerify = rapid.Bool().Draw(t, name+".srvskipverify")
	}
	if p.Kind != "put" {
		p.Touch = rapid.Bool().Draw(t, name+".touch")
	}
	if p.usesSrc() || p.usesWire() {
		p.Frame = rapid.SampledFrom([]string{"other", "desync"}).Draw(t, name+".frame")
	}
	return p.norm()
}

// provGrid is the complete list of distinct normalised specs.
func provGrid() []ProvSpec {
	var g []ProvSpec
	seen := map[ProvSpec]bool{}
	bools := []bool{false, true}
	for _, kind := range provKinds {
		for _, src := range []string{"same", "opposite"} {
			for _, wire := range []string{"same", "opposite"} {
				for _, sv := range bools {
					for _, ssv := range bools {
						for _, touch := range bools {
							for _, frame := range []string{"other", "desync"} {
								p := ProvSpec{Kind: kind, Src: src, Wire: wire, SkipVerify: sv, SrvSkipVerify: ssv, Touch: touch, Frame: frame}.norm()
								if !seen[p] {
									seen[p] = true
									g = append(g, p)
								}
							}
						}
					}
				}
			}
		}
	}
	return g
}

func provRequired() []string {
	r := []string{
		"prov:plain-lazy", "prov:plain-touched",
		"prov:withid-verify-lazy", "prov:withid-skipverify-lazy", "prov:withid-skipverify-touched",
		"prov:put-same-verify", "prov:put-same-skipverify", "prov:put-opposite-verify", "prov:put-opposite-skipverify",
		"prov:put-client:RemoteHTTP", "prov:put-client:hand-made-request",
		"prov:source-frame-by:klauspost", "prov:source-frame-by:libzstd",
	}
	for _, rel := range []string{"same", "opposite"} {
		for _, st := range []string{"verify-lazy", "verify-touched", "skipverify-lazy", "skipverify-touched"} {
			r = append(r, "prov:local-"+rel+"-"+st)
		}
		for _, kind := range []string{"cache", "copy", "http"} {
			r = append(r, "prov:"+kind+"-"+rel+"-skipverify-lazy")
		}
	}
	for _, kind := range []string{"cache", "copy", "http"} {
		r = append(r, "prov:"+kind+"-opposite-skipverify-touched", "prov:"+kind+"-opposite-verify-lazy")
	}
	for _, dst := range []string{"compressed", "uncompressed"} {
		r = append(r, "chunk:plain-only->"+dst+"-store")
		for _, src := range []string{"compressed", "uncompressed"} {
			r = append(r, "chunk:storage-only:"+src+"->"+dst+"-store", "chunk:storage+plain:"+src+"->"+dst+"-store")
		}
	}
	return r
}

// ---------------------------------------------------------------- stores around the destination

// recStore is the destination as seen by Cache, Copy and the HTTP handler: the real
// LocalStore, with its StoreChunk calls counted.
type recStore struct {
	desync.LocalStore
	mu    sync.Mutex
	calls int
	errs  []error
}

func (r *recStore) StoreChunk(c *desync.Chunk) error {
	err := r.LocalStore.StoreChunk(c)
	r.mu.Lock()
	defer r.mu.Unlock()
	r.calls++
	if err != nil {
		r.errs = append(r.errs, err)
	}
	return err
}

// touchStore is the source as seen by Cache and Copy; with touch set it does what a store
// router or a caller that looks at the data would do before passing the chunk on.
type touchStore struct {
	desync.Store
	touch bool
	check func(ch *desync.Chunk)
}

func (s touchStore) GetChunk(id desync.ChunkID) (*desync.Chunk, error) {
	ch, err := s.Store.GetChunk(id)
	if err == nil && s.touch {
		s.check(ch)
	}
	return ch, err
}

func frameBy(who string, data []byte) []byte {
	if who == "desync" {
		f, err := desync.Compress(data)
		if err != nil {
			panic("desync.Compress: " + err.Error())
		}
		return f
	}
	return other.Compress(data)
}

// storeVia performs the one StoreChunk into dst that the provenance describes. Source stores
// are written by hand below scratch (never by the StoreChunk under test). It returns false when
// nothing that can be judged was stored (the reason has been reported).
func storeVia(o *hx.Outcome, p ProvSpec, dst desync.LocalStore, unc bool, scratch string, id desync.ChunkID, sid string, data []byte) bool {
	who := fmt.Sprintf("%s store, chunk %s", modeName(unc), p.key())
	fail := func(stage, format string, a ...any) {
		o.Fail("C20:prov:"+p.Kind+":"+stage, "%s: %s", who, fmt.Sprintf(format, a...))
	}
	rec := &recStore{LocalStore: dst}
	touch := func(ch *desync.Chunk) {
		if got := ch.ID(); got != id {
			fail("chunk-id", "the chunk obtained from the source says its ID is %s, expected %s", got.String(), sid)
		}
		b, err := ch.Data()
		if err != nil {
			fail("chunk-data", "Data() of the chunk obtained from the source: %v", err)
		} else if !bytes.Equal(b, data) {
			fail("chunk-data", "Data() of the chunk obtained from the source returns %s, the chunk is %s", short(b), short(data))
		}
	}

	// the source LocalStore, written casync's way by hand
	var src desync.LocalStore
	if p.usesSrc() {
		srcUnc := pickFmt(p.Src, unc)
		file := data
		if !srcUnc {
			file = frameBy(p.Frame, data)
		}
		if err := os.MkdirAll(filepath.Join(scratch, sid[:4]), 0o755); err != nil {
			panic(err)
		}
		if err := os.WriteFile(filepath.Join(scratch, sid[:4], sid+ext(srcUnc)), file, 0o644); err != nil {
			panic(err)
		}
		sv := p.SkipVerify
		if p.Kind == "http" {
			sv = p.SrvSkipVerify
		}
		var err error
		if src, err = desync.NewLocalStore(scratch, desync.StoreOptions{Uncompressed: srcUnc, SkipVerify: sv}); err != nil {
			panic(err)
		}
	}
	serve := func(h http.Handler) (*httptest.Server, *desync.RemoteHTTP) {
		srv := httptest.NewServer(h)
		u, err := url.Parse(srv.URL + "/")
		if err != nil {
			panic(err)
		}
		sv := p.SkipVerify && p.Kind == "http"
		client, err := desync.NewRemoteHTTPStore(u, desync.StoreOptions{Uncompressed: pickFmt(p.Wire, unc), SkipVerify: sv, ErrorRetry: 0})
		if err != nil {
			panic(err)
		}
		return srv, client
	}

	var ch *desync.Chunk // set by the kinds where the harness itself calls dst.StoreChunk
	switch p.Kind {
	case "plain":
		ch = desync.NewChunk(append([]byte(nil), data...))
	case "withid":
		var err error
		if ch, err = desync.NewChunkWithID(id, append([]byte(nil), data...), p.SkipVerify); err != nil {
			fail("get", "NewChunkWithID: %v", err)
			return false
		}
	case "local":
		var err error
		if ch, err = src.GetChunk(id); err != nil {
			fail("get", "GetChunk from the source LocalStore: %v", err)
			return false
		}
	case "http":
		srv, client := serve(desync.NewHTTPHandler(src, false, false, converters(pickFmt(p.Wire, unc)), ""))
		var err error
		ch, err = client.GetChunk(id)
		srv.Close()
		if err != nil {
			fail("get", "GetChunk through RemoteHTTP from a chunk server over the source LocalStore: %v", err)
			return false
		}
	case "cache":
		got, err := desync.NewCache(touchStore{src, p.Touch, touch}, rec).GetChunk(id)
		if err != nil && len(rec.errs) == 0 {
			fail("get", "Cache.GetChunk: %v", err)
			return false
		}
		if err == nil {
			touch(got) // what the cache hands to its caller
		}
	case "copy":
		if err := desync.Copy(context.Background(), []desync.ChunkID{id}, touchStore{src, p.Touch, touch}, rec, 1, desync.NullProgressBar{}); err != nil && len(rec.errs) == 0 {
			fail("get", "Copy: %v", err)
			return false
		}
	case "put":
		wireUnc := pickFmt(p.Wire, unc)
		h := desync.NewHTTPHandler(rec, true, p.SkipVerify, converters(wireUnc), "")
		if p.Frame == "desync" {
			srv, client := serve(h)
			err := client.StoreChunk(desync.NewChunk(append([]byte(nil), data...)))
			srv.Close()
			if err != nil && len(rec.errs) == 0 {
				fail("put", "StoreChunk through RemoteHTTP to a chunk server over the destination: %v", err)
				return false
			}
		} else {
			body := data
			if !wireUnc {
				body = other.Compress(data)
			}
			w := httptest.NewRecorder()
			h.ServeHTTP(w, httptest.NewRequest("PUT", "/"+sid[:4]+"/"+sid+ext(wireUnc), bytes.NewReader(body)))
			if w.Code != http.StatusOK && len(rec.errs) == 0 {
				fail("put", "PUT of %s to a chunk server over the destination answered %d: %s", short(body), w.Code, short(w.Body.Bytes()))
				return false
			}
		}
	}
	if ch != nil {
		if p.Touch {
			touch(ch)
		}
		rec.StoreChunk(ch)
	}
	if len(rec.errs) > 0 {
		o.Fail("C20:store:error", "StoreChunk (%s, %d bytes): %v", who, len(data), rec.errs[0])
		return false
	}
	if rec.calls != 1 {
		fail("store-calls", "the destination's StoreChunk was called %d times, expected once", rec.calls)
		return rec.calls > 0
	}
	return true
}
