package sched

import (
	"bytes"
	"runtime"
	"sort"
	"strconv"
	"strings"
	"sync"
	"time"

	"github.com/folbricht/desync"
)

// Controlled serialises a group of worker goroutines of the code under test at their verif
// hook sites: every worker parks at each site whose name starts with prefix, and a
// controller, following the generated choice list, releases exactly one parked worker at a
// time and waits until it parks again (or reaches exitSite). Workers are identified by
// the rank of their goroutine ID (goroutines are created in worker order). The schedule
// is therefore a pure function of (choices, tail) as long as workers block nowhere but in
// hooks, which holds for the parallel chunker (non-blocking selects, amply buffered sends).
//
// Fallback timeouts only exist so that code that blocks elsewhere cannot wedge the harness;
// they can make a schedule differ from the requested one but never decide a verdict.
type Controlled struct {
	N        int      // expected number of workers
	Prefix   string   // e.g. "pchunk."
	ExitSite string   // e.g. "pchunk.exit"
	Ignore   []string // sites of other goroutines (e.g. the collecting main loop)
	Choices  []int    // index into the rank-sorted list of parked workers
	Tail     string   // when choices run out: "low" | "high" | "rr" | "prio"
	Prio     []int    // Tail "prio": worker ranks from highest to lowest priority (PCT style)
	Changes  []int    // Tail "prio": step numbers at which the worker that ran last drops to lowest priority

	Steps    int  // releases performed (output)
	Degraded bool // a fallback timeout fired (output)
}

type arrival struct {
	gid    int
	site   string
	resume chan struct{}
}

func goid() int {
	var buf [64]byte
	n := runtime.Stack(buf[:], false)
	f := bytes.Fields(buf[:n])
	if len(f) < 2 {
		return -1
	}
	id, _ := strconv.Atoi(string(f[1]))
	return id
}

// Run executes body with the controller installed and returns when body has returned and
// every parked worker has been let go.
func (c *Controlled) Run(body func()) {
	arrivals := make(chan arrival, 64)
	var draining bool
	var mu sync.Mutex
	isDraining := func() bool { mu.Lock(); defer mu.Unlock(); return draining }

	desync.VerifHook = func(site string) {
		if !strings.HasPrefix(site, c.Prefix) {
			return
		}
		for _, ig := range c.Ignore {
			if site == ig {
				return
			}
		}
		if isDraining() {
			return
		}
		a := arrival{gid: goid(), site: site, resume: make(chan struct{})}
		arrivals <- a
		<-a.resume
	}

	bodyDone := make(chan struct{})
	ctrlDone := make(chan struct{})
	go func() {
		defer close(ctrlDone)
		parked := map[int]arrival{} // gid -> parked arrival
		finished := 0
		releaseAll := func() {
			mu.Lock()
			draining = true
			mu.Unlock()
			for _, a := range parked {
				close(a.resume)
			}
			parked = map[int]arrival{}
			// let go whoever arrives from now on
			for {
				select {
				case a := <-arrivals:
					close(a.resume)
				case <-time.After(20 * time.Millisecond):
					select {
					case <-bodyDone:
						return
					default:
					}
				}
			}
		}
		// phase 1: wait for all workers to reach their first site
		deadline := time.After(2 * time.Second)
		for len(parked) < c.N {
			select {
			case a := <-arrivals:
				parked[a.gid] = a
			case <-bodyDone:
				releaseAll()
				return
			case <-deadline:
				c.Degraded = true
				goto phase2
			}
		}
	phase2:
		rr := 0
		// stable ranks: position in gid order at the end of phase 1; late comers get the next ranks
		rank := map[int]int{}
		{
			gids := make([]int, 0, len(parked))
			for g := range parked {
				gids = append(gids, g)
			}
			sort.Ints(gids)
			for i, g := range gids {
				rank[g] = i
			}
		}
		prio := map[int]int{} // rank -> priority value (higher runs first)
		for i, r := range c.Prio {
			if _, ok := prio[r]; !ok {
				prio[r] = 1000 - i
			}
		}
		lowest := 0
		lastRank := -1
		isChange := map[int]bool{}
		for _, s := range c.Changes {
			isChange[s] = true
		}
		for i := 0; finished < c.N && len(parked) > 0; i++ {
			gids := make([]int, 0, len(parked))
			for g := range parked {
				gids = append(gids, g)
			}
			sort.Ints(gids)
			var k int
			if i < len(c.Choices) {
				k = c.Choices[i]
				if k < 0 {
					k = -k
				}
				k %= len(gids)
			} else {
				switch c.Tail {
				case "prio":
					if isChange[i] && lastRank >= 0 {
						lowest--
						prio[lastRank] = lowest
					}
					best := -1 << 30
					for j, g := range gids {
						r, ok := rank[g]
						if !ok {
							r = len(rank)
							rank[g] = r
						}
						if p := prio[r]; p > best {
							best, k = p, j
						}
					}
				case "high":
					k = len(gids) - 1
				case "rr":
					k = rr % len(gids)
					rr++
				default:
					k = 0
				}
			}
			a := parked[gids[k]]
			if r, ok := rank[a.gid]; ok {
				lastRank = r
			}
			delete(parked, a.gid)
			c.Steps++
			close(a.resume)
			if a.site == c.ExitSite {
				finished++
				continue
			}
			// wait for that worker to park again
			select {
			case b := <-arrivals:
				parked[b.gid] = b
			case <-bodyDone:
				releaseAll()
				return
			case <-time.After(5 * time.Second):
				c.Degraded = true // worker blocked outside a hook: carry on with the others
			}
		}
		// Whoever is still on its way to a hook (a worker that showed up after a fallback
		// timeout and was never counted) must not park for good: let everything go from here on.
		if finished < c.N {
			c.Degraded = true
		}
		releaseAll()
	}()

	body()
	close(bodyDone)
	<-ctrlDone
	mu.Lock()
	draining = true
	mu.Unlock()
	desync.VerifHook = nil
}
