// Package sched provides schedule perturbation through desync's verif hook sites.
package sched

import (
	"runtime"
	"sync"
	"sync/atomic"
	"time"

	"github.com/folbricht/desync"
	"pgregory.net/rapid"
)

// Perturb installs a hook that, at every verifYield site, consumes the next value of vec
// (round-robin) and yields accordingly: 0 nothing, 1..3 Gosched x v, 4..7 sleep 2^(v-2) µs.
// It returns an uninstall function which also reports per-site hit counts. The sleeps only
// shake the schedule; no verdict depends on time.
func Perturb(vec []int) (uninstall func() map[string]int) {
	var idx atomic.Int64
	var mu sync.Mutex
	hits := map[string]int{}
	desync.VerifHook = func(site string) {
		mu.Lock()
		hits[site]++
		mu.Unlock()
		if len(vec) == 0 {
			return
		}
		v := vec[int(idx.Add(1)-1)%len(vec)]
		switch {
		case v <= 0:
		case v <= 3:
			for i := 0; i < v; i++ {
				runtime.Gosched()
			}
		default:
			if v > 7 {
				v = 7
			}
			time.Sleep(time.Duration(1<<(v-2)) * time.Microsecond)
		}
	}
	return func() map[string]int {
		desync.VerifHook = nil
		mu.Lock()
		defer mu.Unlock()
		return hits
	}
}

// Quiesce waits until the number of goroutines is back to base (taken with
// runtime.NumGoroutine before the call under test), so that workers the code under test
// leaves behind (IndexFromFile only signals its chunk workers to stop) cannot wander into
// the hook of the next run. Returns false if that did not happen within 5 s.
func Quiesce(base int) bool { return QuiesceFor(base, 5*time.Second) }

// QuiesceFor is Quiesce with a caller-chosen patience (for code paths that are known to
// leave goroutines behind for good, e.g. workers abandoned on an error return).
func QuiesceFor(base int, patience time.Duration) bool {
	deadline := time.Now().Add(patience)
	for i := 0; runtime.NumGoroutine() > base; i++ {
		if time.Now().After(deadline) {
			return false
		}
		if i < 100 {
			runtime.Gosched()
		} else {
			time.Sleep(50 * time.Microsecond)
		}
	}
	return true
}

// Vector draws a perturbation vector: mostly zeros/yields with occasional sleeps.
func Vector(t *rapid.T, label string) []int {
	n := rapid.IntRange(0, 12).Draw(t, label+"len")
	v := make([]int, n)
	for i := range v {
		v[i] = rapid.SampledFrom([]int{0, 0, 0, 1, 1, 2, 3, 4, 5, 6}).Draw(t, label)
	}
	return v
}
