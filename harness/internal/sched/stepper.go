package sched

import (
	"bytes"
	"runtime"
	"strconv"
	"sync"
	"time"
)

// Stepper owns the schedule of a fixed set of caller goroutines that the harness itself
// starts. Callers park at named sites (verif hooks of the code under test, and gates of the
// fake upstream store); the stepper releases exactly one parked caller per step, following a
// choice list, and then waits until every caller is stable: parked at a site, returned, or
// blocked inside the code under test (channel receive, mutex, …) as reported by the Go
// runtime's goroutine status. Because only one caller runs at a time, the sequence of
// events is a function of the choice list alone and every event gets a logical time.
type Stepper struct {
	mu      sync.Mutex
	gidOf   map[int]int // goroutine id -> caller index
	events  chan stepEvent
	state   []callerState
	Clock   int        // logical time = number of releases so far
	Trace   []TraceRec // what happened, in order
	Branch  []int      // number of parked callers at each step (for enumeration)
	Timeout bool       // stabilisation took implausibly long (harness problem, not a verdict)
}

type stepEvent struct {
	caller int
	site   string // "" = returned
	resume chan struct{}
}

type callerState struct {
	status string // running | parked | blocked | done
	site   string
	resume chan struct{}
}

// TraceRec is one observation with its logical time.
type TraceRec struct {
	T      int    `json:"t"`
	Caller int    `json:"caller"`
	What   string `json:"what"` // arrive:<site> | release:<site> | return | blocked | unblocked
}

func NewStepper(n int) *Stepper {
	s := &Stepper{gidOf: map[int]int{}, events: make(chan stepEvent, 256), state: make([]callerState, n)}
	for i := range s.state {
		s.state[i].status = "running"
	}
	return s
}

// Register must be called by caller goroutine i before anything else.
func (s *Stepper) Register(i int) {
	g := goid()
	s.mu.Lock()
	s.gidOf[g] = i
	s.mu.Unlock()
}

// Park is called on a caller goroutine at a site. Goroutines that are not registered callers
// pass through.
func (s *Stepper) Park(site string) {
	g := goid()
	s.mu.Lock()
	i, ok := s.gidOf[g]
	s.mu.Unlock()
	if !ok {
		return
	}
	ev := stepEvent{caller: i, site: site, resume: make(chan struct{})}
	s.events <- ev
	<-ev.resume
}

// Returned is called by caller goroutine i after the call under test returned.
func (s *Stepper) Returned(i int) { s.events <- stepEvent{caller: i} }

func (s *Stepper) rec(caller int, what string) {
	s.Trace = append(s.Trace, TraceRec{T: s.Clock, Caller: caller, What: what})
}

func (s *Stepper) apply(ev stepEvent) {
	st := &s.state[ev.caller]
	if ev.site == "" {
		st.status = "done"
		s.rec(ev.caller, "return")
		return
	}
	st.status, st.site, st.resume = "parked", ev.site, ev.resume
	s.rec(ev.caller, "arrive:"+ev.site)
}

// goroutineStates parses the runtime's goroutine dump into id -> wait state.
func goroutineStates() map[int]string {
	buf := make([]byte, 1<<16)
	for {
		n := runtime.Stack(buf, true)
		if n < len(buf) {
			buf = buf[:n]
			break
		}
		buf = make([]byte, 2*len(buf))
	}
	out := map[int]string{}
	for _, blk := range bytes.Split(buf, []byte("\n\n")) {
		if !bytes.HasPrefix(blk, []byte("goroutine ")) {
			continue
		}
		line := blk
		if i := bytes.IndexByte(blk, '\n'); i >= 0 {
			line = blk[:i]
		}
		f := bytes.Fields(line)
		if len(f) < 3 {
			continue
		}
		id, err := strconv.Atoi(string(f[1]))
		if err != nil {
			continue
		}
		l := bytes.IndexByte(line, '[')
		r := bytes.LastIndexByte(line, ']')
		if l < 0 || r < l {
			continue
		}
		st := string(line[l+1 : r])
		if c := bytes.IndexByte([]byte(st), ','); c >= 0 {
			st = st[:c]
		}
		out[id] = st
	}
	return out
}

// blockedState classifies a runtime wait state: "no" (running), "yes" (waiting for another
// goroutine: channel, select, condition) or "maybe" (lock acquisition or sleep, which is
// normally momentary and only counts as blocked when it persists).
func blockedState(st string) string {
	switch st {
	case "running", "runnable", "syscall", "":
		return "no"
	case "chan receive", "chan send", "select", "sync.Cond.Wait", "sync.WaitGroup.Wait", "chan receive (nil chan)", "chan send (nil chan)", "select (no cases)":
		return "yes"
	}
	return "maybe" // semacquire, sync.Mutex.Lock, sync.RWMutex.*, sleep, GC assist wait, ...
}

// Stabilise waits until no caller is running.
func (s *Stepper) Stabilise() {
	deadline := time.Now().Add(20 * time.Second)
	maybeSince := map[int]time.Time{}
	for spin := 0; ; spin++ {
		// drain events
	drain:
		for {
			select {
			case ev := <-s.events:
				s.apply(ev)
			default:
				break drain
			}
		}
		pending := false
		for i := range s.state {
			if s.state[i].status == "running" || s.state[i].status == "blocked" {
				pending = true
			}
		}
		if !pending {
			return
		}
		if spin < 3 {
			runtime.Gosched()
			continue
		}
		// consult the runtime about running/blocked callers
		states := goroutineStates()
		s.mu.Lock()
		gid := map[int]int{}
		for g, i := range s.gidOf {
			gid[i] = g
		}
		s.mu.Unlock()
		// events may have arrived while we looked: drain again before judging
		again := false
		for {
			select {
			case ev := <-s.events:
				s.apply(ev)
				again = true
				continue
			default:
			}
			break
		}
		if again {
			continue
		}
		allStable := true
		for i := range s.state {
			st := &s.state[i]
			if st.status != "running" && st.status != "blocked" {
				continue
			}
			g, known := gid[i]
			if !known {
				allStable = false // not registered yet
				continue
			}
			rs, ok := states[g]
			if !ok {
				allStable = false // goroutine gone but no return event seen yet
				continue
			}
			bs := blockedState(rs)
			if bs == "maybe" {
				// a lock that stays unavailable for seconds while nobody else runs is a deadlock
				if t0, ok := maybeSince[i]; !ok {
					maybeSince[i] = time.Now()
					bs = "no"
				} else if time.Since(t0) < 3*time.Second {
					bs = "no"
				} else {
					bs = "yes"
				}
			} else {
				delete(maybeSince, i)
			}
			if bs == "yes" {
				if st.status != "blocked" {
					st.status = "blocked"
					s.rec(i, "blocked")
				}
			} else {
				if st.status == "blocked" {
					st.status = "running"
					s.rec(i, "unblocked")
				}
				allStable = false
			}
		}
		if allStable {
			// a caller reported blocked may have been between "send event" and "receive resume":
			// its event would be in the channel; check once more
			select {
			case ev := <-s.events:
				s.apply(ev)
				continue
			default:
			}
			return
		}
		if time.Now().After(deadline) {
			s.Timeout = true
			return
		}
		runtime.Gosched()
	}
}

// Parked lists the callers currently parked, in caller order.
func (s *Stepper) Parked() []int {
	var out []int
	for i := range s.state {
		if s.state[i].status == "parked" {
			out = append(out, i)
		}
	}
	return out
}

func (s *Stepper) Status(i int) (status, site string) { return s.state[i].status, s.state[i].site }

// Release lets caller i proceed from the site it is parked at and advances the clock.
func (s *Stepper) Release(i int) {
	st := &s.state[i]
	if st.status != "parked" {
		return
	}
	s.Clock++
	s.rec(i, "release:"+st.site)
	st.status = "running"
	close(st.resume)
}

// Run drives the callers to completion: at each step it picks parked[choice % len(parked)]
// (choice 0 once the list is exhausted). It returns when no caller is parked any more;
// callers that are then still blocked are reported by Blocked().
func (s *Stepper) Run(choices []int) {
	for step := 0; ; step++ {
		s.Stabilise()
		if s.Timeout {
			return
		}
		p := s.Parked()
		if len(p) == 0 {
			return
		}
		s.Branch = append(s.Branch, len(p))
		k := 0
		if step < len(choices) {
			k = choices[step]
			if k < 0 {
				k = -k
			}
			k %= len(p)
		}
		s.Release(p[k])
	}
}

// Blocked lists callers that neither returned nor are parked.
func (s *Stepper) Blocked() []int {
	var out []int
	for i := range s.state {
		if s.state[i].status == "blocked" || s.state[i].status == "running" {
			out = append(out, i)
		}
	}
	return out
}

// NextSchedule turns (choices used, branching factors observed) into the next choice list in
// depth-first order, or nil when the space is exhausted.
func NextSchedule(choices, branch []int) []int {
	c := make([]int, len(branch))
	for i := range c {
		if i < len(choices) {
			c[i] = choices[i] % branch[i]
		}
	}
	for i := len(c) - 1; i >= 0; i-- {
		if c[i]+1 < branch[i] {
			c[i]++
			return c[:i+1]
		}
	}
	return nil
}

// GoID returns the current goroutine's id.
func GoID() int { return goid() }
