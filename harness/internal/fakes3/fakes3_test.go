package fakes3

import (
	"bytes"
	"context"
	"fmt"
	"math/rand"
	"reflect"
	"sort"
	"strings"
	"testing"

	"github.com/folbricht/desync"
	"github.com/klauspost/compress/zstd"
	minio "github.com/minio/minio-go/v6"
)

func blob(seed int64, n int) []byte {
	b := make([]byte, n)
	rand.New(rand.NewSource(seed)).Read(b)
	return b
}

func unzstd(t *testing.T, b []byte) []byte {
	t.Helper()
	d, err := zstd.NewReader(nil)
	if err != nil {
		t.Fatal(err)
	}
	defer d.Close()
	out, err := d.DecodeAll(b, nil)
	if err != nil {
		t.Fatalf("stored object is not a zstd frame: %v", err)
	}
	return out
}

func isMissing(err error) bool {
	_, ok := err.(desync.ChunkMissing)
	return ok
}

func kinds(log []Request) string {
	var s []string
	for _, r := range log {
		s = append(s, string(r.Kind))
	}
	return strings.Join(s, ",")
}

func TestChunkRoundTrip(t *testing.T) {
	for _, uncompressed := range []bool{false, true} {
		for _, prefix := range []string{"", "pre", "deep/er/prefix"} {
			t.Run(fmt.Sprintf("uncompressed=%v/prefix=%q", uncompressed, prefix), func(t *testing.T) {
				srv := New()
				defer srv.Close()
				st, err := ChunkStore(srv, "bkt", prefix, desync.StoreOptions{Uncompressed: uncompressed})
				if err != nil {
					t.Fatal(err)
				}
				defer st.Close()

				data := blob(1, 5000)
				c := desync.NewChunk(data)
				id := c.ID()
				key := ChunkKey(prefix, id, uncompressed)

				// missing first
				if _, err := st.GetChunk(id); !isMissing(err) {
					t.Fatalf("GetChunk on empty store: want ChunkMissing, got %v", err)
				}
				if ok, err := st.HasChunk(id); ok || err != nil {
					t.Fatalf("HasChunk on empty store: %v %v", ok, err)
				}

				if err := st.StoreChunk(c); err != nil {
					t.Fatal(err)
				}
				if got := srv.Keys("bkt"); !reflect.DeepEqual(got, []string{key}) {
					t.Fatalf("keys after store: %v, want [%s]", got, key)
				}
				raw, _ := srv.Get("bkt", key)
				if uncompressed {
					if !bytes.Equal(raw, data) {
						t.Fatal("stored bytes differ from chunk data")
					}
				} else if !bytes.Equal(unzstd(t, raw), data) {
					t.Fatal("stored frame does not decompress to chunk data")
				}

				got, err := st.GetChunk(id)
				if err != nil {
					t.Fatal(err)
				}
				if b, err := got.Data(); err != nil || !bytes.Equal(b, data) {
					t.Fatalf("GetChunk returned other data (err %v)", err)
				}
				if ok, err := st.HasChunk(id); !ok || err != nil {
					t.Fatalf("HasChunk after store: %v %v", ok, err)
				}

				// log shape: GET(404) HEAD(404) PUT GET HEAD
				if k := kinds(srv.Log()); k != "GET,HEAD,PUT,GET,HEAD" {
					t.Fatalf("request kinds: %s", k)
				}
				l := srv.Log()
				if l[0].Status != 404 || l[1].Status != 404 || l[2].Status != 200 || l[3].Status != 200 || l[4].Status != 200 {
					t.Fatalf("statuses: %v", l)
				}
				if l[3].Path != "/bkt/"+key || l[3].Bucket != "bkt" || l[3].Key != key || l[3].N != 2 || l[3].Seq != 4 {
					t.Fatalf("log entry: %+v", l[3])
				}

				if err := st.RemoveChunk(id); err != nil {
					t.Fatal(err)
				}
				if len(srv.Keys("bkt")) != 0 {
					t.Fatal("object still there after RemoveChunk")
				}
				if _, err := st.GetChunk(id); !isMissing(err) {
					t.Fatalf("after remove: want ChunkMissing, got %v", err)
				}
			})
		}
	}
}

func TestBackDoorAndInvalid(t *testing.T) {
	srv := New()
	defer srv.Close()
	st, err := ChunkStore(srv, "bkt", "", desync.StoreOptions{Uncompressed: true})
	if err != nil {
		t.Fatal(err)
	}
	data := blob(2, 300)
	id := desync.NewChunk(data).ID()
	srv.Put("bkt", ChunkKey("", id, true), data)
	c, err := st.GetChunk(id)
	if err != nil {
		t.Fatal(err)
	}
	if b, _ := c.Data(); !bytes.Equal(b, data) {
		t.Fatal("planted object not served")
	}
	bad := append([]byte(nil), data...)
	bad[7] ^= 1
	srv.Put("bkt", ChunkKey("", id, true), bad)
	if _, err := st.GetChunk(id); err == nil {
		t.Fatal("poisoned object accepted")
	} else if _, ok := err.(desync.ChunkInvalid); !ok {
		t.Fatalf("want ChunkInvalid, got %T %v", err, err)
	}
	if !srv.Delete("bkt", ChunkKey("", id, true)) || srv.Delete("bkt", ChunkKey("", id, true)) {
		t.Fatal("Delete result wrong")
	}
	if _, ok := srv.Get("bkt", "nope"); ok {
		t.Fatal("Get of absent key")
	}
	if srv.Keys("nobucket") != nil {
		t.Fatal("Keys of absent bucket")
	}
}

func TestNoSuchBucket(t *testing.T) {
	srv := New()
	defer srv.Close()
	st, err := ChunkStore(srv, "bkt", "", desync.StoreOptions{})
	if err != nil {
		t.Fatal(err)
	}
	srv.RemoveBucket("bkt")
	id := desync.NewChunk(blob(3, 10)).ID()
	_, err = st.GetChunk(id)
	if err == nil || isMissing(err) || !strings.Contains(err.Error(), "does not exist") {
		t.Fatalf("want bucket-does-not-exist error, got %v", err)
	}
}

func TestPrune(t *testing.T) {
	for _, uncompressed := range []bool{false, true} {
		for _, prefix := range []string{"", "some/prefix"} {
			for _, page := range []int{0, 2} {
				t.Run(fmt.Sprintf("uncompressed=%v/prefix=%q/page=%d", uncompressed, prefix, page), func(t *testing.T) {
					srv := New()
					defer srv.Close()
					srv.SetPageSize(page)
					st, err := ChunkStore(srv, "bkt", prefix, desync.StoreOptions{Uncompressed: uncompressed})
					if err != nil {
						t.Fatal(err)
					}
					other, err := ChunkStore(srv, "bkt", prefix, desync.StoreOptions{Uncompressed: !uncompressed})
					if err != nil {
						t.Fatal(err)
					}
					var ids []desync.ChunkID
					for i := 0; i < 7; i++ {
						c := desync.NewChunk(blob(int64(10+i), 100+i))
						ids = append(ids, c.ID())
						if err := st.StoreChunk(c); err != nil {
							t.Fatal(err)
						}
					}
					// other-format twins of two chunks, junk, and an object outside the prefix
					for i := 0; i < 2; i++ {
						if err := other.StoreChunk(desync.NewChunk(blob(int64(10+i), 100+i))); err != nil {
							t.Fatal(err)
						}
					}
					pfx := ""
					if prefix != "" {
						pfx = prefix + "/"
					}
					srv.Put("bkt", pfx+"junk.txt", []byte("junk"))
					srv.Put("bkt", "zz-outside/"+ChunkKey("", ids[0], uncompressed), []byte("x"))
					before := srv.Keys("bkt")

					keep := map[desync.ChunkID]struct{}{ids[1]: {}, ids[4]: {}, ids[6]: {}}
					if err := st.Prune(context.Background(), keep); err != nil {
						t.Fatal(err)
					}
					want := map[string]bool{}
					for _, k := range before {
						want[k] = true
					}
					for _, id := range ids {
						if _, ok := keep[id]; !ok {
							delete(want, ChunkKey(prefix, id, uncompressed))
						}
					}
					var wantKeys []string
					for k := range want {
						wantKeys = append(wantKeys, k)
					}
					sort.Strings(wantKeys)
					if prefix != "" { // with an empty prefix the "outside" object is inside the listing but not a canonical chunk name
						if !want["zz-outside/"+ChunkKey("", ids[0], uncompressed)] {
							t.Fatal("test bug")
						}
					}
					if got := srv.Keys("bkt"); !reflect.DeepEqual(got, wantKeys) {
						t.Fatalf("after prune:\n got  %v\n want %v", got, wantKeys)
					}
					if n := len(srv.LogOf(KDelete)); n != 4 {
						t.Fatalf("%d DELETE requests, want 4", n)
					}
					lists := srv.LogOf(KList)
					if page == 0 && len(lists) != 1 || page == 2 && len(lists) < 4 {
						t.Fatalf("%d LIST requests with page size %d", len(lists), page)
					}
					for _, l := range lists {
						if !strings.Contains(l.Query, "list-type=2") {
							t.Fatalf("LIST query %q", l.Query)
						}
					}
				})
			}
		}
	}
}

func testIndex(n int) desync.Index {
	idx := desync.Index{Index: desync.FormatIndex{
		FormatHeader: desync.FormatHeader{Size: 48, Type: desync.CaFormatIndex},
		FeatureFlags: desync.CaFormatExcludeNoDump | desync.CaFormatSHA512256,
		ChunkSizeMin: 64, ChunkSizeAvg: 256, ChunkSizeMax: 1024,
	}}
	var pos uint64
	for i := 0; i < n; i++ {
		sz := uint64(65 + i%900)
		idx.Chunks = append(idx.Chunks, desync.IndexChunk{ID: desync.NewChunk(blob(int64(i), 8)).ID(), Start: pos, Size: sz})
		pos += sz
	}
	return idx
}

func TestIndexStore(t *testing.T) {
	for _, prefix := range []string{"", "idx/dir"} {
		t.Run("prefix="+prefix, func(t *testing.T) {
			srv := New()
			defer srv.Close()
			st, err := IndexStore(srv, "ibk", prefix, desync.StoreOptions{})
			if err != nil {
				t.Fatal(err)
			}
			defer st.Close()
			idx := testIndex(50)
			if err := st.StoreIndex("a.caibx", idx); err != nil {
				t.Fatal(err)
			}
			if k := kinds(srv.Log()); k != "INITIATE,PART,COMPLETE" {
				t.Fatalf("StoreIndex request kinds: %s", k)
			}
			if srv.PendingUploads() != 0 {
				t.Fatal("upload left pending")
			}
			key := "a.caibx"
			if prefix != "" {
				key = prefix + "/" + key
			}
			var want bytes.Buffer
			if _, err := idx.WriteTo(&want); err != nil {
				t.Fatal(err)
			}
			raw, ok := srv.Get("ibk", key)
			if !ok || !bytes.Equal(raw, want.Bytes()) {
				t.Fatalf("stored index object wrong (present %v, %d vs %d bytes); keys %v", ok, len(raw), want.Len(), srv.Keys("ibk"))
			}
			got, err := st.GetIndex("a.caibx")
			if err != nil {
				t.Fatal(err)
			}
			if !reflect.DeepEqual(got.Chunks, idx.Chunks) || got.Index.ChunkSizeMax != 1024 {
				t.Fatal("GetIndex returned a different index")
			}
			if _, err := st.GetIndex("missing.caibx"); err == nil {
				t.Fatal("GetIndex of a missing index succeeded")
			}
			// an index planted through the back door
			srv.Put("ibk", strings.TrimSuffix(key, "a.caibx")+"b.caibx", want.Bytes())
			if got, err := st.GetIndex("b.caibx"); err != nil || len(got.Chunks) != 50 {
				t.Fatalf("planted index: %v", err)
			}
		})
	}
}

func TestFaults(t *testing.T) {
	defer NoRetry()()
	srv := New()
	defer srv.Close()
	st, err := ChunkStore(srv, "bkt", "", desync.StoreOptions{})
	if err != nil {
		t.Fatal(err)
	}
	chunks := []*desync.Chunk{}
	for i := 0; i < 4; i++ {
		c := desync.NewChunk(blob(int64(100+i), 2000))
		chunks = append(chunks, c)
		if err := st.StoreChunk(c); err != nil {
			t.Fatal(err)
		}
	}
	id := chunks[0].ID()
	srv.ResetLog()

	for _, m := range []Mode{M500, M503, M403, MReset, MTruncate} {
		srv.FailNext(KGet, 1, m)
		_, err := st.GetChunk(id)
		if err == nil || isMissing(err) {
			t.Fatalf("GET fault %s: want a plain error, got %v", m, err)
		}
		if _, err := st.GetChunk(id); err != nil {
			t.Fatalf("GET after fault %s: %v", m, err)
		}
	}
	log := srv.LogOf(KGet)
	if len(log) != 10 || srv.Delivered() != 5 {
		t.Fatalf("%d GETs logged, %d faults delivered", len(log), srv.Delivered())
	}
	wantStatus := []int{500, 200, 503, 200, 403, 200, 0, 200, 200, 200}
	wantFault := []Mode{M500, 0, M503, 0, M403, 0, MReset, 0, MTruncate, 0}
	for i, r := range log {
		if r.Status != wantStatus[i] || r.Fault != wantFault[i] || r.N != i+1 {
			t.Fatalf("GET log[%d] = %v", i, r)
		}
	}

	// positional: the 3rd GET from now
	srv.ResetLog()
	srv.FailAt(KGet, 3, MTruncate)
	for i := 1; i <= 4; i++ {
		_, err := st.GetChunk(chunks[i%4].ID())
		if (err != nil) != (i == 3) {
			t.Fatalf("FailAt(3): call %d err %v", i, err)
		}
	}

	// PUT faults store nothing
	for _, m := range []Mode{M403, MReset} {
		c := desync.NewChunk(blob(int64(200+int(m)), 700))
		srv.FailNext(KPut, 1, m)
		if err := st.StoreChunk(c); err == nil {
			t.Fatalf("PUT fault %s not reported", m)
		}
		if _, ok := srv.Get("bkt", ChunkKey("", c.ID(), false)); ok {
			t.Fatalf("PUT fault %s stored the object", m)
		}
		if err := st.StoreChunk(c); err != nil {
			t.Fatal(err)
		}
		srv.Delete("bkt", ChunkKey("", c.ID(), false))
	}

	// HEAD fault: desync's HasChunk swallows it (returns false, nil) - only the log shows it
	srv.FailNext(KHead, 1, M403)
	if ok, err := st.HasChunk(id); ok {
		t.Fatalf("HasChunk during HEAD fault: %v %v", ok, err)
	}
	if ok, _ := st.HasChunk(id); !ok {
		t.Fatal("HasChunk after HEAD fault")
	}

	// LIST and DELETE faults make Prune fail and leave the objects alone
	nKeys := len(srv.Keys("bkt"))
	srv.FailNext(KList, 1, M403)
	if err := st.Prune(context.Background(), nil); err == nil {
		t.Fatal("Prune with failing LIST succeeded")
	}
	srv.FailNext(KList, 1, MTruncate)
	if err := st.Prune(context.Background(), nil); err == nil {
		t.Fatal("Prune with truncated LIST succeeded")
	}
	srv.FailNext(KDelete, 1, MReset)
	if err := st.Prune(context.Background(), nil); err == nil {
		t.Fatal("Prune with failing DELETE succeeded")
	}
	if len(srv.Keys("bkt")) != nKeys {
		t.Fatalf("faulted prune deleted something: %d -> %d", nKeys, len(srv.Keys("bkt")))
	}

	// matcher: only one specific key, forever
	victim := ChunkKey("", chunks[2].ID(), false)
	srv.FailMatch(func(r Request) bool { return r.Kind == KGet && r.Key == victim }, -1, M403)
	for i := 0; i < 2; i++ {
		if _, err := st.GetChunk(chunks[2].ID()); err == nil {
			t.Fatal("matcher fault not delivered")
		}
		if _, err := st.GetChunk(chunks[1].ID()); err != nil {
			t.Fatal(err)
		}
	}
	srv.ClearFaults()
	if _, err := st.GetChunk(chunks[2].ID()); err != nil {
		t.Fatal(err)
	}

	// FailAll + OnRequest
	seen := 0
	srv.OnRequest(func(r Request) {
		if r.Kind == KGet {
			seen++
		}
	})
	srv.FailAll(KAny, M403)
	if _, err := st.GetChunk(id); err == nil {
		t.Fatal("FailAll not delivered")
	}
	srv.ClearFaults()
	srv.OnRequest(nil)
	if seen != 1 {
		t.Fatalf("OnRequest saw %d GETs", seen)
	}
}

func TestMultipartFaults(t *testing.T) {
	defer NoRetry()()
	srv := New()
	defer srv.Close()
	st, err := IndexStore(srv, "ibk", "", desync.StoreOptions{})
	if err != nil {
		t.Fatal(err)
	}
	idx := testIndex(5)
	// M500/M503/MReset make minio wait out a random back-off (see package comment), so only
	// one of the slow modes is exercised here.
	for _, k := range []Kind{KInitiate, KPart, KComplete} {
		for _, m := range []Mode{M403, MReset} {
			if m == MReset && k != KPart {
				continue
			}
			srv.ResetLog()
			srv.FailNext(k, 1, m)
			if err := st.StoreIndex("x.caibx", idx); err == nil {
				t.Fatalf("%s fault %s: StoreIndex succeeded", k, m)
			}
			if _, ok := srv.Get("ibk", "x.caibx"); ok {
				t.Fatalf("%s fault %s: object exists", k, m)
			}
			if k != KInitiate {
				if n := len(srv.LogOf(KAbort)); n != 1 {
					t.Fatalf("%s fault %s: %d ABORT requests (%s)", k, m, n, kinds(srv.Log()))
				}
			}
			if srv.PendingUploads() != 0 {
				t.Fatalf("%s fault %s: upload left pending", k, m)
			}
		}
	}
	if err := st.StoreIndex("x.caibx", idx); err != nil {
		t.Fatal(err)
	}
	// GET faults on the index path
	srv.FailNext(KGet, 1, MTruncate)
	if _, err := st.GetIndex("x.caibx"); err == nil {
		t.Fatal("truncated index accepted")
	}
	if _, err := st.GetIndex("x.caibx"); err != nil {
		t.Fatal(err)
	}
}

// With minio's default retry policy one scripted 500 is absorbed by minio itself.
func TestMinioRetriesByDefault(t *testing.T) {
	if minio.MaxRetry < 2 {
		t.Skip("minio.MaxRetry already lowered")
	}
	srv := New()
	defer srv.Close()
	st, err := ChunkStore(srv, "bkt", "", desync.StoreOptions{})
	if err != nil {
		t.Fatal(err)
	}
	c := desync.NewChunk(blob(7, 100))
	if err := st.StoreChunk(c); err != nil {
		t.Fatal(err)
	}
	srv.FailNext(KGet, 1, M500)
	if _, err := st.GetChunk(c.ID()); err != nil {
		t.Fatalf("minio did not retry: %v", err)
	}
	if n := srv.Count(KGet); n != 2 {
		t.Fatalf("%d GET requests, want 2", n)
	}
}

// The listing protocol itself, through a bare minio client: delimiter roll-up, paging,
// keys that need escaping.
func TestListProtocol(t *testing.T) {
	srv := New()
	defer srv.Close()
	keys := []string{"a/1", "a/2", "a/b/3", "bkt", "c d/e+f&g", "c d/h", "z"}
	for _, k := range keys {
		srv.Put("lst", k, []byte(k))
	}
	cl, err := minio.NewWithOptions(srv.Host(), &minio.Options{Creds: Creds(), Region: Region, BucketLookup: minio.BucketLookupPath})
	if err != nil {
		t.Fatal(err)
	}
	list := func(prefix string, recursive bool) (out []string) {
		done := make(chan struct{})
		defer close(done)
		for o := range cl.ListObjectsV2("lst", prefix, recursive, done) {
			if o.Err != nil {
				t.Fatal(o.Err)
			}
			if !strings.HasSuffix(o.Key, "/") && o.Size != int64(len(o.Key)) {
				t.Fatalf("size of %q = %d", o.Key, o.Size)
			}
			out = append(out, o.Key)
		}
		sort.Strings(out) // minio yields the objects of a page before its common prefixes
		return out
	}
	for _, page := range []int{0, 1, 2, 3} {
		srv.SetPageSize(page)
		if got := list("", true); !reflect.DeepEqual(got, keys) {
			t.Fatalf("page %d recursive: %v", page, got)
		}
		if got, want := list("", false), []string{"a/", "bkt", "c d/", "z"}; !reflect.DeepEqual(got, want) {
			t.Fatalf("page %d top level: %v", page, got)
		}
		if got, want := list("a/", false), []string{"a/1", "a/2", "a/b/"}; !reflect.DeepEqual(got, want) {
			t.Fatalf("page %d a/: %v", page, got)
		}
		if got, want := list("c d/", true), []string{"c d/e+f&g", "c d/h"}; !reflect.DeepEqual(got, want) {
			t.Fatalf("page %d 'c d/': %v", page, got)
		}
	}
	if ok, err := cl.BucketExists("lst"); !ok || err != nil {
		t.Fatalf("BucketExists: %v %v", ok, err)
	}
	if ok, _ := cl.BucketExists("nope"); ok {
		t.Fatal("BucketExists(nope)")
	}
	if loc, err := cl.GetBucketLocation("lst"); err != nil || loc != Region {
		t.Fatalf("GetBucketLocation: %q %v", loc, err)
	}
	st, err := cl.StatObject("lst", "bkt", minio.StatObjectOptions{})
	if err != nil || st.Size != 3 || st.ETag == "" || st.LastModified.IsZero() {
		t.Fatalf("StatObject: %+v %v", st, err)
	}
}

// Many requests against one server with keep-alive off must not run out of ports.
func TestManyRequests(t *testing.T) {
	srv := New()
	defer srv.Close()
	st, err := ChunkStore(srv, "bkt", "", desync.StoreOptions{})
	if err != nil {
		t.Fatal(err)
	}
	c := desync.NewChunk(blob(9, 64))
	if err := st.StoreChunk(c); err != nil {
		t.Fatal(err)
	}
	n := 3000
	for i := 0; i < n; i++ {
		if _, err := st.GetChunk(c.ID()); err != nil {
			t.Fatalf("request %d: %v", i, err)
		}
	}
	if srv.Count(KGet) != n {
		t.Fatalf("count %d", srv.Count(KGet))
	}
}
