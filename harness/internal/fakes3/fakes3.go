// Package fakes3 is an in-process net/http fake of the S3 subset that minio-go v6 uses when it
// is driven through desync.NewS3Store / desync.NewS3IndexStore: GET/HEAD/PUT/DELETE object,
// ListObjectsV2 (prefix, delimiter, start-after, max-keys, continuation), bucket location,
// bucket HEAD/PUT, and the multipart calls (initiate, upload part, complete, abort) that
// minio issues for an upload of unknown size (S3IndexStore.StoreIndex).
//
// Objects live in memory. The oracle of a property has a back door (Put/Get/Delete/Keys), a
// request log (Log) and a fault script (FailAt, FailNext, FailMatch, FailAll) that turns chosen
// requests into HTTP errors, connection resets or short bodies.
//
// Signatures are not checked. Use Creds() (V2 static credentials), Region and
// minio.BucketLookupPath, or simply the ChunkStore / IndexStore helpers: with those settings
// minio neither asks for the bucket location nor uses aws-chunked streaming uploads.
//
// Determinism notes:
//   - HTTP keep-alive is switched off by default. On a re-used connection Go's http.Transport
//     silently replays an idempotent request that died before the first response byte, so a
//     scripted reset would be invisible to the client. With one connection per request every
//     scripted fault reaches minio. KeepAlive(true) switches connection re-use back on.
//   - minio-go retries a request up to minio.MaxRetry (10) times with a randomised exponential
//     back-off (first wait up to 1 s) on 5xx answers and transport errors. NoRetry() sets the
//     process-global minio.MaxRetry to 1 so that one scripted fault is one failed call.
//   - Even with NoRetry, minio sits out one randomised back-off interval (uniform in 0..1 s,
//     several seconds for a failed part upload or complete) before it gives up on a
//     *retryable* failure: M500, M503, MReset and MTruncate on a kind without body. M403 and
//     MTruncate on GET/LIST are final for minio and cost no wall time; prefer them when a
//     check injects many faults. (minio.MaxRetry = 0 is not an option: minio then returns a
//     nil response with a nil error.)
//   - Last-Modified values are a logical clock (2020-01-01 + one second per request seen).
//
// minio validates bucket names on the client side: at least 3 characters, lower case letters,
// digits, '.', '-'. An upload of unknown size (StoreIndex) makes minio allocate a 640 MiB part
// buffer per call; it is touched only as far as the index is long, but a StoreIndex through
// S3 costs 5..300 ms because of it.
package fakes3

import (
	"bytes"
	"crypto/md5"
	"encoding/base64"
	"encoding/hex"
	"encoding/xml"
	"fmt"
	"io"
	"net"
	"net/http"
	"net/http/httptest"
	"net/url"
	"sort"
	"strconv"
	"strings"
	"sync"
	"time"

	"github.com/folbricht/desync"
	minio "github.com/minio/minio-go/v6"
	"github.com/minio/minio-go/v6/pkg/credentials"
)

// Region is the fixed region the helper constructors hand to minio.
const Region = "us-east-1"

// Kind classifies a request. Faults and the per-kind counters are keyed by it.
type Kind string

const (
	KGet      Kind = "GET"      // GET    /bucket/key
	KHead     Kind = "HEAD"     // HEAD   /bucket/key
	KPut      Kind = "PUT"      // PUT    /bucket/key (single-request upload)
	KDelete   Kind = "DELETE"   // DELETE /bucket/key
	KList     Kind = "LIST"     // GET    /bucket/?list-type=2...
	KLocation Kind = "LOCATION" // GET    /bucket/?location
	KBucket   Kind = "BUCKET"   // HEAD or PUT /bucket/
	KInitiate Kind = "INITIATE" // POST   /bucket/key?uploads
	KPart     Kind = "PART"     // PUT    /bucket/key?partNumber=&uploadId=
	KComplete Kind = "COMPLETE" // POST   /bucket/key?uploadId=
	KAbort    Kind = "ABORT"    // DELETE /bucket/key?uploadId=
	KOther    Kind = "OTHER"    // anything else (answered 501 NotImplemented)
	KAny      Kind = "*"        // in fault rules only: every request; N is then the global Seq
)

// Mode is what a scripted fault does to a request. A faulted request never touches the
// object map (a faulted PUT stores nothing, a faulted DELETE deletes nothing).
type Mode int

const (
	MNone Mode = iota
	// M500 answers 500 with an S3 <Error><Code>InternalError</Code> body (minio: retryable).
	M500
	// M503 answers 503 <Code>SlowDown</Code> (minio: retryable).
	M503
	// M403 answers 403 <Code>AccessDenied</Code> (minio: final, not retried).
	M403
	// MReset closes the TCP connection with RST before any response byte is written.
	MReset
	// MTruncate (GET object and LIST) sends 200 with the full Content-Length, half of the body,
	// then closes the connection. For every other kind it behaves like MReset.
	MTruncate
)

func (m Mode) String() string {
	switch m {
	case MNone:
		return "none"
	case M500:
		return "500"
	case M503:
		return "503"
	case M403:
		return "403"
	case MReset:
		return "reset"
	case MTruncate:
		return "truncate"
	}
	return "mode" + strconv.Itoa(int(m))
}

// Request is one logged request.
type Request struct {
	Seq    int    // 1-based index over all requests of this server
	N      int    // 1-based index among the requests of the same Kind
	Kind   Kind   //
	Method string //
	Path   string // decoded URL path, e.g. /bucket/ab12/ab12....cacnk
	Query  string // raw query string
	Bucket string //
	Key    string // object key ("" for bucket-level requests)
	Fault  Mode   // the scripted fault delivered on this request (MNone: handled normally)
	Status int    // HTTP status answered; 0 for MReset
}

func (r Request) String() string {
	q := ""
	if r.Query != "" {
		q = "?" + r.Query
	}
	return fmt.Sprintf("#%d %s[%d] %s %s%s -> %d fault=%s", r.Seq, r.Kind, r.N, r.Method, r.Path, q, r.Status, r.Fault)
}

type object struct {
	data  []byte
	etag  string // without quotes
	mod   time.Time
	ctype string
}

type upload struct {
	bucket, key, ctype string
	parts              map[int][]byte
}

type rule struct {
	kind      Kind
	match     func(Request) bool
	at        int // fire on the request whose N equals at (0: not positional)
	remaining int // number of firings left; <0: unlimited
	mode      Mode
}

// Server is the fake. All methods are safe for concurrent use.
type Server struct {
	ts *httptest.Server

	mu        sync.Mutex
	buckets   map[string]map[string]*object
	uploads   map[string]*upload
	nextUp    int
	log       []Request
	seq       int
	counts    map[Kind]int
	rules     []*rule
	delivered int
	pageSize  int
	onRequest func(Request)
}

var epoch = time.Date(2020, 1, 1, 0, 0, 0, 0, time.UTC)

// New starts a fake S3 server on a loopback port.
func New() *Server {
	s := &Server{
		buckets: map[string]map[string]*object{},
		uploads: map[string]*upload{},
		counts:  map[Kind]int{},
	}
	s.ts = httptest.NewUnstartedServer(http.HandlerFunc(s.serve))
	s.ts.Config.SetKeepAlivesEnabled(false)
	s.ts.Start()
	return s
}

// URL is the plain http base URL of the server (http://127.0.0.1:port).
func (s *Server) URL() string { return s.ts.URL }

// Host is host:port of the server.
func (s *Server) Host() string {
	u, _ := url.Parse(s.ts.URL)
	return u.Host
}

// Close shuts the server down and drops all connections.
func (s *Server) Close() {
	s.ts.CloseClientConnections()
	s.ts.Close()
}

// KeepAlive switches HTTP connection re-use on or off (default off, see the package comment).
func (s *Server) KeepAlive(on bool) { s.ts.Config.SetKeepAlivesEnabled(on) }

// StoreURL is the location desync expects: s3+http://host:port/bucket[/prefix].
func (s *Server) StoreURL(bucket, prefix string) *url.URL {
	p := "/" + bucket
	if prefix = strings.Trim(prefix, "/"); prefix != "" {
		p += "/" + prefix
	}
	return &url.URL{Scheme: "s3+http", Host: s.Host(), Path: p}
}

// Creds are the static V2 credentials the helpers use (the fake does not verify signatures).
func Creds() *credentials.Credentials { return credentials.NewStaticV2("key", "secret", "") }

// ChunkStore returns a desync.S3Store talking to srv. The bucket is created if necessary.
// prefix may be "" or a key prefix such as "stores/a" (desync appends the "/").
func ChunkStore(srv *Server, bucket, prefix string, opt desync.StoreOptions) (desync.S3Store, error) {
	srv.MakeBucket(bucket)
	return desync.NewS3Store(srv.StoreURL(bucket, prefix), Creds(), Region, opt, minio.BucketLookupPath)
}

// IndexStore returns a desync.S3IndexStore talking to srv. The bucket is created if necessary.
func IndexStore(srv *Server, bucket, prefix string, opt desync.StoreOptions) (desync.S3IndexStore, error) {
	srv.MakeBucket(bucket)
	return desync.NewS3IndexStore(srv.StoreURL(bucket, prefix), Creds(), Region, opt, minio.BucketLookupPath)
}

// ChunkKey is the object key under which desync's S3Store keeps chunk id: the normalised
// prefix, the first four hex digits, "/", the full hex ID and the extension of the store mode.
func ChunkKey(prefix string, id desync.ChunkID, uncompressed bool) string {
	if prefix = strings.Trim(prefix, "/"); prefix != "" {
		prefix += "/"
	}
	h := id.String()
	ext := desync.CompressedChunkExt
	if uncompressed {
		ext = desync.UncompressedChunkExt
	}
	return prefix + h[:4] + "/" + h + ext
}

// NoRetry sets the process-global minio.MaxRetry to 1 (one HTTP attempt per minio call, no
// back-off sleeps) and returns a function restoring the previous value.
func NoRetry() (restore func()) {
	old := minio.MaxRetry
	minio.MaxRetry = 1
	return func() { minio.MaxRetry = old }
}

// ---------------------------------------------------------------------------------------------
// back door

// MakeBucket creates an empty bucket if it does not exist yet.
func (s *Server) MakeBucket(bucket string) {
	s.mu.Lock()
	defer s.mu.Unlock()
	s.bucketLocked(bucket)
}

func (s *Server) bucketLocked(bucket string) map[string]*object {
	b := s.buckets[bucket]
	if b == nil {
		b = map[string]*object{}
		s.buckets[bucket] = b
	}
	return b
}

// RemoveBucket drops a bucket with everything in it (requests then get NoSuchBucket).
func (s *Server) RemoveBucket(bucket string) {
	s.mu.Lock()
	defer s.mu.Unlock()
	delete(s.buckets, bucket)
}

// Put stores data under bucket/key without going through HTTP (creates the bucket).
func (s *Server) Put(bucket, key string, data []byte) {
	s.mu.Lock()
	defer s.mu.Unlock()
	s.putLocked(bucket, key, data, "application/octet-stream", "")
}

func (s *Server) putLocked(bucket, key string, data []byte, ctype, etag string) *object {
	if etag == "" {
		sum := md5.Sum(data)
		etag = hex.EncodeToString(sum[:])
	}
	o := &object{data: append([]byte(nil), data...), etag: etag, ctype: ctype,
		mod: epoch.Add(time.Duration(s.seq) * time.Second)}
	s.bucketLocked(bucket)[key] = o
	return o
}

// Get returns a copy of the bytes stored under bucket/key.
func (s *Server) Get(bucket, key string) ([]byte, bool) {
	s.mu.Lock()
	defer s.mu.Unlock()
	o := s.buckets[bucket][key]
	if o == nil {
		return nil, false
	}
	return append([]byte(nil), o.data...), true
}

// Delete removes bucket/key and reports whether it existed.
func (s *Server) Delete(bucket, key string) bool {
	s.mu.Lock()
	defer s.mu.Unlock()
	_, ok := s.buckets[bucket][key]
	delete(s.buckets[bucket], key)
	return ok
}

// Keys lists all keys of a bucket in lexical order (nil if the bucket does not exist).
func (s *Server) Keys(bucket string) []string {
	s.mu.Lock()
	defer s.mu.Unlock()
	return s.keysLocked(bucket)
}

func (s *Server) keysLocked(bucket string) []string {
	b, ok := s.buckets[bucket]
	if !ok {
		return nil
	}
	keys := make([]string, 0, len(b))
	for k := range b {
		keys = append(keys, k)
	}
	sort.Strings(keys)
	return keys
}

// Buckets lists the existing buckets in lexical order.
func (s *Server) Buckets() []string {
	s.mu.Lock()
	defer s.mu.Unlock()
	var out []string
	for b := range s.buckets {
		out = append(out, b)
	}
	sort.Strings(out)
	return out
}

// PendingUploads is the number of multipart uploads that were initiated and neither
// completed nor aborted.
func (s *Server) PendingUploads() int {
	s.mu.Lock()
	defer s.mu.Unlock()
	return len(s.uploads)
}

// SetPageSize caps the number of entries of one ListObjectsV2 answer (0: the S3 default of
// 1000), forcing minio through the continuation-token path.
func (s *Server) SetPageSize(n int) {
	s.mu.Lock()
	defer s.mu.Unlock()
	s.pageSize = n
}

// OnRequest installs a callback that runs (outside the server lock, on the handler goroutine)
// after a request has been classified and logged and before it is answered. nil removes it.
func (s *Server) OnRequest(f func(Request)) {
	s.mu.Lock()
	defer s.mu.Unlock()
	s.onRequest = f
}

// ---------------------------------------------------------------------------------------------
// log and fault script

// Log returns a copy of the request log.
func (s *Server) Log() []Request {
	s.mu.Lock()
	defer s.mu.Unlock()
	return append([]Request(nil), s.log...)
}

// LogOf returns the logged requests of one kind.
func (s *Server) LogOf(kind Kind) []Request {
	var out []Request
	for _, r := range s.Log() {
		if r.Kind == kind {
			out = append(out, r)
		}
	}
	return out
}

// Count is the number of requests of a kind seen so far (KAny: all requests).
func (s *Server) Count(kind Kind) int {
	s.mu.Lock()
	defer s.mu.Unlock()
	if kind == KAny {
		return s.seq
	}
	return s.counts[kind]
}

// ResetLog clears the log and the request counters (Seq and N start again at 1). Fault rules
// stay installed; positions of FailAt rules refer to the new numbering.
func (s *Server) ResetLog() {
	s.mu.Lock()
	defer s.mu.Unlock()
	s.log = nil
	s.seq = 0
	s.counts = map[Kind]int{}
}

// FailAt makes the k-th (1-based, counted since New or ResetLog) request of a kind fail.
func (s *Server) FailAt(kind Kind, k int, mode Mode) {
	s.addRule(&rule{kind: kind, at: k, remaining: 1, mode: mode})
}

// FailNext makes the next n requests of a kind fail.
func (s *Server) FailNext(kind Kind, n int, mode Mode) {
	if n <= 0 {
		return
	}
	s.addRule(&rule{kind: kind, remaining: n, mode: mode})
}

// FailAll makes every further request of a kind fail until ClearFaults.
func (s *Server) FailAll(kind Kind, mode Mode) {
	s.addRule(&rule{kind: kind, remaining: -1, mode: mode})
}

// FailMatch makes the next n requests for which match returns true fail (n < 0: all of them).
// match runs under the server lock and must not call back into the server.
func (s *Server) FailMatch(match func(Request) bool, n int, mode Mode) {
	if n == 0 {
		return
	}
	s.addRule(&rule{kind: KAny, match: match, remaining: n, mode: mode})
}

// ClearFaults removes all fault rules.
func (s *Server) ClearFaults() {
	s.mu.Lock()
	defer s.mu.Unlock()
	s.rules = nil
}

// Delivered is the number of faults delivered so far.
func (s *Server) Delivered() int {
	s.mu.Lock()
	defer s.mu.Unlock()
	return s.delivered
}

func (s *Server) addRule(r *rule) {
	s.mu.Lock()
	defer s.mu.Unlock()
	s.rules = append(s.rules, r)
}

// faultLocked returns the mode of the first rule that fires on req.
func (s *Server) faultLocked(req Request) Mode {
	for i, r := range s.rules {
		if r.remaining == 0 {
			continue
		}
		if r.kind != KAny && r.kind != req.Kind {
			continue
		}
		if r.at != 0 {
			n := req.N
			if r.kind == KAny {
				n = req.Seq
			}
			if n != r.at {
				continue
			}
		}
		if r.match != nil && !r.match(req) {
			continue
		}
		if r.remaining > 0 {
			r.remaining--
			if r.remaining == 0 {
				s.rules = append(s.rules[:i:i], s.rules[i+1:]...)
			}
		}
		s.delivered++
		return r.mode
	}
	return MNone
}

// ---------------------------------------------------------------------------------------------
// HTTP side

type statusWriter struct {
	http.ResponseWriter
	status int
}

func (w *statusWriter) WriteHeader(c int) {
	if w.status == 0 {
		w.status = c
	}
	w.ResponseWriter.WriteHeader(c)
}

func (w *statusWriter) Write(b []byte) (int, error) {
	if w.status == 0 {
		w.status = http.StatusOK
	}
	return w.ResponseWriter.Write(b)
}

func classify(r *http.Request, key string) Kind {
	q := r.URL.Query()
	has := func(k string) bool { _, ok := q[k]; return ok }
	if key == "" {
		switch r.Method {
		case http.MethodGet:
			if has("location") {
				return KLocation
			}
			if q.Get("list-type") == "2" {
				return KList
			}
		case http.MethodHead, http.MethodPut:
			if len(q) == 0 {
				return KBucket
			}
		}
		return KOther
	}
	switch r.Method {
	case http.MethodGet:
		if len(q) == 0 {
			return KGet
		}
	case http.MethodHead:
		if len(q) == 0 {
			return KHead
		}
	case http.MethodPut:
		if has("partNumber") && has("uploadId") {
			return KPart
		}
		if len(q) == 0 {
			return KPut
		}
	case http.MethodDelete:
		if has("uploadId") {
			return KAbort
		}
		if len(q) == 0 {
			return KDelete
		}
	case http.MethodPost:
		if has("uploads") {
			return KInitiate
		}
		if has("uploadId") {
			return KComplete
		}
	}
	return KOther
}

func (s *Server) serve(rw http.ResponseWriter, r *http.Request) {
	p := strings.TrimPrefix(r.URL.Path, "/")
	bucket, key := p, ""
	if i := strings.IndexByte(p, '/'); i >= 0 {
		bucket, key = p[:i], p[i+1:]
	}
	kind := classify(r, key)

	s.mu.Lock()
	s.seq++
	s.counts[kind]++
	req := Request{Seq: s.seq, N: s.counts[kind], Kind: kind, Method: r.Method, Path: r.URL.Path,
		Query: r.URL.RawQuery, Bucket: bucket, Key: key}
	req.Fault = s.faultLocked(req)
	s.log = append(s.log, req)
	slot := len(s.log) - 1
	gen := s.seq // guards against ResetLog between now and the status update
	cb := s.onRequest
	s.mu.Unlock()

	if cb != nil {
		cb(req)
	}

	w := &statusWriter{ResponseWriter: rw}
	status := 0
	switch req.Fault {
	case MNone:
		s.handle(w, r, req)
		status = w.status
	case M500:
		status = s.sendError(w, r, 500, "InternalError", "We encountered an internal error, please try again.", req)
	case M503:
		status = s.sendError(w, r, 503, "SlowDown", "Please reduce your request rate.", req)
	case M403:
		status = s.sendError(w, r, 403, "AccessDenied", "Access Denied.", req)
	case MTruncate:
		if body, hdr, ok := s.fullBody(r, req); ok {
			truncate(rw, body, hdr)
			status = 200
			break
		}
		reset(rw)
	case MReset:
		reset(rw)
	}

	s.mu.Lock()
	if slot < len(s.log) && s.log[slot].Seq == gen {
		s.log[slot].Status = status
	}
	s.mu.Unlock()
}

func reset(w http.ResponseWriter) {
	hj, ok := w.(http.Hijacker)
	if !ok {
		panic(http.ErrAbortHandler)
	}
	c, _, err := hj.Hijack()
	if err != nil {
		panic(http.ErrAbortHandler)
	}
	if tc, ok := c.(*net.TCPConn); ok {
		tc.SetLinger(0) // close => RST
	}
	c.Close()
}

func truncate(w http.ResponseWriter, body []byte, hdr http.Header) {
	hj, ok := w.(http.Hijacker)
	if !ok {
		panic(http.ErrAbortHandler)
	}
	c, buf, err := hj.Hijack()
	if err != nil {
		panic(http.ErrAbortHandler)
	}
	defer c.Close()
	declared := len(body)
	if declared == 0 {
		declared = 1
	}
	fmt.Fprintf(buf, "HTTP/1.1 200 OK\r\nContent-Length: %d\r\nConnection: close\r\n", declared)
	hdr.Write(buf)
	buf.WriteString("\r\n")
	buf.Write(body[:len(body)/2])
	buf.Flush()
}

type errorXML struct {
	XMLName    xml.Name `xml:"Error"`
	Code       string
	Message    string
	Key        string `xml:",omitempty"`
	BucketName string `xml:",omitempty"`
	Resource   string
	RequestID  string `xml:"RequestId"`
	HostID     string `xml:"HostId"`
}

func (s *Server) sendError(w http.ResponseWriter, r *http.Request, status int, code, msg string, req Request) int {
	w.Header().Set("Content-Type", "application/xml")
	w.Header().Set("x-amz-request-id", fmt.Sprintf("FAKE%012d", req.Seq))
	if r.Method == http.MethodHead {
		w.WriteHeader(status)
		return status
	}
	b, _ := xml.Marshal(errorXML{Code: code, Message: msg, Key: req.Key, BucketName: req.Bucket,
		Resource: r.URL.Path, RequestID: fmt.Sprintf("FAKE%012d", req.Seq), HostID: "fakes3"})
	b = append([]byte(xml.Header), b...)
	w.Header().Set("Content-Length", strconv.Itoa(len(b)))
	w.WriteHeader(status)
	w.Write(b)
	return status
}

func sendXML(w http.ResponseWriter, v any) {
	b, err := xml.Marshal(v)
	if err != nil {
		panic(err)
	}
	b = append([]byte(xml.Header), b...)
	w.Header().Set("Content-Type", "application/xml")
	w.Header().Set("Content-Length", strconv.Itoa(len(b)))
	w.WriteHeader(200)
	w.Write(b)
}

// fullBody computes the complete 200 answer of a GET-object or LIST request for MTruncate.
func (s *Server) fullBody(r *http.Request, req Request) ([]byte, http.Header, bool) {
	switch req.Kind {
	case KGet:
		s.mu.Lock()
		defer s.mu.Unlock()
		o := s.buckets[req.Bucket][req.Key]
		if o == nil {
			return nil, nil, false
		}
		h := http.Header{}
		h.Set("ETag", `"`+o.etag+`"`)
		h.Set("Last-Modified", o.mod.Format(http.TimeFormat))
		h.Set("Content-Type", o.ctype)
		return append([]byte(nil), o.data...), h, true
	case KList:
		res, ok := s.list(req.Bucket, r.URL.Query())
		if !ok {
			return nil, nil, false
		}
		b, _ := xml.Marshal(res)
		h := http.Header{}
		h.Set("Content-Type", "application/xml")
		return append([]byte(xml.Header), b...), h, true
	}
	return nil, nil, false
}

func (s *Server) handle(w http.ResponseWriter, r *http.Request, req Request) {
	bucket, key := req.Bucket, req.Key
	w.Header().Set("x-amz-request-id", fmt.Sprintf("FAKE%012d", req.Seq))
	w.Header().Set("Server", "fakes3")

	if req.Kind == KOther {
		io.Copy(io.Discard, r.Body)
		s.sendError(w, r, 501, "NotImplemented", "fakes3 does not implement this request", req)
		return
	}
	if req.Kind == KBucket {
		s.mu.Lock()
		_, exists := s.buckets[bucket]
		if r.Method == http.MethodPut {
			s.bucketLocked(bucket)
		}
		s.mu.Unlock()
		if r.Method == http.MethodHead && !exists {
			s.sendError(w, r, 404, "NoSuchBucket", "The specified bucket does not exist", req)
			return
		}
		w.WriteHeader(200)
		return
	}

	s.mu.Lock()
	_, bucketOK := s.buckets[bucket]
	s.mu.Unlock()
	if !bucketOK {
		io.Copy(io.Discard, r.Body)
		s.sendError(w, r, 404, "NoSuchBucket", "The specified bucket does not exist", req)
		return
	}

	switch req.Kind {
	case KLocation:
		sendXML(w, struct {
			XMLName xml.Name `xml:"http://s3.amazonaws.com/doc/2006-03-01/ LocationConstraint"`
		}{})

	case KList:
		res, _ := s.list(bucket, r.URL.Query())
		sendXML(w, res)

	case KGet, KHead:
		s.mu.Lock()
		o := s.buckets[bucket][key]
		s.mu.Unlock()
		if o == nil {
			s.sendError(w, r, 404, "NoSuchKey", "The specified key does not exist.", req)
			return
		}
		w.Header().Set("ETag", `"`+o.etag+`"`)
		w.Header().Set("Content-Type", o.ctype)
		w.Header().Set("Accept-Ranges", "bytes")
		// ServeContent: Last-Modified, Content-Length, Range and If-* handling, HEAD.
		http.ServeContent(w, r, "", o.mod, bytes.NewReader(o.data))

	case KPut:
		body, err := io.ReadAll(r.Body)
		if err != nil {
			s.sendError(w, r, 400, "IncompleteBody", err.Error(), req)
			return
		}
		if !md5OK(r, body) {
			s.sendError(w, r, 400, "BadDigest", "The Content-MD5 you specified did not match what we received.", req)
			return
		}
		s.mu.Lock()
		o := s.putLocked(bucket, key, body, ctypeOf(r), "")
		s.mu.Unlock()
		w.Header().Set("ETag", `"`+o.etag+`"`)
		w.WriteHeader(200)

	case KDelete:
		s.mu.Lock()
		delete(s.buckets[bucket], key)
		s.mu.Unlock()
		w.WriteHeader(204) // S3 answers 204 whether or not the key existed

	case KInitiate:
		io.Copy(io.Discard, r.Body)
		s.mu.Lock()
		s.nextUp++
		id := fmt.Sprintf("upload-%06d", s.nextUp)
		s.uploads[id] = &upload{bucket: bucket, key: key, ctype: ctypeOf(r), parts: map[int][]byte{}}
		s.mu.Unlock()
		sendXML(w, struct {
			XMLName  xml.Name `xml:"http://s3.amazonaws.com/doc/2006-03-01/ InitiateMultipartUploadResult"`
			Bucket   string
			Key      string
			UploadID string `xml:"UploadId"`
		}{Bucket: bucket, Key: key, UploadID: id})

	case KPart:
		body, err := io.ReadAll(r.Body)
		if err != nil {
			s.sendError(w, r, 400, "IncompleteBody", err.Error(), req)
			return
		}
		if !md5OK(r, body) {
			s.sendError(w, r, 400, "BadDigest", "The Content-MD5 you specified did not match what we received.", req)
			return
		}
		n, err := strconv.Atoi(r.URL.Query().Get("partNumber"))
		if err != nil || n < 1 || n > 10000 {
			s.sendError(w, r, 400, "InvalidArgument", "Part number must be an integer between 1 and 10000, inclusive", req)
			return
		}
		s.mu.Lock()
		u := s.uploads[r.URL.Query().Get("uploadId")]
		if u != nil && u.bucket == bucket && u.key == key {
			u.parts[n] = body
		} else {
			u = nil
		}
		s.mu.Unlock()
		if u == nil {
			s.sendError(w, r, 404, "NoSuchUpload", "The specified multipart upload does not exist.", req)
			return
		}
		sum := md5.Sum(body)
		w.Header().Set("ETag", `"`+hex.EncodeToString(sum[:])+`"`)
		w.WriteHeader(200)

	case KComplete:
		var in struct {
			Parts []struct {
				PartNumber int
				ETag       string
			} `xml:"Part"`
		}
		body, _ := io.ReadAll(r.Body)
		if err := xml.Unmarshal(body, &in); err != nil {
			s.sendError(w, r, 400, "MalformedXML", err.Error(), req)
			return
		}
		id := r.URL.Query().Get("uploadId")
		s.mu.Lock()
		u := s.uploads[id]
		if u == nil || u.bucket != bucket || u.key != key {
			s.mu.Unlock()
			s.sendError(w, r, 404, "NoSuchUpload", "The specified multipart upload does not exist.", req)
			return
		}
		var all, sums []byte
		last := 0
		for _, p := range in.Parts {
			data, ok := u.parts[p.PartNumber]
			sum := md5.Sum(data)
			if !ok || p.PartNumber <= last || strings.Trim(p.ETag, `"`) != hex.EncodeToString(sum[:]) {
				s.mu.Unlock()
				s.sendError(w, r, 400, "InvalidPart", "One or more of the specified parts could not be found.", req)
				return
			}
			last = p.PartNumber
			all = append(all, data...)
			sums = append(sums, sum[:]...)
		}
		total := md5.Sum(sums)
		etag := fmt.Sprintf("%s-%d", hex.EncodeToString(total[:]), len(in.Parts))
		s.putLocked(bucket, key, all, u.ctype, etag)
		delete(s.uploads, id)
		s.mu.Unlock()
		sendXML(w, struct {
			XMLName  xml.Name `xml:"http://s3.amazonaws.com/doc/2006-03-01/ CompleteMultipartUploadResult"`
			Location string
			Bucket   string
			Key      string
			ETag     string
		}{Location: s.URL() + r.URL.Path, Bucket: bucket, Key: key, ETag: `"` + etag + `"`})

	case KAbort:
		id := r.URL.Query().Get("uploadId")
		s.mu.Lock()
		_, ok := s.uploads[id]
		delete(s.uploads, id)
		s.mu.Unlock()
		if !ok {
			s.sendError(w, r, 404, "NoSuchUpload", "The specified multipart upload does not exist.", req)
			return
		}
		w.WriteHeader(204)
	}
}

func ctypeOf(r *http.Request) string {
	if c := r.Header.Get("Content-Type"); c != "" {
		return c
	}
	return "application/octet-stream"
}

func md5OK(r *http.Request, body []byte) bool {
	h := r.Header.Get("Content-Md5")
	if h == "" {
		return true
	}
	sum := md5.Sum(body)
	return h == base64.StdEncoding.EncodeToString(sum[:])
}

type listContent struct {
	Key          string
	LastModified string
	ETag         string
	Size         int64
	StorageClass string
}

type listPrefix struct {
	Prefix string
}

type listResult struct {
	XMLName               xml.Name `xml:"http://s3.amazonaws.com/doc/2006-03-01/ ListBucketResult"`
	Name                  string
	Prefix                string
	Delimiter             string `xml:",omitempty"`
	StartAfter            string `xml:",omitempty"`
	ContinuationToken     string `xml:",omitempty"`
	NextContinuationToken string `xml:",omitempty"`
	KeyCount              int
	MaxKeys               int
	EncodingType          string `xml:",omitempty"`
	IsTruncated           bool
	Contents              []listContent
	CommonPrefixes        []listPrefix
}

const tokenPrefix = "after:"

// list builds one ListObjectsV2 page. Keys are returned in lexical order; a common prefix
// counts as one entry; the continuation token names the last entry of the previous page.
func (s *Server) list(bucket string, q url.Values) (listResult, bool) {
	s.mu.Lock()
	defer s.mu.Unlock()
	b, ok := s.buckets[bucket]
	if !ok {
		return listResult{}, false
	}
	prefix, delim := q.Get("prefix"), q.Get("delimiter")
	enc := func(k string) string { return k }
	res := listResult{Name: bucket, Delimiter: delim, MaxKeys: 1000}
	if q.Get("encoding-type") == "url" {
		res.EncodingType = "url"
		enc = url.QueryEscape
	}
	res.Prefix = enc(prefix)
	if n, err := strconv.Atoi(q.Get("max-keys")); err == nil && n >= 1 && n < res.MaxKeys {
		res.MaxKeys = n
	}
	if s.pageSize > 0 && s.pageSize < res.MaxKeys {
		res.MaxKeys = s.pageSize
	}
	after := q.Get("start-after")
	res.StartAfter = enc(after)
	if t := q.Get("continuation-token"); t != "" {
		res.ContinuationToken = t
		if raw, err := base64.StdEncoding.DecodeString(t); err == nil && strings.HasPrefix(string(raw), tokenPrefix) {
			after = strings.TrimPrefix(string(raw), tokenPrefix)
		}
	}

	lastEntry, lastCommon := "", ""
	for _, k := range s.keysLocked(bucket) {
		if !strings.HasPrefix(k, prefix) {
			continue
		}
		entry, common := k, false
		if delim != "" {
			if i := strings.Index(k[len(prefix):], delim); i >= 0 {
				entry, common = k[:len(prefix)+i+len(delim)], true
			}
		}
		if common {
			// A rolled-up prefix is listed once and is skipped entirely once passed.
			if entry == lastCommon || (after != "" && entry <= after) {
				continue
			}
		} else if after != "" && k <= after {
			continue
		}
		if res.KeyCount >= res.MaxKeys {
			res.IsTruncated = true
			res.NextContinuationToken = base64.StdEncoding.EncodeToString([]byte(tokenPrefix + lastEntry))
			break
		}
		if common {
			res.CommonPrefixes = append(res.CommonPrefixes, listPrefix{Prefix: enc(entry)})
			lastCommon = entry
		} else {
			o := b[k]
			res.Contents = append(res.Contents, listContent{Key: enc(k),
				LastModified: o.mod.Format("2006-01-02T15:04:05.000Z"), ETag: `"` + o.etag + `"`,
				Size: int64(len(o.data)), StorageClass: "STANDARD"})
		}
		lastEntry = entry
		res.KeyCount++
	}
	return res, true
}
