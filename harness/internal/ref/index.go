package ref

import (
	"encoding/binary"
	"errors"
	"fmt"
)

// Independent caibx/caidx codec (plain encoding/binary), after casync's caformat.h:
//   CaFormatIndex  { le64 size=48, type, feature_flags, chunk_size_min, avg, max }
//   CaFormatTable  { le64 size=UINT64_MAX, type } items{ le64 offset; u8 id[32] }*
//   CaFormatTableTail { le64 0, 0, index_offset=48, size=16+40n+40, marker }

const (
	FormatIndexType     = 0x96824d9c7b129ff9
	FormatTableType     = 0xe75b9e112f17417d
	FormatTableTailMark = 0x4b4f050e5549ecd1
	FlagSHA512256       = 0x2000000000000000
	FlagExcludeNoDump   = 0x8000000000000000
)

type IndexItem struct {
	End uint64 // end offset of the chunk in the blob
	ID  [32]byte
}

type IndexFile struct {
	Flags, Min, Avg, Max uint64
	Items                []IndexItem
}

func EncodeIndex(f IndexFile) []byte {
	b := make([]byte, 0, 48+16+40*len(f.Items)+40)
	le := binary.LittleEndian
	b = le.AppendUint64(b, 48)
	b = le.AppendUint64(b, FormatIndexType)
	b = le.AppendUint64(b, f.Flags)
	b = le.AppendUint64(b, f.Min)
	b = le.AppendUint64(b, f.Avg)
	b = le.AppendUint64(b, f.Max)
	b = le.AppendUint64(b, ^uint64(0))
	b = le.AppendUint64(b, FormatTableType)
	for _, it := range f.Items {
		b = le.AppendUint64(b, it.End)
		b = append(b, it.ID[:]...)
	}
	b = le.AppendUint64(b, 0)
	b = le.AppendUint64(b, 0)
	b = le.AppendUint64(b, 48)
	b = le.AppendUint64(b, uint64(16+40*len(f.Items)+40))
	b = le.AppendUint64(b, FormatTableTailMark)
	return b
}

// ParseIndex is the strict inverse of EncodeIndex; any deviation is an error.
func ParseIndex(b []byte) (f IndexFile, err error) {
	le := binary.LittleEndian
	if len(b) < 48+16+40 {
		return f, errors.New("short file")
	}
	if le.Uint64(b[0:]) != 48 || le.Uint64(b[8:]) != FormatIndexType {
		return f, errors.New("bad index header")
	}
	f.Flags, f.Min, f.Avg, f.Max = le.Uint64(b[16:]), le.Uint64(b[24:]), le.Uint64(b[32:]), le.Uint64(b[40:])
	if le.Uint64(b[48:]) != ^uint64(0) || le.Uint64(b[56:]) != FormatTableType {
		return f, errors.New("bad table header")
	}
	rest := b[64:]
	if len(rest)%40 != 0 {
		return f, fmt.Errorf("table area of %d bytes is not a multiple of 40", len(rest))
	}
	n := len(rest)/40 - 1
	var last uint64
	for i := 0; i < n; i++ {
		it := IndexItem{End: le.Uint64(rest[40*i:])}
		copy(it.ID[:], rest[40*i+8:40*i+40])
		if it.End <= last {
			return f, fmt.Errorf("offset of item %d (%d) not greater than its predecessor (%d)", i, it.End, last)
		}
		last = it.End
		f.Items = append(f.Items, it)
	}
	tail := rest[40*n:]
	if le.Uint64(tail[0:]) != 0 || le.Uint64(tail[8:]) != 0 {
		return f, errors.New("tail zero fill")
	}
	if le.Uint64(tail[16:]) != 48 {
		return f, errors.New("tail index offset")
	}
	if le.Uint64(tail[24:]) != uint64(16+40*n+40) {
		return f, fmt.Errorf("tail size %d, want %d", le.Uint64(tail[24:]), 16+40*n+40)
	}
	if le.Uint64(tail[32:]) != FormatTableTailMark {
		return f, errors.New("tail marker")
	}
	return f, nil
}

// IndexLen is the byte length of a caibx/caidx file with n table items.
func IndexLen(n int) int { return 48 + 16 + 40*n + 40 }

// Deviation is one difference between a byte image and the caibx layout of an expected
// table. Clause is a stable name of the layout rule that is broken.
type Deviation struct {
	Clause string
	Msg    string
}

// CheckIndexLayout walks b along the layout that the table `want` must have and lists
// every deviation (it does not stop at the first). Unlike ParseIndex it does not derive
// the item count from the length, so that a wrong length, a wrong tail and trailing
// bytes are told apart. Clauses: length, trailing-bytes, header-size, header-type,
// header-flags, header-min, header-avg, header-max, table-size, table-type, item-offset,
// item-id, tail-zero, tail-index-offset, tail-size, tail-marker.
func CheckIndexLayout(b []byte, want IndexFile) (devs []Deviation) {
	le := binary.LittleEndian
	n := len(want.Items)
	add := func(clause, format string, a ...any) {
		for _, d := range devs { // one report per clause is enough
			if d.Clause == clause {
				return
			}
		}
		devs = append(devs, Deviation{clause, fmt.Sprintf(format, a...)})
	}
	if len(b) != IndexLen(n) {
		add("length", "file has %d bytes, a table of %d items needs 48+16+40*%d+40 = %d", len(b), n, n, IndexLen(n))
	}
	u64 := func(off int, clause string, wantV uint64) {
		if off+8 > len(b) {
			add(clause, "field at byte %d is missing (file has %d bytes)", off, len(b))
			return
		}
		if v := le.Uint64(b[off:]); v != wantV {
			add(clause, "field at byte %d is %#x, want %#x", off, v, wantV)
		}
	}
	u64(0, "header-size", 48)
	u64(8, "header-type", FormatIndexType)
	u64(16, "header-flags", want.Flags)
	u64(24, "header-min", want.Min)
	u64(32, "header-avg", want.Avg)
	u64(40, "header-max", want.Max)
	u64(48, "table-size", ^uint64(0))
	u64(56, "table-type", FormatTableType)
	for i, it := range want.Items {
		off := 64 + 40*i
		u64(off, "item-offset", it.End)
		if off+40 > len(b) {
			add("item-id", "id of item %d is missing (file has %d bytes)", i, len(b))
			continue
		}
		if string(b[off+8:off+40]) != string(it.ID[:]) {
			add("item-id", "id of item %d is %x, want %x", i, b[off+8:off+40], it.ID[:])
		}
	}
	t := 64 + 40*n
	u64(t, "tail-zero", 0)
	u64(t+8, "tail-zero", 0)
	u64(t+16, "tail-index-offset", 48)
	u64(t+24, "tail-size", uint64(16+40*n+40))
	u64(t+32, "tail-marker", FormatTableTailMark)
	if len(b) > IndexLen(n) {
		add("trailing-bytes", "%d bytes follow the tail marker", len(b)-IndexLen(n))
	}
	return devs
}
