package ref

import (
	"testing"
	"time"
)

func TestWindowWithHash(t *testing.T) {
	start := time.Now()
	for i, h := range []uint32{0xFFFFFFFF, 0, 1, 0x80000000, 0x7FFFFFFF, 0xFFFFFFFE, 12345} {
		w := WindowWithHash(h, uint64(i)*77)
		if got := windowHash(w[:]); got != h {
			t.Fatalf("target %#x: window hashes to %#x", h, got)
		}
	}
	t.Logf("7 windows in %v", time.Since(start))
}
