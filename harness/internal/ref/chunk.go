// Package ref holds the independent reference implementations the oracles compare
// desync against: the content-defined chunker rule, the caibx/caidx codec and
// digest helpers. Nothing here calls into desync's implementation of the same thing.
package ref

import (
	"crypto/sha256"
	"crypto/sha512"
	"math/bits"
)

const Window = 48

// Span is one chunk as (start, length).
type Span struct {
	Start uint64 `json:"start"`
	Len   uint64 `json:"len"`
}

// Discriminator follows casync's formula (cachunker.c, ca_chunker_discriminator_from_avg).
func Discriminator(avg uint64) uint32 {
	return uint32(float64(avg) / (-1.42888852e-7*float64(avg) + 1.33237515))
}

// windowHash is the direct (non rolling) buzhash of exactly 48 bytes.
func windowHash(w []byte) uint32 {
	var h uint32
	for i := 0; i < Window; i++ {
		h ^= bits.RotateLeft32(buzTable[w[i]], Window-1-i)
	}
	return h
}

// Chunk applies the chunking rule to data: a chunk that has r bytes left takes all of
// them if r <= min; otherwise it ends at the smallest length L in [min+1, m) (m =
// min(max, r)) whose trailing 48-byte window hashes to d-1 modulo d, else at m.
//
// The hash is recomputed from scratch for every position when slow is true; when false an
// equivalent incremental form is used (still not sharing code with desync). The two are
// cross-checked by the self test.
func Chunk(data []byte, min, avg, max uint64, slow bool) []Span {
	d := Discriminator(avg)
	var out []Span
	s := uint64(0)
	n := uint64(len(data))
	for s < n {
		r := n - s
		var L uint64
		if r <= min {
			L = r
		} else {
			m := max
			if r < m {
				m = r
			}
			L = m
			if slow {
				for l := min + 1; l < m; l++ {
					if windowHash(data[s+l-Window:s+l])%d == d-1 {
						L = l
						break
					}
				}
			} else if min+1 < m {
				h := windowHash(data[s+min+1-Window : s+min+1])
				for l := min + 1; l < m; l++ {
					if h%d == d-1 {
						L = l
						break
					}
					// slide: drop data[s+l-48], add data[s+l]
					h = bits.RotateLeft32(h, 1) ^ bits.RotateLeft32(buzTable[data[s+l-Window]], Window) ^ buzTable[data[s+l]]
				}
			}
		}
		out = append(out, Span{s, L})
		s += L
	}
	return out
}

// ID computes a chunk ID with the standard library directly.
func ID(b []byte, useSHA256 bool) [32]byte {
	if useSHA256 {
		return sha256.Sum256(b)
	}
	return sha512.Sum512_256(b)
}

// SensitiveAvgs lists the average chunk sizes in [lo, hi] for which evaluating casync's
// discriminator formula in single precision gives another integer than in double precision:
// the values a precision or rounding change in that formula shows up at.
func SensitiveAvgs(lo, hi uint64) []uint64 {
	var out []uint64
	for a := lo; a <= hi; a++ {
		f32 := uint32(float32(a) / (float32(-1.42888852e-7)*float32(a) + float32(1.33237515)))
		if f32 != Discriminator(a) {
			out = append(out, a)
		}
	}
	return out
}

// NullBoundaryAvgs lists the average chunk sizes in [lo, hi] at which a window of 48 null bytes
// satisfies the boundary condition: with such an average a run of zeros is cut right behind
// the minimum size instead of running up to the maximum.
func NullBoundaryAvgs(lo, hi uint64) []uint64 {
	h := windowHash(make([]byte, Window))
	var out []uint64
	for a := lo; a <= hi; a++ {
		if d := Discriminator(a); d > 0 && h%d == d-1 {
			out = append(out, a)
		}
	}
	return out
}

// WindowWithHash returns 48 bytes whose window hash is exactly target: the first 44 bytes come from
// seed, the last four are found by a meet-in-the-middle search over the table (two bytes each side).
// Values such as 0xFFFFFFFF or 0 occur once in 2^32 positions of random data, so no generated input
// ever holds them by chance; expressions like h%d == d-1 and their "equivalent" rewrites differ exactly
// at such values.
func WindowWithHash(target uint32, seed uint64) [Window]byte {
	var w [Window]byte
	for attempt := uint64(0); ; attempt++ {
		s := seed + attempt*0x9e3779b97f4a7c15
		for i := 0; i < Window-4; i++ {
			s = s*6364136223846793005 + 1442695040888963407
			w[i] = byte(s >> 56)
		}
		var fixed uint32
		for i := 0; i < Window-4; i++ {
			fixed ^= bits.RotateLeft32(buzTable[w[i]], Window-1-i)
		}
		need := target ^ fixed
		left := make(map[uint32]uint16, 1<<16)
		for a := 0; a < 256; a++ {
			ra := bits.RotateLeft32(buzTable[a], 3)
			for b := 0; b < 256; b++ {
				left[ra^bits.RotateLeft32(buzTable[b], 2)] = uint16(a<<8 | b)
			}
		}
		for c := 0; c < 256; c++ {
			rc := bits.RotateLeft32(buzTable[c], 1)
			for d := 0; d < 256; d++ {
				if ab, ok := left[need^rc^buzTable[d]]; ok {
					w[44], w[45], w[46], w[47] = byte(ab>>8), byte(ab), byte(c), byte(d)
					if windowHash(w[:]) != target {
						panic("ref.WindowWithHash: search result does not hash to the target")
					}
					return w
				}
			}
		}
	}
}

// WindowHash exposes the direct window hash (self-tests, classification of generated inputs).
func WindowHash(w []byte) uint32 { return windowHash(w) }
