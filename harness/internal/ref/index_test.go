package ref

import (
	"bytes"
	"encoding/binary"
	"os"
	"testing"
)

func sampleIndex(n int) IndexFile {
	f := IndexFile{Flags: FlagSHA512256 | FlagExcludeNoDump, Min: 16, Avg: 64, Max: 256}
	var end uint64
	for i := 0; i < n; i++ {
		end += uint64(1 + i%256)
		it := IndexItem{End: end}
		for j := range it.ID {
			it.ID[j] = byte(i*31 + j)
		}
		f.Items = append(f.Items, it)
	}
	return f
}

func TestIndexCodecRoundTrip(t *testing.T) {
	for _, n := range []int{0, 1, 2, 7, 300} {
		f := sampleIndex(n)
		b := EncodeIndex(f)
		if len(b) != IndexLen(n) {
			t.Fatalf("n=%d: %d bytes, want %d", n, len(b), IndexLen(n))
		}
		g, err := ParseIndex(b)
		if err != nil {
			t.Fatalf("n=%d: %v", n, err)
		}
		if g.Flags != f.Flags || g.Min != f.Min || g.Avg != f.Avg || g.Max != f.Max || len(g.Items) != n {
			t.Fatalf("n=%d: parameters differ: %+v", n, g)
		}
		for i := range f.Items {
			if g.Items[i] != f.Items[i] {
				t.Fatalf("n=%d: item %d differs", n, i)
			}
		}
		if d := CheckIndexLayout(b, f); len(d) != 0 {
			t.Fatalf("n=%d: layout deviations on own encoding: %v", n, d)
		}
		for l := 0; l < len(b); l++ {
			if _, err := ParseIndex(b[:l]); err == nil {
				t.Fatalf("n=%d: prefix of %d bytes accepted", n, l)
			}
		}
		if _, err := ParseIndex(append(append([]byte(nil), b...), 0)); err == nil {
			t.Fatalf("n=%d: trailing byte accepted", n)
		}
	}
}

func TestIndexCodecRejects(t *testing.T) {
	f := sampleIndex(3)
	good := EncodeIndex(f)
	le := binary.LittleEndian
	mut := func(off int, v uint64) []byte {
		b := append([]byte(nil), good...)
		le.PutUint64(b[off:], v)
		return b
	}
	tail := 64 + 40*3
	cases := map[string][]byte{
		"header-size":   mut(0, 40),
		"header-type":   mut(8, 1),
		"table-size":    mut(48, 16),
		"table-type":    mut(56, 1),
		"item-offset":   mut(64+40, 1), // not greater than the predecessor
		"tail-zero":     mut(tail+8, 1),
		"tail-index":    mut(tail+16, 40),
		"tail-size":     mut(tail+24, uint64(16+40*3+40+8)),
		"tail-marker":   mut(tail+32, 1),
		"equal-offsets": mut(64+40, le.Uint64(good[64:])),
	}
	for name, b := range cases {
		if _, err := ParseIndex(b); err == nil {
			t.Errorf("%s: accepted", name)
		}
	}
	// the layout walk names the broken clause
	for clause, b := range map[string][]byte{
		"header-size": cases["header-size"], "table-size": cases["table-size"], "item-offset": cases["item-offset"],
		"tail-zero": cases["tail-zero"], "tail-index-offset": cases["tail-index"], "tail-size": cases["tail-size"],
		"tail-marker": cases["tail-marker"], "trailing-bytes": append(append([]byte(nil), good...), 1, 2, 3),
		"length": good[:len(good)-1],
	} {
		found := false
		for _, d := range CheckIndexLayout(b, f) {
			if d.Clause == clause {
				found = true
			}
		}
		if !found {
			t.Errorf("CheckIndexLayout did not report %s", clause)
		}
	}
}

// A casync-made fixture of the code under test decodes and re-encodes identically.
func TestIndexCodecFixture(t *testing.T) {
	b, err := os.ReadFile("/repo/testdata/index.caibx")
	if err != nil {
		t.Skip(err)
	}
	f, err := ParseIndex(b)
	if err != nil {
		t.Fatal(err)
	}
	if !bytes.Equal(EncodeIndex(f), b) {
		t.Fatal("fixture does not re-encode identically")
	}
}
