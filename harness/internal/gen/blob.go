// Package gen holds the shared generators. All randomness comes from rapid: byte
// content is expanded deterministically from rapid-drawn 64-bit seeds so that cases stay
// small, shrink well and replay from their JSON form.
package gen

import (
	"sync"

	"pgregory.net/rapid"

	"verifharness/internal/ref"
)

// Piece is one stretch of a generated blob.
type Piece struct {
	Kind   string `json:"k"`           // rand | zero | const | period | text | repeat | hashwin (48 bytes whose window hash is H)
	Len    int    `json:"n"`           // bytes
	Seed   uint64 `json:"s,omitempty"` // content seed (rand, period, text)
	B      byte   `json:"b,omitempty"` // const byte
	Period int    `json:"p,omitempty"` // period length
	Off    int    `json:"o,omitempty"` // repeat: source offset in what precedes
	H      uint32 `json:"h,omitempty"` // hashwin: the window hash (a hashwin piece is always 48 bytes long)
}

var (
	hashwinMu    sync.Mutex
	hashwinCache = map[[2]uint64][]byte{}
)

func hashWindow(h uint32, seed uint64) []byte {
	hashwinMu.Lock()
	defer hashwinMu.Unlock()
	k := [2]uint64{uint64(h), seed}
	if b, ok := hashwinCache[k]; ok {
		return b
	}
	w := ref.WindowWithHash(h, seed)
	if len(hashwinCache) > 256 {
		hashwinCache = map[[2]uint64][]byte{}
	}
	hashwinCache[k] = w[:]
	return w[:]
}

type splitmix uint64

func (s *splitmix) next() uint64 {
	*s += 0x9e3779b97f4a7c15
	z := uint64(*s)
	z = (z ^ (z >> 30)) * 0xbf58476d1ce4e5b9
	z = (z ^ (z >> 27)) * 0x94d049bb133111eb
	return z ^ (z >> 31)
}

// Fill writes deterministic pseudo-random bytes derived from seed.
func Fill(b []byte, seed uint64) {
	s := splitmix(seed)
	i := 0
	for ; i+8 <= len(b); i += 8 {
		v := s.next()
		b[i], b[i+1], b[i+2], b[i+3] = byte(v), byte(v>>8), byte(v>>16), byte(v>>24)
		b[i+4], b[i+5], b[i+6], b[i+7] = byte(v>>32), byte(v>>40), byte(v>>48), byte(v>>56)
	}
	if i < len(b) {
		v := s.next()
		for ; i < len(b); i++ {
			b[i] = byte(v)
			v >>= 8
		}
	}
}

func RandBytes(n int, seed uint64) []byte {
	b := make([]byte, n)
	Fill(b, seed)
	return b
}

// Expand materialises a piece list.
func Expand(ps []Piece) []byte {
	total := 0
	for i := range ps {
		if ps[i].Kind == "hashwin" {
			ps[i].Len = ref.Window
		}
		total += ps[i].Len
	}
	out := make([]byte, 0, total)
	for _, p := range ps {
		if p.Len <= 0 {
			continue
		}
		switch p.Kind {
		case "hashwin":
			out = append(out, hashWindow(p.H, p.Seed)...)
		case "zero":
			out = append(out, make([]byte, p.Len)...)
		case "const":
			seg := make([]byte, p.Len)
			for i := range seg {
				seg[i] = p.B
			}
			out = append(out, seg...)
		case "period":
			per := p.Period
			if per < 1 {
				per = 1
			}
			unit := RandBytes(per, p.Seed)
			seg := make([]byte, p.Len)
			for i := range seg {
				seg[i] = unit[i%per]
			}
			out = append(out, seg...)
		case "text":
			seg := RandBytes(p.Len, p.Seed)
			const alpha = "ab \n"
			for i := range seg {
				seg[i] = alpha[seg[i]&3]
			}
			out = append(out, seg...)
		case "repeat":
			if len(out) == 0 {
				out = append(out, RandBytes(p.Len, p.Seed)...)
				break
			}
			off := p.Off % len(out)
			for i := 0; i < p.Len; i++ {
				out = append(out, out[off+i%(len(out)-off)])
			}
		default: // rand
			out = append(out, RandBytes(p.Len, p.Seed)...)
		}
	}
	return out
}

// Around draws a length from the neighbourhood of the given magic values or uniformly up to max.
func Around(t *rapid.T, label string, max int, magics ...int) int {
	if max < 0 {
		max = 0
	}
	if len(magics) > 0 && rapid.IntRange(0, 2).Draw(t, label+"?") > 0 {
		m := rapid.SampledFrom(magics).Draw(t, label+"m")
		k := rapid.IntRange(0, 4).Draw(t, label+"k")
		v := m*k + rapid.IntRange(-2, 2).Draw(t, label+"d")
		if k == 0 {
			v = m + rapid.IntRange(-2, 2).Draw(t, label+"d2")
		}
		if v < 0 {
			v = 0
		}
		if v > max {
			v = max
		}
		return v
	}
	return rapid.IntRange(0, max).Draw(t, label)
}

// Pieces draws a blob description of at most maxLen bytes. magics are lengths the code
// under test treats specially (min, max, span, block size, …).
func Pieces(t *rapid.T, maxLen int, magics ...int) []Piece {
	shape := rapid.IntRange(0, 9).Draw(t, "blobshape")
	switch shape {
	case 0: // empty or tiny
		n := rapid.IntRange(0, 3).Draw(t, "tiny")
		if n == 0 {
			return nil
		}
		return []Piece{{Kind: "rand", Len: Around(t, "len", min(maxLen, 64), 47, 48, 49), Seed: rapid.Uint64().Draw(t, "seed")}}
	case 1: // one random piece
		return []Piece{{Kind: "rand", Len: Around(t, "len", maxLen, magics...), Seed: rapid.Uint64().Draw(t, "seed")}}
	}
	n := rapid.IntRange(1, 6).Draw(t, "npieces")
	var ps []Piece
	left := maxLen
	for i := 0; i < n && left > 0; i++ {
		kind := rapid.SampledFrom([]string{"rand", "rand", "zero", "zero", "const", "period", "text", "repeat", "repeat"}).Draw(t, "kind")
		p := Piece{Kind: kind, Len: Around(t, "plen", left, magics...)}
		switch kind {
		case "rand", "text":
			p.Seed = rapid.Uint64().Draw(t, "seed")
		case "const":
			p.B = byte(rapid.IntRange(1, 255).Draw(t, "b"))
		case "period":
			p.Seed = rapid.Uint64().Draw(t, "seed")
			p.Period = rapid.SampledFrom([]int{1, 2, 7, 40, 47, 48, 49, 96, 100, 333}).Draw(t, "period")
		case "repeat":
			p.Off = rapid.IntRange(0, 1<<20).Draw(t, "off")
			p.Seed = rapid.Uint64().Draw(t, "seed")
		}
		left -= p.Len
		ps = append(ps, p)
	}
	return ps
}

// Shape summarises a piece list for evidence samples.
func Shape(ps []Piece) []string {
	var s []string
	for _, p := range ps {
		s = append(s, p.Kind+":"+itoa(p.Len))
	}
	return s
}

func itoa(n int) string {
	if n == 0 {
		return "0"
	}
	neg := n < 0
	if neg {
		n = -n
	}
	var b [20]byte
	i := len(b)
	for n > 0 {
		i--
		b[i] = byte('0' + n%10)
		n /= 10
	}
	if neg {
		i--
		b[i] = '-'
	}
	return string(b[i:])
}

// Sizes is a (min, avg, max) chunk size triple.
type Sizes struct {
	Min uint64 `json:"min"`
	Avg uint64 `json:"avg"`
	Max uint64 `json:"max"`
}

// ChunkSizes draws a valid triple 48 <= min <= avg <= max. small keeps max <= 1024 so that
// many-chunk inputs stay cheap; otherwise sizes on both sides of the 4096-byte block are drawn.
func ChunkSizes(t *rapid.T, allowDegenerate bool) Sizes {
	switch rapid.IntRange(0, 9).Draw(t, "sizeclass") {
	case 0:
		return Sizes{48, 64, 256}
	case 1:
		return Sizes{64, 256, 1024}
	case 2:
		return Sizes{2048, 4096, 8192}
	case 3:
		return Sizes{4096, 16384, 65536}
	case 4:
		if allowDegenerate {
			m := uint64(rapid.IntRange(48, 512).Draw(t, "deg"))
			return Sizes{m, m, m}
		}
		return Sizes{48, 48, 48 + uint64(rapid.IntRange(1, 200).Draw(t, "d"))}
	case 5: // avg == max or min == avg
		mn := uint64(rapid.IntRange(48, 300).Draw(t, "min"))
		mx := mn + uint64(rapid.IntRange(1, 700).Draw(t, "dmax"))
		if rapid.Bool().Draw(t, "avg=max") {
			return Sizes{mn, mx, mx}
		}
		return Sizes{mn, mn, mx}
	case 6: // above the block size
		mn := uint64(rapid.IntRange(4097, 6000).Draw(t, "min"))
		avg := mn + uint64(rapid.IntRange(0, 4000).Draw(t, "davg"))
		return Sizes{mn, avg, avg + uint64(rapid.IntRange(1, 8000).Draw(t, "dmax"))}
	default:
		mn := uint64(rapid.IntRange(48, 400).Draw(t, "min"))
		avg := mn + uint64(rapid.IntRange(0, 400).Draw(t, "davg"))
		mx := avg + uint64(rapid.IntRange(1, 1200).Draw(t, "dmax"))
		return Sizes{mn, avg, mx}
	}
}

// Tiling draws chunk lengths (each in 1..maxChunk) that exactly tile total bytes.
func Tiling(t *rapid.T, total int, maxChunk int) []int {
	var out []int
	mode := rapid.IntRange(0, 2).Draw(t, "tilemode")
	if mode == 2 && total > 6000 {
		mode = 0 // thousands of tiny chunks make every case slow without adding shapes
	}
	for total > 0 {
		var l int
		switch mode {
		case 0:
			l = rapid.IntRange(1, maxChunk).Draw(t, "tile")
		case 1:
			l = maxChunk
		default:
			l = rapid.IntRange(1, min(8, maxChunk)).Draw(t, "tile")
		}
		if l > total {
			l = total
		}
		out = append(out, l)
		total -= l
	}
	return out
}
