package dx

import (
	"errors"
	"fmt"
	"sync"

	"github.com/folbricht/desync"
)

// ErrInjected is what an injected store fault returns.
var ErrInjected = errors.New("injected store failure")

// Call is one logged store operation.
type Call struct {
	Kind string // get | has | store | close
	ID   desync.ChunkID
	N    int  // 1-based index of this call among calls of its kind
	Fail bool // an injected fault was delivered on this call
}

// MemStore is an in-memory desync.WriteStore with a call log, use-after-close detection and
// generated fault schedules. Chunks are kept as plain bytes per ID; an entry may hold bytes
// that do not hash to its ID ("invalid"), which GetChunk reports like a real store would
// (ChunkInvalid) unless SkipVerify is set.
type MemStore struct {
	Name       string
	SkipVerify bool
	ReadOnly   bool

	mu      sync.Mutex
	data    map[desync.ChunkID][]byte
	log     []Call
	counts  map[string]int
	failAt  map[string]map[int]bool // kind -> call numbers that fail
	failAll map[string]bool         // kind -> always fail
	closed  bool
	afterCl int // calls entered after Close returned

	// FaultErr, if set, supplies the error an injected fault returns (default ErrInjected wrapped).
	FaultErr func(kind string, n int) error
	// OnCall, if set, runs (outside the lock) at the start of every operation.
	OnCall func(kind string, n int, id desync.ChunkID)
	// Gate, if set, blocks every operation until it returns (C12 schedule control).
	Gate func(kind string, n int, id desync.ChunkID)
}

func NewMemStore(name string) *MemStore {
	return &MemStore{Name: name, data: map[desync.ChunkID][]byte{}, counts: map[string]int{},
		failAt: map[string]map[int]bool{}, failAll: map[string]bool{}}
}

// Put stores raw bytes under id without any check (the oracle's back door).
func (s *MemStore) Put(id desync.ChunkID, b []byte) {
	s.mu.Lock()
	defer s.mu.Unlock()
	s.data[id] = append([]byte(nil), b...)
}

func (s *MemStore) Delete(id desync.ChunkID) {
	s.mu.Lock()
	defer s.mu.Unlock()
	delete(s.data, id)
}

// Raw returns the stored bytes (oracle back door).
func (s *MemStore) Raw(id desync.ChunkID) ([]byte, bool) {
	s.mu.Lock()
	defer s.mu.Unlock()
	b, ok := s.data[id]
	return b, ok
}

func (s *MemStore) Len() int {
	s.mu.Lock()
	defer s.mu.Unlock()
	return len(s.data)
}

func (s *MemStore) IDs() []desync.ChunkID {
	s.mu.Lock()
	defer s.mu.Unlock()
	var out []desync.ChunkID
	for id := range s.data {
		out = append(out, id)
	}
	return out
}

// FailAt makes the n-th (1-based) call of kind fail.
func (s *MemStore) FailAt(kind string, n int) {
	s.mu.Lock()
	defer s.mu.Unlock()
	if s.failAt[kind] == nil {
		s.failAt[kind] = map[int]bool{}
	}
	s.failAt[kind][n] = true
}

// FailAll makes every call of kind fail (or stops doing so).
func (s *MemStore) FailAll(kind string, on bool) {
	s.mu.Lock()
	defer s.mu.Unlock()
	s.failAll[kind] = on
}

func (s *MemStore) Log() []Call {
	s.mu.Lock()
	defer s.mu.Unlock()
	return append([]Call(nil), s.log...)
}

func (s *MemStore) Count(kind string) int {
	s.mu.Lock()
	defer s.mu.Unlock()
	return s.counts[kind]
}

// Delivered returns how many injected faults were actually delivered.
func (s *MemStore) Delivered() int {
	s.mu.Lock()
	defer s.mu.Unlock()
	n := 0
	for _, c := range s.log {
		if c.Fail {
			n++
		}
	}
	return n
}

func (s *MemStore) UsedAfterClose() int {
	s.mu.Lock()
	defer s.mu.Unlock()
	return s.afterCl
}

func (s *MemStore) ResetLog() {
	s.mu.Lock()
	defer s.mu.Unlock()
	s.log = nil
}

// enter logs the call and reports whether it must fail.
func (s *MemStore) enter(kind string, id desync.ChunkID) (n int, fail bool) {
	s.mu.Lock()
	s.counts[kind]++
	n = s.counts[kind]
	fail = s.failAll[kind] || s.failAt[kind][n]
	if s.closed {
		s.afterCl++
	}
	s.log = append(s.log, Call{Kind: kind, ID: id, N: n, Fail: fail})
	on, gate := s.OnCall, s.Gate
	s.mu.Unlock()
	if on != nil {
		on(kind, n, id)
	}
	if gate != nil {
		gate(kind, n, id)
	}
	return n, fail
}

func (s *MemStore) GetChunk(id desync.ChunkID) (*desync.Chunk, error) {
	n, fail := s.enter("get", id)
	if fail {
		if s.FaultErr != nil {
			return nil, s.FaultErr("get", n)
		}
		return nil, fmt.Errorf("%s get: %w", s.Name, ErrInjected)
	}
	s.mu.Lock()
	b, ok := s.data[id]
	s.mu.Unlock()
	if !ok {
		return nil, desync.ChunkMissing{ID: id}
	}
	return desync.NewChunkWithID(id, append([]byte(nil), b...), s.SkipVerify)
}

func (s *MemStore) HasChunk(id desync.ChunkID) (bool, error) {
	_, fail := s.enter("has", id)
	if fail {
		return false, fmt.Errorf("%s has: %w", s.Name, ErrInjected)
	}
	s.mu.Lock()
	_, ok := s.data[id]
	s.mu.Unlock()
	return ok, nil
}

func (s *MemStore) StoreChunk(c *desync.Chunk) error {
	id := c.ID()
	_, fail := s.enter("store", id)
	if fail {
		return fmt.Errorf("%s store: %w", s.Name, ErrInjected)
	}
	if s.ReadOnly {
		return fmt.Errorf("%s is read-only", s.Name)
	}
	b, err := c.Data()
	if err != nil {
		return err
	}
	s.mu.Lock()
	s.data[id] = append([]byte(nil), b...)
	s.mu.Unlock()
	return nil
}

func (s *MemStore) Close() error {
	s.mu.Lock()
	defer s.mu.Unlock()
	s.counts["close"]++
	s.closed = true
	return nil
}

func (s *MemStore) String() string { return "mem:" + s.Name }

// ReadOnlyStore hides StoreChunk (a desync.Store that is not a WriteStore).
type ReadOnlyStore struct{ S *MemStore }

func (r ReadOnlyStore) GetChunk(id desync.ChunkID) (*desync.Chunk, error) { return r.S.GetChunk(id) }
func (r ReadOnlyStore) HasChunk(id desync.ChunkID) (bool, error)          { return r.S.HasChunk(id) }
func (r ReadOnlyStore) Close() error                                      { return r.S.Close() }
func (r ReadOnlyStore) String() string                                    { return r.S.String() }

// FillStore puts every chunk of idx (cut from blob) into s.
func FillStore(s *MemStore, blob []byte, idx desync.Index) {
	for _, c := range idx.Chunks {
		s.Put(c.ID, blob[c.Start:c.Start+c.Size])
	}
}
