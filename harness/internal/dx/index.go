// Package dx holds helpers that face desync's API: building Index values from reference
// data, in-memory stores with fault injection, and small file utilities.
package dx

import (
	"os"
	"path/filepath"

	"github.com/folbricht/desync"

	"verifharness/internal/gen"
	"verifharness/internal/ref"
)

// BuildIndex makes a desync.Index for blob cut at spans, with IDs computed by the
// reference digest (not by desync).
func BuildIndex(blob []byte, spans []ref.Span, sz gen.Sizes, sha256 bool) desync.Index {
	flags := uint64(desync.CaFormatExcludeNoDump)
	if !sha256 {
		flags |= desync.CaFormatSHA512256
	}
	idx := desync.Index{Index: desync.FormatIndex{
		FormatHeader: desync.FormatHeader{Size: 48, Type: desync.CaFormatIndex},
		FeatureFlags: flags, ChunkSizeMin: sz.Min, ChunkSizeAvg: sz.Avg, ChunkSizeMax: sz.Max,
	}}
	for _, s := range spans {
		idx.Chunks = append(idx.Chunks, desync.IndexChunk{
			ID: ref.ID(blob[s.Start:s.Start+s.Len], sha256), Start: s.Start, Size: s.Len,
		})
	}
	return idx
}

// SpansFromTiling turns chunk lengths into spans.
func SpansFromTiling(t []int) []ref.Span {
	var out []ref.Span
	var pos uint64
	for _, l := range t {
		out = append(out, ref.Span{Start: pos, Len: uint64(l)})
		pos += uint64(l)
	}
	return out
}

// WriteFile writes b to dir/name and returns the path.
func WriteFile(dir, name string, b []byte) string {
	p := filepath.Join(dir, name)
	if err := os.WriteFile(p, b, 0o644); err != nil {
		panic(err)
	}
	return p
}
