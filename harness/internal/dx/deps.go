package dx

// Blank imports that pin the third-party modules harness packages use directly, so that
// go.mod lists them and concurrent builds never need to rewrite it.
import (
	_ "github.com/DataDog/zstd"
	_ "github.com/hanwen/go-fuse/v2/fs"
	_ "github.com/hanwen/go-fuse/v2/fuse"
	_ "github.com/klauspost/compress/zstd"
	_ "github.com/minio/minio-go/v6"
	_ "github.com/minio/minio-go/v6/pkg/credentials"
	_ "github.com/pkg/sftp"
	_ "github.com/pkg/xattr"
	_ "golang.org/x/sys/unix"
)
