package cloneemu

import "testing"

func TestRules(t *testing.T) {
	const bs = 4096
	type tc struct {
		name                   string
		srcSize, dstSize       uint64
		same                   bool
		srcOff, length, dstOff uint64
		wantCount              uint64
		wantErr                bool
	}
	for _, c := range []tc{
		{"len0 at EOF is a no-op", 8192, 0, false, 8192, 0, 0, 0, false},
		{"len0 on two empty files", 0, 0, false, 0, 0, 0, 0, false},
		{"len0 beyond EOF", 8192, 0, false, 12288, 0, 0, 0, true},
		{"len0 clones to EOF", 10000, 0, false, 4096, 0, 0, 5904, false},
		{"unaligned src offset", 16384, 16384, false, 100, 4096, 0, 0, true},
		{"unaligned dst offset", 16384, 16384, false, 0, 4096, 100, 0, true},
		{"src offset at EOF", 8192, 8192, false, 8192, 4096, 0, 0, true},
		{"range past EOF must be shortened", 8192, 8192, false, 4096, 8192, 0, 0, true},
		{"aligned middle range", 16384, 16384, false, 4096, 8192, 0, 8192, false},
		{"unaligned length in the middle of src", 16384, 16384, false, 4096, 5000, 0, 0, true},
		{"unaligned tail to src EOF, beyond dst EOF", 10000, 4096, false, 8192, 1808, 8192, 1808, false},
		{"unaligned tail to src EOF, at dst EOF", 10000, 10000, false, 8192, 1808, 8192, 1808, false},
		{"unaligned tail to src EOF, inside dst", 10000, 20000, false, 8192, 1808, 8192, 0, true},
		{"same file overlapping", 16384, 16384, true, 0, 8192, 4096, 0, true},
		{"same file disjoint", 16384, 16384, true, 0, 4096, 8192, 4096, false},
		{"underflowed length wraps", 16384, 16384, false, 4096, ^uint64(0) - 4095, 4096, 0, true},
	} {
		got, err := Check(bs, c.srcSize, c.dstSize, c.same, c.srcOff, c.length, c.dstOff)
		if (err != nil) != c.wantErr || (err == nil && got != c.wantCount) {
			t.Errorf("%s: got (%d, %v), want (%d, err=%v)", c.name, got, err, c.wantCount, c.wantErr)
		}
	}
}
