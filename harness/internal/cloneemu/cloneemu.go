// Package cloneemu is a strict in-process emulation of the FICLONERANGE ioctl, installed
// through desync.VerifClone on filesystems that have no reflink support. The rules are
// transcribed from ioctl_ficlonerange(2) and the kernel's fs/remap_range.c
// (generic_remap_file_range_prep, generic_remap_checks, generic_remap_check_len) for a
// remap without REMAP_FILE_CAN_SHORTEN and without REMAP_FILE_DEDUP.
package cloneemu

import (
	"fmt"
	"io"
	"os"
	"sync"
	"syscall"
)

type Emu struct {
	Can bool   // answer of CanClone
	BS  uint64 // filesystem block size (4096 here)

	// Refuse, if set, is asked before every clone (source file name, running number of the calls it was asked about,
	// from 1): a non-nil error is returned to the caller instead of cloning - a filesystem that announced the
	// ability and then refuses the call (EXDEV, EPERM, ETXTBSY, EOPNOTSUPP ...)
	Refuse  func(srcName string, nth int) error
	Refused int
	asked   int

	mu     sync.Mutex
	Calls  int
	Cloned uint64
	Fails  int
	Log    []string
}

func New(can bool) *Emu { return &Emu{Can: can, BS: 4096} }

func (e *Emu) CanClone(dstFile, srcFile string) bool { return e.Can }

func (e *Emu) note(format string, a ...any) {
	e.mu.Lock()
	defer e.mu.Unlock()
	if len(e.Log) < 50 {
		e.Log = append(e.Log, fmt.Sprintf(format, a...))
	}
}

func einval(why string, a ...any) error {
	return &os.SyscallError{Syscall: "ioctl(FICLONERANGE): " + fmt.Sprintf(why, a...), Err: syscall.EINVAL}
}

// Check applies the kernel's argument checks and returns the byte count that would be remapped.
func Check(bs, srcSize, dstSize uint64, sameFile bool, srcOff, length, dstOff uint64) (uint64, error) {
	// generic_remap_file_range_prep: zero length means "to the end of the source"
	if length == 0 {
		if srcOff == srcSize {
			return 0, nil
		}
		if srcOff > srcSize {
			return 0, einval("len 0 and src offset %d beyond EOF %d", srcOff, srcSize)
		}
		length = srcSize - srcOff
	}
	// generic_remap_checks
	if srcOff%bs != 0 || dstOff%bs != 0 {
		return 0, einval("offsets src %d dst %d not block aligned", srcOff, dstOff)
	}
	if srcOff+length < srcOff || dstOff+length < dstOff {
		return 0, einval("offset wrap-around (len %d)", length)
	}
	if srcOff >= srcSize {
		return 0, einval("src offset %d at or beyond EOF %d", srcOff, srcSize)
	}
	count := length
	if srcSize-srcOff < count {
		count = srcSize - srcOff
	}
	var bcount uint64
	if srcOff+count == srcSize {
		bcount = (srcSize+bs-1)/bs*bs - srcOff
	} else {
		if count%bs != 0 {
			count = count / bs * bs
		}
		bcount = count
	}
	if sameFile && dstOff+bcount > srcOff && dstOff < srcOff+bcount {
		return 0, einval("overlapping ranges within one file (src %d dst %d blocks %d)", srcOff, dstOff, bcount)
	}
	if count != length {
		return 0, einval("request of %d bytes would have to be shortened to %d", length, count)
	}
	// generic_remap_check_len: a partial EOF block cannot land in the middle of the destination
	if count%bs != 0 && dstOff+count < dstSize {
		return 0, einval("unaligned length %d would end inside the destination (dst size %d)", count, dstSize)
	}
	return count, nil
}

func (e *Emu) CloneRange(dst, src *os.File, srcOff, srcLen, dstOff uint64) error {
	e.mu.Lock()
	e.Calls++
	e.mu.Unlock()
	if !e.Can {
		e.note("clone on a filesystem without support")
		return &os.SyscallError{Syscall: "ioctl(FICLONERANGE)", Err: syscall.EOPNOTSUPP}
	}
	if e.Refuse != nil {
		e.mu.Lock()
		e.asked++
		n := e.asked
		e.mu.Unlock()
		if err := e.Refuse(src.Name(), n); err != nil {
			e.mu.Lock()
			e.Refused++
			e.mu.Unlock()
			e.note("refused clone #%d from %s: %v", n, src.Name(), err)
			return &os.SyscallError{Syscall: "ioctl(FICLONERANGE)", Err: err}
		}
	}
	si, err := src.Stat()
	if err != nil {
		return err
	}
	di, err := dst.Stat()
	if err != nil {
		return err
	}
	count, err := Check(e.BS, uint64(si.Size()), uint64(di.Size()), os.SameFile(si, di), srcOff, srcLen, dstOff)
	if err != nil {
		e.mu.Lock()
		e.Fails++
		e.mu.Unlock()
		e.note("%v", err)
		return err
	}
	if count == 0 {
		return nil
	}
	buf := make([]byte, count)
	if _, err := src.ReadAt(buf, int64(srcOff)); err != nil && err != io.EOF {
		return err
	}
	if _, err := dst.WriteAt(buf, int64(dstOff)); err != nil {
		return err
	}
	e.mu.Lock()
	e.Cloned += count
	e.mu.Unlock()
	return nil
}
