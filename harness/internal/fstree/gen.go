package fstree

import (
	"pgregory.net/rapid"
)

// GenOptions bound the generated trees.
type GenOptions struct {
	MaxDepth      int   // nesting below the root (default 4)
	MaxKids       int   // explicit children per directory (default 12)
	MaxNodes      int   // budget of explicit nodes (default 40)
	BulkMax       int   // largest seeded fan-out of a directory (0 = none)
	Bulks         int   // how many directories may get a seeded fan-out (default 1 if BulkMax > 0)
	FileSizes     []int // favoured file sizes (chunk sizes of the pipeline and their neighbours)
	MaxFile       int   // largest file (default 70000)
	MaxTarget     int   // longest symlink target (default 300)
	MaxXattrVal   int   // longest xattr value (default 300)
	NoXattrs      bool  // no extended attributes at all
	NoTrusted     bool  // no trusted.* attributes on symlinks and devices (only user.* on files and directories)
	NoDevices     bool  // no device nodes
	NoSpaceNames  bool  // no names containing a space
	ModerateTimes bool  // mtimes in [1 ns, 2^63 ns) only (no pre-1970 and post-2262 values)
	EpochTimes    bool  // about one node in 25 gets an mtime of exactly the Unix epoch
	Specials      bool  // also fifos and sockets
}

func (o *GenOptions) defaults() {
	if o.MaxDepth == 0 {
		o.MaxDepth = 4
	}
	if o.MaxKids == 0 {
		o.MaxKids = 12
	}
	if o.MaxNodes == 0 {
		o.MaxNodes = 40
	}
	if o.MaxFile == 0 {
		o.MaxFile = 70000
	}
	if o.MaxTarget == 0 {
		o.MaxTarget = 300
	}
	if o.MaxXattrVal == 0 {
		o.MaxXattrVal = 300
	}
	if o.BulkMax > 0 && o.Bulks == 0 {
		o.Bulks = 1
	}
}

var oddNames = []string{".x", "..x", "...", " ", "a b", " lead", "trail ", "-", "-rf", "\n", "a\nb", "\\", "a\\b", "*", "\xff", "\x01",
	"é", "a\tb", "~", "#", "#x", "a#b", "%00", "a=b", "x\x7f", "\xc3\x28", "日本", "\\040", "type=file", "'", "\"q\""}

const asciiAlpha = "abcdefghijklmnopqrstuvwxyzABCDEFGHIJKLMNOPQRSTUVWXYZ0123456789._- "

// GenName draws a file name: 1..255 bytes, any byte except NUL and '/'.
func GenName(t *rapid.T, o *GenOptions) []byte {
	var b []byte
	switch rapid.IntRange(0, 9).Draw(t, "nameclass") {
	case 0:
		b = []byte(rapid.SampledFrom(oddNames).Draw(t, "odd"))
	case 1:
		r := Rng(rapid.Uint64().Draw(t, "nameseed"))
		b = NameBytes(rapid.SampledFrom([]int{255, 255, 254}).Draw(t, "longlen"), &r)
	case 2, 3, 4, 5, 6:
		n := rapid.IntRange(1, 12).Draw(t, "alen")
		r := Rng(rapid.Uint64().Draw(t, "nameseed"))
		b = make([]byte, n)
		for i := range b {
			b[i] = asciiAlpha[r.Next()%uint64(len(asciiAlpha))]
		}
	default:
		n := rapid.SampledFrom([]int{1, 2, 3, 5, 8, 16, 40, 100, 200}).Draw(t, "blen")
		r := Rng(rapid.Uint64().Draw(t, "nameseed"))
		b = NameBytes(n, &r)
	}
	if o.NoSpaceNames {
		for i := range b {
			if b[i] == ' ' {
				b[i] = '_'
			}
		}
	}
	return b
}

var commonTimes = [][2]int64{{0, 1}, {0, 999_999_999}, {1, 0}, {1, 5}, {1000, 5}, {1_500_000_000, 123_456_789}, {1_500_000_000, 0},
	{1<<31 - 1, 999_999_999}, {1 << 31, 0}, {1 << 32, 1}, {4_000_000_000, 1}, {9223372036, 854775807}}

var extremeTimes = [][2]int64{{-1, 999_999_999}, {-1, 0}, {-1, 500_000_000}, {-86400, 0}, {MinSec, 0}, {MinSec + 1, 7},
	{9223372036, 854775808}, {9223372037, 0}, {1 << 33, 1}, {MaxSec, 999_999_999}, {MaxSec, 0}}

func genAttrs(t *rapid.T, s *Spec, o *GenOptions) {
	if rapid.Bool().Draw(t, "permcommon") {
		s.Perm = rapid.SampledFrom([]uint32{0o644, 0o755, 0o600, 0, 0o7777, 0o4755, 0o2755, 0o1777, 0o777, 0o4000, 0o2000, 0o1000, 0o6711}).Draw(t, "perm")
	} else {
		s.Perm = uint32(rapid.IntRange(0, 0o7777).Draw(t, "perm"))
	}
	id := func(label string) uint32 {
		if rapid.Bool().Draw(t, label+"common") {
			return rapid.SampledFrom([]uint32{0, 0, 1, 1000, 65534, 65535, 65536, 1<<21 - 1, 1 << 21, 1<<31 - 1, 1 << 31, 1<<32 - 2}).Draw(t, label)
		}
		return rapid.Uint32Range(0, 1<<32-2).Draw(t, label)
	}
	s.UID, s.GID = id("uid"), id("gid")
	switch tc := rapid.IntRange(0, 19).Draw(t, "mtclass"); {
	case tc < 8:
		v := rapid.SampledFrom(commonTimes).Draw(t, "mtime")
		s.Sec, s.Nsec = v[0], v[1]
	case tc < 18 || o.ModerateTimes:
		s.Sec = rapid.Int64Range(0, 9223372035).Draw(t, "sec")
		s.Nsec = rapid.Int64Range(0, 999_999_999).Draw(t, "nsec")
	case tc == 18:
		v := rapid.SampledFrom(extremeTimes).Draw(t, "mtimex")
		s.Sec, s.Nsec = v[0], v[1]
	default:
		s.Sec = rapid.Int64Range(MinSec, MaxSec).Draw(t, "secx")
		s.Nsec = rapid.Int64Range(0, 999_999_999).Draw(t, "nsec")
	}
	if o.EpochTimes && rapid.IntRange(0, 24).Draw(t, "epoch") == 0 {
		s.Epoch = true
	}
	if o.NoXattrs || rapid.IntRange(0, 3).Draw(t, "hasx") != 0 {
		return
	}
	ns := "user."
	if s.Kind != File && s.Kind != Dir { // the kernel refuses user.* on symlinks and special files
		if o.NoTrusted {
			return
		}
		ns = "trusted."
	}
	nx := rapid.IntRange(1, 3).Draw(t, "nx")
	for i := 0; i < nx; i++ {
		k := ns + rapid.SampledFrom([]string{"a", "b", "k1", "mime_type", "z.z", "A", "ü", "with space", "x:y"}).Draw(t, "xk")
		l := rapid.SampledFrom([]int{0, 1, 1, 7, 40, o.MaxXattrVal}).Draw(t, "xl")
		v := make([]byte, l)
		r := Rng(rapid.Uint64().Draw(t, "xseed"))
		switch rapid.IntRange(0, 2).Draw(t, "xkind") {
		case 0: // arbitrary bytes, NUL included
			for j := range v {
				v[j] = byte(r.Next() >> 13)
			}
		case 1: // text
			for j := range v {
				v[j] = 'a' + byte(r.Next()>>13)%26
			}
		default: // NUL-heavy
			for j := range v {
				v[j] = byte(r.Next()>>13) % 2
			}
		}
		s.Xattrs = append(s.Xattrs, XA{K: k, V: v})
	}
}

type budget struct{ nodes, bulks int }

func genNode(t *rapid.T, o *GenOptions, depth int, kind string, b *budget) Spec {
	b.nodes--
	s := Spec{Kind: kind}
	if depth > 0 {
		s.Name = GenName(t, o)
	}
	genAttrs(t, &s, o)
	switch kind {
	case File:
		sizes := append([]int{0, 0, 1, 15, 16, 17, 100, 4096}, o.FileSizes...)
		if rapid.IntRange(0, 4).Draw(t, "anysize") == 0 {
			s.Size = rapid.IntRange(0, o.MaxFile).Draw(t, "size")
		} else {
			s.Size = rapid.SampledFrom(sizes).Draw(t, "size")
			if s.Size > 2 {
				s.Size += rapid.IntRange(-1, 1).Draw(t, "dsize")
			}
		}
		if s.Size > o.MaxFile {
			s.Size = o.MaxFile
		}
		s.Seed = rapid.Uint64().Draw(t, "seed")
		s.Fill = rapid.SampledFrom([]string{"", "", "", "zero", "text"}).Draw(t, "fill")
	case Symlink:
		if rapid.Bool().Draw(t, "tcommon") {
			s.Target = []byte(rapid.SampledFrom([]string{"a", "../x", "/etc/passwd", ".", "..", "a/b/c", "/", "a b", "../../../../../../etc/shadow", "//", "x/", "\xff\xfe", "a\nb", "#", "\\"}).Draw(t, "target"))
		} else {
			r := Rng(rapid.Uint64().Draw(t, "tseed"))
			tl := rapid.SampledFrom([]int{1, 2, 10, 99, 100, 101, 255, 256, o.MaxTarget}).Draw(t, "tlen")
			s.Target = NameBytes(tl, &r)
			for i := range s.Target { // targets may contain slashes
				if s.Target[i] == '|' {
					s.Target[i] = '/'
				}
			}
		}
	case Chr, Blk:
		if rapid.Bool().Draw(t, "devcommon") {
			s.Major = uint32(rapid.SampledFrom([]int{0, 1, 8, 255, 256, 4095}).Draw(t, "major"))
			s.Minor = uint32(rapid.SampledFrom([]int{0, 1, 3, 255, 256, 65535, 65536, 1<<20 - 1}).Draw(t, "minor"))
		} else {
			s.Major = uint32(rapid.IntRange(0, 4095).Draw(t, "major"))
			s.Minor = uint32(rapid.IntRange(0, 1<<20-1).Draw(t, "minor"))
		}
	case Dir:
		if depth >= o.MaxDepth {
			break
		}
		maxk := o.MaxKids
		if depth > 0 && rapid.IntRange(0, 2).Draw(t, "few") > 0 {
			maxk = min(maxk, 3)
		}
		nk := rapid.IntRange(0, maxk).Draw(t, "nkids")
		kinds := []string{Dir, Dir, Dir, File, File, File, File, File, Symlink, Symlink, Chr, Blk}
		if o.NoDevices {
			kinds = kinds[:10]
		}
		if o.Specials {
			kinds = append(kinds, Fifo, Sock)
		}
		for i := 0; i < nk && b.nodes > 0; i++ {
			k := rapid.SampledFrom(kinds).Draw(t, "kind")
			s.Kids = append(s.Kids, genNode(t, o, depth+1, k, b))
		}
		if b.bulks > 0 && o.BulkMax > 0 && rapid.IntRange(0, 2).Draw(t, "bulk?") == 0 {
			b.bulks--
			var n int
			switch rapid.IntRange(0, 7).Draw(t, "bulkclass") { // large fan-outs cost seconds: keep them a minority
			case 0:
				n = o.BulkMax
			case 1, 2:
				n = rapid.IntRange(0, o.BulkMax).Draw(t, "bulkn")
			default:
				n = rapid.IntRange(0, min(o.BulkMax, 150)).Draw(t, "bulkn")
			}
			s.Bulk = &Bulk{N: n, Seed: rapid.Uint64().Draw(t, "bulkseed"),
				Scheme: rapid.SampledFrom([]string{"mix", "mix", "seq", "long"}).Draw(t, "scheme")}
		}
	}
	return s
}

// Gen draws a tree description: the root directory and everything below it.
func Gen(t *rapid.T, o GenOptions) Spec {
	o.defaults()
	b := &budget{nodes: o.MaxNodes}
	// a seeded fan-out costs up to seconds of system calls per pipeline: one tree in ten gets them
	if o.BulkMax > 0 && rapid.IntRange(0, 9).Draw(t, "bulktree") == 0 {
		b.bulks = o.Bulks
	}
	return genNode(t, &o, 0, Dir, b)
}
