package fstree

import "testing"

func TestSelf(t *testing.T) {
	if err := SelfTest(t.TempDir()); err != nil {
		t.Fatal(err)
	}
}
