package fstree

import (
	"fmt"
	"os"
	"path/filepath"
)

// SelfTest checks the materialiser, the snapshot and the diff against each other and against
// hand-made expectations inside dir (an empty scratch directory): a tree with every kind and
// extreme metadata must read back exactly as specified, and every single-field change of a
// tree must be reported by Diff under the right (path, type, field).
func SelfTest(dir string) error {
	spec := Spec{Kind: Dir, Perm: 0o1755, UID: 7, GID: 1<<32 - 2, Sec: 1000, Nsec: 5, Xattrs: []XA{{"user.r", []byte("root")}}, Kids: []Spec{
		{Name: []byte("d"), Kind: Dir, Perm: 0o2750, UID: 1 << 31, GID: 3, Sec: -1, Nsec: 999_999_999, Xattrs: []XA{{"user.b", []byte{0, 1, 0}}, {"user.a", nil}}, Kids: []Spec{
			{Name: []byte("f\xff g"), Kind: File, Perm: 0o4711, UID: 65536, GID: 65535, Sec: 1 << 32, Nsec: 1, Size: 5000, Seed: 3},
			{Name: []byte("l"), Kind: Symlink, UID: 12, GID: 13, Sec: 77, Nsec: 88, Target: []byte("../x y/\xfe"), Xattrs: []XA{{"trusted.t", []byte("v")}}},
		}},
		{Name: []byte("c"), Kind: Chr, Perm: 0o6000, Major: 4095, Minor: 1<<20 - 1, Sec: MaxSec - 1, Nsec: 999_999_999},
		{Name: []byte("b"), Kind: Blk, Perm: 0o660, Major: 8, Minor: 256, Sec: 9223372036, Nsec: 854775808},
		{Name: []byte("e"), Kind: Dir, Perm: 0, Sec: 0, Nsec: 0},
		{Name: []byte("z"), Kind: File, Perm: 0, Size: 0, Sec: MinSec, Nsec: 0},
		{Name: []byte("p"), Kind: Fifo, Perm: 0o644, Sec: 5, Nsec: 7, Epoch: true},
	}}
	want := Expand(spec)
	if e := want.Kids[3]; e.Name != "e" || e.Sec != 0 || e.Nsec != 1 {
		return fmt.Errorf("Expand: the exact epoch must become epoch+1ns, children sorted by name (got %q %d.%09d)", e.Name, e.Sec, e.Nsec)
	}
	root := filepath.Join(dir, "t")
	if err := Materialise(root, want); err != nil {
		return fmt.Errorf("Materialise: %w", err)
	}
	defer os.RemoveAll(root)
	got, err := Snapshot(root)
	if err != nil {
		return fmt.Errorf("Snapshot: %w", err)
	}
	if d := Diff(want, got, DiffOptions{}); len(d) > 0 {
		return fmt.Errorf("snapshot of a materialised tree differs from its description: %v", d[0])
	}
	if n := len(Flatten(got)); n != 9 {
		return fmt.Errorf("Flatten: %d entries, want 9", n)
	}
	// hand-checked values read back from disk (not via Diff)
	f := got.Kids[2].Kids[0]
	if f.Name != "f\xff g" || f.Kind != File || f.Perm != 0o4711 || f.UID != 65536 || f.GID != 65535 || f.Sec != 1<<32 || f.Nsec != 1 || len(f.Data) != 5000 {
		return fmt.Errorf("snapshot of the file is wrong: %+v", *f)
	}
	c := got.Kids[1]
	if c.Kind != Chr || c.Major != 4095 || c.Minor != 1<<20-1 || c.Perm != 0o6000 || c.Sec != MaxSec-1 || c.Nsec != 999_999_999 {
		return fmt.Errorf("snapshot of the char device is wrong: %+v", *c)
	}
	l := got.Kids[2].Kids[1]
	if l.Kind != Symlink || l.Target != "../x y/\xfe" || l.Sec != 77 || l.Nsec != 88 || len(l.Xattrs) != 1 || l.UID != 12 {
		return fmt.Errorf("snapshot of the symlink is wrong: %+v", *l)
	}
	if d := got.Kids[2]; len(d.Xattrs) != 2 || d.Xattrs[0].Key != "user.a" || len(d.Xattrs[0].Val) != 0 || string(d.Xattrs[1].Val) != "\x00\x01\x00" || d.Sec != -1 {
		return fmt.Errorf("snapshot of directory d is wrong: %+v", *d)
	}

	if p := got.Kids[4]; p.Name != "p" || !p.IsEpoch() || ShapeOf(got).EpochNodes != 1 {
		return fmt.Errorf("a node asked to have the exact epoch as mtime reads back as %d.%09d", p.Sec, p.Nsec)
	}
	{ // SkipEpochMtime skips the epoch node's own mtime and nothing else
		g := got.Clone()
		g.Kids[4].Sec = 99
		if d := Diff(want, g, DiffOptions{SkipEpochMtime: true}); len(d) != 0 {
			return fmt.Errorf("Diff: SkipEpochMtime still reports %v", d)
		}
		if d := Diff(want, g, DiffOptions{}); len(d) != 1 || d[0].Path != "p" || d[0].Field != "mtime" {
			return fmt.Errorf("Diff: changed mtime of the epoch node reported as %v", d)
		}
		g.Kids[3].Sec, g.Sec = 99, 99 // e (epoch+1ns) and the root are ordinary nodes
		if d := Diff(want, g, DiffOptions{SkipEpochMtime: true}); len(d) != 2 {
			return fmt.Errorf("Diff: SkipEpochMtime hides other nodes' mtimes: %v", d)
		}
		sh := ShapeOf(Expand(Spec{Sec: 5, Kids: []Spec{{Name: []byte("P"), Kind: Dir, Sec: 6, Kids: []Spec{
			{Name: []byte("D"), Kind: Dir, Epoch: true, Kids: []Spec{{Name: []byte("f"), Kind: File}}}, {Name: []byte("z"), Kind: File}}}}}))
		if sh.EpochDirThenSibling != 1 || sh.EpochNodes != 1 {
			return fmt.Errorf("ShapeOf: epoch-directory-then-sibling shape not recognised: %+v", *sh)
		}
	}

	// every single-field change is found, and named
	type mut struct {
		path, typ, field string
		f                func(r *Node)
	}
	muts := []mut{
		{".", "root", "mode-setid", func(r *Node) { r.Perm &^= 0o1000 }},
		{".", "root", "mtime", func(r *Node) { r.Nsec++ }},
		{".", "root", "xattrs", func(r *Node) { r.Xattrs = nil }},
		{"d", "dir", "mode-perm", func(r *Node) { r.Kids[2].Perm ^= 1 }},
		{"d", "dir", "mtime", func(r *Node) { r.Kids[2].Sec = 5 }},
		{"d", "dir", "xattrs", func(r *Node) { r.Kids[2].Xattrs[1].Val = []byte{0, 1} }},
		{"d", "dir", "gid", func(r *Node) { r.Kids[2].GID++ }},
		{"d/f\xff g", "file", "content", func(r *Node) { r.Kids[2].Kids[0].Data = r.Kids[2].Kids[0].Data[:4999] }},
		{"d/f\xff g", "file", "mode-setid", func(r *Node) { r.Kids[2].Kids[0].Perm = 0o711 }},
		{"d/f\xff g", "file", "uid", func(r *Node) { r.Kids[2].Kids[0].UID = 0 }},
		{"d/l", "symlink", "target", func(r *Node) { r.Kids[2].Kids[1].Target = "../x" }},
		{"d/l", "symlink", "mtime", func(r *Node) { r.Kids[2].Kids[1].Sec = 78 }},
		{"d/l", "symlink", "missing", func(r *Node) { r.Kids[2].Kids = r.Kids[2].Kids[:1] }},
		{"c", "chr", "type", func(r *Node) { r.Kids[1].Kind = Blk }},
		{"c", "chr", "device", func(r *Node) { r.Kids[1].Minor = 0 }},
		{"c", "chr", "mtime-post2262", func(r *Node) { r.Kids[1].Sec = 0 }},
		{"b", "blk", "mtime-post2262", func(r *Node) { r.Kids[0].Nsec-- }},
		{"e/new", "file", "extra", func(r *Node) { r.Kids[3].Kids = []*Node{{Name: "new", Kind: File}} }},
	}
	for _, m := range muts {
		g := got.Clone()
		m.f(g)
		d := Diff(want, g, DiffOptions{})
		if len(d) != 1 || d[0].Path != m.path || d[0].Type != m.typ || d[0].Field != m.field {
			return fmt.Errorf("Diff: change of (%q, %s, %s) reported as %v", m.path, m.typ, m.field, d)
		}
	}
	g := got.Clone()
	g.Perm, g.UID, g.Sec, g.Xattrs = 0, 0, 0, nil
	if d := Diff(want, g, DiffOptions{SkipRootMeta: true}); len(d) != 0 {
		return fmt.Errorf("Diff: SkipRootMeta still reports %v", d)
	}
	g = got.Clone()
	g.Kids[2].Kids[0].Nsec = 999
	if d := Diff(want, g, DiffOptions{MtimeSeconds: true}); len(d) != 0 {
		return fmt.Errorf("Diff: MtimeSeconds still reports %v", d)
	}
	// a change on disk is seen by a second snapshot, with identity fields
	if err := os.WriteFile(filepath.Join(root, "e", "x"), []byte("1"), 0o600); err != nil {
		return err
	}
	after, err := Snapshot(root)
	if err != nil {
		return err
	}
	d := Diff(got, after, DiffOptions{Identity: true})
	fields := map[string]bool{}
	for _, x := range d {
		fields[x.Path+":"+x.Field] = true
	}
	if len(d) != 3 || !fields["e:mtime"] || !fields["e:ctime"] || !fields["e/x:extra"] {
		return fmt.Errorf("Diff of before/after snapshots: %v", d)
	}
	return nil
}
